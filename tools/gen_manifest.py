#!/usr/bin/env python3
"""Regenerates /verif/MANIFEST.json from the claim table below (kept beside the checks so it stays current)."""
import json
from pathlib import Path

VERIF = Path(__file__).resolve().parent.parent

TECH = ("Coq 8.16 theorems about a hand-written executable Gallina model; model tied to /repo by differential "
        "correspondence (model evaluated inside Coq by vm_compute on the cases the library ran) and by "
        "translator-regenerated tables")

# id -> (level text, level note, design ref, technique)
CLAIMS = {
    "C10": (
        "Proof: 15 theorems (Props/C10.v, closed under the global context) about the model of loc_stack_filtering "
        "(Model/Pred.v): class/string/regex rules, LocStackEndChecker = tail match for all stacks and all checker "
        "lists, | & ^ ~ pointwise for all stacks, the four documented P identities as equalities of the built "
        "checkers, bound() = conjunction. Tied to the code by correspondence on (predicate, stack) cases generated "
        "in the model's vocabulary (random P expressions, operator chains, an exhaustive leaf block, and "
        "loader(pred, marker) through a real Retort), plus a model-independent oracle for the identities.",
        "Trusted: Coq kernel (vm_compute for evaluation), the renderers of cases to Python/Gallina, regex matching "
        "and issubclass as stdlib oracles shipped as tables, str.isidentifier restricted to ASCII (re-checked "
        "each run). normalize_type is represented by its intended result (origin, args) on the generated types.",
        "DESIGN.md section 5 C10", TECH),
}

CLAIMS["C09"] = (
    "Proof: 11 theorems (Props/C09.v, closed under the global context): for every recipe, request and handler "
    "behaviour the optimised router (ExactOriginCombiner tables + LocatedRequestRouter) driven by the request bus "
    "gives the same outcome and consults the same handlers in the same order as the linear chain of responsibility "
    "(router_refines_linear), hence no provider twice, only matching providers, first non-declining match decides, "
    "terminal stops, Chain.FIRST/LAST compose exactly once in the documented direction, instance recipe before class "
    "recipes, extend() prepends; the combiner as the pinned tree had it is refuted by a vm_compute witness. Tied to "
    "the code by correspondence through the public API (loader/bound/Chain/retorts in recipes/class recipes/extend/"
    "replace) with every handler consultation logged, an exhaustive block of short recipes, a model-independent "
    "linear reference, and a recursive-model chain block.",
    "Trusted: Coq kernel, renderers, the generator's knowledge of each predicate's truth set (predicates are drawn "
    "with a chosen truth set and rendered; C10 proves the rendering rules). Two genuine defects found by this check "
    "were repaired in /repo (fix: commits 3ecaec6, b45df5b). Chaining on recursion stubs is checked by a direct "
    "oracle only (not in the Coq model).",
    "DESIGN.md section 5 C09", TECH)

CLAIMS["C15"] = (
    "Proof: 14 theorems (Props/C15.v, closed under the global context) about the model of TypeNormalizer "
    "(Model/Norm.v, with the union/literal ordering keys built character by character as _make_orderable does): the "
    "union form depends only on the set of non-literal members and the set of literal values (C15_union_canonical: "
    "reordering, duplication, nesting, literal merge/split as corollaries), union idempotence, Optional = Union with "
    "None, Literal[None] = None, bare generic = generic with its implicit parameters (Any / bound / union of "
    "constraints), bare tuple, a union admits exactly the values its members admit (no collapse; Literal[0] vs "
    "Literal[False]); refutations by vm_compute of the ==-based literal de-duplication of the pinned tree and of the "
    "key-tie case. Tied to the code by correspondence on hints drawn from the model grammar and rendered with random "
    "equivalent spellings (structure AND member order compared), plus a direct oracle on the implementation: "
    "meaning-preserving rewrites must keep form, hash and order, meaning-changing edits must change the form.",
    "Trusted: Coq kernel, renderers, str() of origins as interpreter facts shipped per case; typing's own flattening "
    "and type-aware de-duplication are part of what the model describes end to end. Hypothesis 'ordering keys separate "
    "the members' is explicit; its negation (same-named distinct classes) is a recorded known finding. Two defects "
    "repaired in /repo (7c8a89a, 5da2022). Whole-normaliser idempotence is proved at the union level only; "
    "TypeVar/ParamSpec/Callable/TypeAlias forms are outside the modelled grammar.",
    "DESIGN.md section 5 C15", TECH)

LOADNOTE = ("Trusted: Coq kernel, renderers, generator; int()/float() parsing restricted to sign+ASCII digits and floats to "
            "integer-valued ones (generators stay inside); user-supplied loaders enter the theorems as an arbitrary function "
            "U with the explicit hypothesis that they raise LoadError only. Model = Model/Load.v (scalars, Literal, iterables "
            "incl. abstract collections, fixed tuples, dict, Optional, Union; 3 debug modes x 2 coercion modes written "
            "separately as in the library, full error trees). ")
CLAIMS["C06"] = (
    "Proof: load_is_spec - each of the three separately written mode interpreters computes the same mode-independent "
    "specification and raises LoadError only, for every type, datum and coercion mode (induction on the type with one "
    "specification lemma per loop); hence C06_modes_agree and failure-in-one-is-failure-in-all; "
    "C06_first_error_is_among_all_errors - every leaf of the FIRST error tree is a leaf of the ALL tree, for every type "
    "and datum (and C06_disable_error_is_among_all_errors for union-free types); C06_model_loader_modes_agree - for generated model "
    "loaders (the stop-at-first and the collect-all interpreters of Model/CrownSem.v) every crown, extra policy and datum is "
    "accepted by all three modes or by none, with equal fields and extras, and C06_model_first_error_is_first_of_all - the "
    "single error of DISABLE / FIRST is exactly the FIRST error ALL collects (same class and key set, same trail under FIRST, "
    "none under DISABLE), and conversely. Tied to the code by "
    "running every generated case under DISABLE/FIRST/ALL on library and model (complete error trees compared) plus a "
    "direct three-way comparison of the library's modes (acceptance, value, single error among ALL's errors).",
    LOADNOTE + "Partial: under DISABLE a failing union raises one plain LoadError that stands for all cases, so the "
    "'among ALL's errors' theorem for DISABLE is stated for union-free types (the direct oracle covers the rest); "
    "model dumpers of models are covered by C03's check. The theorems carry the hypothesis that user loaders raise LoadError "
    "only; user code raising other exceptions is covered by oracles (a user loader raising ValueError inside model fields "
    "that are union cases / optional / elements; data outside the model's value type - instances of subclasses of str / int / "
    "list / dict / tuple, views, one-shot iterables - across the three modes). Two defects repaired (tuple from "
    "one-shot iterator; unexpected field-loader errors reported as AggregateLoadError under ALL).", "DESIGN.md section 5 C06", TECH)
CLAIMS["C04"] = (
    "Proof: C04_only_load_error - for every type of the fragment, datum, debug mode and coercion mode the outcome is a "
    "value or a LoadError tree, provided user loaders raise LoadError only (so a non-LoadError can only come from user "
    "code); C04_scalar_handlers_cover_constructor_errors over the except-clause table regenerated from the source each "
    "run. Tied to the code by correspondence with hostile data and a raising user loader, and by a direct oracle over "
    "37 builtin scalar types + 10 optional providers, bare and nested 6 ways, x ~100 hostile data x 6 configurations.",
    LOADNOTE + "Exception ranges of stdlib constructors outside the fragment are established by running them on the "
    "hostile pool. RecursionError on pathological depth is out of scope. Eight defects repaired in /repo.",
    "DESIGN.md section 5 C04", TECH)
CLAIMS["C07"] = (
    "Proof: strict acceptance implies lax acceptance for every type and datum across any two debug modes; equal value "
    "when the type has no union; strict int/float/str/bool/None accept exactly their documented origins; strict "
    "iterables and fixed tuples exclude str and Mapping; an int Literal does not take a bool; the exact-type tests "
    "extracted from the source equal the table parsed from the documentation and the model follows them "
    "(tables regenerated every run). Tied by pairwise strict/lax runs on library and model, with a direct oracle.",
    LOADNOTE, "DESIGN.md section 5 C07", TECH)
CLAIMS["C02"] = (
    "Proof: characterisation theorems of the loaders (union sound / complete / fails iff all fail; iterable, fixed tuple, "
    "dict, Literal, Optional, None rules as iff statements), abstract collection -> minimal concrete type, Mapping -> dict "
    "(tables regenerated from the source). Tied by correspondence on arbitrary data in every spelling incl. an exhaustive "
    "depth-1 block; dumpers by correspondence with Model/Dump.v incl. the union dumper's MRO dispatch over a user class "
    "hierarchy with a diamond; bytes-like types against a stdlib base64 reference.",
    LOADNOTE + "Dumpers: outer-form theorems (iterable / fixed tuple / no-conversion scalars / Optional / class dispatch) over Model/Dump.v, tied by correspondence; base64 by a stdlib reference only. One "
    "defect repaired (ABCProxy).", "DESIGN.md section 5 C02", TECH)

CLAIMS["C05"] = (
    "Proof: C05_trail_exact - for every type, well-formed datum and coercion mode, under FIRST and ALL, following the "
    "concatenated trail of every leaf error from the root of the input reaches the value that error reports (the tuple() "
    "copy for the two length errors); C05_disable_no_trail; element loops: ALL reports every failing element exactly once "
    "in order under its index, FIRST reports the first one; C05_all_leaves_of_iterable / fixed_tuple / dict / optional / "
    "union - under ALL the leaves of a container's error are EXACTLY the leaves of its failing children's errors, each "
    "once, position prefixed (complete at every nesting depth). Tied to the code by planted faults (wrong-type leaves, tuple "
    "length, bad dict keys, bad key together with bad value) with a direct oracle on the library (follow the trail; ALL = "
    "exactly the planted positions once; FIRST = exactly one; DISABLE = none) and by comparing full error trees with the model.",
    LOADNOTE + "Generated model loaders (any nesting of mapping and list nodes, renamed and flattened paths, extra policies): "
    "C05_model_all_trails_exact / C05_model_first_trail_exact - every reported trail, followed through the datum, reaches a "
    "sub-value that offends the crown node found along the same trail exactly as the error class says (wrong kind; exactly "
    "the missing required keys; exactly the unknown keys; too short / long a list); C05_model_all_reports_every_offence - ALL "
    "is complete at every depth; C05_model_all_errors_are_distinct / C05_accepted_layout_reports_each_offence_once - ALL's errors "
    "are pairwise different in every crown with distinct keys, i.e. in every layout the builder accepts: each offence exactly "
    "once; C05_model_disable_no_trail (Proofs/CrownTrails.v, CrownOnce.v, LayoutWf.v over Model/CrownSem.v, which the C03 "
    "correspondence and the model_faults / repeated_trails blocks tie to the generated loaders). One defect "
    "repaired (ExcludedTypeLoadError.input_value).", "DESIGN.md section 5 C05", TECH)

CLAIMS["C01"] = (
    "Proof: C01_roundtrip - for every admissible type of the fragment (int, float, bool, str, None, Literal, list / "
    "variable tuple, fixed tuple, dict with scalar keys, Optional, Union of builtin classes) and every value of that type, "
    "in every debug mode, dump succeeds and load(dump(v)) = v type-exactly; C01_roundtrip_lax without strict coercion for "
    "union-free types. Side conditions (Optional's inner type never dumps None; union cases have pairwise different "
    "classes and what a case dumps is rejected by every earlier case) are stated semantically in the theorem. Tied to the "
    "code by the C02 dump/load correspondence and by evaluating load(dump v) in the model on generated pairs; the property "
    "itself is the oracle on the library for ~26 scalar kinds, all containers, generated models of five kinds, generic and "
    "recursive models, 9 name_mapping configurations, 6 retort configurations and a json hop.",
    LOADNOTE + "Scalars outside the fragment, sets, enum/flag representations (C18), models and name mappings (C03) are "
    "covered here by the round-trip oracle only; stdlib print/parse round trips are interpreter facts. Two defects "
    "repaired (Literal with enum/bytes next to 0/1; timedelta).", "DESIGN.md section 5 C01", TECH)

CLAIMS["C18"] = (
    "Proof: 10 theorems (Props/C18.v) over Model/Enum.v. enum_by_name (name_style / map keyed by member or by name): "
    "C18_by_name_is_bijection - with pairwise different strings dump-then-load returns every member, "
    "C18_by_name_accepts_exactly_the_names, and C18_by_name_collision_refuted (a map giving two members one string is not a "
    "bijection; the library does not reject it); the model's table generator is compared with the library on random enums, maps "
    "and styles. Flags as N bit sets: flag_by_member_names dumper loop + loader "
    "OR round-trips every value whose bits are covered by admitted cases, for both allow_compound settings incl. the "
    "reversed visiting order (bit-level reasoning with N.testbit), hence every OR of admitted members; the dumper names only "
    "members inside the value; flag_by_exact_value accepts exactly 0..mask and with no skipped bit every such value is a "
    "combination; enum_by_exact_value's table lookup inverts member -> value for pairwise != values; refutation witness for "
    "an uncovered bit. Tied to the code by the flag-list dumper evaluated in the model for every value of 8 flag classes and "
    "by a direct oracle: 7 enum + 8 flag classes x 5 providers x option cube, every member and every combination dumped and "
    "loaded, ~55 candidate data must be rejected with LoadError unless == a representation, creation must succeed.",
    "Trusted: Coq kernel, renderers; enum lookup by Python == (True / 1.0 load as the member valued 1) is Enum's own rule and "
    "counted as a representation; name_style conversion is C03's model. One defect repaired (log2(0)); one known finding "
    "(allow_compound=False with bits only inside compound members).", "DESIGN.md section 5 C18", TECH)

CLAIMS["C14"] = (
    "Proof: C14_coercer_sound - whatever coercer the rules produce maps every value of the source type to a value of the "
    "destination type (induction on the pair of types, value typing judgement has_type with a transitive subclass relation); "
    "C14_coercer_documented - a coercer exists only for pairs in the inductive transcription of the documented list (same "
    "type, Any, non-generic subclass, union subset by equality, element-wise list / dict / Optional); the origin-only rule of "
    "the pinned tree refuted by a witness; C14_unlinked_field_is_refused - over the converter model of C13, a destination field "
    "that nothing links (no provider, no same-named source field, no top-level parameter) makes creation fail when it is "
    "required or optional without allow_unlinked_optional, for every recipe, source object and depth; "
    "C14_allowed_unlinked_optional_keeps_default. Tied to the code exhaustively: all ordered pairs over a 38-type pool, converter "
    "creation compared with the model, every produced converter run on generated values and the result type-checked by the "
    "harness's own checker; unlinked-field policies; per-call-recipe history scenarios.",
    "Trusted: Coq kernel, renderers, issubclass table of the pool classes. Models-as-field-types go through C13. Destinations "
    "outside the model's type language (tuple[..], type[..], Callable[..], ad-hoc subscriptable classes, PEP 695 aliases) are "
    "covered by a direct oracle only (special_forms_block). Three defects repaired in /repo (origin-only union sub-case, "
    "multi-case union treated as Optional, tuple[()]); one known finding (parametrised PEP 695 aliases lose their arguments).",
    "DESIGN.md section 5 C14", TECH)

CLAIMS["C16"] = (
    "Proof: C16_resolver_is_substitution - for every well-formed class table (any depth, any number of bases, variables "
    "re-ordered, partially bound, nested inside other generics, shadowed by overriding annotations) the model of "
    "GenericResolver (members by parents + parametrisation) returns for every field the annotation of the defining class "
    "with the substitutions composed along the inheritance path; C16_substitution_composes for nested parametrisations; "
    "C16_resolved_type_has_no_variable (closed arguments leave no type variable), C16_own_annotation_shadows, "
    "C16_inherited_through_base (first base that has the field, applied to its arguments as written), "
    "C16_bare_is_implicit_substitution / C16_bare_has_no_variable (bare use = the implicit parameters as arguments). "
    "Tied to the code by generated hierarchies rendered as real generic dataclasses / attrs classes: for every field and 13 "
    "probe data, Retort.load accepts exactly the data conforming to the specified substituted type (incl. bare use with "
    "implicit parameters); the model's resolve is evaluated on the same tables and compared with the restated specification.",
    "Trusted: Coq kernel, renderers, the harness's conformance checker for the probe pool. Introspection of the model classes "
    "(which annotations a class carries, overriden_types) is tied by behaviour only. TypeVarTuple is not modelled; a field "
    "reachable through two bases of one class (diamond) is outside the model, which searches bases depth-first where Python "
    "linearises with C3.",
    "DESIGN.md section 5 C16", TECH)

CLAIMS["C11"] = (
    "Proof: C11_history_independent - in the model of the per-retort call cache (requests are trees of cached_call sites, "
    "keys compared as the dict compares them, sub-closures by identity) if every site is key-sound then from ANY state "
    "reachable from an empty cache a request returns a closure meaning exactly what a fresh retort would build, and keeps "
    "the invariant; C11_all_sites_audited / C11_cache_is_the_modelled_one tie the premise to the code: the list of "
    "mediator.cached_call sites and the body of BuiltinMediator.cached_call are regenerated from /repo on every run and must "
    "equal the reviewed table (47 sites, every key argument classified); C11_cache_key_classes_are_the_reviewed_ones - how "
    "the objects inside the keys compare (shapes, fields, accessors, crowns: frozen dataclasses comparing all fields, only the "
    "derived fields_dict left out, hand-written __hash__ coarser than equality) is regenerated from /repo and must equal the "
    "reviewed list. Behavioural tie: dump histories through union dumpers over a class diamond and convert / get_converter "
    "histories with and without per-call recipes (all sequences of 2-3 calls vs a fresh retort); on one retort, requests for A then "
    "25 probe loads for B compared with a fresh retort over ordered pairs of 55 mutually confusable types, random longer "
    "histories with failing requests and lru eviction, replace()/extend() on used and unused retorts, per-call conversion recipes.",
    "Trusted: Coq kernel, the ast translator of call sites, the review classifying each key argument (recorded in "
    "Proofs/CacheSites.v). Hash/eq of typing objects, functools.lru_cache and the exec'd closures are observed by behaviour "
    "only; thread interleavings are C12's subject.",
    "DESIGN.md section 5 C11", TECH)

CLAIMS["C08"] = (
    "Proof: C08_literal_is_the_value (the literal a default is rendered as evaluates to that very value, same type, for all "
    "nestings of list / tuple / dict / slice over scalars, look-alikes of 0/1/True/False, builtins); "
    "C08_default_clause_is_own_default; C08_call_binds_exactly (for every valid shape and every status of every field, the "
    "generated call binds under Python's rules every passed field - and nothing else - to its own parameter exactly once: "
    "positional run, keywords after the first skipped / packed / keyword-only parameter, **packed_fields); "
    "C08_constructed_exactly (whole load: each field holds the loaded value or what the class produces for its declared "
    "default); C08_factory_results_fresh; C08_missing_required_no_call. Tied to the code by two correspondences (text of "
    "get_literal_expr on random value trees; raw constructor call logged by a metaclass, resulting attributes and number of "
    "factory calls for random dataclass / attrs / __init__ shapes x subsets of optional fields incl. falsy loaded values) "
    "and a direct oracle (result == class called directly, exact types, one call, __post_init__ ran, no shared default).",
    "Trusted: Coq kernel; Python's evaluation of displays and call binding as modelled in Ctor.eval / Ctor.bind (compared on "
    "every case); str / bytes repr per Model/Repr.v over ASCII / bytes. NamedTuple, TypedDict, pydantic and SQLAlchemy "
    "constructors are C17's subject; non-flat crowns C03's.",
    "DESIGN.md section 5 C08", TECH)

CLAIMS["C19"] = (
    "Proof (partial: compile / exec / ast.unparse are the interpreter's): C19_repr_is_one_token (lexing repr(s) ++ rest "
    "gives back s and rest for EVERY string: no key can end or extend its own literal); C19_sanitize_identifier / "
    "C19_prefixed_sanitize_identifier; C19_mangle_terminates_and_fresh; C19_captured_globals_are_fresh_and_distinct / "
    "C19_every_captured_name_is_bound_once (the g_ names under which objects without a literal are captured are pairwise "
    "different and never a namespace or closure name; the loop as it was is refuted, its text is regenerated from /repo and "
    "the model compared with the function on random namespaces); C19_loader/dumper_variable_names_never_collide "
    "(prefix ++ field id differs from every word the generator writes, every keyword, builtin, path-suffixed variable and "
    "other-prefix name, for every field id; prefixes and vocabulary regenerated from the generator sources); "
    "C19_all_interp_sites_audited + C19_no_raw_site (the 116 interpolation / Template sites of the generators, regenerated "
    "on every run, are exactly the reviewed ones and none is raw). Tied to the code by repr / lexer / sanitiser "
    "correspondences and a hostile dictionary run through the library with a canary: field ids, mapped keys, model / "
    "converter / stub / function names, stub defaults, parameter names, TypedDict keyword keys x load, dump, convert, errors.",
    "Trusted: Coq kernel, the ast translator of sites and vocabulary, the recorded review of site classes, Python's lexer "
    "as modelled by Repr.lex_string (compared with eval(repr(s))). Not covered: attribute names that are keywords, "
    "TypedDict keys that are not identifiers (refused by the library with ValueError).",
    "DESIGN.md section 5 C19", TECH)

CLAIMS["C20"] = (
    "Proof: C20_result_fresh - executing ANY rebuilding plan (the plans of load, dump and convert for every type are "
    "instances) from allocation counter n reports a duplicate-free set of built identities inside [n, n'), and every "
    "container of the result is one it built, a node of the argument (a position passed as is) or a node of a captured "
    "class default; C20_no_sharing_between_calls, C20_built_is_new; C20_repeated_call_gives_equal_result / "
    "C20_failure_does_not_depend_on_the_moment, C20_equal_arguments_give_equal_results - the same plan on the same (or an equal) argument from any two allocation counters fails both "
    "times or gives results equal as values (identities erased). 'Never mutates its argument' is true of a pure model by "
    "construction and is deliberately not a theorem: it is decided by the tie. Tie: alias graphs - every mutable container "
    "of the generated argument is numbered, the library runs, and the result is printed with each container labelled "
    "argument-node-i or new; the model executes load_plan / dump_plan / conv_plan of the same type on the same numbered "
    "argument and must print the same graph and build as many containers. Direct oracle: deep snapshot of the argument "
    "before / after, second call equal, two results share only argument or class-default nodes.",
    "Trusted: Coq kernel, CPython object identity, the renderers. Types: int, Any, List, Sequence, Set, FrozenSet, Dict[str, .], "
    "Optional, dataclass models with factory / captured defaults and extra_in / extra_out (one or two targets); unions, "
    "other model kinds, user loaders and name_mapping paths are outside this model (their containers are built by the same "
    "generated code paths).",
    "DESIGN.md section 5 C20", TECH)

CLAIMS["C03"] = (
    "Proof: the chain rules -> crown -> behaviour. Rules: C03_map_decides, explicit_key_ignores_style, "
    "unmapped_gets_generated_key, skip_beats_only, only_restricts, earlier_overlay_wins, earlier_map_entries_first. Crown: "
    "C03_layout_puts_every_field_at_its_path - for EVERY shape and stack of providers, whenever the layout is accepted "
    "every presented field is found in the built (and re-ordered) crown at exactly its path. Behaviour, for every crown and "
    "datum: C03_load_reads_exact_paths (all three debug modes: a successful load took each field from exactly its path, or the "
    "default of an optional field whose key is absent, and nothing else), C03_accepted_layout_has_distinct_keys (every accepted layout satisfies the well-formedness the crown theorems assume), C03_load_dump_roundtrip (loading what the dumper "
    "wrote gives back every field and no extras, omit_default included), C03_dumper_writes_exact_paths (every field at that "
    "path, left out exactly when its sieve applies and value == default; list gaps None), extras: collect / forbid / skip "
    "exactness. Tied to the code per generated program: the library's loader (3 debug modes) and dumper against the model "
    "on inputs with every mapped key present / absent / ill-typed, extra keys at every node, wrong-kind containers, objects "
    "equal to own / other fields' defaults; plus a sentinel oracle from an independent restatement of the documented rules.",
    "Trusted: Coq kernel, renderers. The error side of the three modes is modelled and compared, not proved; fields are strict ints "
    "(their contents is C02's), dataclass models only (other kinds: C17), predicates in map / skip / only are field names. "
    "Known finding: collected extras mirror nested nodes with empty mappings under known keys (pinned by the suite).",
    "DESIGN.md section 5 C03", TECH)

CLAIMS["C13"] = (
    "Proof: the search for the source of a destination field - C13_first_matching_provider_decides (recipe order), "
    "no_provider_means_by_name, param_beats_field_at_top_level / nested_fields_ignore_parameters, "
    "rightmost_parameter_is_read, from_param_reaches_any_level, extra_source_field_is_ignored (for every recipe, an "
    "unmentioned source field changes no linking); C13_every_destination_field_gets_one_value (the result is the "
    "destination built field by field, in order); C13_constructor_call_binds_exactly (the destination's constructor call "
    "is Ctor.arrange: every linked value reaches its own parameter once). Tied to the code per generated program: source "
    "model, destination derived by renaming / dropping / adding / nesting fields, 0-2 extra parameters named like fields, "
    "recipe of link / from_param / link_constant / link_function / allow_unlinked_optional; impl_converter on a stub with "
    "that signature, run on generated objects and compared with the model's construction; signature preservation, source "
    "unchanged, look-alike constants, recipe of one call not leaking into the next.",
    "Trusted: Coq kernel, renderers; user coercers / linked functions are symbolic; coercion of non-model field types is "
    "C14's, aliasing C20's, generated-code naming C19's subject; dataclass models (other kinds: C17).",
    "DESIGN.md section 5 C13", TECH)

CLAIMS["C17"] = (
    "Proof (partial): given what each introspector returns (Model/Kinds.v), C17_same_layout_for_definition_order_kinds - "
    "dataclass, NamedTuple, attrs, pydantic and SQLAlchemy twins of any logical model give the name layout the very same "
    "fields, hence for every stack of name_mapping providers the same layout and crown, and (C03) the same loader and "
    "dumper behaviour; C17_typed_dict_lists_the_same_fields + C17_position_matters_only_for_as_list - TypedDict's "
    "alphabetical order changes no path unless as_list is used; parameter kinds / names per kind (their irrelevance for what "
    "is bound is C08 / C13). Partial because what the six packages do at class creation is observed, not proved. Tie: every "
    "generated logical model is materialised in the kinds that can express it; the shapes adaptix reports are compared with "
    "Model/Kinds.v, and the kinds with each other: 6 name_mapping variants x 5 inputs + dump + round trip, errors by class "
    "and trail, converters between every ordered pair of kinds and from a partial source with allow_unlinked_optional.",
    "Trusted: Coq kernel; dataclasses, typing, attrs 24.2, pydantic 2.10, SQLAlchemy 2.0 as installed; int / str fields. "
    "Known finding: as_list on TypedDict follows alphabetical, not definition order (undocumented).",
    "DESIGN.md section 5 C17", TECH)

CLAIMS["C12"] = (
    "Proof (partial): C12_conc_safe - in the transition system of the atomic accesses to the shared call cache, the loader "
    "cache and the recursion stubs, for ANY number of threads and ANY interleaving, whatever a returned request holds reaches "
    "(directly or through set stubs) only stubs that have been set - with stubs compared by identity; "
    "C12_by_location_refuted - the witness schedule for the code as it was; C12_stubs_compare_by_identity and "
    "C12_shared_state_code_is_the_reviewed_one tie the model's premises to /repo (regenerated every run); "
    "C12_normalizer_is_never_mutated_after_construction / C12_normalizer_namespace_code_is_the_reviewed_one - the one "
    "module-level type normaliser every thread uses is not written after construction (list of self-writes regenerated from "
    "the source = []) and evaluates forward references on a namespaced copy; "
    "C12_replay_reachable - the executable replay used for recorded traces is sound for the relation. Partial because "
    "CPython's scheduler, C-level release points and free-threaded memory effects are outside the model. Tie: a "
    "sys.settrace scheduler (no source hook) drives real threads through Retort.load / dump on 7 scenarios, every "
    "single-preemption schedule at line granularity of the files touching shared state, sampled double-preemption and "
    "three-thread schedules; results must equal the single-threaded ones, loaders are called again afterwards; recorded "
    "traces of shared accesses must be accepted by the model's replay.",
    "Trusted: Coq kernel, the translator of the shared-state code, the review recorded in Proofs/ConcFactsAudit.v (why only "
    "shared accesses need be interleaving points), the scheduler; ConcurrentCounter.generate_idx is one atomic step (it "
    "runs under its lock).",
    "DESIGN.md section 5 C12", TECH)

NOT_YET = "check not built yet in this session (DESIGN.md section 10 build order); not claimed until its model, theorems and correspondence exist"


def main():
    props = [json.loads(l) for l in (VERIF / "properties.jsonl").read_text().splitlines() if l.strip()]
    checks = []
    na = []
    for p in props:
        pid = p["id"]
        if pid in CLAIMS:
            text, note, ref, tech = CLAIMS[pid]
            checks.append({
                "property_id": pid,
                "quick_cmd": f"./check {pid} --tier quick",
                "thorough_cmd": f"./check {pid} --tier thorough",
                "evidence_file": f"/verif/evidence/{pid}.json",
                "replay_cmd_template": f"./check {pid} --replay {{path}}",
                "engine": "coq-model",
                "level_claimed": {"category": "proof", "text": text, "design_ref": ref},
                "level_note": note,
                "technique": tech,
            })
        else:
            na.append({"property_id": pid, "reason": NA.get(pid, NOT_YET)})
    man = {
        "version": 1,
        "setup_cmd": "./setup.sh",
        "hooks": {
            "guard": "ADAPTIX_VERIF",
            "enable": "no source hooks are needed: checks observe the library through its public API, run-time "
                      "wrapping from the harness process and sys.settrace; ADAPTIX_VERIF=1 is exported by ./check "
                      "but nothing in /repo reads it",
            "baseline_off_cmd": "cd /repo && /venv/bin/python -m pytest -ra -q -p no:cacheprovider --timeout=900 "
                                "--continue-on-collection-errors",
            "source_commits": HOOK_COMMITS,
            "add_only": True,
        },
        "engines": [
            {"name": "coq-model", "path": "/verif/coq", "serves_properties": sorted(CLAIMS),
             "kind_free_text": "Coq 8.16.1 development: Model/ (executable Gallina), Proofs/, Props/Cxx.v (statements + Print Assumptions), Generated/ (translator output)"},
            {"name": "translator", "path": "/verif/harness/translate", "serves_properties": sorted(CLAIMS),
             "kind_free_text": "fail-closed Python ast pass regenerating coq/Generated/*.v from /repo on every run"},
            {"name": "correspondence", "path": "/verif/harness", "serves_properties": sorted(CLAIMS),
             "kind_free_text": "seeded case generators in the model's vocabulary, renderers to Python and Gallina, canonical printers, direct property oracles, replay"},
        ],
        "checks": checks,
        "notes": "Every check: regenerate tables -> gate (no Admitted/Axiom/...) -> full .vo build -> re-check Props/Cxx.v -> "
                 "correspondence -> violation search -> evidence. Genuine defects repaired in /repo are listed as fixed in "
                 "known_findings.json; unrepaired ones as known.",
        "not_applicable": na,
    }
    (VERIF / "MANIFEST.json").write_text(json.dumps(man, indent=1) + "\n")
    print("claimed:", sorted(CLAIMS), "not claimed:", [x["property_id"] for x in na])


NA = {}
HOOK_COMMITS = []

if __name__ == "__main__":
    main()
