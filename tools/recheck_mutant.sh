#!/bin/bash
# recheck_mutant.sh <seeded dir> : on /repo's current tree - demo passes clean, fails with the patch, suite still green
d=$(realpath $1)
git -C /repo diff --quiet || { echo "/repo has uncommitted changes"; exit 2; }
run() { (cd /repo && PYTHONHASHSEED=0 PYTHONPATH=/repo/src:/repo/tests/tests_helpers:/repo "$@"); }
run /venv/bin/python $d/demo.py >/dev/null 2>&1; clean=$?
git -C /repo apply $d/patch.diff || { echo "patch does not apply"; exit 2; }
run /venv/bin/python $d/demo.py >/dev/null 2>&1; mutated=$?
suite=$(run /venv/bin/python -m pytest -q -p no:cacheprovider --timeout=900 -x 2>&1 | tail -1)
git -C /repo checkout -q -- .
find /repo/src /repo/tests -name __pycache__ -prune -exec rm -rf {} + 2>/dev/null
echo "$(basename $d): demo clean=$clean mutated=$mutated suite: $suite"
