#!/usr/bin/env python3
"""seed_prompts.py <a> <b> [ids...] : write /tmp/mut/<id>-prompt.txt for a fresh round of seeded changes (numbered m<a>, m<b>) and
create the scratch worktrees /tmp/mut/<id>.  Each sub-agent is then started with nothing but
"Read the file /tmp/mut/<id>-prompt.txt and do exactly what it says."  The prompt holds the property text and the path of
the worktree only - nothing from /verif.  Afterwards: tools/confirm_mutant.sh <id> <k>, tools/try_mutant.sh, and
`git -C /repo worktree remove --force /tmp/mut/<id>` when done."""
import json
import os
import subprocess
import sys

T = '''You are helping to evaluate a verification system for the Python library adaptix (reagento/adaptix).
Your job: write realistic code changes ("seeded defects") that BREAK ONE SEMANTIC PROPERTY of the library while the library still imports and its whole existing test suite still passes.

Your private working copy of the library is the git worktree  {wt}  (library source under {wt}/src/adaptix, tests under {wt}/tests, docs under {wt}/docs).
Work ONLY inside {wt} and write your results to {out}. Never read, list or modify /repo or /verif (they are out of bounds), and do not create other worktrees.

THE PROPERTY ({pid}: {title})
{statement}

Code the property is anchored in (start reading here): {files}

WHAT TO PRODUCE: two independent changes, called m{a} and m{b}, each of which
  1. modifies only files under {wt}/src/adaptix (a small, plausible-looking edit: the sort of refactoring, optimisation, "simplification" or well-meant bug fix a maintainer could commit);
  2. makes the property above false for some input / configuration / sequence of calls;
  3. keeps the full existing test suite green. Run it exactly like this (about 20 s) and require the last line to say "2588 passed, 24 skipped":
       cd {wt} && find . -name __pycache__ -prune -exec rm -rf {{}} + ; PYTHONHASHSEED=0 PYTHONPATH={wt}/src:{wt}/tests/tests_helpers:{wt} /venv/bin/python -m pytest -q -p no:cacheprovider --timeout=900 -x 2>&1 | tail -3
  4. needs something SPECIFIC to manifest, so that ordinary use would not expose it at once: a particular multi-step sequence of calls, an unusual but legal input or type expression, a particular configuration combination, a particular thread interleaving, or two cooperating sites that each look fine alone. Do not write changes that break the common path.
The two changes must use different mechanisms (preferably in different source files or different code paths) and should explore different parts of what the property quantifies over. Prefer places in the code that you judge a checker is likely to have overlooked (rarely combined options, less common type spellings, deep nesting, interplay between features).

FOR EACH change mK write three files into {out}/mK/ :
  * patch.diff  - output of `git -C {wt} diff` (relative to the unmodified HEAD; must apply with `git apply` on a clean checkout);
  * demo.py     - a small self-contained program, run as  `PYTHONHASHSEED=0 PYTHONPATH={wt}/src /venv/bin/python demo.py`, that exits 0 on the UNCHANGED tree and exits 1 (after printing what it observed vs what the property demands) when the patch is applied. It must show a genuine violation of the property as worded above, not merely a behavioural difference;
  * notes.md    - first line: a one-sentence title of the change; then: what it breaks, and exactly what is needed for it to manifest.
Verify all of it yourself: demo exits 0 on the clean tree, exits 1 with the patch, the suite is green with the patch. Prepare the two changes one after the other, and run `git -C {wt} checkout -- .` after saving each patch so that the worktree is clean when you finish. (Delete __pycache__ directories before running anything, as in the command above, otherwise a different copy of the library may be imported; check with `python -c "import adaptix; print(adaptix.__file__)"` that {wt}/src is in use.)

Use /venv/bin/python (Python 3.12, has attrs, pydantic, sqlalchemy, pytest). There is no network. Every shell command prints a harmless first line "WARNING conda.cli.condarc..." - ignore it.
Finish with a short report: for m{a} and m{b}, one paragraph each (file changed, what breaks, what it needs to manifest, and the verification results you observed).
'''

a, b = sys.argv[1], sys.argv[2]
want = set(sys.argv[3:])
os.makedirs("/tmp/mut", exist_ok=True)
for line in open(os.path.join(os.path.dirname(__file__), "..", "properties.jsonl")):
    p = json.loads(line)
    pid = p["id"]
    if want and pid not in want:
        continue
    wt, out = f"/tmp/mut/{pid}", f"/tmp/mut/{pid}-out"
    if not os.path.isdir(wt):
        subprocess.run(["git", "-C", "/repo", "worktree", "add", "--detach", wt, "HEAD"], check=True, capture_output=True)
    os.makedirs(out, exist_ok=True)
    open(f"/tmp/mut/{pid}-prompt.txt", "w").write(T.format(wt=wt, out=out, pid=pid, title=p["title"], statement=p["statement"],
                                                          files=", ".join(p["anchors"]["files"]), a=a, b=b))
    print(pid, wt)
