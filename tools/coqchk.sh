#!/bin/bash
# independent re-check of every compiled file of the development, with the axioms it relies on (takes minutes)
cd "$(dirname "$0")/../coq" && coqchk -o -Q . AV $(ls Props/*.vo | sed 's/\.vo$//; s/\//./; s/^/AV./')
