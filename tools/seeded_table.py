#!/usr/bin/env python3
"""print the markdown table of DESIGN.md section 15.8 from seeded/*/meta.json"""
import glob
import json
import os
import re

rows = []
for d in sorted(glob.glob(os.path.join(os.path.dirname(__file__), "..", "seeded", "*"))):
    mp = os.path.join(d, "meta.json")
    if not os.path.exists(mp):
        continue
    m = json.load(open(mp))
    title = re.sub(r"^C\d+\s*[/ ]?\s*(mutant\s*)?m\d+\s*[-:—]*\s*", "", m["title"], flags=re.I).strip()
    verd = ", ".join(f"{v['check']}: {v['violations']}" + (f" (`{v['first_signature'][:44]}`)" if v["first_signature"] else "")
                     for v in m["verdicts"])
    rows.append(f"| {m['id']} | {title[:120]} | {verd} | {'yes' if m['caught'] else '**no**'} |")
print("| seeded change | what it breaks | check: violations reported (first signature) | caught |")
print("|---|---|---|---|")
print("\n".join(rows))
