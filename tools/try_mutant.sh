#!/bin/bash
# try_mutant.sh <check id> <patch.diff> [tier] : apply a seeded change to /repo, run the check, undo the change
pid=$1; patch=$2; tier=${3:-quick}
git -C /repo diff --quiet || { echo "/repo has uncommitted changes"; exit 2; }
git -C /repo apply "$patch" || exit 2
cp /verif/evidence/$pid.json /tmp/evidence.$pid.keep 2>/dev/null   # the evidence of a run on a changed tree is not kept
(cd /verif && ./check $pid --tier $tier 2>&1 | grep -E "VIOLATION|KNOWN|^$pid:" | cut -c1-300)
st=$?
git -C /repo checkout -q -- .
[ -f /tmp/evidence.$pid.keep ] && mv /tmp/evidence.$pid.keep /verif/evidence/$pid.json
find /repo/src -name __pycache__ -prune -exec rm -rf {} + 2>/dev/null
exit 0
