#!/bin/bash
# confirm_mutant.sh Cxx k : re-verify a sub-agent's mutant in its scratch worktree, then file it under /verif/seeded
pid=$1; k=$2; wt=/tmp/mut/$pid; src=/tmp/mut/$pid-out/m$k
set -u
run() { (cd $wt && find . -name __pycache__ -prune -exec rm -rf {} + ; PYTHONHASHSEED=0 PYTHONPATH=$wt/src:$wt/tests/tests_helpers:$wt "$@"); }
git -C $wt checkout -q -- . || exit 2
run /venv/bin/python $src/demo.py >/dev/null 2>&1; clean=$?
git -C $wt apply $src/patch.diff || { echo "patch does not apply"; exit 2; }
run /venv/bin/python $src/demo.py >/tmp/mut/$pid-m$k.demo.out 2>&1; mutated=$?
suite=$(run /venv/bin/python -m pytest -q -p no:cacheprovider --timeout=900 -x 2>&1 | tail -1)
git -C $wt checkout -q -- .
echo "$pid m$k: demo clean=$clean mutated=$mutated suite: $suite"
if [ $clean = 0 ] && [ $mutated = 1 ] && echo "$suite" | grep -q "2588 passed"; then
  d=/verif/seeded/$pid-m$k; mkdir -p $d; cp $src/patch.diff $src/demo.py $d/; cp $src/notes.md $d/notes.md 2>/dev/null
  echo CONFIRMED
else echo NOT-CONFIRMED; fi
