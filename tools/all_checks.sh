#!/bin/bash
# all_checks.sh [seed] [tier]: run every claimed check, print one line each
cd "$(dirname "$0")/.."
seed=${1:-0}; tier=${2:-quick}
for p in $(python3 -c "import json;print(' '.join(c['property_id'] for c in json.load(open('MANIFEST.json'))['checks']))"); do
  VERIF_SEED=$seed ./check $p --tier $tier 2>&1 | grep -E "VIOLATION|^$p:" | cut -c1-220
done
