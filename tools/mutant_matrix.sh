#!/bin/bash
# mutant_matrix.sh : apply every seeded change to /repo in turn, run the check of its property (and a second check where
# noted), record the verdict in seeded/<id>/meta.json, undo the change.  /repo must be clean.
cd "$(dirname "$0")/.."
git -C /repo diff --quiet || { echo "/repo has uncommitted changes"; exit 2; }
declare -A ALSO=( [C05-m1]=C03 [C06-m2]=C06 [C13-m1]=C11 [C17-m1]=C13 )
for d in seeded/${1:-*}/; do
  id=$(basename $d); pid=${id%%-*}
  if ! git -C /repo apply --check $(realpath $d)/patch.diff 2>/dev/null; then echo "$id: PATCH DOES NOT APPLY"; continue; fi
  git -C /repo apply $(realpath $d)/patch.diff
  verdicts=""
  for c in $pid ${ALSO[$id]}; do
    cp evidence/$c.json /tmp/evidence.$c.keep 2>/dev/null   # the evidence of a run on a changed tree is not kept
    out=$(timeout 2400 ./check $c --tier quick 2>&1)
    n=$(echo "$out" | grep -c "^VIOLATION")
    first=$(echo "$out" | grep "^VIOLATION" | head -1 | sed 's/.*replay=//')
    sig=""
    [ -n "$first" ] && sig=$(python3 -c "import json,sys;print(json.load(open('${first%% *}'))['signature'])" 2>/dev/null)
    [ -f /tmp/evidence.$c.keep ] && mv /tmp/evidence.$c.keep evidence/$c.json
    verdicts="$verdicts{\"check\":\"$c\",\"violations\":$n,\"first_signature\":\"$sig\"},"
  done
  git -C /repo checkout -q -- .
  find /repo/src -name __pycache__ -prune -exec rm -rf {} + 2>/dev/null
  python3 - "$d" "$id" "$pid" "[${verdicts%,}]" <<'PY'
import json,sys,re,os
d,id_,pid,verd=sys.argv[1:5]
verd=json.loads(verd)
notes=open(os.path.join(d,"notes.md")).read() if os.path.exists(os.path.join(d,"notes.md")) else ""
title=notes.splitlines()[0].lstrip("# ").strip() if notes else id_
meta={"id":id_,"property":pid,"title":title,
      "origin":"written by a fresh sub-agent that was given only the property text and a scratch worktree; confirmed here: the demo passes on the clean tree, fails with the patch, and the repository's own suite stays green with the patch",
      "needs_to_manifest":next((l.strip("- ").strip() for l in notes.splitlines() if l.lower().startswith("- to manifest")), "")
                          or next((" ".join(p.split())[:600] for p in re.split(r"\n\s*\n", notes)
                                   if re.search(r"needs?( |$)|to manifest|manifest", p, re.I) and p.strip() and not p.startswith("#") and p.strip() != title), ""),
      "patch_rebased_onto_fixed_tree": id_ in ("C07-m1","C02-m2","C08-m1","C19-m1","C17-m2","C15-m4","C16-m3","C03-m4","C08-m6","C08-m3","C14-m2","C14-m6"),
      "how_to_run":"tools/try_mutant.sh <check id> /verif/seeded/%s/patch.diff  (applies to /repo, runs the check, undoes the change)"%id_,
      "verdicts":verd,
      "caught":any(v["violations"]>0 for v in verd)}
json.dump(meta,open(os.path.join(d,"meta.json"),"w"),indent=1)
print(id_,"caught" if meta["caught"] else "NOT CAUGHT",[(v["check"],v["violations"]) for v in verd])
PY
done
