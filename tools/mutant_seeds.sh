#!/bin/bash
# mutant_seeds.sh "<ids>" "<seeds>" : is each seeded change still caught under other seeds of its check?  /repo must be clean.
cd "$(dirname "$0")/.."
git -C /repo diff --quiet || { echo "/repo has uncommitted changes"; exit 2; }
for id in $1; do
  pid=${id%%-*}
  git -C /repo apply $(realpath seeded/$id)/patch.diff || { echo "$id: PATCH DOES NOT APPLY"; continue; }
  cp evidence/$pid.json /tmp/evidence.$pid.keep 2>/dev/null
  for sd in $2; do
    n=$(VERIF_SEED=$sd timeout 2400 ./check $pid --tier quick 2>&1 | grep -c "^VIOLATION")
    echo "$id seed=$sd violations=$n"
  done
  [ -f /tmp/evidence.$pid.keep ] && mv /tmp/evidence.$pid.keep evidence/$pid.json
  git -C /repo checkout -q -- .
  find /repo/src -name __pycache__ -prune -exec rm -rf {} + 2>/dev/null
done
