(* C01 - round trip: load(dump(x, T), T) == x.  Statements only; proofs in Proofs/DumpProofs.v over Model/Dump.v and
   Model/Load.v.  `has_type t v` is the typing judgement (values OF the type; dict keys pairwise != under Python ==),
   `admissible t` the documented side conditions stated semantically: the inner type of an Optional never dumps to None;
   union cases are classes with pairwise different classes and what a case dumps is rejected by every earlier case. *)
From Coq Require Import List ZArith Bool String.
From AV Require Import Model.Val Model.Load Model.Dump Proofs.LoadProofs Proofs.DumpProofs.
From AV Require Model.Layout Model.CrownSem Proofs.CrownProofs.
Import ListNotations.

(* for every admissible type of the fragment and every value of that type, in every debug mode *)
Theorem C01_roundtrip : forall UM (U : nat -> pv -> res), (forall n v, no_exn (U n v)) ->
  forall md t v, admissible UM U t -> has_type t v = true ->
  exists d, dump UM t v = Some d /\ load U md true t d = Ok v.
Proof. intros UM U HU md t v. exact (roundtrip_all_modes UM U HU md t v). Qed.
Print Assumptions C01_roundtrip.

(* ... and without strict coercion when no union is involved (with unions the laxer rules may make cases overlap) *)
Theorem C01_roundtrip_lax : forall UM (U : nat -> pv -> res), (forall n v, no_exn (U n v)) ->
  forall md t v, union_free t -> admissible UM U t -> has_type t v = true ->
  exists d, dump UM t v = Some d /\ load U md false t d = Ok v.
Proof. intros UM U HU md t v. exact (roundtrip_lax UM U HU md t v). Qed.
Print Assumptions C01_roundtrip_lax.

(* non-vacuity: a nested type with a union and an Optional is admissible and has values *)
Example C01_example :
  let UM := fun n : nat => [n] in
  let U := fun (_ : nat) (v : pv) => leaf TypeLE v in
  let t := TDict TStr (TIter KList (TOpt (TTuple [TInt; TLit [LStr "a"; LInt 1]]))) in
  let v := VDict [(VStr "k", VList [VNone; VTuple [VInt 5; VStr "a"]]); (VStr "j", VList [])] in
  has_type t v = true /\
  dump UM t v = Some (VDict [(VStr "k", VList [VNone; VTuple [VInt 5; VStr "a"]]); (VStr "j", VList [])]) /\
  load U All true t v = Ok v.
Proof. repeat split; vm_compute; reflexivity. Qed.

(* ... and for models under a name_mapping: whatever crown the layout produces (renames, nested paths, list nodes with
   gaps, omit_default), loading what the model dumper wrote gives back every field and no extras (Proofs/CrownProofs.v,
   shared with C03; DISABLE and FIRST mode, every extra policy) *)
Theorem C01_model_roundtrip_through_any_layout :
  forall (info : AV.Model.CrownSem.finfos) (pol : AV.Model.Layout.policy) (val : nat -> nat) (omit : nat -> bool) (default : nat -> nat),
  (forall i, omit i = true -> AV.Model.CrownSem.fi_required (info i) = false /\ AV.Model.CrownSem.fi_default (info i) = default i) ->
  forall md c d, md <> AV.Model.CrownSem.All -> AV.Proofs.CrownProofs.wf c -> AV.Model.Layout.is_leaf c = false ->
  AV.Model.CrownSem.dump (fun i => Some (val i)) omit default c = Some d ->
  AV.Model.CrownSem.load info pol md c d = AV.Model.CrownSem.Loaded (AV.Proofs.CrownProofs.expected val c) [].
Proof. exact AV.Proofs.CrownProofs.load_dump_roundtrip. Qed.
Print Assumptions C01_model_roundtrip_through_any_layout.
