(* C12 - a shared retort is safe under concurrent first use (partial: interleavings at the granularity of the accesses
   to shared state; CPython's scheduler, C-level release points and free-threaded memory effects are outside the model).
   Statements only; proofs in Proofs/ConcProofs.v (model: Model/Conc.v) and Proofs/ConcFactsAudit.v. *)
From Coq Require Import List Arith Bool String.
From AV Require Import Model.Conc Proofs.ConcProofs Proofs.ConcFactsAudit.
From AV Require Import Generated.ConcFacts.
Import ListNotations.

(* For ANY number of threads and ANY interleaving of the atomic accesses to the call cache, the loader cache and the
   stubs: whatever a request that has returned holds, invoking it - directly or through stubs that were set - reaches
   only stubs that have been set.  (Stubs compared by identity.) *)
Theorem C12_conc_safe : forall (loc : sid -> nat) (owner : sid -> tid) st t c s,
  reachable true loc owner st -> In t (fin st) -> holds st t (AClo c) -> calls st c s -> is_bound st s.
Proof. intros loc owner. exact (conc_safe loc owner). Qed.
Print Assumptions C12_conc_safe.

(* the code as it was - stubs equal when they stand for the same location - is refuted by a schedule of two threads *)
Theorem C12_by_location_refuted :
  exists loc owner st c s, reachable false loc owner st /\ In 1 (fin st) /\ holds st 1 (AClo c) /\ calls st c s /\ ~ is_bound st s.
Proof.
  destruct C12_refuted as [st H]. exists (fun _ => 0), (fun s => s), st, c2, 0. exact H.
Qed.
Print Assumptions C12_by_location_refuted.

(* the code now compares stubs by identity, and the code touching shared state is the reviewed one (both regenerated from
   /repo on every run) *)
Theorem C12_stubs_compare_by_identity : stub_eq_by_identity = true.
Proof. exact stubs_compare_by_identity. Qed.
Print Assumptions C12_stubs_compare_by_identity.

Theorem C12_shared_state_code_is_the_reviewed_one : shared_state_code = reviewed_shared_state_code.
Proof. exact shared_state_code_is_the_reviewed_one. Qed.
Print Assumptions C12_shared_state_code_is_the_reviewed_one.

(* recorded traces are replayed by an executable reading of the transition relation; it is sound: every accepted prefix
   is a path of the relation, so conc_safe applies to the state it ends in *)
Theorem C12_replay_reachable : forall by_identity loc owner evs st, reachable by_identity loc owner st ->
  reachable by_identity loc owner (snd (replay by_identity loc owner st evs)).
Proof. exact replay_reachable. Qed.
Print Assumptions C12_replay_reachable.

(* the replay is not vacuous: it accepts a two-thread trace in which the second thread hits the first thread's entry, and
   refuses a trace in which a thread uses a closure it never obtained *)
Example C12_replay_accepts_and_refuses :
  fst (replay true (fun _ => 0) (fun s => s) init
         [EMiss 0 7 [EConst 1]; EPut 0 7 [EConst 1] 0; EFinish 0; EHit 1 7 [EConst 1] 0; EMiss 1 8 [ECloId 0]; EFinish 1]) = 6 /\
  fst (replay true (fun _ => 0) (fun s => s) init
         [EMiss 0 7 [EConst 1]; EPut 0 7 [EConst 1] 0; EMiss 1 8 [ECloId 0]]) = 2.
Proof. split; vm_compute; reflexivity. Qed.


(* the type normaliser is one module-level object used by every thread (the lru_cache in front of it does not serialise
   concurrent misses): no method stores into it after construction - the list of statements that would, regenerated from
   /repo on every run, is empty - and forward references are evaluated on a namespaced COPY (the reviewed text) *)
Theorem C12_normalizer_is_never_mutated_after_construction : normalizer_self_writes = [].
Proof. exact normalizer_is_never_mutated_after_construction. Qed.
Print Assumptions C12_normalizer_is_never_mutated_after_construction.

Theorem C12_normalizer_namespace_code_is_the_reviewed_one : normalizer_namespace_code = reviewed_normalizer_namespace_code.
Proof. exact normalizer_namespace_code_is_the_reviewed_one. Qed.
Print Assumptions C12_normalizer_namespace_code_is_the_reviewed_one.
