(* C19 - generated code treats names and keys purely as data.
   Statements only; proofs in Proofs/ReprProofs.v, Proofs/NamesProofs.v, Proofs/InterpSitesAudit.v. *)
From Coq Require Import List Arith NArith Bool String.
From AV Require Import Model.Repr Model.Names Proofs.ReprProofs Proofs.NamesProofs Proofs.InterpSitesAudit.
From AV Require Import Generated.InterpSites Generated.GenNames.
Import ListNotations.

(* A key interpolated with !r is exactly one string token whatever it contains - quotes, backslashes, braces, dollar
   signs, newlines, code: lexing the text of repr(s) followed by anything gives back s and leaves the rest untouched. *)
Theorem C19_repr_is_one_token : forall (printable : cp -> bool) (s rest : str),
  Forall (fun c => (c < 1114112)%N) s -> lex_string (repr printable s ++ rest) = Some (s, rest).
Proof. exact repr_is_one_token. Qed.
Print Assumptions C19_repr_is_one_token.

(* Whatever the name of a model, function or type looks like, the sanitiser yields an ASCII identifier (or the empty
   text for the empty name), and so does any identifier-prefix followed by it ("model_loader_", "convert_", ...). *)
Theorem C19_sanitize_identifier : forall s, s <> [] -> is_ascii_identifier (sanitize s) = true.
Proof. exact sanitize_identifier. Qed.
Print Assumptions C19_sanitize_identifier.

Theorem C19_prefixed_sanitize_identifier : forall p s,
  is_ascii_identifier p = true -> is_ascii_identifier (p ++ sanitize s) = true.
Proof. exact prefixed_sanitize_identifier. Qed.
Print Assumptions C19_prefixed_sanitize_identifier.

(* Mangling with a numeric suffix terminates within (size of the namespace + 1) attempts and returns a name the
   namespace accepts - for any injective rendering of the counter and any finite namespace. *)
Theorem C19_mangle_terminates_and_fresh : forall (render : nat -> name),
  (forall i j, render i = render j -> i = j) ->
  forall (taken : name -> bool) (L : list name), (forall n, taken n = true -> In n L) ->
  forall base, exists n, register_mangled render taken (S (List.length L)) base = Some n /\ taken n = false.
Proof. exact mangle_terminates_and_fresh. Qed.
Print Assumptions C19_mangle_terminates_and_fresh.

(* Variable names derived from a field id (prefix ++ id, prefixes and vocabulary regenerated from the generator sources)
   never coincide with a word the generator writes itself, a Python keyword, a builtin, a path-suffixed variable, or a
   name derived with another prefix; two ids give two names.  For EVERY field id. *)
Local Open Scope string_scope.
Theorem C19_loader_variable_names_never_collide : forall p x, In p loader_field_prefixes ->
  (forall w, In w (loader_fixed_words ++ python_keywords ++ python_builtins)%list -> p ++ x <> w) /\
  (forall b y, In b loader_path_bases -> p ++ x <> b ++ y) /\
  (forall p' y, In p' loader_field_prefixes -> p ++ x = p' ++ y -> p = p' /\ x = y).
Proof. apply prefixes_ok_sound. vm_compute. reflexivity. Qed.
Print Assumptions C19_loader_variable_names_never_collide.

Theorem C19_dumper_variable_names_never_collide : forall p x, In p dumper_field_prefixes ->
  (forall w, In w (dumper_fixed_words ++ python_keywords ++ python_builtins)%list -> p ++ x <> w) /\
  (forall b y, In b dumper_path_bases -> p ++ x <> b ++ y) /\
  (forall p' y, In p' dumper_field_prefixes -> p ++ x = p' ++ y -> p = p' /\ x = y).
Proof. apply prefixes_ok_sound. vm_compute. reflexivity. Qed.
Print Assumptions C19_dumper_variable_names_never_collide.

(* Every interpolation site of the generators (regenerated from the source on every run) is one that was reviewed, and
   none passes raw user text into the source. *)
Theorem C19_all_interp_sites_audited :
  map (fun s => (fst (fst (fst s)), snd (fst (fst s)), snd (fst s))) audited_interp_sites = interp_sites.
Proof. exact all_interp_sites_audited. Qed.
Print Assumptions C19_all_interp_sites_audited.

Theorem C19_no_raw_site : forallb (fun s => safe_class (snd s)) audited_interp_sites = true.
Proof. exact no_raw_site. Qed.
Print Assumptions C19_no_raw_site.

(* the sanitiser in /repo is the one modelled by Names.sanitize *)
Definition reviewed_sanitizer : list string :=
  ["_BAD_CHARS = re.compile('\\W', re.ASCII)";
   "_TRANSLATE_MAP = str.maketrans({'.': '_', '[': '_'})";
   "def sanitize(self, name: str) -> str: if name == '': return '' first_letter = name[0] if name[0] in string.ascii_letters else '_' return first_letter + self._BAD_CHARS.sub('', name[1:].translate(self._TRANSLATE_MAP))"].
Theorem C19_sanitizer_is_the_modelled_one : sanitizer_impl = reviewed_sanitizer.
Proof. vm_compute. reflexivity. Qed.
Print Assumptions C19_sanitizer_is_the_modelled_one.


(* ---- objects without a literal are captured as globals of the generated module (compile_closure_with_globals_capturing,
   Model/Capture.v): in the tree as repaired the global names are pairwise different, none is a name of the namespace or
   the name of the closure, every captured name gets exactly one; the loop as it was is refuted (x and g_x in one
   namespace were both captured as g_g_x).  The loop's text is regenerated from /repo on every run, the model is compared
   with the function itself on random namespaces ---- *)
From AV Require Model.Capture Proofs.CaptureProofs.
Theorem C19_captured_globals_are_fresh_and_distinct : forall ns closure captured,
  let r := Capture.capture true ns closure captured in
  NoDup (map snd r) /\ (forall g, In g (map snd r) -> ~ In g ns /\ g <> closure).
Proof. exact CaptureProofs.captured_globals_are_fresh_and_distinct. Qed.
Print Assumptions C19_captured_globals_are_fresh_and_distinct.

Theorem C19_every_captured_name_is_bound_once : forall fixed ns closure captured,
  map fst (Capture.capture fixed ns closure captured) = captured.
Proof. exact CaptureProofs.every_captured_name_is_bound_once. Qed.
Print Assumptions C19_every_captured_name_is_bound_once.

Theorem C19_capture_as_coded_refuted : exists ns closure captured, ~ NoDup (map snd (Capture.capture false ns closure captured)).
Proof. exact CaptureProofs.capture_as_coded_refuted. Qed.
Print Assumptions C19_capture_as_coded_refuted.

Theorem C19_capture_loop_code_is_the_modelled_one : GenNames.capture_loop_code = CaptureProofs.reviewed_capture_loop_code.
Proof. exact CaptureProofs.capture_loop_code_is_the_modelled_one. Qed.
Print Assumptions C19_capture_loop_code_is_the_modelled_one.
