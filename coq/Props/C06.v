(* C06 - debug_trail changes only error reporting, never what is accepted or returned.
   Statements only; proofs in Proofs/LoadProofs.v. `load U md sc` are the three separately written interpreters of
   Model/Load.v (one per debug mode, as the library has three closure factories per container). *)
From Coq Require Import List ZArith Bool String.
From AV Require Import Model.Val Model.Load Proofs.LoadProofs.
Import ListNotations.

(* all three modes accept the same data and return the same value, for every type, datum and coercion mode *)
Theorem C06_modes_agree : forall (U : nat -> pv -> res), (forall n v, no_exn (U n v)) -> forall sc t v m1 m2, okval (load U m1 sc t v) = okval (load U m2 sc t v).
Proof. exact modes_agree. Qed.
Print Assumptions C06_modes_agree.

(* each mode computes the mode-independent specification and never lets a non-LoadError out (needed because the ALL
   variants treat unexpected exceptions differently from the others) *)
Theorem C06_every_mode_is_the_specification : forall (U : nat -> pv -> res), (forall n v, no_exn (U n v)) -> forall md sc t v, good (load U md sc t v) (spec_ok U sc t v).
Proof. exact load_is_spec. Qed.
Print Assumptions C06_every_mode_is_the_specification.

Theorem C06_failure_in_one_mode_is_failure_in_all : forall (U : nat -> pv -> res), (forall n v, no_exn (U n v)) -> forall sc t v m1 m2 e,
  load U m1 sc t v = Err e -> exists e', load U m2 sc t v = Err e'.
Proof.
  intros U HU sc t v m1 m2 e H. pose proof (modes_agree U HU sc t v m1 m2) as A. rewrite H in A.
  pose proof (load_raises_only_load_error U HU m2 sc t v) as N.
  destruct (load U m2 sc t v) as [a|e'|x]; simpl in *; [discriminate | eauto | contradiction].
Qed.
Print Assumptions C06_failure_in_one_mode_is_failure_in_all.
