(* C06 - debug_trail changes only error reporting, never what is accepted or returned.
   Statements only; proofs in Proofs/LoadProofs.v and Proofs/ModesProofs.v. `load U md sc` are the three separately written interpreters of
   Model/Load.v (one per debug mode, as the library has three closure factories per container). *)
From Coq Require Import List ZArith Bool String.
From AV Require Import Model.Val Model.Load Proofs.LoadProofs Proofs.ModesProofs.
From AV Require Model.Layout Model.CrownSem Proofs.CrownModes Proofs.CrownTrails.
Import ListNotations.

(* all three modes accept the same data and return the same value, for every type, datum and coercion mode *)
Theorem C06_modes_agree : forall (U : nat -> pv -> res), (forall n v, no_exn (U n v)) -> forall sc t v m1 m2, okval (load U m1 sc t v) = okval (load U m2 sc t v).
Proof. exact modes_agree. Qed.
Print Assumptions C06_modes_agree.

(* each mode computes the mode-independent specification and never lets a non-LoadError out (needed because the ALL
   variants treat unexpected exceptions differently from the others) *)
Theorem C06_every_mode_is_the_specification : forall (U : nat -> pv -> res), (forall n v, no_exn (U n v)) -> forall md sc t v, good (load U md sc t v) (spec_ok U sc t v).
Proof. exact load_is_spec. Qed.
Print Assumptions C06_every_mode_is_the_specification.

Theorem C06_failure_in_one_mode_is_failure_in_all : forall (U : nat -> pv -> res), (forall n v, no_exn (U n v)) -> forall sc t v m1 m2 e,
  load U m1 sc t v = Err e -> exists e', load U m2 sc t v = Err e'.
Proof.
  intros U HU sc t v m1 m2 e H. pose proof (modes_agree U HU sc t v m1 m2) as A. rewrite H in A.
  pose proof (load_raises_only_load_error U HU m2 sc t v) as N.
  destruct (load U m2 sc t v) as [a|e'|x]; simpl in *; [discriminate | eauto | contradiction].
Qed.
Print Assumptions C06_failure_in_one_mode_is_failure_in_all.

(* third sentence of the property: the single error reported with DebugTrail.FIRST is one of the errors collected with
   DebugTrail.ALL.  `eleaves e` are the leaves of an error tree (exception class and offending datum); the FIRST tree
   is a chain to one leaf (or the leaves of a failed union), the ALL tree is the aggregate; every leaf of the former is
   a leaf of the latter.  For every type, datum and coercion mode. *)
Theorem C06_first_error_is_among_all_errors : forall (U : nat -> pv -> res), (forall n v, no_exn (U n v)) -> forall sc t v e1,
  load U First sc t v = Err e1 -> exists e2, load U All sc t v = Err e2 /\ incl (eleaves e1) (eleaves e2).
Proof. exact first_error_is_among_all_errors. Qed.
Print Assumptions C06_first_error_is_among_all_errors.

(* and for DebugTrail.DISABLE (which loads dict values before keys and raises without trail): for types without unions,
   where a failing union under DISABLE raises one plain LoadError standing for all its cases *)
Theorem C06_disable_error_is_among_all_errors : forall (U : nat -> pv -> res), (forall n v, no_exn (U n v)) -> forall sc t, union_free t -> forall v e1,
  load U Disable sc t v = Err e1 -> exists e2, load U All sc t v = Err e2 /\ incl (eleaves e1) (eleaves e2).
Proof. exact disable_error_is_among_all_errors. Qed.
Print Assumptions C06_disable_error_is_among_all_errors.

(* non-vacuity: a list of ints with two bad items: FIRST reports the first, ALL reports both *)
Example C06_first_among_all_example :
  let U := fun (_ : nat) (v : pv) => Ok v in
  let t := TIter KList TInt in let v := VList [VInt 1; VStr "a"; VStr "b"] in
  exists e1 e2, load U First false t v = Err e1 /\ load U All false t v = Err e2 /\
                List.length (eleaves e1) = 1%nat /\ List.length (eleaves e2) = 2%nat /\ incl (eleaves e1) (eleaves e2).
Proof. vm_compute. do 2 eexists. repeat split; try reflexivity. intros x [<-|[]]. left. reflexivity. Qed.

(* ---- generated model loaders (Model/CrownSem.v: one interpreter that stops at the first error for DISABLE / FIRST, one
   that keeps going and collects for ALL): for every crown - any nesting of mapping and list nodes -, extra policy and
   datum, the three debug modes accept the same data and deliver the same fields and the same collected extras ---- *)
Theorem C06_model_loader_modes_agree : forall (info : CrownSem.finfos) (pol : Layout.policy) (c : Layout.crown) (d : CrownSem.pv)
  (m1 m2 : CrownSem.mode),
  CrownModes.loaded (CrownSem.load info pol m1 c d) = CrownModes.loaded (CrownSem.load info pol m2 c d).
Proof. exact CrownModes.model_loader_modes_agree. Qed.
Print Assumptions C06_model_loader_modes_agree.


(* third sentence for generated model loaders, in its strongest form: the single error raised under DISABLE and FIRST is
   the FIRST error collected under ALL - same class (with the same key set / length), same trail under FIRST, no trail
   under DISABLE (`retrail`) - and conversely whenever ALL collects errors the other two modes raise its first one. *)
Theorem C06_model_first_error_is_first_of_all : forall (info : CrownSem.finfos) (pol : Layout.policy) md c d, md <> CrownSem.All ->
  (forall e, CrownSem.load info pol md c d = CrownSem.Single e ->
     exists e0 es, CrownSem.load info pol CrownSem.All c d = CrownSem.Group (e0 :: es) /\ e = CrownTrails.retrail md e0) /\
  (forall e0 es, CrownSem.load info pol CrownSem.All c d = CrownSem.Group (e0 :: es) ->
     CrownSem.load info pol md c d = CrownSem.Single (CrownTrails.retrail md e0)).
Proof. exact CrownTrails.model_first_is_first_of_all. Qed.
Print Assumptions C06_model_first_error_is_first_of_all.
