(* C15 - Type normalisation is a canonical form.  Statements only; proofs in Proofs/NormProofs.v, model in
   Model/Norm.v.  `mk_union w true` is the union construction (unfold, de-duplicate, merge literals by (type, value),
   stable sort by the string key _make_orderable builds) of the repaired tree; `normalize w true` the whole normaliser
   on the hint grammar.  The hypothesis that ordering keys separate the members is explicit (its negation - two distinct
   classes with the same module and qualified name - is a recorded finding). *)
From Coq Require Import List Arith Bool String Permutation ZArith.
From AV Require Import Model.Norm Proofs.NormProofs.
Import ListNotations.

(* the union form depends only on the set of non-literal members and the set of literal values: any order, any
   multiplicity, nested or flat, literals merged or split *)
Theorem C15_union_canonical : forall w ns ns',
  equiv ns ns' ->
  lit_keys_separate w (lits_of (flatten ns)) -> keys_separate w (merged_members w true ns) ->
  mk_union w true ns = mk_union w true ns'.
Proof. exact mk_union_canonical. Qed.
Print Assumptions C15_union_canonical.

Theorem C15_union_reordered : forall w ns ns',
  Permutation ns ns' -> lit_keys_separate w (lits_of (flatten ns)) -> keys_separate w (merged_members w true ns) ->
  mk_union w true ns = mk_union w true ns'.
Proof. exact union_perm. Qed.
Print Assumptions C15_union_reordered.

Theorem C15_union_duplicated : forall w n ns,
  In n ns -> lit_keys_separate w (lits_of (flatten (n :: ns))) -> keys_separate w (merged_members w true (n :: ns)) ->
  mk_union w true (n :: ns) = mk_union w true ns.
Proof. exact union_dup. Qed.
Print Assumptions C15_union_duplicated.

Theorem C15_union_nested : forall w a b,
  Forall (fun n => match n with NUnion _ => False | _ => True end) a ->
  lit_keys_separate w (lits_of (flatten (NUnion a :: b))) -> keys_separate w (merged_members w true (NUnion a :: b)) ->
  mk_union w true (NUnion a :: b) = mk_union w true (a ++ b).
Proof. exact union_nest. Qed.
Print Assumptions C15_union_nested.

Theorem C15_literals_merged_or_split : forall w l1 l2 rest,
  lit_keys_separate w (lits_of (flatten (NLit (l1 ++ l2) :: rest))) ->
  keys_separate w (merged_members w true (NLit (l1 ++ l2) :: rest)) ->
  mk_union w true (NLit (l1 ++ l2) :: rest) = mk_union w true (NLit l1 :: NLit l2 :: rest).
Proof. exact union_literal_split. Qed.
Print Assumptions C15_literals_merged_or_split.

Theorem C15_union_idempotent : forall w ns,
  Forall nonunion (flatten ns) ->
  lit_keys_separate w (lits_of (flatten ns)) -> keys_separate w (merged_members w true ns) ->
  mk_union w true (members_of (mk_union w true ns)) = mk_union w true ns.
Proof. exact mk_union_idempotent. Qed.
Print Assumptions C15_union_idempotent.

Theorem C15_optional_is_union_with_none : forall w typed h,
  normalize w typed (HOpt h) = normalize w typed (HUnion [h; HNone]).
Proof. exact optional_is_union. Qed.
Print Assumptions C15_optional_is_union_with_none.

Theorem C15_literal_none_is_none : forall w typed, normalize w typed (HLit [None]) = normalize w typed HNone.
Proof. exact literal_none_is_none. Qed.
Print Assumptions C15_literal_none_is_none.

(* bare generics receive the documented implicit parameters: Any, the bound, or the union of the constraints *)
Theorem C15_bare_generic_implicit_params : forall w typed g tvs,
  assoc g (w_params w) = Some tvs ->
  normalize w typed (HBare g) = normalize w typed (HGen g (map implicit_hint tvs)).
Proof. exact bare_is_implicit. Qed.
Print Assumptions C15_bare_generic_implicit_params.

Theorem C15_bare_tuple : forall w typed, normalize w typed HTupleBare = normalize w typed (HTupleVar HAny).
Proof. exact bare_tuple_is_any. Qed.
Print Assumptions C15_bare_tuple.

(* different meanings never collapse: a union admits exactly the values its members admit *)
Theorem C15_union_meaning : forall w ns v, den (mk_union w true ns) v = existsb (fun m => den m v) ns.
Proof. exact mk_union_meaning. Qed.
Print Assumptions C15_union_meaning.

Theorem C15_literal_zero_and_false_stay_apart : forall w,
  mk_union w true [NLit [LInt 0]; NLit [LBool false]] <> mk_union w true [NLit [LInt 0]]
  /\ den (mk_union w true [NLit [LInt 0]; NLit [LBool false]]) (VLitV (LBool false)) = true.
Proof. exact typed_literals_do_not_collapse. Qed.
Print Assumptions C15_literal_zero_and_false_stay_apart.

(* kept beside the theorems: what the pinned tree did, and why the key hypothesis is needed *)
Theorem C15_as_coded_literal_dedup_refuted :
  exists w ns v, den (mk_union w false ns) v <> existsb (fun m => den m v) ns.
Proof. exact as_coded_literal_dedup_refuted. Qed.
Print Assumptions C15_as_coded_literal_dedup_refuted.

Theorem C15_key_tie_refuted :
  exists w ns ns', Permutation ns ns' /\ mk_union w true ns <> mk_union w true ns'.
Proof. exact key_tie_refuted. Qed.
Print Assumptions C15_key_tie_refuted.
