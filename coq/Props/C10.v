(* C10 - Predicates (types, strings, P patterns and combinators) match as documented.
   Statements only; proofs are in Proofs/PredProofs.v, the model in Model/Pred.v. *)
From Coq Require Import List Arith Bool String.
From AV Require Import Model.Pred Proofs.PredProofs.
Import ListNotations.

(* a class predicate: exact origin for concrete classes, issubclass for abstract classes and protocols *)
Theorem C10_class_rule : forall w c pre l,
  matches w (PCls c) (pre ++ [l]) =
  Some (if is_abs w c then subclass w (origin (ltype l)) c else Nat.eqb (origin (ltype l)) c).
Proof. exact class_pred_rule. Qed.
Print Assumptions C10_class_rule.

(* a string: equality with the field id when it is an identifier, full regex match otherwise; only field locations *)
Theorem C10_string_rule : forall w s pre l,
  matches w (PStr s) (pre ++ [l]) =
  Some (castable_field (lkind l) && (if is_identifier s then String.eqb s (lfid l) else fullmatch w s (lfid l))).
Proof. exact string_pred_rule. Qed.
Print Assumptions C10_string_rule.

Theorem C10_regex_rule : forall w re pre l,
  matches w (PRe re) (pre ++ [l]) = Some (castable_field (lkind l) && fullmatch w re (lfid l)).
Proof. exact regex_pred_rule. Qed.
Print Assumptions C10_regex_rule.

(* a P chain matches exactly the stacks whose tail satisfies its elements in order *)
Theorem C10_chain_is_tail_match : forall w cs st,
  check w (CEnd cs) st = true <->
  exists pre tl, st = pre ++ tl /\ List.length tl = List.length cs /\
    forall k, k < List.length cs -> check w (nth k cs CAny) (pre ++ firstn (S k) tl) = true.
Proof. exact end_checker_is_tail_match. Qed.
Print Assumptions C10_chain_is_tail_match.

Theorem C10_chain_builds_end_checker : forall w e p s c,
  is_pat p = false -> stack_of w e = Some s -> s <> [] -> create w p = Some c ->
  build w (EItem e p) = Some (CEnd (s ++ [c])).
Proof. exact chain_is_end. Qed.
Print Assumptions C10_chain_builds_end_checker.

(* | & ^ ~ are the pointwise boolean operations, on checkers and on patterns, for all stacks *)
Theorem C10_checker_combinators : forall w op a b st,
  check w (bin_chk op a b) st =
  match op with
  | BOr => check w a st || check w b st
  | BAnd => check w a st && check w b st
  | BXor => xorb (check w a st) (check w b st)
  end.
Proof. exact bin_chk_spec. Qed.
Print Assumptions C10_checker_combinators.

Theorem C10_checker_invert : forall w c st, check w (CNot c) st = negb (check w c st).
Proof. exact check_not. Qed.
Print Assumptions C10_checker_invert.

Theorem C10_pattern_combinators : forall w op a b ca cb st,
  lsc_of w a = Some ca -> lsc_of w b = Some cb ->
  matches w (PPat (EBin op a b)) st =
  Some (match op with
        | BOr => check w ca st || check w cb st
        | BAnd => check w ca st && check w cb st
        | BXor => xorb (check w ca st) (check w cb st)
        end).
Proof. exact pat_bin_pointwise. Qed.
Print Assumptions C10_pattern_combinators.

Theorem C10_pattern_invert : forall w e c st,
  build w e = Some c -> matches w (PPat (EInv e)) st = Some (negb (check w c st)).
Proof. exact pat_invert_pointwise. Qed.
Print Assumptions C10_pattern_invert.

(* documented identities *)
Theorem C10_getitem_str_is_getattr : forall w e n,     (* P['n'] == P.n *)
  is_dunder n = false -> stack_of w (EItem e (PStr n)) = stack_of w (EAttr e n).
Proof. exact getitem_str_is_getattr. Qed.
Print Assumptions C10_getitem_str_is_getattr.

Theorem C10_p_item_is_pred : forall w p,               (* P[A] == A *)
  is_pat p = false -> create w (PPat (EItem EP p)) = create w p.
Proof. exact p_item_is_pred. Qed.
Print Assumptions C10_p_item_is_pred.

Theorem C10_add_attr : forall w e n,                   (* P[A] + P.n == P[A].n *)
  stack_of w (EAdd e (EAttr EP n)) = stack_of w (EAttr e n).
Proof. exact add_attr. Qed.
Print Assumptions C10_add_attr.

Theorem C10_tuple_is_or : forall w a b,                (* P[A, B] == P[A] | P[B] *)
  is_pat a = false -> is_pat b = false ->
  build w (ETuple EP [a; b]) = build w (EBin BOr (OPat (EItem EP a)) (OPat (EItem EP b))).
Proof. exact tuple_is_or. Qed.
Print Assumptions C10_tuple_is_or.

Theorem C10_tuple_matches_either : forall w a b ca cb st,
  is_pat a = false -> is_pat b = false -> create w a = Some ca -> create w b = Some cb ->
  matches w (PPat (ETuple EP [a; b])) st = Some (check w ca st || check w cb st).
Proof. exact tuple_matches_either. Qed.
Print Assumptions C10_tuple_matches_either.

(* bound(pred, provider) *)
Theorem C10_bound_is_conjunction : forall w outer inner st,
  check w (bound_checker outer inner) st =
  check w outer st && match inner with AlwaysTrue => true | Located c => check w c st end.
Proof. exact bound_is_conjunction. Qed.
Print Assumptions C10_bound_is_conjunction.
