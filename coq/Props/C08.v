(* C08 - models are built by their own constructor; omitted fields get the true default.
   Statements only; proofs in Proofs/CtorProofs.v (model: Model/Ctor.v). *)
From Coq Require Import List Arith ZArith Bool.
From AV Require Import Model.Ctor Proofs.CtorProofs.
Import ListNotations.

(* The literal text a default value is rendered as evaluates to that very value: equal AND of exactly the same type
   (the value datatype keeps True, 1, 1.0, Decimal('1'), an IntEnum member apart), for every nesting of lists, tuples,
   dicts, slices. *)
Theorem C08_literal_is_the_value : forall v e, literal_expr as_is v = Some e -> eval e = v.
Proof. exact literal_faithful. Qed.
Print Assumptions C08_literal_is_the_value.

(* Whatever clause the generator chooses for a default (inlined literal, captured constant, factory literal, factory
   call) produces, at run time, exactly what the class itself produces for it. *)
Theorem C08_default_clause_is_own_default : forall d c n,
  default_clause as_is d = Some c -> own_default d n = Some (run_clause c n).
Proof. exact default_is_own_default. Qed.
Print Assumptions C08_default_clause_is_own_default.

(* For every valid shape (kinds in signature order, unique parameter names, positional-only => required, only optional
   fields skipped) and every status of every field, the generated call binds, under Python's rules, every field that is
   to be passed - and nothing else - to its own parameter, exactly once. *)
Theorem C08_call_binds_exactly : forall l,
  kinds_sorted (map fst l) = true -> NoDup (map pname (map fst l)) -> Forall st_ok l ->
  exists b, (let (args, packed) := arrange true false l in bind (map fst l) args packed) = Some b /\
            NoDup (map fst b) /\
            (forall k v, In (k, v) b <-> exists f st, In (f, st) l /\ k = pname f /\ wanted st = Some v).
Proof. exact call_binds_exactly. Qed.
Print Assumptions C08_call_binds_exactly.

(* The whole load: for every valid shape and every input in which the required fields are present, the constructor is
   called (once - load_ctor_from has one call site) and the object holds, field by field, the loaded value when the
   field was present and otherwise what the class produces for its declared default. *)
Theorem C08_constructed_exactly : forall fs data n0,
  valid fs ->
  (forall f, In f fs -> frequired f = true -> lookup (fid f) data <> None) ->
  exists o n1, load_ctor_from n0 as_is true fs data = Built o n1 /\ n0 <= n1 /\
               Forall2 (fun f e => fst e = fid f /\ field_ok data n0 n1 f (snd e)) fs o.
Proof. exact ctor_exact. Qed.
Print Assumptions C08_constructed_exactly.

(* Factory results are made anew for each loaded object. *)
Theorem C08_factory_results_fresh : forall fs data n0 o n1 f g k e,
  valid fs -> (forall f, In f fs -> frequired f = true -> lookup (fid f) data <> None) ->
  load_ctor_from n0 as_is true fs data = Built o n1 ->
  In f fs -> In e o -> fst e = fid f -> NoDup (map fid fs) ->
  (if fskipped f then None else lookup (fid f) data) = None -> fdefault f = DFactory (FacUser g) ->
  snd e = VMade g k -> n0 <= k < n1.
Proof. exact factory_results_fresh. Qed.
Print Assumptions C08_factory_results_fresh.

Theorem C08_missing_required_no_call : forall fs data n0 f,
  In f fs -> fskipped f = false -> frequired f = true -> lookup (fid f) data = None ->
  load_ctor_from n0 as_is true fs data = MissingRequired.
Proof. exact missing_required_no_call. Qed.
Print Assumptions C08_missing_required_no_call.

(* the hypotheses are satisfiable by a non-trivial shape: positional-only, a skipped parameter, a hidden default, a
   factory, a keyword-only parameter *)
Definition example_shape : list fld :=
  [ {| fid := 0; pname := 0; pkind := PosOnly; fdefault := NoDefault; fskipped := false |};
    {| fid := 1; pname := 1; pkind := PosOrKw; fdefault := DValue (VLook 0 1); fskipped := true |};
    {| fid := 2; pname := 2; pkind := PosOrKw; fdefault := DHidden 3; fskipped := false |};
    {| fid := 3; pname := 3; pkind := PosOrKw; fdefault := DFactory (FacUser 0); fskipped := false |};
    {| fid := 4; pname := 4; pkind := KwOnly; fdefault := NoDefault; fskipped := false |} ].
Example C08_nonvacuous :
  valid example_shape /\
  load_ctor as_is true example_shape [(0, VInt 10); (4, VInt 14)] =
    Built [(0, VInt 10); (1, VLook 0 1); (2, VHidden 3); (3, VMade 0 0); (4, VInt 14)] 1.
Proof.
  split; [|reflexivity]. unfold valid. split; [reflexivity|]. split.
  - cbn. repeat constructor; cbn; intuition discriminate.
  - split; intros f Hf; cbn in Hf; intuition (subst; cbn in *; try discriminate; reflexivity).
Qed.
