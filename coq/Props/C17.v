(* C17 - all supported model kinds behave the same for the same logical model (partial: what the six packages do at class
   creation is observed, not proved - the harness compares the shapes adaptix reports with Model/Kinds.v).
   Statements only; proofs in Proofs/KindsProofs.v. *)
From Coq Require Import List Arith Bool String Permutation.
From AV Require Import Model.NameStyle Model.Layout Model.Kinds Proofs.KindsProofs.
Import ListNotations.

(* dataclass, NamedTuple, attrs, pydantic and SQLAlchemy twins of a logical model give the name layout the very same
   fields, hence - for EVERY stack of name_mapping providers - the same layout and crown; loader and dumper are functions
   of the crown (C03), so they behave the same *)
Theorem C17_same_layout_for_definition_order_kinds : forall k1 k2 lm stack output,
  keeps_definition_order k1 = true -> keeps_definition_order k2 = true ->
  make_layout stack output (layout_fields k1 lm) = make_layout stack output (layout_fields k2 lm).
Proof. exact same_layout_for_definition_order_kinds. Qed.
Print Assumptions C17_same_layout_for_definition_order_kinds.

(* TypedDict lists the same fields in another order ... *)
Theorem C17_typed_dict_lists_the_same_fields : forall lm, Permutation (ordered KTypedDict lm) lm.
Proof. exact typed_dict_lists_the_same_fields. Qed.
Print Assumptions C17_typed_dict_lists_the_same_fields.

(* ... and the order is visible in a field's path only through as_list *)
Theorem C17_position_matters_only_for_as_list : forall sc output i j f,
  s_as_list sc = false -> map_field sc output i f = map_field sc output j f.
Proof. exact position_matters_only_for_as_list. Qed.
Print Assumptions C17_position_matters_only_for_as_list.

Theorem C17_keyword_only_kinds : forall k f,
  (k = KTypedDict \/ k = KPydantic \/ k = KSqlAlchemy) -> param_kind k f = Ctor.KwOnly.
Proof. exact keyword_only_kinds. Qed.
Print Assumptions C17_keyword_only_kinds.

Theorem C17_attrs_parameter_drops_the_underscore : forall f,
  l_private f = true -> field_id KAttrs f = String.append "_" (param_name KAttrs f).
Proof. exact attrs_parameter_drops_the_underscore. Qed.
Print Assumptions C17_attrs_parameter_drops_the_underscore.

(* ... so that, for every stack of providers without as_list, every logical field gets the same path (or is absent alike)
   in the TypedDict twin and in a twin of any definition-order kind *)
Theorem C17_typed_dict_same_paths : forall k lm sc output,
  keeps_definition_order k = true -> s_as_list sc = false ->
  Permutation (named_paths sc output (layout_fields KTypedDict lm)) (named_paths sc output (layout_fields k lm)).
Proof. exact typed_dict_same_paths. Qed.
Print Assumptions C17_typed_dict_same_paths.
