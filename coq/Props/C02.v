(* C02 - non-model loaders and dumpers implement exactly the documented per-type rules.
   Statements only; proofs in Proofs/LoadProofs.v, Proofs/TableProofs.v (loaders) and Proofs/DumpProofs.v (dumpers). *)
From Coq Require Import List ZArith Bool String.
From AV Require Import Model.Val Model.Load Model.Dump Proofs.LoadProofs Proofs.TableProofs Proofs.DumpProofs.
From AV Require Import Generated.AbcToImpl.
Import ListNotations.

Theorem C02_union_sound : forall (U : nat -> pv -> res), (forall n v, no_exn (U n v)) -> forall md sc ts v r,
  load U md sc (TUnion ts) v = Ok r -> exists t, In t ts /\ okval (load U md sc t v) = Some r.
Proof. exact union_sound. Qed.
Print Assumptions C02_union_sound.
Theorem C02_union_complete : forall (U : nat -> pv -> res), (forall n v, no_exn (U n v)) -> forall md sc ts v,
  (exists t r, In t ts /\ okval (load U md sc t v) = Some r) -> exists r, load U md sc (TUnion ts) v = Ok r.
Proof. exact union_complete. Qed.
Print Assumptions C02_union_complete.
Theorem C02_union_fails_iff_all_fail : forall (U : nat -> pv -> res), (forall n v, no_exn (U n v)) -> forall md sc ts v,
  okval (load U md sc (TUnion ts) v) = None <-> Forall (fun t => okval (load U md sc t v) = None) ts.
Proof. exact union_fails_iff_all_fail. Qed.
Print Assumptions C02_union_fails_iff_all_fail.

Theorem C02_iterable_rule : forall (U : nat -> pv -> res), (forall n v, no_exn (U n v)) -> forall md sc k t v r,
  load U md sc (TIter k t) v = Ok r <->
  exists l rs, iter_view sc v = Items l /\ all_ok (fun x => okval (load U md sc t x)) l = Some rs /\ r = build k rs.
Proof. exact iterable_rule. Qed.
Print Assumptions C02_iterable_rule.
Theorem C02_tuple_rule : forall (U : nat -> pv -> res), (forall n v, no_exn (U n v)) -> forall md sc ts v r,
  load U md sc (TTuple ts) v = Ok r <->
  exists l rs, iter_view sc v = Items l /\ List.length l = List.length ts /\
               all_ok2 (map (fun t1 x => okval (load U md sc t1 x)) ts) l = Some rs /\ r = VTuple rs.
Proof. exact tuple_rule. Qed.
Print Assumptions C02_tuple_rule.
Theorem C02_dict_rule : forall (U : nat -> pv -> res), (forall n v, no_exn (U n v)) -> forall md sc tk tv v r,
  load U md sc (TDict tk tv) v = Ok r <->
  exists kvs res, v = VDict kvs /\
    all_okd (fun x => okval (load U md sc tk x)) (fun x => okval (load U md sc tv x)) [] kvs = Some res /\ r = VDict res.
Proof. exact dict_rule. Qed.
Print Assumptions C02_dict_rule.
Theorem C02_literal_rule : forall (U : nat -> pv -> res), (forall n v, no_exn (U n v)) -> forall md sc ls v,
  okval (load U md sc (TLit ls) v) =
  if (if sc && existsb boolish ls then existsb (fun l => veq (lit_val l) v) ls
      else existsb (fun l => pyeq (lit_val l) v) ls) then Some v else None.
Proof. exact literal_rule. Qed.
Print Assumptions C02_literal_rule.
Theorem C02_optional_rule : forall (U : nat -> pv -> res), (forall n v, no_exn (U n v)) -> forall md sc t v,
  okval (load U md sc (TOpt t) v) = match v with VNone => Some VNone | _ => okval (load U md sc t v) end.
Proof. exact optional_rule. Qed.
Print Assumptions C02_optional_rule.
Theorem C02_none_rule : forall (U : nat -> pv -> res), forall md sc v r, okval (load U md sc TNone v) = Some r -> v = VNone /\ r = VNone.
Proof. exact none_origin. Qed.
Print Assumptions C02_none_rule.

(* abstract collections -> minimal concrete type; Mapping -> dict; iterable dumper outer form (tables from the source) *)
Theorem C02_abc_impl_minimal :
  forallb (fun p => Bool.eqb (abc_is_mutable (fst p)) (impl_is_mutable (snd p)) &&
                    Bool.eqb (abc_is_set (fst p)) (impl_is_set (snd p))) abc_to_impl = true.
Proof. exact abc_impl_minimal. Qed.
Print Assumptions C02_abc_impl_minimal.
Theorem C02_abc_table_complete :
  forallb (fun a => existsb (fun p => String.eqb a (fst p)) abc_to_impl)
          ["Iterable"; "Reversible"; "Collection"; "Sequence"; "MutableSequence"; "Set"; "MutableSet"]%string = true.
Proof. exact abc_table_covers_the_iterable_abcs. Qed.
Print Assumptions C02_abc_table_complete.
Theorem C02_mapping_is_dict :
  lookup "Mapping" (map (fun p => (fst p, [snd p])) abc_proxies) = ["dict"%string] /\
  lookup "MutableMapping" (map (fun p => (fst p, [snd p])) abc_proxies) = ["dict"%string].
Proof. exact mapping_abcs_are_loaded_as_dict. Qed.
Print Assumptions C02_mapping_is_dict.

(* the union dumper: ClassDispatcher picks the entry of the nearest ancestor in the MRO of the runtime class *)
Theorem C02_dispatch_nearest_ancestor : forall classes tbl t,
  dispatch classes tbl = Some t <->
  exists pre c post, classes = pre ++ c :: post /\ assoc_case c tbl = Some t /\
                     Forall (fun a => assoc_case a tbl = None) pre.
Proof. exact dispatch_nearest_ancestor. Qed.
Print Assumptions C02_dispatch_nearest_ancestor.

(* ---- the documented outer form of what the dumpers return (Model/Dump.v, tied to the library by correspondence) ---- *)
(* every iterable is dumped element-wise, in iteration order, as a tuple - as a list exactly when the type is list *)
Theorem C02_dump_iterable_form : forall UM k t v r, dump UM (TIter k t) v = Some r ->
  exists l rs, elems_of v = Some l /\ Forall2 (fun x y => dump UM t x = Some y) l rs /\
               r = match k with KList => VList rs | _ => VTuple rs end.
Proof. exact dump_iterable_form. Qed.
Print Assumptions C02_dump_iterable_form.

(* a fixed tuple is dumped position-wise, each position by its own type's dumper, as a tuple of the same length *)
Theorem C02_dump_tuple_form : forall UM ts v r, dump UM (TTuple ts) v = Some r ->
  exists l rs, (v = VTuple l \/ v = VList l) /\ List.length l = List.length ts /\
               Forall2 (fun tx y => dump UM (fst tx) (snd tx) = Some y) (combine ts l) rs /\ r = VTuple rs.
Proof. exact dump_tuple_form. Qed.
Print Assumptions C02_dump_tuple_form.

(* int, float, bool, str, None, Any and Literal are dumped without conversion *)
Theorem C02_dump_scalar_identity : forall UM t v,
  match t with TInt | TFloat | TBool | TStr | TNone | TAny | TLit _ => True | _ => False end -> dump UM t v = Some v.
Proof. exact dump_scalar_identity. Qed.
Print Assumptions C02_dump_scalar_identity.

Theorem C02_dump_optional_form : forall UM t v, dump UM (TOpt t) v = match v with VNone => Some VNone | _ => dump UM t v end.
Proof. exact dump_optional_form. Qed.
Print Assumptions C02_dump_optional_form.
