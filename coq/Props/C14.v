(* C14 - implicit coercion is type-sound; unlinkable or uncoercible fields are refused.
   Statements only; proofs in Proofs/CoerceProofs.v, model in Model/Coerce.v.  `coercible subc false` = the rules of
   the repaired tree (union sub-case by type equality, Optional only for two-case unions). *)
From Coq Require Import List Arith Bool.
From AV Require Import Model.Coerce Proofs.CoerceProofs.
Import ListNotations.

(* no value of the wrong static type can be placed: whatever coercer is produced maps values of the source type to
   values of the destination type *)
Theorem C14_coercer_sound : forall subc,
  (forall a b c, subc a b = true -> subc b c = true -> subc a c = true) ->
  forall s d c v, coercible subc false s d = Some c -> has_type subc s v = true -> has_type subc d (apply c v) = true.
Proof. exact coercer_sound. Qed.
Print Assumptions C14_coercer_sound.

(* a coercer is produced only for the documented pairs *)
Theorem C14_coercer_documented : forall subc s d c, coercible subc false s d = Some c -> DocRel subc s d.
Proof. exact coercer_documented. Qed.
Print Assumptions C14_coercer_documented.

(* kept beside it: the union sub-case rule of the pinned tree (origins only) is refuted *)
Theorem C14_as_coded_refuted :
  let subc := Nat.eqb in let INT := TCls 0 in let STR := TCls 1 in
  exists v, coercible subc true (TList 0 INT) (TOpt (TList 0 STR)) = Some AsIs
         /\ has_type subc (TList 0 INT) v = true
         /\ has_type subc (TOpt (TList 0 STR)) (apply AsIs v) = false.
Proof. exact as_coded_refuted. Qed.
Print Assumptions C14_as_coded_refuted.
