(* C14 - implicit coercion is type-sound; unlinkable or uncoercible fields are refused.
   Statements only; proofs in Proofs/CoerceProofs.v, model in Model/Coerce.v.  `coercible subc false` = the rules of
   the repaired tree (union sub-case by type equality, Optional only for two-case unions). *)
From Coq Require Import List Arith Bool.
From AV Require Import Model.Coerce Proofs.CoerceProofs.
Import ListNotations.

(* no value of the wrong static type can be placed: whatever coercer is produced maps values of the source type to
   values of the destination type *)
Theorem C14_coercer_sound : forall subc,
  (forall a b c, subc a b = true -> subc b c = true -> subc a c = true) ->
  forall s d c v, coercible subc false s d = Some c -> has_type subc s v = true -> has_type subc d (apply c v) = true.
Proof. exact coercer_sound. Qed.
Print Assumptions C14_coercer_sound.

(* a coercer is produced only for the documented pairs *)
Theorem C14_coercer_documented : forall subc s d c, coercible subc false s d = Some c -> DocRel subc s d.
Proof. exact coercer_documented. Qed.
Print Assumptions C14_coercer_documented.

(* kept beside it: the union sub-case rule of the pinned tree (origins only) is refuted *)
Theorem C14_as_coded_refuted :
  let subc := Nat.eqb in let INT := TCls 0 in let STR := TCls 1 in
  exists v, coercible subc true (TList 0 INT) (TOpt (TList 0 STR)) = Some AsIs
         /\ has_type subc (TList 0 INT) v = true
         /\ has_type subc (TOpt (TList 0 STR)) (apply AsIs v) = false.
Proof. exact as_coded_refuted. Qed.
Print Assumptions C14_as_coded_refuted.


(* second sentence of the property, over the converter model of C13 (Model/Conv.v, tied to the library per generated
   program by C13's correspondence): a destination field that no provider links, that has no same-named source field and
   - at top level - no same-named parameter, makes converter creation fail when the field is required, or optional while
   allow_unlinked_optional does not cover it; for every recipe, parameter list, source object and nesting depth *)
From AV Require Model.Conv Proofs.ConvRefuse.
Theorem C14_unlinked_field_is_refused : forall recipe ctx fuel top data scls sfs cls dfs name ty required dflt,
  In (name, ty, required, dflt) dfs -> ConvRefuse.unlinked recipe ctx top sfs name ->
  required = true \/ Conv.allowed_unlinked recipe name = false ->
  Conv.convert recipe ctx (S fuel) top data (Conv.TyModel scls sfs) (Conv.TyModel cls dfs) = None.
Proof. exact ConvRefuse.unlinked_field_refused. Qed.
Print Assumptions C14_unlinked_field_is_refused.

Theorem C14_allowed_unlinked_optional_keeps_default : forall recipe ctx top sfs name,
  ConvRefuse.unlinked recipe ctx top sfs name -> Conv.allowed_unlinked recipe name = true ->
  Conv.link_for recipe top (ConvRefuse.field_names sfs) (map fst ctx) name false = Conv.LUnlinked.
Proof. exact ConvRefuse.allowed_unlinked_optional_keeps_default. Qed.
Print Assumptions C14_allowed_unlinked_optional_keeps_default.
