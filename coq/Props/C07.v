(* C07 - strict_coercion only narrows the accepted inputs.  Statements only; proofs in Proofs/LoadProofs.v and
   Proofs/TableProofs.v. *)
From Coq Require Import List ZArith Bool String.
From AV Require Import Model.Val Model.Load Proofs.LoadProofs Proofs.TableProofs.
From AV Require Import Generated.ScalarLoaders Generated.DocTables.
Import ListNotations.

(* everything accepted with strict coercion is accepted without it, whatever the debug modes *)
Theorem C07_strict_only_narrows : forall (U : nat -> pv -> res), (forall n v, no_exn (U n v)) -> forall md1 md2 t v r,
  load U md1 true t v = Ok r -> exists r', load U md2 false t v = Ok r'.
Proof. exact strict_only_narrows. Qed.
Print Assumptions C07_strict_only_narrows.

(* ... and loads to the same value when no union is involved (with unions any accepting case may win, as documented) *)
Theorem C07_same_value_without_unions : forall (U : nat -> pv -> res), (forall n v, no_exn (U n v)) -> forall md1 md2 t v r,
  union_free t -> load U md1 true t v = Ok r -> load U md2 false t v = Ok r.
Proof. exact strict_only_narrows_same_value. Qed.
Print Assumptions C07_same_value_without_unions.

(* strict mode accepts only the documented origins *)
Theorem C07_strict_int : forall (U : nat -> pv -> res), forall md v r, okval (load U md true TInt v) = Some r -> exists z, v = VInt z /\ r = v.
Proof. exact strict_int_origin. Qed.
Print Assumptions C07_strict_int.
Theorem C07_strict_float : forall (U : nat -> pv -> res), forall md v r, okval (load U md true TFloat v) = Some r ->
  (exists z, v = VFloat z /\ r = v) \/ (exists z, v = VInt z /\ r = VFloat z).
Proof. exact strict_float_origin. Qed.
Print Assumptions C07_strict_float.
Theorem C07_strict_str : forall (U : nat -> pv -> res), forall md v r, okval (load U md true TStr v) = Some r -> exists s, v = VStr s /\ r = v.
Proof. exact strict_str_origin. Qed.
Print Assumptions C07_strict_str.
Theorem C07_strict_bool : forall (U : nat -> pv -> res), forall md v r, okval (load U md true TBool v) = Some r -> exists b, v = VBool b /\ r = v.
Proof. exact strict_bool_origin. Qed.
Print Assumptions C07_strict_bool.
Theorem C07_strict_iterable_excludes_str_and_mapping : forall (U : nat -> pv -> res), (forall n v, no_exn (U n v)) -> forall md k t s kvs,
  okval (load U md true (TIter k t) (VStr s)) = None /\ okval (load U md true (TIter k t) (VDict kvs)) = None.
Proof. exact strict_iterable_excludes_str_and_mapping. Qed.
Print Assumptions C07_strict_iterable_excludes_str_and_mapping.
Theorem C07_strict_tuple_excludes_str_and_mapping : forall (U : nat -> pv -> res), (forall n v, no_exn (U n v)) -> forall md ts s kvs,
  okval (load U md true (TTuple ts) (VStr s)) = None /\ okval (load U md true (TTuple ts) (VDict kvs)) = None.
Proof. exact strict_tuple_excludes_str_and_mapping. Qed.
Print Assumptions C07_strict_tuple_excludes_str_and_mapping.
Theorem C07_no_bool_for_int_literal : forall (U : nat -> pv -> res), (forall n v, no_exn (U n v)) -> forall md ls b,
  existsb boolish ls = true -> okval (load U md true (TLit ls) (VBool b)) = Some (VBool b) -> In (LBool b) ls.
Proof. exact strict_literal_tells_bool_from_int. Qed.
Print Assumptions C07_no_bool_for_int_literal.

(* the exact-type tests in the source are the documented table, and the model follows them (tables regenerated from
   /repo on every run) *)
Theorem C07_strict_origins_match_docs : code_strict_origins = doc_strict_origins.
Proof. exact strict_origins_match_docs. Qed.
Print Assumptions C07_strict_origins_match_docs.
Theorem C07_model_follows_table : forall v,
  (match load_int true v with Ok _ => true | _ => false end = mem (tag v) (lookup "int" code_strict_origins)) /\
  (match load_str true v with Ok _ => true | _ => false end = mem (tag v) (lookup "str" code_strict_origins)) /\
  (match load_bool true v with Ok _ => true | _ => false end = mem (tag v) (lookup "bool" code_strict_origins)) /\
  (in_float_range v = true ->
   match load_float true v with Ok _ => true | _ => false end = mem (tag v) (lookup "float" code_strict_origins)).
Proof. exact model_strict_scalars_follow_table. Qed.
Print Assumptions C07_model_follows_table.
