(* C13 - a generated converter equals the field-wise construction the linking rules fix.
   Statements only; proofs in Proofs/ConvProofs.v (model: Model/Conv.v) and Proofs/CtorProofs.v (the constructor call). *)
From Coq Require Import List Arith Bool String.
From AV Require Import Model.Conv Model.Ctor Proofs.ConvProofs Proofs.CtorProofs.
Import ListNotations.
Local Open Scope list_scope.

(* the recipe is searched in order and the first provider that provides decides; without one: linking by name *)
Theorem C13_first_matching_provider_decides : forall p rest top fields params dst,
  find_link (p :: rest) top fields params dst =
    match provides p fields params dst with Some l => Some l | None => find_link rest top fields params dst end.
Proof. exact first_matching_provider_decides. Qed.
Print Assumptions C13_first_matching_provider_decides.

Theorem C13_no_provider_means_by_name : forall top fields params dst,
  find_link [] top fields params dst = default_link top fields params dst.
Proof. exact no_provider_means_by_name. Qed.
Print Assumptions C13_no_provider_means_by_name.

(* by name: a same-named extra parameter wins over the source field for top-level fields, and only there *)
Theorem C13_param_beats_field_at_top_level : forall fields params dst,
  Conv.mem dst params = true -> default_link true fields params dst = Some (LField (SrcParam dst) None).
Proof. exact param_beats_field_at_top_level. Qed.
Print Assumptions C13_param_beats_field_at_top_level.

Theorem C13_nested_fields_ignore_parameters : forall fields params dst,
  default_link false fields params dst = if Conv.mem dst fields then Some (LField (SrcField dst) None) else None.
Proof. exact nested_fields_ignore_parameters. Qed.
Print Assumptions C13_nested_fields_ignore_parameters.

Theorem C13_rightmost_parameter_is_read : forall data ctx name v later,
  ~ In name (map fst later) -> fetch (SrcParam name) data (ctx ++ (name, v) :: later) = Some v.
Proof. exact rightmost_parameter_is_read. Qed.
Print Assumptions C13_rightmost_parameter_is_read.

Theorem C13_from_param_reaches_any_level : forall n d c rest top fields params,
  Conv.mem n params = true -> find_link (PLink (SParam n) d c :: rest) top fields params d = Some (LField (SrcParam n) c).
Proof. exact from_param_reaches_any_level. Qed.
Print Assumptions C13_from_param_reaches_any_level.

(* extra source fields are ignored: a source field that no provider mentions and no destination field is named after
   changes the linking of no destination field *)
Theorem C13_extra_source_field_is_ignored : forall recipe top fields params dst x,
  existsb (fun p => mentions p x) recipe = false -> String.eqb dst x = false ->
  find_link recipe top (fields ++ [x]) params dst = find_link recipe top fields params dst.
Proof. exact extra_source_field_is_ignored. Qed.
Print Assumptions C13_extra_source_field_is_ignored.

(* the result is the destination built field by field: every destination field gets exactly one value, in order *)
Theorem C13_every_destination_field_gets_one_value : forall recipe ctx fuel top data scls sfs cls dfs r,
  convert recipe ctx (S fuel) top data (TyModel scls sfs) (TyModel cls dfs) = Some r ->
  exists vals, r = CObj cls vals /\ map fst vals = map (fun f => fst (fst (fst f))) dfs.
Proof. exact every_destination_field_gets_one_value. Qed.
Print Assumptions C13_every_destination_field_gets_one_value.

(* the destination's constructor call: _make_constructor_call is the algorithm of Ctor.arrange (positional run, keywords
   after the first unlinked optional parameter), so every linked value reaches its own parameter exactly once *)
Theorem C13_constructor_call_binds_exactly : forall l,
  kinds_sorted (map fst l) = true -> NoDup (map pname (map fst l)) -> Forall st_ok l ->
  exists b, (let (args, packed) := arrange true false l in bind (map fst l) args packed) = Some b /\
            NoDup (map fst b) /\
            (forall k v, In (k, v) b <-> exists f st, In (f, st) l /\ k = pname f /\ wanted st = Some v).
Proof. exact call_binds_exactly. Qed.
Print Assumptions C13_constructor_call_binds_exactly.

(* non-vacuity: renamed field through link with a coercer, a parameter beating a field, a nested model, a constant *)
Local Open Scope string_scope.
Example C13_nonvacuous :
  convert [PLink (SName "a") "z" (Some 2); PConst "k" 9] [("b", CInt 50)] 5 true
          (CObj 0 [("a", CInt 1); ("b", CInt 2); ("n", CObj 1 [("b", CInt 3)])])
          (TyModel 0 [("a", TyInt, true, 0); ("b", TyInt, true, 0); ("n", TyModel 1 [("b", TyInt, true, 0)], true, 0)])
          (TyModel 2 [("z", TyInt, true, 0); ("b", TyInt, true, 0); ("k", TyInt, true, 0);
                      ("n", TyModel 3 [("b", TyInt, true, 0)], true, 0)])
  = Some (CObj 2 [("z", CTag 2 (CInt 1)); ("b", CInt 50); ("k", CInt 9); ("n", CObj 3 [("b", CInt 3)])]).
Proof. reflexivity. Qed.
