(* C20 - load, dump and convert are pure with respect to their arguments.
   Statements only; proofs in Proofs/HeapProofs.v (model: Model/Heap.v). *)
From Coq Require Import List Arith Bool.
From AV Require Import Model.Heap Proofs.HeapProofs.
Import ListNotations.

(* Executing any plan (the plans of load / dump / convert for every type are instances) from allocation counter n:
   the identities it reports as built are pairwise distinct and lie in [n, n'), and every container of the result is
   one it built, a node of the argument (a position passed as is), or a node of a constant the plan captures. *)
Theorem C20_result_fresh : forall p v n r b n', exec p v n = Some (r, b, n') ->
  n <= n' /\ in_range n n' b /\ NoDup b /\
  (forall i, In i (ids r) -> In i b \/ In i (ids v) \/ In i (const_ids p)).
Proof. exact result_fresh. Qed.
Print Assumptions C20_result_fresh.

(* Two successive calls build disjoint sets of containers: whatever two results share is argument or constant. *)
Theorem C20_no_sharing_between_calls : forall p v1 v2 n r1 b1 n1 r2 b2 n2,
  exec p v1 n = Some (r1, b1, n1) -> exec p v2 n1 = Some (r2, b2, n2) ->
  forall i, In i b1 -> ~ In i b2.
Proof. exact no_sharing_between_calls. Qed.
Print Assumptions C20_no_sharing_between_calls.

(* Nothing a call builds is a node of its argument or of the retort's captured constants. *)
Theorem C20_built_is_new : forall p v n r b n', exec p v n = Some (r, b, n') ->
  (forall i, In i (ids v) -> i < n) -> (forall i, In i (const_ids p) -> i < n) ->
  forall i, In i b -> ~ In i (ids v) /\ ~ In i (const_ids p).
Proof. exact built_is_new. Qed.
Print Assumptions C20_built_is_new.

(* non-vacuity: a model with a list field, an as-is field, a factory default and collected extras *)
Definition example_type : hty :=
  TModel 1 [(0, TList TAtom, DNone); (1, TAny, DNone); (2, TList TAtom, DFresh 0); (3, TAny, DNone)] (Some 3) [3].
Example C20_nonvacuous :
  exec (load_plan example_type)
       (HDict 0 [(HAtom 0, HList 1 [HAtom 7]); (HAtom 1, HList 2 [HAtom 8]); (HAtom 9, HList 3 [])]) 4
  = Some (HObj 4 1 [(0, HList 5 [HAtom 7]); (1, HList 2 [HAtom 8]); (2, HList 6 []); (3, HDict 7 [(HAtom 9, HList 3 [])])],
          [4; 5; 6; 7], 8).
Proof. reflexivity. Qed.


(* "repeating a call with equal arguments gives equal results": executing a plan on the same argument from any two
   allocation counters - at any two moments of the program - fails both times or gives results equal as values; they differ
   only in the identities of the containers built (`HeapDeterm.erase` forgets identities) *)
From AV Require Proofs.HeapDeterm.
Theorem C20_repeated_call_gives_equal_result : forall p v n m r1 b1 n1,
  exec p v n = Some (r1, b1, n1) ->
  exists r2 b2 m1, exec p v m = Some (r2, b2, m1) /\ HeapDeterm.erase r2 = HeapDeterm.erase r1.
Proof. exact HeapDeterm.repeated_call_gives_equal_result. Qed.
Print Assumptions C20_repeated_call_gives_equal_result.

Theorem C20_failure_does_not_depend_on_the_moment : forall p v n m,
  HeapDeterm.eres (exec p v n) = HeapDeterm.eres (exec p v m).
Proof. exact HeapDeterm.exec_determ. Qed.
Print Assumptions C20_failure_does_not_depend_on_the_moment.


(* and with EQUAL arguments - two objects equal as values, possibly distinct: the literal wording of the property *)
From AV Require Proofs.HeapDeterm2.
Theorem C20_equal_arguments_give_equal_results : forall p v1 v2 n m r1 b1 n1,
  HeapDeterm.erase v1 = HeapDeterm.erase v2 -> exec p v1 n = Some (r1, b1, n1) ->
  exists r2 b2 m1, exec p v2 m = Some (r2, b2, m1) /\ HeapDeterm.erase r2 = HeapDeterm.erase r1.
Proof. exact HeapDeterm2.equal_arguments_give_equal_results. Qed.
Print Assumptions C20_equal_arguments_give_equal_results.
