(* C09 - Recipe resolution is first-match in recipe order; chaining composes exactly once.
   Statements only; proofs in Proofs/RouterProofs.v, model in Model/Router.v.
   `resolve true` = the router as built by ExactOriginCombiner + LocatedRequestRouter and driven by the request bus
   (the combiner as repaired by the fix: commit in /repo); `resolve_spec` = linear chain of responsibility. *)
From Coq Require Import List Arith Bool.
From AV Require Import Model.Router Proofs.RouterProofs.
Import ListNotations.

(* the optimised router + bus and the linear search give the same outcome AND consult the same handlers in the
   same order, for every recipe, request and handler behaviour *)
Theorem C09_router_refines_linear : forall behaviour r req,
  resolve true behaviour r req = resolve_spec behaviour r req.
Proof. exact resolve_is_spec. Qed.
Print Assumptions C09_router_refines_linear.

Theorem C09_candidates : forall req r, candidates_items req (combine true r) = candidates_lin req r.
Proof. exact router_candidates. Qed.
Print Assumptions C09_candidates.

Theorem C09_no_provider_consulted_twice : forall behaviour r req,
  NoDup (map snd r) -> NoDup (snd (resolve true behaviour r req)).
Proof. exact no_provider_consulted_twice. Qed.
Print Assumptions C09_no_provider_consulted_twice.

Theorem C09_consulted_only_matching : forall behaviour r req h,
  In h (snd (resolve true behaviour r req)) -> exists c, In (c, h) r /\ check c req = true.
Proof. exact consulted_only_matching. Qed.
Print Assumptions C09_consulted_only_matching.

Theorem C09_first_match_answers : forall behaviour r req pre h a post,
  candidates_lin req r = pre ++ h :: post -> all_decline behaviour pre = true -> behaviour h = Answer a ->
  resolve true behaviour r req = (Found [a], pre ++ [h]).
Proof. exact first_match_answers. Qed.
Print Assumptions C09_first_match_answers.

Theorem C09_terminal_stops : forall behaviour r req pre h post,
  candidates_lin req r = pre ++ h :: post -> all_decline behaviour pre = true -> behaviour h = Terminal ->
  resolve true behaviour r req = (Failed, pre ++ [h]).
Proof. exact terminal_stops. Qed.
Print Assumptions C09_terminal_stops.

Theorem C09_chain_first_once : forall behaviour r req h f post,
  candidates_lin req r = h :: post -> behaviour h = ChainFirst f ->
  resolve true behaviour r req =
  (match fst (send behaviour post) with Found c => Found (c ++ [f]) | x => x end, h :: snd (send behaviour post)).
Proof. exact chain_first_once. Qed.
Print Assumptions C09_chain_first_once.

Theorem C09_chain_last_once : forall behaviour r req h f post,
  candidates_lin req r = h :: post -> behaviour h = ChainLast f ->
  resolve true behaviour r req =
  (match fst (send behaviour post) with Found c => Found (f :: c) | x => x end, h :: snd (send behaviour post)).
Proof. exact chain_last_once. Qed.
Print Assumptions C09_chain_last_once.

Theorem C09_full_recipe_order : forall req head inst classes tail,
  candidates_lin req (full_recipe head inst classes tail) =
  candidates_lin req head ++ candidates_lin req inst ++ candidates_lin req (concat classes) ++ candidates_lin req tail.
Proof. exact full_recipe_order. Qed.
Print Assumptions C09_full_recipe_order.

Theorem C09_extend_prepends : forall req inst new,
  candidates_lin req (extend inst new) = candidates_lin req new ++ candidates_lin req inst.
Proof. exact extend_prepends. Qed.
Print Assumptions C09_extend_prepends.

(* kept beside the theorem: the combiner exactly as the pinned tree had it is refuted *)
Theorem C09_as_coded_refuted :
  exists behaviour r req, resolve false behaviour r req <> resolve_spec behaviour r req.
Proof. exact as_coded_refuted. Qed.
Print Assumptions C09_as_coded_refuted.
