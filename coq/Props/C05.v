(* C05 - load errors are localised: trails are exact and, in ALL mode, complete.
   Statements only; proofs in Proofs/TrailProofs.v over Model/Load.v (error trees with relative trails re-based at
   every container exactly as append_trail does; ItemKey for dict keys). *)
From Coq Require Import List ZArith Bool String.
From AV Require Import Model.Val Model.Load Proofs.LoadProofs Proofs.TrailProofs.
Import ListNotations.

(* FIRST and ALL: following the (concatenated) trail of every reported leaf error from the root of the input datum
   reaches exactly the value that error reports as its input - for every type, datum and coercion mode. User loaders
   enter through the hypothesis that their own errors point into their own datum. *)
Theorem C05_trail_exact : forall (U : nat -> pv -> res) sc,
  (forall n v e, U n v = Err e -> localised sc v e) ->
  forall md, md <> Disable -> forall t v e, wf v -> load U md sc t v = Err e -> localised sc v e.
Proof. exact trail_exact. Qed.
Print Assumptions C05_trail_exact.

(* DISABLE: no trail is attached anywhere in the error *)
Theorem C05_disable_no_trail : forall (U : nat -> pv -> res) sc,
  (forall n v e, U n v = Err e -> no_trail e) ->
  forall t v e, load U Disable sc t v = Err e -> no_trail e.
Proof. exact disable_no_trail. Qed.
Print Assumptions C05_disable_no_trail.

(* ALL: the element loop reports every failing element exactly once, in order, under that element's index;
   FIRST: exactly the first failing element *)
Theorem C05_all_complete_elements : forall f, (forall x, no_exn (f x)) -> forall l i vs es u,
  map_all f i l = (vs, es, u) ->
  Forall2 (fun e j => exists x e0, nth_error l (j - i) = Some x /\ f x = Err e0 /\ e = push All (Idx j) e0 /\ i <= j)
          es (failing f i l).
Proof. exact map_all_complete. Qed.
Print Assumptions C05_all_complete_elements.

Theorem C05_first_reports_first : forall f, (forall x, no_exn (f x)) -> forall l i e,
  map_first f i l = A1Err e ->
  exists j rest x e0, failing f i l = j :: rest /\ nth_error l (j - i) = Some x /\ f x = Err e0 /\
                      e = push First (Idx j) e0 /\ i <= j.
Proof. exact map_first_is_first. Qed.
Print Assumptions C05_first_reports_first.

(* non-vacuity: a nested input whose two bad leaves are both found, with trails that lead to them *)
Example C05_example :
  let U := fun (_ : nat) (v : pv) => Ok v in
  let v := VDict [(VStr "a", VList [VInt 1; VStr "x"]); (VInt 7, VList [VNone])] in
  load U All true (TDict TStr (TIter KList TInt)) v
  = Err (LE AggLE [] None
           [LE AggLE [Key (VStr "a")] None [LE TypeLE [Idx 1] (Some (VStr "x")) []];
            LE TypeLE [ItemKey (VInt 7)] (Some (VInt 7)) [];
            LE AggLE [Key (VInt 7)] None [LE TypeLE [Idx 0] (Some VNone) []]])
  /\ follow true v [Key (VStr "a"); Idx 1] = Some (VStr "x")
  /\ follow true v [ItemKey (VInt 7)] = Some (VInt 7)
  /\ follow true v [Key (VInt 7); Idx 0] = Some VNone.
Proof. repeat split; vm_compute; reflexivity. Qed.
