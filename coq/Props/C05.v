(* C05 - load errors are localised: trails are exact and, in ALL mode, complete.
   Statements only; proofs in Proofs/TrailProofs.v and Proofs/CompleteProofs.v over Model/Load.v (error trees with relative trails re-based at
   every container exactly as append_trail does; ItemKey for dict keys). *)
From Coq Require Import List ZArith Bool String.
From AV Require Import Model.Val Model.Load Proofs.LoadProofs Proofs.TrailProofs Proofs.CompleteProofs.
From AV Require Model.Layout Model.CrownSem Proofs.CrownProofs Proofs.CrownTrails Proofs.CrownOnce Proofs.LayoutWf.
Import ListNotations.

(* FIRST and ALL: following the (concatenated) trail of every reported leaf error from the root of the input datum
   reaches exactly the value that error reports as its input - for every type, datum and coercion mode. User loaders
   enter through the hypothesis that their own errors point into their own datum. *)
Theorem C05_trail_exact : forall (U : nat -> pv -> res) sc,
  (forall n v e, U n v = Err e -> localised sc v e) ->
  forall md, md <> Disable -> forall t v e, wf v -> load U md sc t v = Err e -> localised sc v e.
Proof. exact trail_exact. Qed.
Print Assumptions C05_trail_exact.

(* DISABLE: no trail is attached anywhere in the error *)
Theorem C05_disable_no_trail : forall (U : nat -> pv -> res) sc,
  (forall n v e, U n v = Err e -> no_trail e) ->
  forall t v e, load U Disable sc t v = Err e -> no_trail e.
Proof. exact disable_no_trail. Qed.
Print Assumptions C05_disable_no_trail.

(* ALL: the element loop reports every failing element exactly once, in order, under that element's index;
   FIRST: exactly the first failing element *)
Theorem C05_all_complete_elements : forall f, (forall x, no_exn (f x)) -> forall l i vs es u,
  map_all f i l = (vs, es, u) ->
  Forall2 (fun e j => exists x e0, nth_error l (j - i) = Some x /\ f x = Err e0 /\ e = push All (Idx j) e0 /\ i <= j)
          es (failing f i l).
Proof. exact map_all_complete. Qed.
Print Assumptions C05_all_complete_elements.

Theorem C05_first_reports_first : forall f, (forall x, no_exn (f x)) -> forall l i e,
  map_first f i l = A1Err e ->
  exists j rest x e0, failing f i l = j :: rest /\ nth_error l (j - i) = Some x /\ f x = Err e0 /\
                      e = push First (Idx j) e0 /\ i <= j.
Proof. exact map_first_is_first. Qed.
Print Assumptions C05_first_reports_first.

(* non-vacuity: a nested input whose two bad leaves are both found, with trails that lead to them *)
Example C05_example :
  let U := fun (_ : nat) (v : pv) => Ok v in
  let v := VDict [(VStr "a", VList [VInt 1; VStr "x"]); (VInt 7, VList [VNone])] in
  load U All true (TDict TStr (TIter KList TInt)) v
  = Err (LE AggLE [] None
           [LE AggLE [Key (VStr "a")] None [LE TypeLE [Idx 1] (Some (VStr "x")) []];
            LE TypeLE [ItemKey (VInt 7)] (Some (VInt 7)) [];
            LE AggLE [Key (VInt 7)] None [LE TypeLE [Idx 0] (Some VNone) []]])
  /\ follow true v [Key (VStr "a"); Idx 1] = Some (VStr "x")
  /\ follow true v [ItemKey (VInt 7)] = Some (VInt 7)
  /\ follow true v [Key (VInt 7); Idx 0] = Some VNone.
Proof. repeat split; vm_compute; reflexivity. Qed.

(* ---- ALL is complete at every nesting depth ----
   The leaves (trail, class, input) of the error ALL raises for a container are exactly the leaves of the errors of its
   children that fail (errl r = the leaves of r's error, nothing when r succeeded), each once, in order, with the
   child's position put in front of the trail.  Unfolded down the type these five equations give the complete set of
   leaves reported for any nested datum: every independently invalid part is reported, and exactly once.
   (U is arbitrary here: no assumption on user loaders is needed when an error was raised.) *)
Theorem C05_all_leaves_of_iterable : forall (U : nat -> pv -> res) sc k t v l e,
  iter_view sc v = Items l -> load U All sc (TIter k t) v = Err e ->
  leaves e = elems_leaves (load U All sc t) 0 l.
Proof. exact all_leaves_iter. Qed.
Print Assumptions C05_all_leaves_of_iterable.

Theorem C05_all_leaves_of_fixed_tuple : forall (U : nat -> pv -> res) sc ts v l e,
  iter_view sc v = Items l -> List.length l = List.length ts -> load U All sc (TTuple ts) v = Err e ->
  leaves e = zip_leaves 0 (map (fun t1 => load U All sc t1) ts) l.
Proof. exact all_leaves_tuple. Qed.
Print Assumptions C05_all_leaves_of_fixed_tuple.

(* dict: a bad key is reported under ItemKey k and, independently, a bad value under Key k *)
Theorem C05_all_leaves_of_dict : forall (U : nat -> pv -> res) sc tk tv kvs e,
  load U All sc (TDict tk tv) (VDict kvs) = Err e ->
  leaves e = items_leaves (load U All sc tk) (load U All sc tv) kvs.
Proof. exact all_leaves_dict. Qed.
Print Assumptions C05_all_leaves_of_dict.

Theorem C05_all_leaves_of_optional : forall (U : nat -> pv -> res) sc t v e,
  load U All sc (TOpt t) v = Err e -> leaves e = ([], TypeLE, Some v) :: errl (load U All sc t v).
Proof. exact all_leaves_optional. Qed.
Print Assumptions C05_all_leaves_of_optional.

Theorem C05_all_leaves_of_union : forall (U : nat -> pv -> res) sc ts v e,
  ts <> [] -> load U All sc (TUnion ts) v = Err e -> leaves e = flat_map (fun t1 => errl (load U All sc t1 v)) ts.
Proof. exact all_leaves_union. Qed.
Print Assumptions C05_all_leaves_of_union.

(* non-vacuity: the three leaves of the example above, by the equations' right-hand side *)
Example C05_all_leaves_example :
  let U := fun (_ : nat) (v : pv) => Ok v in
  items_leaves (load U All true TStr) (load U All true (TIter KList TInt))
               [(VStr "a", VList [VInt 1; VStr "x"]); (VInt 7, VList [VNone])]
  = [([Key (VStr "a"); Idx 1], TypeLE, Some (VStr "x")); ([ItemKey (VInt 7)], TypeLE, Some (VInt 7));
     ([Key (VInt 7); Idx 0], TypeLE, Some VNone)].
Proof. vm_compute. reflexivity. Qed.


(* ---- generated model loaders (Model/CrownSem.v), "including through renamed and flattened model paths": the crown is
   the layout after every rename / nesting / list index has been resolved (C03 proves that it puts each field at the
   configured path).  For every crown - any nesting of mapping and list nodes -, extra policy and datum.
   `CrownTrails.exact info pol c d [] (E cl t)`: following t from the root of d through mapping keys and list
   indices reaches a sub-value w, following t through the crown reaches a node, and w offends that node exactly as
   the class cl says: wrong kind (not an int for a field, not a mapping / list for a node); required keys missing, cl
   naming exactly the missing ones; unknown keys under the forbid policy, cl naming exactly those; too short / long a list. ---- *)
Theorem C05_model_all_trails_exact : forall (info : CrownSem.finfos) (pol : Layout.policy) c d es,
  CrownSem.load info pol CrownSem.All c d = CrownSem.Group es -> Forall (CrownTrails.exact info pol c d []) es.
Proof. exact CrownTrails.model_all_trails_exact. Qed.
Print Assumptions C05_model_all_trails_exact.

(* ALL is complete at every depth: whatever sub-value, reachable from the root of the datum, offends the crown node found
   along the same trail is reported under exactly that trail *)
Theorem C05_model_all_reports_every_offence : forall (info : CrownSem.finfos) (pol : Layout.policy) c d, Layout.is_leaf c = false ->
  forall q node w cl, CrownTrails.at_path c q node -> CrownProofs.get_data d q = Some w -> CrownTrails.offends info pol node w cl ->
    exists es, CrownSem.load info pol CrownSem.All c d = CrownSem.Group es /\ In (CrownSem.E cl q) es.
Proof. exact CrownTrails.model_all_complete. Qed.
Print Assumptions C05_model_all_reports_every_offence.

(* FIRST: exactly one error, with its full trail, and it is exact *)
Theorem C05_model_first_trail_exact : forall (info : CrownSem.finfos) (pol : Layout.policy) c d e,
  CrownSem.load info pol CrownSem.First c d = CrownSem.Single e -> CrownTrails.exact info pol c d [] e.
Proof. exact CrownTrails.model_first_trail_exact. Qed.
Print Assumptions C05_model_first_trail_exact.

(* DISABLE: no trail *)
Theorem C05_model_disable_no_trail : forall (info : CrownSem.finfos) (pol : Layout.policy) c d cl t,
  CrownSem.load info pol CrownSem.Disable c d = CrownSem.Single (CrownSem.E cl t) -> t = [].
Proof. exact CrownTrails.model_disable_no_trail. Qed.
Print Assumptions C05_model_disable_no_trail.

(* "reported exactly once": in a crown whose mapping nodes have pairwise distinct keys (CrownProofs.wf; the crown
   builder produces only such crowns: C03_accepted_layout_has_distinct_keys) the errors ALL collects are pairwise different - class with its key set / length
   and trail - so, with the completeness theorem above, every offence is reported once and only once *)
Theorem C05_model_all_errors_are_distinct : forall (info : CrownSem.finfos) (pol : Layout.policy) c d es, CrownProofs.wf c ->
  CrownSem.load info pol CrownSem.All c d = CrownSem.Group es -> NoDup es.
Proof. exact CrownOnce.model_all_errors_are_distinct. Qed.
Print Assumptions C05_model_all_errors_are_distinct.

(* the same for every layout the builder accepts, with no hypothesis left on the crown *)
Theorem C05_accepted_layout_reports_each_offence_once : forall stack fs c paths (info : CrownSem.finfos) (pol : Layout.policy) d es,
  Layout.make_layout stack false fs = Layout.Good c paths ->
  CrownSem.load info pol CrownSem.All c d = CrownSem.Group es -> NoDup es.
Proof. exact LayoutWf.accepted_layout_reports_each_offence_once. Qed.
Print Assumptions C05_accepted_layout_reports_each_offence_once.

(* non-vacuity: a flattened layout with a list node and three independent faults plus an unknown key *)
Example C05_model_trails_example :
  let info := fun i => {| CrownSem.fi_required := true; CrownSem.fi_default := 0 |} in
  let c := Layout.CDict [("a", Layout.CField 0); ("p", Layout.CDict [("q", Layout.CField 1); ("r", Layout.CField 2)]);
                         ("l", Layout.CList [Layout.CField 3; Layout.CField 4])]%string in
  let d := CrownSem.VDict [(Layout.KS "a", CrownSem.VStr "x"); (Layout.KS "p", CrownSem.VDict [(Layout.KS "q", CrownSem.VInt 1)]);
                           (Layout.KS "l", CrownSem.VList [CrownSem.VInt 3; CrownSem.VNone]); (Layout.KS "zz", CrownSem.VNone)]%string in
  CrownSem.load info Layout.Forbid CrownSem.All c d =
    CrownSem.Group [CrownSem.E CrownSem.TypeLE [Layout.KS "a"]; CrownSem.E (CrownSem.NoReqFields ["r"]) [Layout.KS "p"];
                    CrownSem.E CrownSem.TypeLE [Layout.KS "l"; Layout.KI 1]; CrownSem.E (CrownSem.ExtraFields [Layout.KS "zz"]) []]%string.
Proof. vm_compute. reflexivity. Qed.
