(* C03 - generated model loaders / dumpers honour the configured outer layout exactly.
   Statements only; proofs in Proofs/LayoutProofs.v (model: Model/Layout.v, Model/NameStyle.v) and Proofs/CrownProofs.v
   (model: Model/CrownSem.v). *)
From Coq Require Import List Arith Bool String.
From AV Require Import Model.NameStyle Model.Layout Model.CrownSem Proofs.LayoutProofs Proofs.CrownProofs.
Import ListNotations.
Local Open Scope list_scope.

(* ---- which path the rules assign: map > name_style / trim, skip > only, earlier providers override later ones ---- *)
Theorem C03_map_decides : forall sc out idx f gk r,
  generate_key sc idx (f_name f) = Some gk -> first_entry (f_name f) (s_map sc) = Some r ->
  map_field sc out idx f =
    match resolve gk r with Some p => if presented sc f then At p else Absent | None => Absent end.
Proof. exact map_decides. Qed.
Print Assumptions C03_map_decides.

Theorem C03_explicit_key_ignores_style : forall sc out idx f gk k,
  generate_key sc idx (f_name f) = Some gk -> first_entry (f_name f) (s_map sc) = Some (MPath [RK k]) ->
  presented sc f = true -> map_field sc out idx f = At [k].
Proof. exact explicit_key_ignores_style. Qed.
Print Assumptions C03_explicit_key_ignores_style.

Theorem C03_unmapped_gets_generated_key : forall sc out idx f gk,
  generate_key sc idx (f_name f) = Some gk -> first_entry (f_name f) (s_map sc) = None ->
  (out && String.prefix "_" (f_name f)) = false -> presented sc f = true ->
  map_field sc out idx f = At [gk].
Proof. exact unmapped_gets_generated_key. Qed.
Print Assumptions C03_unmapped_gets_generated_key.

Theorem C03_skip_beats_only : forall sc out idx f p,
  mem (f_name f) (s_skip sc) = true -> map_field sc out idx f <> At p.
Proof. exact skip_beats_only. Qed.
Print Assumptions C03_skip_beats_only.

Theorem C03_only_restricts : forall sc out idx f p l,
  s_only sc = Some l -> mem (f_name f) l = false -> map_field sc out idx f <> At p.
Proof. exact only_restricts. Qed.
Print Assumptions C03_only_restricts.

Theorem C03_earlier_overlay_wins : forall o rest,
  (forall b, o_trim o = Some b -> s_trim (provide_schema (o :: rest)) = b) /\
  (forall s, o_style o = Some s -> s_style (provide_schema (o :: rest)) = s) /\
  (forall b, o_as_list o = Some b -> s_as_list (provide_schema (o :: rest)) = b) /\
  (forall l, o_skip o = Some l -> s_skip (provide_schema (o :: rest)) = l) /\
  (forall l, o_only o = Some l -> s_only (provide_schema (o :: rest)) = l) /\
  (forall x, o_omit o = Some x -> s_omit (provide_schema (o :: rest)) = x) /\
  (forall x, o_extra_in o = Some x -> s_extra_in (provide_schema (o :: rest)) = x) /\
  (forall x, o_extra_out o = Some x -> s_extra_out (provide_schema (o :: rest)) = x).
Proof. exact earlier_overlay_wins. Qed.
Print Assumptions C03_earlier_overlay_wins.

Theorem C03_earlier_map_entries_first : forall o rest m,
  o_map o = Some m -> s_map (provide_schema (o :: rest)) = m ++ s_map (provide_schema rest).
Proof. exact earlier_map_entries_first. Qed.
Print Assumptions C03_earlier_map_entries_first.

(* ---- from the rules to the crown: for EVERY shape and EVERY stack of providers, whenever the layout is accepted, each
   presented field is found in the crown at exactly the path the rules gave it ---- *)
Theorem C03_layout_puts_every_field_at_its_path : forall stack output fs c paths,
  make_layout stack output fs = Good c paths ->
  forall f p, In (f, p) paths -> get c p = Some (CField f).
Proof. exact layout_puts_every_field_at_its_path. Qed.
Print Assumptions C03_layout_puts_every_field_at_its_path.

(* ---- from the crown to behaviour, for every crown, every datum, DISABLE and FIRST mode, every extra policy: a successful
   load took each field from exactly its path (or the default of an optional field whose key is absent), in crown order,
   and loaded nothing else ---- *)
Theorem C03_loader_reads_exact_paths : forall info pol md c, is_leaf c = false ->
  forall p d f0 f x, first info pol md c p d f0 = Go1 f x ->
    exists vals, f = f0 ++ vals /\ Forall2 (sourced info d) (leaves c) vals.
Proof. intros info pol md c. exact (loader_reads_exact_paths info pol md c). Qed.
Print Assumptions C03_loader_reads_exact_paths.

(* the same for EVERY debug mode - DebugTrail.ALL included - in terms of what [load] returns *)
Theorem C03_load_reads_exact_paths : forall info pol md c d fs x, is_leaf c = false ->
  load info pol md c d = Loaded fs x -> Forall2 (sourced info d) (leaves c) fs.
Proof. exact load_reads_exact_paths. Qed.
Print Assumptions C03_load_reads_exact_paths.

(* ---- the dumper writes every field at that same path; a field directly in a mapping node is left out exactly when its
   sieve applies and its value equals its default; list gaps are None ---- *)
Theorem C03_dumper_writes_exact_paths : forall value omit default c, wf c -> is_leaf c = false ->
  forall d, dump value omit default c = Some d -> placed value omit default d c.
Proof. exact dumper_writes_exact_paths. Qed.
Print Assumptions C03_dumper_writes_exact_paths.

Theorem C03_list_gaps_are_None : forall value omit default, dump value omit default CNone = Some VNone.
Proof. exact list_gaps_are_None. Qed.
Print Assumptions C03_list_gaps_are_None.

(* ---- round trip through the crown: loading what the dumper wrote gives back every field (and no extras), in DISABLE and
   FIRST mode, under every extra policy, with omit_default in force - provided a sieve exists only for an optional field
   and compares with the very default the loader supplies ---- *)
Theorem C03_load_dump_roundtrip : forall info pol val omit default,
  (forall i, omit i = true -> fi_required (info i) = false /\ fi_default (info i) = default i) ->
  forall md c d, md <> All -> wf c -> is_leaf c = false ->
  dump (fun i => Some (val i)) omit default c = Some d ->
  load info pol md c d = Loaded (expected val c) [].
Proof. exact load_dump_roundtrip. Qed.
Print Assumptions C03_load_dump_roundtrip.

(* ---- extras ---- *)
Theorem C03_collect_delivers_exactly_the_unknown_items : forall info md m p d f0 f x,
  m <> [] -> flat m -> first info Collect md (CDict m) p d f0 = Go1 f x -> x = unknown_items m d.
Proof. exact collect_delivers_exactly_the_unknown_items. Qed.
Print Assumptions C03_collect_delivers_exactly_the_unknown_items.

Theorem C03_forbid_reports_exactly_the_unknown_keys : forall info md m p d f0,
  (forall f x, first info Forbid md (CDict m) p d f0 = Go1 f x -> unknown_keys m d = [] /\ x = []) /\
  (forall ks t, first info Forbid md (CDict m) p d f0 = Stop (CrownSem.E (ExtraFields ks) t) ->
     flat m -> ks = unknown_keys m d /\ ks <> []).
Proof. exact forbid_reports_exactly_the_unknown_keys. Qed.
Print Assumptions C03_forbid_reports_exactly_the_unknown_keys.

Theorem C03_skip_delivers_nothing : forall info md c p d f0 f x, is_leaf c = false ->
  first info Skip md c p d f0 = Go1 f x -> x = [].
Proof. exact skip_delivers_nothing. Qed.
Print Assumptions C03_skip_delivers_nothing.

(* ---- non-vacuity: a nested layout with a list node and a gap, built from two providers ---- *)
Local Open Scope string_scope.
Definition ex_stack : list overlay :=
  [ {| o_map := Some [ {| e_names := ["b"]; e_res := MPath [RK (KS "n"); RK (KI 2)] |} ]; o_trim := None; o_style := None;
       o_as_list := None; o_skip := None; o_only := None; o_omit := None; o_extra_in := Some XForbid; o_extra_out := None |};
    {| o_map := Some [ {| e_names := ["a_"]; e_res := MPath [RK (KS "n"); RK (KI 0)] |};
                       {| e_names := ["b"]; e_res := MPath [RK (KS "ignored")] |} ];
       o_trim := None; o_style := Some (Some Camel); o_as_list := None; o_skip := None; o_only := None; o_omit := None;
       o_extra_in := Some XSkip; o_extra_out := None |} ].
Definition ex_fields : list fld :=
  [ {| f_id := 0; f_name := "a_"; f_required := true |}; {| f_id := 1; f_name := "b"; f_required := true |};
    {| f_id := 2; f_name := "user_name"; f_required := false |} ].
Example C03_nonvacuous :
  make_layout ex_stack false ex_fields =
    Good (CDict [("userName", CField 2); ("n", CList [CField 0; CNone; CField 1])])
         [(0, [KS "n"; KI 0]); (1, [KS "n"; KI 2]); (2, [KS "userName"])] /\
  load (fun i => {| fi_required := negb (Nat.eqb i 2); fi_default := 7 |}) Forbid First
       (CDict [("userName", CField 2); ("n", CList [CField 0; CNone; CField 1])])
       (VDict [(KS "n", VList [VInt 5; VStr "gap"; VInt 6])]) = Loaded [(2, 7); (0, 5); (1, 6)] [].
Proof. split; reflexivity. Qed.


(* every crown the layout builder accepts - after re-ordering - has pairwise distinct keys in each of its mapping nodes: the
   hypothesis `wf c` of the dumper / round-trip theorems above and of C05's "exactly once" holds of every layout produced *)
From AV Require Proofs.LayoutWf.
Theorem C03_accepted_layout_has_distinct_keys : forall stack output fs c paths,
  Layout.make_layout stack output fs = Layout.Good c paths -> CrownProofs.wf c.
Proof. exact LayoutWf.accepted_layout_has_distinct_keys. Qed.
Print Assumptions C03_accepted_layout_has_distinct_keys.
