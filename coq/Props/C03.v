(* C03 - generated model loaders / dumpers honour the configured outer layout exactly. (statements follow) *)
From Coq Require Import List String.
From AV Require Import Model.Layout Model.CrownSem.
