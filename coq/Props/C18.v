(* C18 - enum and flag representations are bijections on their members.
   Statements only; proofs in Proofs/EnumProofs.v, model in Model/Enum.v (flags as N bit sets). *)
From Coq Require Import List NArith ZArith Bool String.
From AV Require Import Model.Val Model.Enum Proofs.EnumProofs.
Import ListNotations.
Local Open Scope N_scope.

(* flag_by_member_names, either setting of allow_compound: dumping a value whose every bit lies in an admitted case
   that is inside the value, and loading the names back, returns the value *)
Theorem C18_flag_list_roundtrip : forall ac members v,
  covered (cases_for ac members) v -> flag_load (flag_dump ac members v) = v.
Proof. exact flag_list_roundtrip. Qed.
Print Assumptions C18_flag_list_roundtrip.

(* ... which holds for every combination of admitted members *)
Theorem C18_flag_combo_roundtrip : forall ac members chosen,
  incl chosen (cases_for ac members) -> flag_load (flag_dump ac members (lor_all chosen)) = lor_all chosen.
Proof. exact flag_combo_roundtrip. Qed.
Print Assumptions C18_flag_combo_roundtrip.

Theorem C18_flag_dump_names_only_members_inside : forall ac members v c,
  In c (flag_dump ac members v) -> In c (cases_for ac members) /\ sub c v = true.
Proof. exact flag_dump_sound. Qed.
Print Assumptions C18_flag_dump_names_only_members_inside.

(* flag_by_exact_value: accepted exactly the integers 0..mask; with no skipped bit each of them is a combination *)
Theorem C18_flag_exact_accepts_iff : forall mask z,
  flag_exact_accepts mask z = true <-> (0 <= z <= Z.of_N mask)%Z.
Proof. exact flag_exact_accepts_iff. Qed.
Print Assumptions C18_flag_exact_accepts_iff.
Theorem C18_flag_exact_range_is_combinations : forall mask n,
  no_skipped_bits mask = true -> n <= mask -> N.land n mask = n.
Proof. exact flag_exact_in_range_is_combination. Qed.
Print Assumptions C18_flag_exact_range_is_combinations.

(* enum by exact value: the lookup table inverts member -> value when the values are pairwise != *)
Theorem C18_enum_exact_roundtrip : forall values m v,
  distinct_values values -> nth_error values m = Some v -> hashable v = true ->
  enum_exact_dump values m = Some v /\ enum_exact_load values v = Some m.
Proof. exact enum_exact_roundtrip. Qed.
Print Assumptions C18_enum_exact_roundtrip.

(* the coverage hypothesis is needed: a bit that exists only inside a compound member *)
Theorem C18_uncovered_refuted : flag_load (flag_dump true [1; 6] 2) <> 2.
Proof. exact uncovered_refuted. Qed.
Print Assumptions C18_uncovered_refuted.

(* ---- enum_by_name (name_style / map): Model/Enum.v's name_mapping_from / name_dump / name_load, tied to the library by
   correspondence on random enums, maps and styles.  With pairwise different strings the representation is a bijection on
   the members and the loader accepts exactly the strings of the table; a map that gives two members one string is not
   (the earlier member loads back as the later one: refuted, a configuration the library does not reject) ---- *)
From AV Require Proofs.EnumNameProofs.
Theorem C18_by_name_is_bijection : forall style by_member by_name names mapping,
  Enum.name_mapping_from style by_member by_name 0 names = Some mapping -> NoDup (map snd mapping) ->
  forall m s, In (m, s) mapping -> Enum.name_dump mapping m = Some s /\ Enum.name_load mapping s = Some m.
Proof. exact EnumNameProofs.generated_by_name_is_bijection. Qed.
Print Assumptions C18_by_name_is_bijection.

Theorem C18_by_name_accepts_exactly_the_names : forall mapping s,
  (exists m, Enum.name_load mapping s = Some m) <-> In s (map snd mapping).
Proof. exact EnumNameProofs.by_name_accepts_iff. Qed.
Print Assumptions C18_by_name_accepts_exactly_the_names.

Theorem C18_by_name_collision_refuted : exists mapping m s,
  In (m, s) mapping /\ Enum.name_dump mapping m = Some s /\ Enum.name_load mapping s <> Some m.
Proof. exact EnumNameProofs.by_name_collision_refuted. Qed.
Print Assumptions C18_by_name_collision_refuted.
