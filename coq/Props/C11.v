(* C11 - results never depend on call history; retorts are immutable.
   Statements only; proofs in Proofs/CacheProofs.v (model: Model/Cache.v) and Proofs/CacheSites.v. *)
From Coq Require Import List Arith Bool String.
From AV Require Import Model.Cache Proofs.CacheProofs Proofs.CacheSites.
From AV Require Import Generated.CachedCallSites.
Import ListNotations.

(* Requests are trees of cached_call sites; keys are (site, constants compared as the dict compares them, sub-closures
   by identity).  If every site is key-sound - ==-equal constants give the same closure meaning - then whatever was
   requested before (any state reachable from the empty cache), a request returns a closure with the meaning a fresh
   retort would give, and leaves the invariant intact for the next request. *)
Theorem C11_history_independent : forall (cst : Type) (ceq : cst -> cst -> bool) (D : Type)
  (combine : nat -> list cst -> list D -> D),
  (forall s cs cs' ds, ceq_list ceq cs cs' = true -> combine s cs ds = combine s cs' ds) ->
  forall r st, Inv cst D combine st ->
    Inv cst D combine (snd (exec ceq combine r st)) /\ extends cst D st (snd (exec ceq combine r st)) /\
    den (heap (snd (exec ceq combine r st))) (fst (exec ceq combine r st)) = Some (sem combine r).
Proof. intros cst ceq D combine KS r. exact (history_independent cst ceq D combine KS r). Qed.
Print Assumptions C11_history_independent.

(* the list of cached_call sites found in /repo now is the reviewed list, argument by argument *)
Theorem C11_all_sites_audited :
  map (fun s => (fst s, map fst (snd s))) audited_sites = cached_call_sites.
Proof. exact all_sites_audited. Qed.
Print Assumptions C11_all_sites_audited.

(* the empty cache satisfies the invariant, so the theorem applies to every reachable state *)
Theorem C11_fresh_retort_satisfies_invariant : forall (cst D : Type) (combine : nat -> list cst -> list D -> D),
  Inv cst D combine {| cache := []; heap := []; next := 0 |}.
Proof. intros. split; [intros j d []|intros k i []]. Qed.
Print Assumptions C11_fresh_retort_satisfies_invariant.

Theorem C11_cache_is_the_modelled_one : cached_call_impl = reviewed_cached_call.
Proof. exact cache_is_the_modelled_one. Qed.
Print Assumptions C11_cache_is_the_modelled_one.

(* replace() / extend(): the code that makes a clone is the reviewed one - a copy whose caches are re-created empty *)
Theorem C11_clone_starts_with_empty_caches : clone_code = reviewed_clone_code.
Proof. exact clone_code_is_the_reviewed_one. Qed.
Print Assumptions C11_clone_starts_with_empty_caches.


(* the classes whose instances make up the cache keys (shapes, fields, accessors, crowns / name layouts) compare as
   reviewed: frozen dataclasses comparing all their fields (only the derived `fields_dict` is left out), hand-written
   __hash__ coarser than equality, accessors compared by everything that reaches generated code.  The list is regenerated
   from /repo on every run; a change that takes a field out of the comparison breaks this obligation *)
From AV Require Generated.CacheKeyClasses Proofs.CacheKeysAudit.
Theorem C11_cache_key_classes_are_the_reviewed_ones :
  CacheKeyClasses.cache_key_classes = CacheKeysAudit.reviewed_cache_key_classes.
Proof. exact CacheKeysAudit.cache_key_classes_are_the_reviewed_ones. Qed.
Print Assumptions C11_cache_key_classes_are_the_reviewed_ones.
