(* C16 - generic models: type arguments are substituted through the class hierarchy.
   Statements only; proofs in Proofs/GenericProofs.v, model in Model/Generic.v. *)
From Coq Require Import List Arith Bool.
From AV Require Import Model.Generic Proofs.GenericProofs Proofs.GenericMore.
Import ListNotations.

(* for every well-formed class table (annotations mention only the class's own parameters; every base is applied to as
   many arguments as it has parameters), however the variables are threaded, re-ordered, partially bound or shadowed:
   the resolver's type for a field is its annotation in the defining class with every variable replaced by what the
   parametrisation binds it to *)
Theorem C16_resolver_is_substitution : forall table, (forall C, wf_cls table C) ->
  forall fuel C args f, List.length args = List.length (params (table C)) ->
  resolve table fuel C args f = spec table fuel C args f.
Proof. exact resolver_is_substitution. Qed.
Print Assumptions C16_resolver_is_substitution.

(* substituting into the arguments afterwards is the same as resolving with the substituted arguments: nested
   parametrisations compose *)
Theorem C16_substitution_composes : forall table, (forall C, wf_cls table C) ->
  forall s fuel C args f, List.length args = List.length (params (table C)) ->
  option_map (subst s) (spec table fuel C args f) = spec table fuel C (map (subst s) args) f.
Proof. intros table WF s. exact (spec_subst table WF s). Qed.
Print Assumptions C16_substitution_composes.


(* "every type variable replaced": with arguments that mention no variable, the type used for a field mentions none *)
Theorem C16_resolved_type_has_no_variable : forall table, (forall C, wf_cls table C) ->
  forall fuel C args f t, List.length args = List.length (params (table C)) ->
  Forall (fun a => closed a = true) args -> resolve table fuel C args f = Some t -> closed t = true.
Proof. exact resolved_type_has_no_variable. Qed.
Print Assumptions C16_resolved_type_has_no_variable.

(* "shadowed by an overriding annotation": the class's own annotation decides, whatever its bases declare *)
Theorem C16_own_annotation_shadows : forall table, (forall C, wf_cls table C) ->
  forall fuel C args f t, List.length args = List.length (params (table C)) ->
  assoc f (own (table C)) = Some t -> resolve table (S fuel) C args f = Some (subst (bind table C args) t).
Proof. exact own_annotation_shadows. Qed.
Print Assumptions C16_own_annotation_shadows.

(* "threaded through (multi-level) inheritance": an inherited field is the field of the first base that has it, that base
   applied to its arguments as written in the class with the class's own parameters substituted *)
Theorem C16_inherited_through_base : forall table, (forall C, wf_cls table C) ->
  forall fuel C args f, List.length args = List.length (params (table C)) ->
  assoc f (own (table C)) = None ->
  resolve table (S fuel) C args f =
  first_some (map (fun b => resolve table fuel (fst b) (map (subst (bind table C args)) (snd b)) f) (bases (table C))).
Proof. exact inherited_through_base. Qed.
Print Assumptions C16_inherited_through_base.

(* "or left bare": the implicit parameter of each variable (Any, the bound, the union of the constraints - C15 proves
   which) takes the place of the missing argument, and no variable survives *)
Theorem C16_bare_is_implicit_substitution : forall table, (forall C, wf_cls table C) -> forall implicit fuel C f,
  resolve_bare table implicit fuel C f = spec table fuel C (map implicit (params (table C))) f.
Proof. exact bare_is_implicit_substitution. Qed.
Print Assumptions C16_bare_is_implicit_substitution.

Theorem C16_bare_has_no_variable : forall table, (forall C, wf_cls table C) -> forall implicit,
  (forall v, closed (implicit v) = true) -> forall fuel C f t, resolve_bare table implicit fuel C f = Some t -> closed t = true.
Proof. exact bare_has_no_variable. Qed.
Print Assumptions C16_bare_has_no_variable.
