(* C16 - generic models: type arguments are substituted through the class hierarchy.
   Statements only; proofs in Proofs/GenericProofs.v, model in Model/Generic.v. *)
From Coq Require Import List Arith Bool.
From AV Require Import Model.Generic Proofs.GenericProofs.
Import ListNotations.

(* for every well-formed class table (annotations mention only the class's own parameters; every base is applied to as
   many arguments as it has parameters), however the variables are threaded, re-ordered, partially bound or shadowed:
   the resolver's type for a field is its annotation in the defining class with every variable replaced by what the
   parametrisation binds it to *)
Theorem C16_resolver_is_substitution : forall table, (forall C, wf_cls table C) ->
  forall fuel C args f, List.length args = List.length (params (table C)) ->
  resolve table fuel C args f = spec table fuel C args f.
Proof. exact resolver_is_substitution. Qed.
Print Assumptions C16_resolver_is_substitution.

(* substituting into the arguments afterwards is the same as resolving with the substituted arguments: nested
   parametrisations compose *)
Theorem C16_substitution_composes : forall table, (forall C, wf_cls table C) ->
  forall s fuel C args f, List.length args = List.length (params (table C)) ->
  option_map (subst s) (spec table fuel C args f) = spec table fuel C (map (subst s) args) f.
Proof. intros table WF s. exact (spec_subst table WF s). Qed.
Print Assumptions C16_substitution_composes.
