(* C04 - invalid input raises LoadError and nothing else.
   Statements only. For the container / union / literal / basic scalar fragment of Model/Load.v the theorem is
   universal (all types, all data, all six configurations). For the remaining builtin scalars the obligation is that
   the except clauses found in the source (Generated/ScalarLoaders.v, regenerated every run) cover the exception
   classes their standard-library constructor raises; those ranges are established by the oracle conformance test. *)
From Coq Require Import List ZArith Bool String.
From AV Require Import Model.Val Model.Load Proofs.LoadProofs Proofs.TableProofs.
Import ListNotations.

Theorem C04_only_load_error : forall (U : nat -> pv -> res), (forall n v, no_exn (U n v)) -> forall md sc t v, match load U md sc t v with Exn _ => False | _ => True end.
Proof. exact load_raises_only_load_error. Qed.
Print Assumptions C04_only_load_error.

Theorem C04_scalar_handlers_cover_constructor_errors :
  forallb (fun p => forallb (fun e => mem e (handlers_of (fst p))) (snd p)) required_handlers = true.
Proof. exact scalar_loaders_translate_constructor_errors. Qed.
Print Assumptions C04_scalar_handlers_cover_constructor_errors.
