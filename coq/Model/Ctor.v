(* C08 - the constructor call of a generated model loader, Python's argument binding, and default rendering.
   Mirrors morphing/model/loader_gen.py (_gen_constructor_call, _is_packed_field, _get_default_clause_expr) and
   code_tools/utils.py (get_literal_expr, get_literal_from_factory).  Executable; no proofs here. *)
From Coq Require Import List Arith ZArith Bool NArith.
Import ListNotations.

(* ------------------------------------------------------------------------------------------------------------------ *)
(* Python values that can be declared as defaults *)

Inductive fl := FHalf (h : Z) | FNegZero | FNan | FPosInf | FNegInf.      (* FHalf h = h/2 *)

Inductive val :=
| VInt (z : Z) | VBool (b : bool) | VNone | VEllipsis | VNotImpl
| VFloat (f : fl)
| VStr (s : list N) | VBytes (s : list N) | VByteArray (s : list N)
| VLook (cls : nat) (z : Z)       (* instance of another class that compares (and hashes) equal to the int z:
                                     Decimal, Fraction, complex, an IntEnum member, an int subclass *)
| VBuiltin (name : nat)           (* a function or class of the builtins module, e.g. len, int *)
| VList (l : list val) | VTuple (l : list val)
| VSet (l : list Z) | VFrozenset (l : list Z)       (* int elements in increasing order *)
| VDict (l : list (val * val))
| VRange (a b c : Z) | VSlice (a b c : val)
| VObj (id : nat)                 (* any other object, known by identity *)
| VMade (factory call : nat)      (* result of the call-th invocation of a user factory *)
| VHidden (id : nat).             (* what the class itself produces for a hidden default *)

Inductive bname := NTrue | NFalse | NNone | NEllipsis | NNotImplemented | NOther (n : nat).

Inductive expr :=
| EInt (z : Z) | EFloat (h : Z) | ENegZero | EStr (s : list N) | EBytes (s : list N) | EByteArray (s : list N)
| EName (n : bname)
| EList (l : list expr) | ETuple (l : list expr) | EParen (e : expr)
| ESet (l : list Z) | EEmptySet | EFrozenset (l : list Z) | EEmptyFrozenset
| EDict (l : list (expr * expr))
| ECallRange (a b c : expr) | ECallSlice (a b c : expr).

(* how the three quirks of the code as it was are switched on (all false = the code as it is now) *)
Record quirks := { by_eq : bool; swapped : bool; bare_single : bool }.
Definition as_is := {| by_eq := false; swapped := false; bare_single := false |}.
Definition as_was := {| by_eq := true; swapped := true; bare_single := true |}.

Section Literal.
Variable q : quirks.

(* BUILTIN_TO_NAME[obj]: a dict lookup (hash and ==), then - now - an identity test on what was found *)
Definition builtin_name (v : val) : option bname :=
  match v with
  | VBool true => Some NTrue | VBool false => Some NFalse
  | VNone => Some NNone | VEllipsis => Some NEllipsis | VNotImpl => Some NNotImplemented
  | VBuiltin n => Some (NOther n)
  | VLook _ 1 => if by_eq q then Some NTrue else None
  | VLook _ 0 => if by_eq q then Some NFalse else None
  | _ => None
  end.

Fixpoint all_some {A} (l : list (option A)) : option (list A) :=
  match l with
  | [] => Some []
  | None :: _ => None
  | Some x :: r => match all_some r with Some r' => Some (x :: r') | None => None end
  end.

Definition three (l : list expr) : option (expr * expr * expr) :=
  match l with [a; b; c] => Some (a, b, c) | _ => None end.

Fixpoint literal_expr (v : val) : option expr :=
  match v with
  | VInt z => Some (EInt z)
  | VStr s => Some (EStr s)
  | VBytes s => Some (EBytes s)
  | VByteArray s => Some (EByteArray s)
  | VFloat (FHalf h) => Some (EFloat h)
  | VFloat FNegZero => Some ENegZero
  | VFloat _ => None
  | _ =>
    match builtin_name v with
    | Some n => Some (EName n)
    | None =>
      match v with
      | VList l => option_map EList (all_some (map literal_expr l))
      | VTuple l =>
          match all_some (map literal_expr l) with
          | Some [e] => if bare_single q then Some (EParen e) else Some (ETuple [e])
          | Some es => Some (ETuple es)
          | None => None
          end
      | VSet [] => Some EEmptySet
      | VSet l => Some (ESet l)
      | VFrozenset [] => Some EEmptyFrozenset
      | VFrozenset l => Some (EFrozenset l)
      | VSlice a b c =>
          match literal_expr a, literal_expr b, literal_expr c with
          | Some ea, Some eb, Some ec => if swapped q then Some (ECallSlice ea ec eb) else Some (ECallSlice ea eb ec)
          | _, _, _ => None
          end
      | VRange a b c => if swapped q then Some (ECallRange (EInt a) (EInt c) (EInt b))
                        else Some (ECallRange (EInt a) (EInt b) (EInt c))
      | VDict l =>
          option_map EDict (all_some (map (fun kv =>
            match literal_expr (fst kv), literal_expr (snd kv) with
            | Some k, Some x => Some (k, x) | _, _ => None end) l))
      | _ => None
      end
    end
  end.
End Literal.

(* what Python evaluates such an expression to (the expressions above use nothing but literals, displays and the
   builtin names, which the generated module never rebinds - C19) *)
Definition of_name (n : bname) : val :=
  match n with
  | NTrue => VBool true | NFalse => VBool false | NNone => VNone | NEllipsis => VEllipsis
  | NNotImplemented => VNotImpl | NOther k => VBuiltin k
  end.

Definition as_int (v : val) : Z := match v with VInt z => z | _ => 0%Z end.

Fixpoint eval (e : expr) : val :=
  match e with
  | EInt z => VInt z
  | EFloat h => VFloat (FHalf h)
  | ENegZero => VFloat FNegZero
  | EStr s => VStr s
  | EBytes s => VBytes s
  | EByteArray s => VByteArray s
  | EName n => of_name n
  | EList l => VList (map eval l)
  | ETuple l => VTuple (map eval l)
  | EParen e => eval e
  | ESet l => VSet l
  | EEmptySet => VSet []
  | EFrozenset l => VFrozenset l
  | EEmptyFrozenset => VFrozenset []
  | EDict l => VDict (map (fun kv => (eval (fst kv), eval (snd kv))) l)
  | ECallRange a b c => VRange (as_int (eval a)) (as_int (eval b)) (as_int (eval c))
  | ECallSlice a b c => VSlice (eval a) (eval b) (eval c)
  end.

(* ------------------------------------------------------------------------------------------------------------------ *)
(* defaults *)

Inductive factory := FacList | FacDict | FacTuple | FacStr | FacBytes | FacNoneType | FacUser (id : nat).
Inductive default :=
| NoDefault                    (* required *)
| DValue (v : val) | DFactory (f : factory)
| DHidden (id : nat).          (* optional, but the default is the class's own business (attrs Factory(takes_self=True),
                                  a TypedDict key that is not required): InputField.default = NoDefault, is_optional *)

Inductive clause := CExpr (e : expr) | CConst (v : val) | CCall (f : nat).

Definition factory_literal (f : factory) : option expr :=
  match f with
  | FacList => Some (EList []) | FacDict => Some (EDict []) | FacTuple => Some (ETuple [])
  | FacStr => Some (EStr []) | FacBytes => Some (EBytes []) | FacNoneType => Some (EName NNone)
  | FacUser _ => None
  end.

Definition default_clause (q : quirks) (d : default) : option clause :=
  match d with
  | NoDefault | DHidden _ => None
  | DValue v => match literal_expr q v with Some e => Some (CExpr e) | None => Some (CConst v) end
  | DFactory f => match factory_literal f with
                  | Some e => Some (CExpr e)
                  | None => match f with FacUser id => Some (CCall id) | _ => None end
                  end
  end.

(* running a clause: [n] counts the factory calls made so far *)
Definition run_clause (c : clause) (n : nat) : val * nat :=
  match c with
  | CExpr e => (eval e, n)
  | CConst v => (v, n)
  | CCall f => (VMade f n, S n)
  end.

(* what the model class itself produces for the declared default *)
Definition own_default (d : default) (n : nat) : option (val * nat) :=
  match d with
  | NoDefault => None
  | DHidden i => Some (VHidden i, n)
  | DValue v => Some (v, n)
  | DFactory FacList => Some (VList [], n) | DFactory FacDict => Some (VDict [], n)
  | DFactory FacTuple => Some (VTuple [], n) | DFactory FacStr => Some (VStr [], n)
  | DFactory FacBytes => Some (VBytes [], n) | DFactory FacNoneType => Some (VNone, n)
  | DFactory (FacUser f) => Some (VMade f n, S n)
  end.

(* ------------------------------------------------------------------------------------------------------------------ *)
(* the constructor call *)

Inductive kind := PosOnly | PosOrKw | KwOnly.
Definition kind_rank (k : kind) : nat := match k with PosOnly => 0 | PosOrKw => 1 | KwOnly => 3 end.
Definition is_kw (k : kind) := match k with KwOnly => true | _ => false end.
Definition is_posonly (k : kind) := match k with PosOnly => true | _ => false end.

Record fld := { fid : nat; pname : nat; pkind : kind; fdefault : default; fskipped : bool }.
Definition frequired (f : fld) : bool := match fdefault f with NoDefault => true | _ => false end.

Definition is_packed (f : fld) : bool :=          (* _is_packed_field with use_default_for_omitted = True *)
  match fdefault f with DHidden _ => true | _ => false end.

Inductive arg := Pos (v : val) | Kw (name : nat) (v : val).

Definition lookup {A} (k : nat) (l : list (nat * A)) : option A :=
  option_map snd (find (fun p => Nat.eqb (fst p) k) l).

(* run time: which value each field variable holds once the body of the generated loader has run.
   None = a required field is missing (NoRequiredFieldsLoadError, no constructor call at all) *)
Inductive status := SSkipped | SPacked (v : option val) | SPassed (v : val).

Section Call.
Variable q : quirks.
Variable data : list (nat * val).          (* field id -> loaded value, for the fields present in the input *)

Definition field_value (f : fld) (n : nat) : option (val * nat) :=
  match lookup (fid f) data with
  | Some v => Some (v, n)
  | None => match default_clause q (fdefault f) with Some c => Some (run_clause c n) | None => None end
  end.

Fixpoint assign (fs : list fld) (n : nat) : option (list (fld * status) * nat) :=
  match fs with
  | [] => Some ([], n)
  | f :: r =>
    if fskipped f then option_map (fun p => ((f, SSkipped) :: fst p, snd p)) (assign r n)
    else if is_packed f then option_map (fun p => ((f, SPacked (lookup (fid f) data)) :: fst p, snd p)) (assign r n)
    else match field_value f n with
         | None => None
         | Some (v, n1) => option_map (fun p => ((f, SPassed v) :: fst p, snd p)) (assign r n1)
         end
  end.
End Call.

(* generation time: _gen_constructor_call decides how each field variable is handed over.
   packed_sets_flag: true = the code as it is now; false = as it was *)
Fixpoint arrange (packed_sets_flag : bool) (skipped : bool) (l : list (fld * status)) : list arg * list (nat * val) :=
  match l with
  | [] => ([], [])
  | (f, st) :: r =>
    match st with
    | SSkipped => arrange packed_sets_flag true r
    | SPacked ov =>
        let (args, packed) := arrange packed_sets_flag (if packed_sets_flag then true else skipped) r in
        (args, match ov with Some v => (pname f, v) :: packed | None => packed end)
    | SPassed v =>
        let (args, packed) := arrange packed_sets_flag skipped r in
        ((if is_kw (pkind f) || skipped then Kw (pname f) v else Pos v) :: args, packed)
    end
  end.

(* ---- Python's binding of a call to a signature: (parameter name, value) for every parameter that got an argument *)
Fixpoint bind_pos (sig : list fld) (pos : list val) {struct pos} : option (list (nat * val)) :=
  match pos with
  | [] => Some []
  | v :: pr => match sig with
      | [] => None                                                    (* too many positional arguments *)
      | p :: sr => if is_kw (pkind p) then None                       (* positional given to a keyword-only *)
                   else option_map (cons (pname p, v)) (bind_pos sr pr) end end.

Fixpoint find_param (n : nat) (sig : list fld) : option fld :=
  match sig with [] => None | p :: r => if Nat.eqb (pname p) n then Some p else find_param n r end.

Fixpoint bind_kw (sig : list fld) (bound : list (nat * val)) (kws : list (nat * val)) : option (list (nat * val)) :=
  match kws with
  | [] => Some bound
  | (n, v) :: r => match find_param n sig with
      | None => None                                                  (* unexpected keyword argument *)
      | Some p => if is_posonly (pkind p) then None
                  else if existsb (fun b => Nat.eqb (fst b) n) bound then None    (* multiple values *)
                  else bind_kw sig (bound ++ [(n, v)]) r end end.

Definition positional (l : list arg) := flat_map (fun a => match a with Pos v => [v] | _ => [] end) l.
Definition keywords (l : list arg) := flat_map (fun a => match a with Kw n v => [(n, v)] | _ => [] end) l.

Definition bind (sig : list fld) (args : list arg) (packed : list (nat * val)) : option (list (nat * val)) :=
  match bind_pos sig (positional args) with
  | Some b => bind_kw sig b (keywords args ++ packed)
  | None => None
  end.

(* the object the real constructor then builds: bound parameters as given, the others by the class's own default *)
Fixpoint construct (sig : list fld) (bound : list (nat * val)) (n : nat) : option (list (nat * val) * nat) :=
  match sig with
  | [] => Some ([], n)
  | p :: r =>
    match lookup (pname p) bound with
    | Some v => match construct r bound n with Some (o, n') => Some ((fid p, v) :: o, n') | None => None end
    | None => match own_default (fdefault p) n with
              | Some (v, n1) => match construct r bound n1 with Some (o, n') => Some ((fid p, v) :: o, n') | None => None end
              | None => None                      (* missing required argument: TypeError *)
              end
    end
  end.

Inductive outcome := Built (obj : list (nat * val)) (factory_calls : nat) | MissingRequired | CallError.

(* n0 = number of user-factory calls made before this load *)
Definition load_ctor_from (n0 : nat) (q : quirks) (flag : bool) (fs : list fld) (data : list (nat * val)) : outcome :=
  match assign q data fs n0 with
  | None => MissingRequired
  | Some (sts, n) =>
    let (args, packed) := arrange flag false sts in
    match bind fs args packed with
    | None => CallError
    | Some b => match construct fs b n with Some (o, n') => Built o n' | None => CallError end
    end
  end.

Definition load_ctor := load_ctor_from 0.
