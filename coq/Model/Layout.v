(* C03 - from a model shape and a stack of name_mapping providers to the crown.
   Mirrors morphing/name_layout/component.py (BuiltinStructureMaker, overlay merging of provider/overlay_schema.py,
   name_mapping.py resolve_map_result) and crown_builder.py.  Executable; no proofs here. *)
From Coq Require Import List Arith Bool String Ascii.
From AV Require Import Model.NameStyle.
Import ListNotations.
Local Open Scope string_scope.
Local Open Scope list_scope.

Inductive key := KS (s : string) | KI (n : nat).
Definition path := list key.
Definition key_eqb (a b : key) : bool :=
  match a, b with KS x, KS y => String.eqb x y | KI x, KI y => Nat.eqb x y | _, _ => false end.
Fixpoint path_eqb (p q : path) : bool :=
  match p, q with
  | [], [] => true
  | a :: p', b :: q' => key_eqb a b && path_eqb p' q'
  | _, _ => false
  end.
Fixpoint is_prefix (p q : path) : bool :=       (* p is a proper or improper prefix of q *)
  match p, q with
  | [], _ => true
  | a :: p', b :: q' => key_eqb a b && is_prefix p' q'
  | _, [] => false
  end.

(* ---- one name_mapping provider ---- *)
Inductive raw := RK (k : key) | RDots.                    (* ... stands for the generated key *)
Inductive mres := MSkip | MPath (l : list raw).           (* None | key | ... | path *)
Record entry := { e_names : list string; e_res : mres }.  (* the field ids an entry of `map` applies to *)

Inductive omit_spec := OmitAll | OmitNone | OmitNames (l : list string).
Inductive xin := XSkip | XForbid | XCollect (targets : list string).      (* kwargs / saturator: XCollect [] *)

Record overlay := {
  o_map : option (list entry);
  o_trim : option bool;
  o_style : option (option style);
  o_as_list : option bool;
  o_skip : option (list string);
  o_only : option (option (list string));                 (* Some None = P.ANY *)
  o_omit : option omit_spec;
  o_extra_in : option xin;
  o_extra_out : option (list string);                     (* target fields; [] = ExtraSkip *)
}.

Record schema := {
  s_map : list entry; s_trim : bool; s_style : option style; s_as_list : bool;
  s_skip : list string; s_only : option (list string);
  s_omit : omit_spec; s_extra_in : xin; s_extra_out : list string;
}.

Definition first_some {A} (a b : option A) : option A := match a with Some _ => a | None => b end.

(* Overlay.merge along the recipe with Chain.FIRST: the earlier provider wins, maps are concatenated earlier-first *)
Definition merge (earlier later : overlay) : overlay :=
  {| o_map := match o_map earlier, o_map later with
              | Some a, Some b => Some (a ++ b) | Some a, None => Some a | None, b => b end;
     o_trim := first_some (o_trim earlier) (o_trim later);
     o_style := first_some (o_style earlier) (o_style later);
     o_as_list := first_some (o_as_list earlier) (o_as_list later);
     o_skip := first_some (o_skip earlier) (o_skip later);
     o_only := first_some (o_only earlier) (o_only later);
     o_omit := first_some (o_omit earlier) (o_omit later);
     o_extra_in := first_some (o_extra_in earlier) (o_extra_in later);
     o_extra_out := first_some (o_extra_out earlier) (o_extra_out later) |}.

(* the defaults at the bottom of every retort's recipe *)
Definition default_overlay : overlay :=
  {| o_map := Some []; o_trim := Some true; o_style := Some None; o_as_list := Some false;
     o_skip := Some []; o_only := Some None; o_omit := Some OmitNone; o_extra_in := Some XSkip; o_extra_out := Some [] |}.

Definition to_schema (o : overlay) : schema :=
  {| s_map := match o_map o with Some m => m | None => [] end;
     s_trim := match o_trim o with Some b => b | None => true end;
     s_style := match o_style o with Some s => s | None => None end;
     s_as_list := match o_as_list o with Some b => b | None => false end;
     s_skip := match o_skip o with Some l => l | None => [] end;
     s_only := match o_only o with Some l => l | None => None end;
     s_omit := match o_omit o with Some x => x | None => OmitNone end;
     s_extra_in := match o_extra_in o with Some x => x | None => XSkip end;
     s_extra_out := match o_extra_out o with Some l => l | None => [] end |}.

Definition provide_schema (stack : list overlay) : schema := to_schema (fold_right merge default_overlay stack).

(* ---- fields ---- *)
Record fld := { f_id : nat; f_name : string; f_required : bool }.

Definition mem (s : string) (l : list string) : bool := existsb (String.eqb s) l.

(* _generate_key *)
Definition generate_key (sc : schema) (index : nat) (name : string) : option key :=
  if s_as_list sc then Some (KI index)
  else match gen_key (s_trim sc) (s_style sc) name with Some k => Some (KS k) | None => None end.

Definition resolve (gk : key) (r : mres) : option path :=
  match r with
  | MSkip => None
  | MPath l => Some (map (fun x => match x with RK k => k | RDots => gk end) l)
  end.

Fixpoint first_entry (name : string) (m : list entry) : option mres :=
  match m with
  | [] => None
  | e :: r => if mem name (e_names e) then Some (e_res e) else first_entry name r
  end.

Inductive mapped := Absent | At (p : path) | StyleError.

(* _map_fields for one field; private fields are dropped on output by the default map *)
Definition map_field (sc : schema) (output : bool) (index : nat) (f : fld) : mapped :=
  match generate_key sc index (f_name f) with
  | None => StyleError
  | Some gk =>
    let p := match first_entry (f_name f) (s_map sc) with
             | Some r => resolve gk r
             | None => if output && String.prefix "_" (f_name f) then None else Some [gk]
             end in
    match p with
    | None => Absent
    | Some p' =>
        if negb (mem (f_name f) (s_skip sc)) &&
           match s_only sc with None => true | Some l => mem (f_name f) l end
        then At p' else Absent
    end
  end.

(* ---- the crown ---- *)
Inductive crown := CField (id : nat) | CNone | CDict (m : list (string * crown)) | CList (m : list crown).

Fixpoint upsert (k : string) (f : crown -> crown) (m : list (string * crown)) : list (string * crown) :=
  match m with
  | [] => [(k, f CNone)]
  | (k', c) :: r => if String.eqb k k' then (k', f c) :: r else (k', c) :: upsert k f r
  end.

Fixpoint set_nth (i : nat) (f : crown -> crown) (m : list crown) : list crown :=
  match i, m with
  | O, [] => [f CNone]
  | O, c :: r => f c :: r
  | S i', [] => CNone :: set_nth i' f []                  (* gaps are filled with None placeholders *)
  | S i', c :: r => c :: set_nth i' f r
  end.

Fixpoint insert (p : path) (leaf : crown) (t : crown) : crown :=
  match p with
  | [] => leaf
  | KS k :: r => CDict (upsert k (insert r leaf) (match t with CDict m => m | _ => [] end))
  | KI i :: r => CList (set_nth i (insert r leaf) (match t with CList m => m | _ => [] end))
  end.

(* key order inside a dict node: fields directly at the node in definition order, then sub-nodes by sorted key *)
Fixpoint insert_sorted (kc : string * crown) (l : list (string * crown)) : list (string * crown) :=
  match l with
  | [] => [kc]
  | x :: r => if String.leb (fst kc) (fst x) then kc :: l else x :: insert_sorted kc r
  end.
Definition is_leaf (c : crown) : bool := match c with CField _ | CNone => true | _ => false end.

Fixpoint reorder (c : crown) : crown :=
  match c with
  | CDict m =>
      let m' := map (fun kc => (fst kc, reorder (snd kc))) m in
      CDict (filter (fun kc => is_leaf (snd kc)) m' ++
             fold_right insert_sorted [] (filter (fun kc => negb (is_leaf (snd kc))) m'))
  | CList m => CList (map reorder m)
  | _ => c
  end.

(* ---- validation (_validate_structure, _get_paths_to_list, make_inp_structure, make_extra_policies) ---- *)
Fixpoint pairwise {A} (bad : A -> A -> bool) (l : list A) : bool :=          (* some pair is bad *)
  match l with [] => false | x :: r => existsb (fun y => bad x y || bad y x) r || pairwise bad r end.

(* a node reached by a dict key from one path and by a list index from another *)
Fixpoint kinds_clash (p q : path) : bool :=
  match p, q with
  | KS a :: p', KS b :: q' => String.eqb a b && kinds_clash p' q'
  | KI a :: p', KI b :: q' => Nat.eqb a b && kinds_clash p' q'
  | KS _ :: _, KI _ :: _ | KI _ :: _, KS _ :: _ => true
  | _, _ => false
  end.

Definition last_is_index (p : path) : bool := match rev p with KI _ :: _ => true | _ => false end.
Definition has_index (p : path) : bool := existsb (fun k => match k with KI _ => true | _ => false end) p.

Inductive policy := Skip | Forbid | Collect.

Inductive layout := Bad (why : string) | Good (c : crown) (paths : list (nat * path)).

Definition policy_of (x : xin) : policy := match x with XSkip => Skip | XForbid => Forbid | XCollect _ => Collect end.

Definition make_layout (stack : list overlay) (output : bool) (fs : list fld) : layout :=
  let sc := provide_schema stack in
  let pol := policy_of (s_extra_in sc) in
  let targets := if output then s_extra_out sc else match s_extra_in sc with XCollect t => t | _ => [] end in
  let indexed := combine (seq 0 (List.length fs)) fs in
  let mapped := map (fun nf => (snd nf, if mem (f_name (snd nf)) targets then Absent else map_field sc output (fst nf) (snd nf)))
                    indexed in
  if existsb (fun fm => match snd fm with StyleError => negb (mem (f_name (fst fm)) targets) | _ => false end) mapped
  then Bad "name can not be converted"
  else
  let present := flat_map (fun fm => match snd fm with At p => [(fst fm, p)] | _ => [] end) mapped in
  if negb output && existsb (fun fm => match snd fm with Absent => f_required (fst fm) && negb (mem (f_name (fst fm)) targets)
                                                     | _ => false end) mapped
  then Bad "required field skipped"
  else if pairwise kinds_clash (map snd present) then Bad "inconsistent path elements"
  else if pairwise (fun p q => path_eqb p q) (map snd present) then Bad "paths point to several fields"
  else if pairwise (fun p q => is_prefix p q) (map snd present) then Bad "prefix"
  else if negb output && existsb (fun fp => negb (f_required (fst fp)) && last_is_index (snd fp)) present
       then Bad "optional at list"         (* every output field of the modelled kinds is required *)
  else if negb output && (match pol with Collect => true | _ => false end) && existsb (fun fp => has_index (snd fp)) present
       then Bad "collecting extra with list mapping"
  else if existsb (fun fp => match snd fp with [] => true | _ => false end) present then Bad "empty path"
  else
    let root := if s_as_list sc then CList [] else CDict [] in
    let start := match present with
                 | (_, KI _ :: _) :: _ => CList []
                 | (_, KS _ :: _) :: _ => CDict []
                 | _ => root
                 end in
    let has_extra_move := if output then negb (match s_extra_out sc with [] => true | _ => false end)
                          else match pol with Collect => true | _ => false end in
    if has_extra_move && (match start with CList _ => true | _ => false end) then Bad "extra move with list mapping"
    else
    Good (reorder (fold_left (fun t fp => insert (snd fp) (CField (f_id (fst fp))) t) present start))
         (map (fun fp => (f_id (fst fp), snd fp)) present).
