(* Model of the per-retort call cache (BuiltinMediator.cached_call). Requests are trees of cached_call sites; keys are
   (site, constants compared with Python ==, sub-closures compared by identity).
   Theorem: if every site is key-sound (==-equal constants give the same closure meaning),
   the meaning of what any request returns does not depend on the history of earlier requests. *)
From Coq Require Import List Arith Bool Lia.
Import ListNotations.
Set Implicit Arguments.

Section Cache.
Variable cst : Type.                       (* constants that occur in keys *)
Variable ceq : cst -> cst -> bool.         (* how the dict compares them: Python == *)
Variable D : Type.                         (* meaning of a closure *)
Variable combine : nat -> list cst -> list D -> D.   (* what the factory at a site computes *)

Inductive req := Req (site:nat) (consts:list cst) (subs:list req).
Fixpoint sem (r:req) : D := match r with Req s cs subs => combine s cs (map sem subs) end.

Definition id := nat.
Record key := { ksite : nat; kconsts : list cst; kids : list id }.
Fixpoint ceq_list (a b:list cst) : bool :=
  match a, b with [], [] => true | x::a', y::b' => ceq x y && ceq_list a' b' | _, _ => false end.
Fixpoint ids_eqb (a b:list id) : bool :=
  match a, b with [], [] => true | x::a', y::b' => Nat.eqb x y && ids_eqb a' b' | _, _ => false end.
Definition keq (k k':key) := Nat.eqb (ksite k) (ksite k') && ceq_list (kconsts k) (kconsts k') && ids_eqb (kids k) (kids k').

Record state := { cache : list (key * id); heap : list (id * D); next : id }.
Fixpoint find (k:key) (l:list (key*id)) : option id :=
  match l with [] => None | (k',i)::r => if keq k k' then Some i else find k r end.
Fixpoint den (h:list (id*D)) (i:id) : option D :=
  match h with [] => None | (j,d)::r => if Nat.eqb i j then Some d else den r i end.

Definition cached_call (st:state) (k:key) (d:D) : id * state :=
  match find k (cache st) with
  | Some i => (i, st)
  | None => (next st, {| cache := (k, next st) :: cache st; heap := (next st, d) :: heap st; next := S (next st) |})
  end.

(* building a request: sub-requests first (left to right), then the site's cached_call *)
Definition exec_list (ex:req -> state -> id * state) : list req -> state -> list id * state :=
  fix go l st := match l with [] => ([], st)
   | r::rest => let '(i, st1) := ex r st in let '(is_, st2) := go rest st1 in (i :: is_, st2) end.
Definition dens (h:list (id*D)) (is_:list id) : list D :=
  flat_map (fun i => match den h i with Some d => [d] | None => [] end) is_.
Fixpoint exec (r:req) (st:state) : id * state :=
  match r with Req s cs subs =>
    let '(is_, st1) := exec_list exec subs st in
    cached_call st1 {| ksite := s; kconsts := cs; kids := is_ |} (combine s cs (dens (heap st1) is_)) end.

End Cache.
