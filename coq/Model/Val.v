(* Python data as the loaders see it: the value universe shared by the load/dump models.
   Floats are integer-valued (VFloat z = float(z), exact for |z| < 2^53 - the generators stay inside);
   sets are lists kept free of ==-duplicates; a dict is an association list with ==-unique keys in insertion order;
   VIter is a one-shot iterator (iterable, no len(), no .items); VObj an opaque foreign object. *)
From Coq Require Import List ZArith Bool String Ascii.
From AV Require Import Model.Harness.
Import ListNotations.

Inductive pv :=
| VNone | VBool (b : bool) | VInt (z : Z) | VFloat (z : Z) | VStr (s : string) | VBytes (s : string)
| VList (l : list pv) | VTuple (l : list pv) | VSet (l : list pv) | VFrozenSet (l : list pv)
| VDict (kvs : list (pv * pv))
| VIter (l : list pv)
| VObj (tag : nat).

(* Python ==, on the fragment: numbers compare across bool / int / float, containers structurally *)
Definition num_of (v : pv) : option Z :=
  match v with VBool b => Some (if b then 1 else 0)%Z | VInt z | VFloat z => Some z | _ => None end.

Fixpoint pyeq (a b : pv) {struct a} : bool :=
  let fix list_eq (l1 l2 : list pv) {struct l1} : bool :=
      match l1, l2 with [], [] => true | x :: r1, y :: r2 => pyeq x y && list_eq r1 r2 | _, _ => false end in
  match num_of a, num_of b with
  | Some x, Some y => Z.eqb x y
  | Some _, None | None, Some _ => false
  | None, None =>
      match a, b with
      | VNone, VNone => true
      | VStr s, VStr t => String.eqb s t
      | VBytes s, VBytes t => String.eqb s t
      | VList l1, VList l2 => list_eq l1 l2
      | VTuple l1, VTuple l2 => list_eq l1 l2
      | VObj m, VObj n => Nat.eqb m n
      | VSet l1, VSet l2 | VSet l1, VFrozenSet l2 | VFrozenSet l1, VSet l2 | VFrozenSet l1, VFrozenSet l2 =>
          (* set equality: mutual inclusion; the element of the first operand is always the first argument *)
          (fix sub (l1 : list pv) {struct l1} : bool :=
             match l1 with [] => true | x :: r => existsb (fun y => pyeq x y) l2 && sub r end) l1
          && forallb (fun y => (fix ex (l1 : list pv) {struct l1} : bool :=
                                  match l1 with [] => false | x :: r => pyeq x y || ex r end) l1) l2
      | _, _ => false      (* dicts / iterators are never compared by the modelled code paths *)
      end
  end.

(* exact (type and value) equality *)
Fixpoint veq (a b : pv) {struct a} : bool :=
  let fix list_eq (l1 l2 : list pv) {struct l1} : bool :=
      match l1, l2 with [], [] => true | x :: r1, y :: r2 => veq x y && list_eq r1 r2 | _, _ => false end in
  match a, b with
  | VNone, VNone => true
  | VBool x, VBool y => Bool.eqb x y
  | VInt x, VInt y => Z.eqb x y
  | VFloat x, VFloat y => Z.eqb x y
  | VStr s, VStr t | VBytes s, VBytes t => String.eqb s t
  | VList l1, VList l2 | VTuple l1, VTuple l2 | VSet l1, VSet l2 | VFrozenSet l1, VFrozenSet l2
  | VIter l1, VIter l2 => list_eq l1 l2
  | VDict k1, VDict k2 =>
      (fix go (l1 l2 : list (pv * pv)) {struct l1} : bool :=
         match l1, l2 with
         | [], [] => true
         | (a1, b1) :: r1, (a2, b2) :: r2 => veq a1 a2 && veq b1 b2 && go r1 r2
         | _, _ => false
         end) k1 k2
  | VObj m, VObj n => Nat.eqb m n
  | _, _ => false
  end.

Definition hashable (v : pv) : bool :=
  match v with VList _ | VSet _ | VDict _ => false | _ => true end.      (* shallow, as hash() fails first there *)

(* set(iterable) / building a dict: keep the first of ==-equal elements *)
Fixpoint mem_pyeq (x : pv) (l : list pv) : bool :=
  match l with [] => false | y :: r => pyeq x y || mem_pyeq x r end.
Fixpoint set_of_rev (l acc : list pv) : list pv :=
  match l with [] => rev acc | x :: r => if mem_pyeq x acc then set_of_rev r acc else set_of_rev r (x :: acc) end.
Definition set_of (l : list pv) : list pv := set_of_rev l [].

Fixpoint dict_set (kvs : list (pv * pv)) (k v : pv) : list (pv * pv) :=
  match kvs with
  | [] => [(k, v)]
  | (k', v') :: r => if pyeq k k' then (k', v) :: r else (k', v') :: dict_set r k v
  end.

(* ---------- str() and repr() of values (needed because the lax str loader is str(data)) ---------- *)
Definition esc_char (q : ascii) (c : ascii) : string :=
  let n := nat_of_ascii c in
  if Ascii.eqb c q || Ascii.eqb c "\"%char then String "\"%char (String c EmptyString)
  else if Nat.eqb n 10 then "\n" else if Nat.eqb n 13 then "\r" else if Nat.eqb n 9 then "\t"
  else String c EmptyString.
Fixpoint has_char (c : ascii) (s : string) : bool :=
  match s with EmptyString => false | String d r => Ascii.eqb c d || has_char c r end.
Fixpoint esc_all (q : ascii) (s : string) : string :=
  match s with EmptyString => EmptyString | String c r => (esc_char q c ++ esc_all q r)%string end.
Definition repr_str (s : string) : string :=          (* printable ASCII only: the generators stay inside *)
  let q := if has_char "'"%char s && negb (has_char """"%char s) then """"%char else "'"%char in
  (String q (esc_all q s) ++ String q EmptyString)%string.

Fixpoint py_repr (v : pv) {struct v} : string :=
  let fix items (l : list pv) {struct l} : list string :=
      match l with [] => [] | x :: r => py_repr x :: items r end in
  (match v with
   | VNone => "None"
   | VBool b => if b then "True" else "False"
   | VInt z => show_Z z
   | VFloat z => show_Z z ++ ".0"
   | VStr s => repr_str s
   | VBytes s => "b" ++ repr_str s
   | VList l => "[" ++ join ", " (items l) ++ "]"
   | VTuple l => match l with [x] => "(" ++ py_repr x ++ ",)" | _ => "(" ++ join ", " (items l) ++ ")" end
   | VSet l => match l with [] => "set()" | _ => "{" ++ join ", " (items l) ++ "}" end
   | VFrozenSet l => match l with [] => "frozenset()" | _ => "frozenset({" ++ join ", " (items l) ++ "})" end
   | VDict kvs =>
       "{" ++ join ", " ((fix go (l : list (pv * pv)) {struct l} : list string :=
                            match l with [] => [] | (k, x) :: r => (py_repr k ++ ": " ++ py_repr x) :: go r end) kvs) ++ "}"
   | VIter _ => "<obj>"
   | VObj _ => "<obj>"
   end)%string.
Definition py_str (v : pv) : string := match v with VStr s => s | _ => py_repr v end.

Definition truthy (v : pv) : bool :=
  match v with
  | VNone => false | VBool b => b | VInt z | VFloat z => negb (Z.eqb z 0)
  | VStr s | VBytes s => negb (String.eqb s "")
  | VList l | VTuple l | VSet l | VFrozenSet l => match l with [] => false | _ => true end
  | VDict kvs => match kvs with [] => false | _ => true end
  | VIter _ | VObj _ => true
  end.
