(* Printers for the C08 correspondence check: the literal text of an expression (to be compared with what
   get_literal_expr returns) and a canonical, type-revealing rendering of values.  No theorem depends on this file. *)
From Coq Require Import List Arith ZArith Bool NArith String Ascii.
From AV Require Import Model.Harness Model.Repr Model.Ctor.
Import ListNotations.
Local Open Scope string_scope.

Definition of_cps (l : list N) : string := of_codes (map N.to_nat l).

Definition show_half (h : Z) : string :=
  let a := Z.abs h in
  (if (h <? 0)%Z then "-" else "") ++ show_Z (a / 2) ++ (if (a mod 2 =? 0)%Z then ".0" else ".5").

Definition bname_text (n : bname) : string :=
  match n with
  | NTrue => "True" | NFalse => "False" | NNone => "None" | NEllipsis => "Ellipsis" | NNotImplemented => "NotImplemented"
  | NOther k => nth k ["len"; "int"; "print"; "ValueError"; "dict"] "?"
  end.

Definition str_repr (s : list N) : string := of_cps (repr (fun _ => true) s).
Definition bytes_repr (s : list N) : string := "b" ++ of_cps (repr (fun _ => false) s).

(* bytearray.__repr__ escapes the apostrophe whichever quote it chose *)
Definition bytearray_repr (s : list N) : string :=
  let q := quote_for s in "b" ++ of_cps (q :: flat_map (esc (fun _ => false) SQ) s ++ [q]).

Fixpoint show_expr (e : expr) : string :=
  match e with
  | EInt z => show_Z z
  | EFloat h => show_half h
  | ENegZero => "-0.0"
  | EStr s => str_repr s
  | EBytes s => bytes_repr s
  | EByteArray s => "bytearray(" ++ bytearray_repr s ++ ")"
  | EName n => bname_text n
  | EList l => "[" ++ join ", " (map show_expr l) ++ "]"
  | ETuple [x] => "(" ++ show_expr x ++ ",)"
  | ETuple l => "(" ++ join ", " (map show_expr l) ++ ")"
  | EParen x => "(" ++ show_expr x ++ ")"
  | ESet l => "{" ++ join ", " (map show_Z l) ++ "}"
  | EEmptySet => "set()"
  | EFrozenset l => "frozenset({" ++ join ", " (map show_Z l) ++ "})"
  | EEmptyFrozenset => "frozenset()"
  | EDict l => "{" ++ join ", " (map (fun kv => show_expr (fst kv) ++ ": " ++ show_expr (snd kv)) l) ++ "}"
  | ECallRange a b c => "range(" ++ show_expr a ++ ", " ++ show_expr b ++ ", " ++ show_expr c ++ ")"
  | ECallSlice a b c => "slice(" ++ show_expr a ++ ", " ++ show_expr b ++ ", " ++ show_expr c ++ ")"
  end.

Definition show_literal (v : val) : string :=
  match literal_expr as_is v with Some e => show_expr e | None => "<not renderable>" end.

Definition show_codes (l : list N) : string := join "." (map show_N l).

Fixpoint show_val (v : val) : string :=
  match v with
  | VInt z => "i" ++ show_Z z
  | VBool true => "True" | VBool false => "False"
  | VNone => "None" | VEllipsis => "..." | VNotImpl => "NI"
  | VFloat (FHalf h) => "f" ++ show_Z h
  | VFloat FNegZero => "f-0" | VFloat FNan => "fnan" | VFloat FPosInf => "finf" | VFloat FNegInf => "f-inf"
  | VStr s => "s[" ++ show_codes s ++ "]"
  | VBytes s => "b[" ++ show_codes s ++ "]"
  | VByteArray s => "ba[" ++ show_codes s ++ "]"
  | VLook c z => "L" ++ show_nat c ++ ":" ++ show_Z z
  | VBuiltin n => "B" ++ show_nat n
  | VList l => "[" ++ join "," (map show_val l) ++ "]"
  | VTuple l => "(" ++ join "," (map show_val l) ++ ")"
  | VSet l => "set{" ++ join "," (map show_Z l) ++ "}"
  | VFrozenset l => "fset{" ++ join "," (map show_Z l) ++ "}"
  | VDict l => "{" ++ join "," (map (fun kv => show_val (fst kv) ++ ":" ++ show_val (snd kv)) l) ++ "}"
  | VRange a b c => "r(" ++ show_Z a ++ "," ++ show_Z b ++ "," ++ show_Z c ++ ")"
  | VSlice a b c => "sl(" ++ show_val a ++ "," ++ show_val b ++ "," ++ show_val c ++ ")"
  | VObj i => "O" ++ show_nat i
  | VMade f k => "M" ++ show_nat f ++ ":" ++ show_nat k
  | VHidden i => "H" ++ show_nat i
  end.

(* the raw call the constructor receives, then the object *)
Definition show_arg (a : arg) : string :=
  match a with Pos v => "P=" ++ show_val v | Kw n v => "K" ++ show_nat n ++ "=" ++ show_val v end.

Definition show_load (fs : list fld) (data : list (nat * val)) : string :=
  match assign as_is data fs 0 with
  | None => "missing-required"
  | Some (sts, n) =>
    let (args, packed) := arrange true false sts in
    let call := join ";" (map show_arg args ++ map (fun p => "K" ++ show_nat (fst p) ++ "=" ++ show_val (snd p)) packed) in
    match bind fs args packed with
    | None => "call(" ++ call ++ ") -> TypeError"
    | Some b => match construct fs b n with
                | Some (o, n') => "call(" ++ call ++ ") -> " ++
                                  join ";" (map (fun p => show_nat (fst p) ++ "=" ++ show_val (snd p)) o) ++
                                  " factory_calls=" ++ show_nat n'
                | None => "call(" ++ call ++ ") -> TypeError"
                end
    end
  end.
