(* (mapping items are printed sorted: the order in which extras are collected is that of a set difference) *)
(* Printer for the C20 correspondence check: the alias graph of a result.  A container whose identity is below n0 is a
   node of the argument (or a captured constant) and is printed with that identity; every other container is new. *)
From Coq Require Import List Arith Bool String.
From AV Require Import Model.Harness Model.Heap.
Import ListNotations.
Local Open Scope string_scope.

Definition lab (n0 i : nat) : string := if Nat.ltb i n0 then "a" ++ show_nat i else "n".

Fixpoint show_hv (n0 : nat) (v : hv) : string :=
  match v with
  | HAtom a => "#" ++ show_nat a
  | HTuple l => "T(" ++ join "," (map (show_hv n0) l) ++ ")"
  | HList i l => "L" ++ lab n0 i ++ "[" ++ join "," (map (show_hv n0) l) ++ "]"
  | HSet i l => "S" ++ lab n0 i ++ "{" ++ join "," (map (show_hv n0) l) ++ "}"
  | HDict i kv => "D" ++ lab n0 i ++ "{" ++ join "," (sort_s (map (fun e => show_hv n0 (fst e) ++ ":" ++ show_hv n0 (snd e)) kv)) ++ "}"
  | HObj i cls fs => "O" ++ lab n0 i ++ ":" ++ show_nat cls ++ "(" ++
                     join "," (map (fun e => show_nat (fst e) ++ "=" ++ show_hv n0 (snd e)) fs) ++ ")"
  end.

Definition show_exec (p : option plan) (v : hv) (n0 : nat) : string :=
  match p with
  | None => "no-plan"
  | Some q => match exec q v n0 with
              | Some (r, b, n') => show_hv n0 r ++ " built=" ++ show_nat (List.length b)
              | None => "rejected"
              end
  end.
