(* Printer for the C13 correspondence check.  No theorem depends on this file. *)
From Coq Require Import List Arith Bool String.
From AV Require Import Model.Harness Model.Conv.
Import ListNotations.
Local Open Scope list_scope.
Local Open Scope string_scope.

Fixpoint show_cval (fuel : nat) (v : cval) : string :=
  match fuel with O => "?" | S f =>
  match v with
  | CInt n => show_nat n
  | CObj cls fs => "M" ++ show_nat cls ++ "(" ++ join "," (map (fun kv => fst kv ++ "=" ++ show_cval f (snd kv)) fs) ++ ")"
  | CTag c x => "c" ++ show_nat c ++ "<" ++ show_cval f x ++ ">"
  | CCall fn m kw pos => "f" ++ show_nat fn ++ "<" ++ show_cval f m ++ ";" ++
                         join "," (map (fun kv => fst kv ++ "=" ++ show_cval f (snd kv)) kw) ++ ";" ++
                         join "," (map (show_cval f) pos) ++ ">"
  end end.

Definition run_convert (recipe : list lprov) (ctx : list (string * cval)) (src_ty dst_ty : cty) (datas : list cval) : string :=
  join "|" (map (fun d => match convert recipe ctx 20 true d src_ty dst_ty with
                          | Some v => show_cval 30 v | None => "no-converter" end) datas).
