(* C13 - a generated converter: the search for the source of every destination field (conversion/linking_provider.py:
   link / link_constant / link_function in recipe order, then by name with "parameters first, rightmost first, top level
   only"; from_param reaches any level), recursion through nested models (model_coercer_provider.py), and the values the
   destination constructor receives.  The constructor call itself is Model/Ctor.v's arrange / bind.
   Executable; no proofs here. *)
From Coq Require Import List Arith Bool String.
Import ListNotations.
Local Open Scope string_scope.
Local Open Scope list_scope.

(* values: ints, model instances, and the results of user functions (kept symbolic) *)
Inductive cval :=
| CInt (n : nat)
| CObj (cls : nat) (fs : list (string * cval))
| CTag (coercer : nat) (v : cval)                         (* coercer_k(v) *)
| CCall (fn : nat) (model : cval) (kw : list (string * cval)) (pos : list cval).     (* a linked function *)

(* types of fields: int, or a model given by its class and fields *)
Inductive cty := TyInt | TyModel (cls : nat) (fs : list (string * cty * bool * nat)).   (* name, type, required, default *)

Inductive spred := SName (s : string) | SParam (s : string).       (* "x" | from_param("x") *)

Inductive lprov :=
| PLink (src : spred) (dst : string) (coercer : option nat)
| PConst (dst : string) (v : nat)
| PFunc (fn : nat) (dst : string) (kw : list string) (pos : list string)
| PAllowUnlinked (dst : string).                                   (* allow_unlinked_optional *)

Inductive source := SrcField (name : string) | SrcParam (name : string).

Inductive linking :=
| LField (s : source) (coercer : option nat)
| LConst (v : nat)
| LFunc (fn : nat) (kw : list string) (pos : list string)
| LUnlinked                                                        (* optional destination field left to its default *)
| LError.                                                          (* no converter can be made *)

Definition mem (s : string) (l : list string) : bool := existsb (String.eqb s) l.

(* the first source a predicate matches: fields in definition order, then parameters, rightmost first *)
Definition match_source (sp : spred) (fields params : list string) : option source :=
  match sp with
  | SName s => if mem s fields then Some (SrcField s)
               else if mem s params then Some (SrcParam s) else None
  | SParam s => if mem s params then Some (SrcParam s) else None
  end.

(* linking by name: parameters first - only for the fields of the top-level destination *)
Definition default_link (top : bool) (fields params : list string) (dst : string) : option linking :=
  if top && mem dst params then Some (LField (SrcParam dst) None)
  else if mem dst fields then Some (LField (SrcField dst) None)
  else None.

Fixpoint find_link (recipe : list lprov) (top : bool) (fields params : list string) (dst : string) : option linking :=
  match recipe with
  | [] => default_link top fields params dst
  | p :: rest =>
    match p with
    | PLink sp d c =>
        if String.eqb d dst
        then match match_source sp fields params with
             | Some s => Some (LField s c)
             | None => find_link rest top fields params dst
             end
        else find_link rest top fields params dst
    | PConst d v => if String.eqb d dst then Some (LConst v) else find_link rest top fields params dst
    | PFunc fn d kw pos =>
        if String.eqb d dst
        then if forallb (fun k => mem k fields) kw && forallb (fun k => mem k params) pos
             then Some (LFunc fn kw pos) else Some LError          (* a terminal error: the search stops *)
        else find_link rest top fields params dst
    | PAllowUnlinked _ => find_link rest top fields params dst
    end
  end.

Definition allowed_unlinked (recipe : list lprov) (dst : string) : bool :=
  existsb (fun p => match p with PAllowUnlinked d => String.eqb d dst | _ => false end) recipe.

Definition link_for (recipe : list lprov) (top : bool) (fields params : list string) (dst : string) (required : bool) : linking :=
  match find_link recipe top fields params dst with
  | Some LError | None =>
      (* _fetch_linkings: any failure to link an optional field is forgiven when the policy allows it to stay unlinked *)
      if negb required && allowed_unlinked recipe dst then LUnlinked else LError
  | Some l => l
  end.

(* ---- running the converter ---- *)
Fixpoint lookup (k : string) (l : list (string * cval)) : option cval :=
  match l with [] => None | (k', v) :: r => if String.eqb k k' then Some v else lookup k r end.

Definition fields_of (v : cval) : list (string * cval) := match v with CObj _ fs => fs | _ => [] end.

Definition fetch (s : source) (data : cval) (ctx : list (string * cval)) : option cval :=
  match s with
  | SrcField n => lookup n (fields_of data)
  | SrcParam n => lookup n (rev ctx)              (* the rightmost parameter of that name *)
  end.

Fixpoint all_some {A} (l : list (option A)) : option (list A) :=
  match l with
  | [] => Some []
  | None :: _ => None
  | Some x :: r => match all_some r with Some t => Some (x :: t) | None => None end
  end.

(* status of every destination field: None = no converter; Some None = left to the default; Some (Some v) = passed *)
Section Convert.
Variable recipe : list lprov.
Variable ctx : list (string * cval).

Fixpoint convert (fuel : nat) (top : bool) (data : cval) (src_ty dst : cty) : option cval :=
  match fuel with
  | O => None
  | S fuel' =>
    match dst with
    | TyInt => match data with CInt _ | CTag _ _ | CCall _ _ _ _ => Some data | CObj _ _ => None end
    | TyModel cls dfs =>
      match src_ty with
      | TyInt => None
      | TyModel _ sfs =>
        let fields := map (fun f => fst (fst (fst f))) sfs in
        let params := map fst ctx in
        let one (df : string * cty * bool * nat) : option (option (string * cval)) :=
          match df with (name, ty, required, dflt) =>
            match link_for recipe top fields params name required with
            | LError => None
            | LUnlinked => Some (Some (name, CInt dflt))       (* the class's own default *)
            | LConst v => Some (Some (name, CInt v))
            | LFunc fn kw pos =>
                match all_some (map (fun k => option_map (pair k) (fetch (SrcField k) data ctx)) kw),
                      all_some (map (fun k => fetch (SrcParam k) data ctx) pos) with
                | Some kwv, Some posv => Some (Some (name, CCall fn data kwv posv))
                | _, _ => None
                end
            | LField s (Some c) => match fetch s data ctx with Some v => Some (Some (name, CTag c v)) | None => None end
            | LField s None =>
                match fetch s data ctx with
                | None => None
                | Some v =>
                    let sty := match s with
                               | SrcField n => match find (fun f => String.eqb (fst (fst (fst f))) n) sfs with
                                               | Some (_, t, _, _) => t | None => TyInt end
                               | SrcParam _ => match v with CObj _ _ => ty | _ => TyInt end
                               end in
                    match convert fuel' false v sty ty with Some v' => Some (Some (name, v')) | None => None end
                end
            end
          end in
        match all_some (map one dfs) with
        | None => None
        | Some sts => Some (CObj cls (flat_map (fun s => match s with Some kv => [kv] | None => [] end) sts))
        end
      end
    end
  end.
End Convert.
