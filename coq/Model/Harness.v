(* Glue used by the correspondence check: decimal printing, string helpers, comparison of model output with the
   strings the implementation produced.  No theorem depends on this file. *)
From Coq Require Import List Arith Bool String Ascii ZArith.
Import ListNotations.
Local Open Scope string_scope.

Fixpoint of_codes (l : list nat) : string :=
  match l with [] => EmptyString | c :: r => String (ascii_of_nat c) (of_codes r) end.

Fixpoint digits (fuel n : nat) (acc : string) : string :=
  match fuel with
  | O => acc
  | S f => let d := String (ascii_of_nat (48 + n mod 10)) acc in
           if Nat.eqb (n / 10) 0 then d else digits f (n / 10) d
  end.
Definition show_nat (n : nat) : string := digits 20 n "".

Fixpoint pdigits (fuel : nat) (n : N) (acc : string) : string :=
  match fuel with
  | O => acc
  | S f => let d := String (ascii_of_nat (48 + N.to_nat (N.modulo n 10))) acc in
           if N.eqb (N.div n 10) 0 then d else pdigits f (N.div n 10) d
  end.
Definition show_N (n : N) : string := pdigits 2000 n "".
Definition show_Z (z : Z) : string :=
  match z with Z0 => "0" | Zpos p => show_N (Npos p) | Zneg p => "-" ++ show_N (Npos p) end.

Fixpoint join (sep : string) (l : list string) : string :=
  match l with [] => "" | [x] => x | x :: r => x ++ sep ++ join sep r end.

Fixpoint insert_s (x : string) (l : list string) : list string :=
  match l with [] => [x] | y :: r => if String.leb x y then x :: l else y :: insert_s x r end.
Definition sort_s (l : list string) : list string := fold_right insert_s [] l.

Definition show_bool (b : bool) : string := if b then "1" else "0".

Fixpoint mismatches {A : Type} (run : A -> string) (i : nat) (l : list (A * string)) : list (nat * string) :=
  match l with
  | [] => []
  | (c, e) :: r => let got := run c in
                   if String.eqb got e then mismatches run (S i) r else (i, got) :: mismatches run (S i) r
  end.

Definition show_bad (l : list (nat * string)) : string :=
  join "|~|" (map (fun p => show_nat (fst p) ++ "~:~" ++ snd p) l).
