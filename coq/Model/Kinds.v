(* C17 - what each shape introspector returns for a logical model, in the common InputShape / OutputShape vocabulary
   (model_tools/introspection/dataclass.py, named_tuple.py, typed_dict.py, attrs.py, pydantic.py, sqlalchemy.py).
   Everything after the shape (name layout, code generation, conversion) consumes only the shape.
   Executable; no proofs here. *)
From Coq Require Import List Arith Bool String.
From AV Require Import Model.Harness Model.Layout Model.Ctor.
Import ListNotations.
Local Open Scope list_scope.
Local Open Scope string_scope.

Inductive mkind := KDataclass | KNamedTuple | KTypedDict | KAttrs | KPydantic | KSqlAlchemy.

Record lfield := { l_name : string; l_required : bool; l_kw_only : bool; l_private : bool }.
Definition lmodel := list lfield.

(* attribute name of a logical field (a private field is the attribute _name) *)
Definition attr_of (f : lfield) : string := if l_private f then "_" ++ l_name f else l_name f.

Fixpoint insert_by_name (f : lfield) (l : list lfield) : list lfield :=
  match l with
  | [] => [f]
  | g :: r => if String.leb (attr_of f) (attr_of g) then f :: l else g :: insert_by_name f r
  end.
Definition sort_by_name (l : list lfield) : list lfield := fold_right insert_by_name [] l.

(* the order in which the introspector lists the fields *)
Definition ordered (k : mkind) (lm : lmodel) : list lfield :=
  match k with KTypedDict => sort_by_name lm | _ => lm end.

(* field id, parameter name, parameter kind *)
Definition field_id (k : mkind) (f : lfield) : string := attr_of f.
Definition param_name (k : mkind) (f : lfield) : string :=
  match k with KAttrs => l_name f | _ => attr_of f end.          (* attrs drops the underscore of private attributes *)
Definition param_kind (k : mkind) (f : lfield) : kind :=
  match k with
  | KTypedDict | KPydantic | KSqlAlchemy => KwOnly
  | KNamedTuple => PosOrKw
  | KDataclass | KAttrs => if l_kw_only f then KwOnly else PosOrKw
  end.

(* the fields as the name layout sees them *)
Definition layout_fields (k : mkind) (lm : lmodel) : list Layout.fld :=
  map (fun nf => {| f_id := fst nf; f_name := field_id k (snd nf); f_required := l_required (snd nf) |})
      (combine (seq 0 (List.length (ordered k lm))) (ordered k lm)).

Definition kind_text (k : kind) : string := match k with PosOnly => "POS_ONLY" | PosOrKw => "POS_OR_KW" | KwOnly => "KW_ONLY" end.

Definition show_shape (k : mkind) (lm : lmodel) : string :=
  let fs := ordered k lm in
  "in[" ++ join "," (map (fun f => field_id k f ++ ":" ++ (if l_required f then "r" else "o")) fs) ++ "] params[" ++
  join "," (map (fun f => param_name k f ++ ":" ++ kind_text (param_kind k f)) fs) ++ "] out[" ++
  join "," (map (field_id k) fs) ++ "]".
