(* C19 - names in generated code: the sanitiser, mangling with a numeric suffix, prefixed variable names.
   Mirrors code_tools/name_sanitizer.py, GenState.register_mangled (conversion/broaching/code_generator.py) and the
   v_* naming functions of the model loader / dumper generators.  Executable; no proofs here. *)
From Coq Require Import List Arith NArith Bool String Ascii.
Import ListNotations.
Local Open Scope N_scope.

Definition name := list N.                                   (* code points *)

Definition is_ascii_letter (c : N) : bool := ((65 <=? c) && (c <=? 90)) || ((97 <=? c) && (c <=? 122)).
Definition is_digit (c : N) : bool := (48 <=? c) && (c <=? 57).
Definition is_word_ascii (c : N) : bool := is_ascii_letter c || is_digit c || (c =? 95).

(* BuiltinNameSanitizer.sanitize: '.' and '[' become '_', then every character outside [A-Za-z0-9_] is dropped;
   the first character is kept only if it is an ASCII letter, otherwise it becomes '_' *)
Definition translate (c : N) : N := if (c =? 46) || (c =? 91) then 95 else c.
Definition sanitize (s : name) : name :=
  match s with
  | [] => []
  | c :: r => (if is_ascii_letter c then c else 95) :: filter is_word_ascii (map translate r)
  end.

Definition is_ascii_identifier (s : name) : bool :=
  match s with
  | [] => false
  | c :: r => (is_ascii_letter c || (c =? 95)) && forallb is_word_ascii r
  end.

(* ---- mangling: base, base_1, base_2, ... until the namespace accepts the name ---- *)
Section Mangle.
Variable render : nat -> name.                               (* "_" ++ decimal digits of i *)
Variable taken : name -> bool.                               (* the namespace refuses the name *)

Fixpoint first_free (fuel : nat) (base : name) (i : nat) : option name :=
  match fuel with
  | O => None
  | S f => let n := (base ++ render i)%list in if taken n then first_free f base (S i) else Some n
  end.

Definition register_mangled (fuel : nat) (base : name) : option name :=
  if taken base then first_free fuel base 1 else Some base.
End Mangle.

(* ---- string prefixes (over Coq strings: the tables generated from the source are strings) ---- *)
Local Open Scope string_scope.
Fixpoint starts_with (p s : string) : bool :=
  match p with
  | EmptyString => true
  | String a p' => match s with
                   | EmptyString => false
                   | String b s' => Ascii.eqb a b && starts_with p' s'
                   end
  end.

Definition incomparable (p b : string) : bool := negb (starts_with p b) && negb (starts_with b p).

(* the condition under which prefix ++ field id can never be a fixed word, a path-suffixed variable or a name made
   with another prefix *)
Definition prefixes_ok (prefixes bases fixed : list string) : bool :=
  forallb (fun p =>
    forallb (fun w => negb (starts_with p w)) fixed &&
    forallb (fun b => incomparable p b) bases &&
    forallb (fun p' => String.eqb p p' || incomparable p p') prefixes) prefixes.
