(* Model of adaptix._internal.provider.loc_stack_filtering: locations, location stacks, checkers, the predicate ->
   checker construction, and the P pattern algebra.  Regular expressions and str.isidentifier on non-ASCII text are
   oracles (tables shipped with each case, computed with the standard library, never through adaptix). *)
From Coq Require Import List Arith Bool String Ascii.
Import ListNotations.

Definition cls := nat.
Inductive ty := Ty (o : cls) (args : list ty).

Fixpoint ty_eqb (a b : ty) {struct a} : bool :=
  match a, b with
  | Ty o1 l1, Ty o2 l2 =>
      Nat.eqb o1 o2 &&
      (fix go (l1 l2 : list ty) {struct l1} : bool :=
         match l1, l2 with
         | [], [] => true
         | x :: r1, y :: r2 => ty_eqb x y && go r1 r2
         | _, _ => false
         end) l1 l2
  end.
Definition origin (t : ty) : cls := match t with Ty o _ => o end.

(* the six location classes; _CAST_SOURCES decides which checker family may look at which *)
Inductive lockind := KType | KField | KInField | KInFuncField | KOutField | KGeneric.
Record loc := Loc { lkind : lockind; ltype : ty; lfid : string; lpos : nat }.

Definition castable_field (k : lockind) : bool :=
  match k with KField | KInField | KInFuncField | KOutField => true | _ => false end.
Definition castable_generic (k : lockind) : bool := match k with KGeneric => true | _ => false end.
(* every location class is castable to TypeHintLoc *)

Record world := World {
  w_abs : list cls;                       (* abstract classes and protocols: matched by issubclass *)
  w_anc : list (cls * list cls);          (* c |-> every d with issubclass(c, d), c included *)
  w_re  : list (string * list string)     (* regex source |-> the field ids it fully matches (oracle re.fullmatch) *)
}.

Definition is_abs (w : world) (c : cls) : bool := existsb (Nat.eqb c) (w_abs w).
Fixpoint assoc_nat {A} (k : nat) (l : list (nat * A)) : option A :=
  match l with [] => None | (k', v) :: r => if Nat.eqb k k' then Some v else assoc_nat k r end.
Fixpoint assoc_str {A} (k : string) (l : list (string * A)) : option A :=
  match l with [] => None | (k', v) :: r => if String.eqb k k' then Some v else assoc_str k r end.
Definition subclass (w : world) (c d : cls) : bool :=
  match assoc_nat c (w_anc w) with Some l => existsb (Nat.eqb d) l | None => Nat.eqb c d end.
Definition fullmatch (w : world) (re s : string) : bool :=
  match assoc_str re (w_re w) with Some l => existsb (String.eqb s) l | None => false end.

Inductive chk :=
| CAny
| CExactField (s : string)
| CReField (re : string)
| CExactType (t : ty)
| COriginSub (c : cls)
| CExactOrigin (c : cls)
| CGenericPos (n : nat)
| CAnd (l : list chk)
| COr (l : list chk)
| CXor (l : list chk)
| CNot (c : chk)
| CEnd (l : list chk)
| CSize (n : nat).

Definition last_loc (st : list loc) : option loc := match rev st with [] => None | l :: _ => Some l end.

Definition on_last (st : list loc) (f : loc -> bool) : bool :=
  match last_loc st with Some l => f l | None => false end.

(* reduce(operator.xor, elements): the checkers built by ^ always have two elements *)
Definition xor_all (l : list bool) : bool := fold_left xorb l false.

Fixpoint check (w : world) (c : chk) (st : list loc) {struct c} : bool :=
  match c with
  | CAny => true
  | CExactField s => on_last st (fun l => castable_field (lkind l) && String.eqb s (lfid l))
  | CReField re => on_last st (fun l => castable_field (lkind l) && fullmatch w re (lfid l))
  | CExactType t => on_last st (fun l => ty_eqb (ltype l) t)
  | COriginSub c => on_last st (fun l => subclass w (origin (ltype l)) c)
  | CExactOrigin c => on_last st (fun l => Nat.eqb (origin (ltype l)) c)
  | CGenericPos n => on_last st (fun l => castable_generic (lkind l) && Nat.eqb (lpos l) n)
  | CAnd l => forallb (fun c' => check w c' st) l
  | COr l => existsb (fun c' => check w c' st) l
  | CXor l => xor_all (map (fun c' => check w c' st) l)
  | CNot c' => negb (check w c' st)
  | CSize n => Nat.eqb (List.length st) n
  | CEnd l =>
      (* LocStackEndChecker: the i-th checker from the end sees the stack without its last i elements *)
      (List.length l <=? List.length st) &&
      (fix go (l' : list chk) (j : nat) {struct l'} : bool :=
         match l' with
         | [] => true
         | c' :: r => check w c' (firstn (List.length st - (List.length l - 1 - j)) st) && go r (S j)
         end) l 0
  end.

(* ---------------------------------------------------------------------------------------------------------------- *)
(* str.isidentifier restricted to ASCII *)
Definition is_alpha_us (c : ascii) : bool :=
  let n := nat_of_ascii c in ((65 <=? n) && (n <=? 90)) || ((97 <=? n) && (n <=? 122)) || Nat.eqb n 95.
Definition is_digit (c : ascii) : bool := let n := nat_of_ascii c in (48 <=? n) && (n <=? 57).
Fixpoint all_ident_tail (s : string) : bool :=
  match s with EmptyString => true | String c r => (is_alpha_us c || is_digit c) && all_ident_tail r end.
Definition is_identifier (s : string) : bool :=
  match s with EmptyString => false | String c r => is_alpha_us c && all_ident_tail r end.

Definition starts_dunder (s : string) : bool :=
  match s with String "_" (String "_" _) => true | _ => false end.
Fixpoint rev_string (s acc : string) : string :=
  match s with EmptyString => acc | String c r => rev_string r (String c acc) end.
Definition is_dunder (s : string) : bool := starts_dunder s && starts_dunder (rev_string s EmptyString).

(* ---------------------------------------------------------------------------------------------------------------- *)
(* surface predicates and P expressions *)
Inductive binop := BOr | BAnd | BXor.

Inductive pred :=
| PStr (s : string)            (* a str predicate *)
| PRe (re : string)            (* a compiled re.Pattern *)
| PCls (c : cls)               (* a non-generic class, or a bare generic class: decided by its origin *)
| PTy (t : ty)                 (* a fully parametrised generic: exact normalised type *)
| PChk (c : chk)               (* a LocStackChecker object, e.g. P.ANY *)
| PPat (e : pexpr)             (* a P pattern used where a predicate is expected *)
with pexpr :=
| EP                                        (* P *)
| EItem (e : pexpr) (p : pred)              (* e[p] *)
| EAttr (e : pexpr) (s : string)            (* e.s *)
| ETuple (e : pexpr) (ps : list pred)       (* e[p1, p2, ...] *)
| EBin (op : binop) (a b : operand)         (* a | b, a & b, a ^ b with at least one pattern operand *)
| EInv (e : pexpr)                          (* ~e *)
| EAdd (a b : pexpr)                        (* a + b *)
| EGen (e : pexpr) (pos : nat) (p : pred)   (* e.generic_arg(pos, p) *)
with operand :=
| OPat (e : pexpr)
| OChk (c : chk).

Definition by_origin (w : world) (c : cls) : chk := if is_abs w c then COriginSub c else CExactOrigin c.
Definition build_stack (s : list chk) : option chk :=
  match s with [] => None | [c] => Some c | _ => Some (CEnd s) end.
Definition bin_chk (op : binop) (a b : chk) : chk :=
  match op with BOr => COr [a; b] | BAnd => CAnd [a; b] | BXor => CXor [a; b] end.
Definition is_pat (p : pred) : bool := match p with PPat _ => true | _ => false end.

Definition bind {A B} (x : option A) (f : A -> option B) : option B := match x with Some a => f a | None => None end.

(* create_loc_stack_checker / LocStackPattern; None = the library raises (TypeError, ValueError, AttributeError) *)
Fixpoint create (w : world) (p : pred) {struct p} : option chk :=
  match p with
  | PStr s => Some (if is_identifier s then CExactField s else CReField s)
  | PRe re => Some (CReField re)
  | PCls c => Some (by_origin w c)
  | PTy t => Some (CExactType t)
  | PChk c => Some c
  | PPat e => bind (stack_of w e) build_stack
  end
with stack_of (w : world) (e : pexpr) {struct e} : option (list chk) :=
  match e with
  | EP => Some []
  | EItem e' p =>
      if is_pat p then None else
      bind (stack_of w e') (fun s => bind (create w p) (fun c => Some (s ++ [c])))
  | EAttr e' s =>
      if is_dunder s then None else
      bind (stack_of w e') (fun st => Some (st ++ [if is_identifier s then CExactField s else CReField s]))
  | ETuple e' ps =>
      bind (stack_of w e') (fun s =>
      bind ((fix go (l : list pred) {struct l} : option (list chk) :=
               match l with
               | [] => Some []
               | p :: r => if is_pat p then None else
                           bind (create w p) (fun c => bind (go r) (fun cs => Some (c :: cs)))
               end) ps) (fun cs => Some (s ++ [COr cs])))
  | EBin op a b =>
      bind (lsc_of w a) (fun ca => bind (lsc_of w b) (fun cb => Some [bin_chk op ca cb]))
  | EInv e' => bind (bind (stack_of w e') build_stack) (fun c => Some [CNot c])
  | EAdd a b => bind (stack_of w a) (fun sa => bind (stack_of w b) (fun sb => Some (sa ++ sb)))
  | EGen e' pos p =>
      if is_pat p then None else
      bind (stack_of w e') (fun s => bind (create w p) (fun c => Some (s ++ [CAnd [CGenericPos pos; c]])))
  end
with lsc_of (w : world) (o : operand) {struct o} : option chk :=
  match o with
  | OPat e => bind (stack_of w e) build_stack
  | OChk c => Some c
  end.

Definition build (w : world) (e : pexpr) : option chk := bind (stack_of w e) build_stack.

(* bound(pred, provider): LocStackBoundingProvider._process_request_checker *)
Inductive reqchk := AlwaysTrue | Located (c : chk).
Definition bound_checker (outer : chk) (inner : reqchk) : chk :=
  match inner with AlwaysTrue => outer | Located c => CAnd [outer; c] end.

Definition matches (w : world) (p : pred) (st : list loc) : option bool :=
  match create w p with Some c => Some (check w c st) | None => None end.
