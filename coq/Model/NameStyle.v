(* C03 - model of adaptix._internal.name_style.convert_snake_style on ASCII identifiers, and of the trimming done by
   BuiltinStructureMaker._generate_key.  Executable; no proofs here. *)
From Coq Require Import List Ascii String Bool Arith.
Import ListNotations.
Local Open Scope list_scope.

Definition us : ascii := "_"%char.
Definition is_us (c:ascii) := Ascii.eqb c us.
Definition is_lower (c:ascii) := let n := nat_of_ascii c in (97 <=? n) && (n <=? 122).
Definition is_upper (c:ascii) := let n := nat_of_ascii c in (65 <=? n) && (n <=? 90).
Definition is_digit (c:ascii) := let n := nat_of_ascii c in (48 <=? n) && (n <=? 57).
Definition is_cased (c:ascii) := is_lower c || is_upper c.
Definition is_word (c:ascii) := is_cased c || is_digit c || is_us c.          (* \w restricted to ASCII *)
Definition lower_c (c:ascii) := if is_upper c then ascii_of_nat (nat_of_ascii c + 32) else c.
Definition upper_c (c:ascii) := if is_lower c then ascii_of_nat (nat_of_ascii c - 32) else c.

Definition chars := list ascii.
Fixpoint to_chars (s:string) : chars := match s with EmptyString => [] | String c r => c :: to_chars r end.
Fixpoint of_chars (l:chars) : string := match l with [] => EmptyString | c::r => String c (of_chars r) end.

Definition lower_w (w:chars) := map lower_c w.
Definition upper_w (w:chars) := map upper_c w.
(* str.title(): a cased char is upper-cased when the previous char is uncased, lower-cased otherwise *)
Fixpoint title_from (prev_cased:bool) (w:chars) : chars :=
  match w with [] => [] | c::r => (if is_cased c then (if prev_cased then lower_c c else upper_c c) else c) :: title_from (is_cased c) r end.
Definition title_w (w:chars) := title_from false w.

Inductive style := LowerSnake | CamelSnake | PascalSnake | UpperSnake | LowerKebab | CamelKebab | PascalKebab | UpperKebab
                 | Lower | Camel | Pascal | Upper | LowerDot | CamelDot | PascalDot | UpperDot.
Inductive casing := CLower | CCamel | CPascal | CUpper.
Definition sep_of (s:style) : chars :=
  match s with LowerSnake|CamelSnake|PascalSnake|UpperSnake => ["_"%char]
  | LowerKebab|CamelKebab|PascalKebab|UpperKebab => ["-"%char]
  | Lower|Camel|Pascal|Upper => []
  | _ => ["."%char] end.
Definition casing_of (s:style) : casing :=
  match s with LowerSnake|LowerKebab|Lower|LowerDot => CLower | CamelSnake|CamelKebab|Camel|CamelDot => CCamel
  | PascalSnake|PascalKebab|Pascal|PascalDot => CPascal | _ => CUpper end.
Definition first_f (c:casing) := match c with CLower | CCamel => lower_w | CPascal => title_w | CUpper => upper_w end.
Definition other_f (c:casing) := match c with CLower => lower_w | CCamel | CPascal => title_w | CUpper => upper_w end.

(* split a list into the leading run satisfying p and the rest *)
Fixpoint span (p:ascii -> bool) (l:chars) : chars * chars :=
  match l with [] => ([], []) | c::r => if p c then let '(a,b) := span p r in (c::a, b) else ([], l) end.

(* REST_SUB: underscore runs -> one separator per underscore; other runs -> other(word) *)
Fixpoint rest_sub (fuel:nat) (sep:chars) (other:chars -> chars) (l:chars) : chars :=
  match fuel with O => [] | S n =>
  match l with
  | [] => []
  | c::_ => if is_us c then let '(run, r) := span is_us l in flat_map (fun _ => sep) run ++ rest_sub n sep other r
            else let '(w, r) := span (fun x => negb (is_us x)) l in other w ++ rest_sub n sep other r end end.

(* SNAKE_SPLITTER: leading underscores, first word, lazy middle, trailing underscores up to the end *)
Definition convert (name:string) (st:style) : option string :=
  let l := to_chars name in
  if negb (forallb is_word l) || match l with [] => true | _ => false end then None else
  let '(front, r1) := span is_us l in
  let '(first, r2) := span (fun x => negb (is_us x)) r1 in
  match first with [] => None | _ =>
    let '(trail_rev, mid_rev) := span is_us (rev r2) in
    let mid := rev mid_rev in let trail := rev trail_rev in
    let c := casing_of st in
    Some (of_chars (front ++ first_f c first ++ rest_sub (S (List.length mid)) (sep_of st) (other_f c) mid ++ trail)) end.

(* _generate_key (dict layout): trim one-or-more trailing underscores unless the name ends with "__" *)
Definition ends_with_us (l:chars) := match rev l with c::_ => is_us c | [] => false end.
Definition ends_with_2us (l:chars) := match rev l with c::d::_ => is_us c && is_us d | _ => false end.
Definition rstrip_us (l:chars) := rev (snd (span is_us (rev l))).
Definition gen_key (trim:bool) (st:option style) (name:string) : option string :=
  let l := to_chars name in
  let l' := if trim && ends_with_us l && negb (ends_with_2us l) then rstrip_us l else l in
  match st with None => Some (of_chars l') | Some s => convert (of_chars l') s end.
