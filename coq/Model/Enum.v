(* Model of adaptix enum / flag representations (morphing/enum_provider.py).
   Flags are N bit sets; members are (name index, bits).  flag_by_member_names: dumper = the "take a case if it is
   inside the value and not already covered" loop over the (possibly reversed) case list, loader = OR of the named
   cases.  flag_by_exact_value: accepted iff 0 <= n <= mask, creatable iff the mask has no skipped bit.
   Enums: value / name tables looked up with Python == (dict lookup). *)
From Coq Require Import List NArith ZArith Bool String Lia.
From AV Require Import Model.Val.
Import ListNotations.
Local Open Scope N_scope.

Definition sub (c v : N) : bool := N.land c v =? c.            (* Python: case in value *)

Fixpoint dump_loop (v : N) (cases : list N) (sum : N) : list N :=
  match cases with
  | [] => []
  | c :: r => if sub c v && negb (sub c sum) then c :: dump_loop v r (N.lor sum c) else dump_loop v r sum
  end.
Definition lor_all (l : list N) : N := fold_left N.lor l 0.

(* _extract_non_compound_cases_from_flag, as repaired: a single bit, v > 0 and v & (v - 1) == 0 *)
Definition single_bit (c : N) : bool := negb (c =? 0) && (N.land c (c - 1) =? 0).
Definition cases_for (allow_compound : bool) (members : list N) : list N :=
  if allow_compound then members else filter single_bit members.
(* the dumper visits the cases reversed when compound members are admitted (so that they are preferred) and
   reverses the chosen list back *)
Definition need_reverse (allow_compound : bool) (members : list N) : bool :=
  allow_compound && negb (if list_eq_dec N.eq_dec (cases_for true members) (filter single_bit members) then true else false).
Definition flag_dump (allow_compound : bool) (members : list N) (v : N) : list N :=
  let cases := cases_for allow_compound members in
  if need_reverse allow_compound members then rev (dump_loop v (rev cases) 0) else dump_loop v cases 0.
Definition flag_load (chosen : list N) : N := lor_all chosen.        (* names already resolved to cases *)

(* flag_by_exact_value *)
Definition mask_of (members : list N) : N := lor_all members.
Definition no_skipped_bits (mask : N) : bool := (2 ^ N.size mask - 1) =? mask.
Definition flag_exact_accepts (mask : N) (z : Z) : bool := (0 <=? z)%Z && (z <=? Z.of_N mask)%Z.

(* enums: members in definition order (aliases removed), each with its value; names are member indices here *)
Fixpoint lookup_pyeq (v : pv) (tbl : list (pv * nat)) : option nat :=
  match tbl with [] => None | (k, m) :: r => if pyeq k v then Some m else lookup_pyeq v r end.
(* building a dict {value: member}: a later member with an == value replaces the earlier one *)
Fixpoint dict_put (tbl : list (pv * nat)) (k : pv) (m : nat) : list (pv * nat) :=
  match tbl with
  | [] => [(k, m)]
  | (k', m') :: r => if pyeq k' k then (k', m) :: r else (k', m') :: dict_put r k m
  end.
Definition value_table (values : list pv) : list (pv * nat) :=
  (fix go (i : nat) (vs : list pv) (acc : list (pv * nat)) : list (pv * nat) :=
     match vs with [] => acc | v :: r => go (S i) r (dict_put acc v i) end) 0%nat values [].
Definition enum_exact_load (values : list pv) (d : pv) : option nat :=
  if hashable d then lookup_pyeq d (value_table values) else None.
Definition enum_exact_dump (values : list pv) (m : nat) : option pv := nth_error values m.

(* ---- enum_by_name (ByNameEnumMappingGenerator + EnumNameProvider): every member gets a string - the entry of `map`
   keyed by the member itself, else the entry keyed by its name, else the name converted by name_style, else the name;
   the dumper is the table member -> string, the loader the dict {string: member} built in definition order (a later
   member with the same string replaces an earlier one). Members are their indices; `style` is the name conversion
   (Model/NameStyle.v's convert, None when the name is not snake case: the library raises). ---- *)
Section ByName.
Variable style : string -> option string.
Fixpoint assoc_n (k : nat) (l : list (nat * string)) : option string :=
  match l with [] => None | (k', v) :: r => if Nat.eqb k k' then Some v else assoc_n k r end.
Fixpoint assoc_s (k : string) (l : list (string * string)) : option string :=
  match l with [] => None | (k', v) :: r => if String.eqb k k' then Some v else assoc_s k r end.
Definition mapped_name (by_member : list (nat * string)) (by_name : list (string * string)) (i : nat) (name : string) : option string :=
  match assoc_n i by_member with
  | Some s => Some s
  | None => match assoc_s name by_name with Some s => Some s | None => style name end
  end.
(* the mapping of all members, None when a conversion fails *)
Fixpoint name_mapping_from (by_member : list (nat * string)) (by_name : list (string * string)) (i : nat) (names : list string)
  : option (list (nat * string)) :=
  match names with
  | [] => Some []
  | n :: r => match mapped_name by_member by_name i n, name_mapping_from by_member by_name (S i) r with
              | Some s, Some t => Some ((i, s) :: t)
              | _, _ => None
              end
  end.
Definition name_dump (mapping : list (nat * string)) (m : nat) : option string := assoc_n m mapping.
(* {mapped: member for member, mapped in mapping.items()}: the LAST member with that string wins *)
Fixpoint name_load (mapping : list (nat * string)) (s : string) : option nat :=
  match mapping with
  | [] => None
  | (m, s') :: r => match name_load r s with Some m' => Some m' | None => if String.eqb s s' then Some m else None end
  end.
End ByName.
