(* C03 - what the loader and the dumper generated from a crown do.
   Loader: three debug modes, dict and list nodes, extra policies skip / forbid / collect (morphing/model/loader_gen.py).
   Dumper: every field written at its place, omit_default sieves, list gaps as None, extra mappings unpacked into the
   root (morphing/model/dumper_gen.py).  Field loaders: strict int.  Executable; no proofs here. *)
From Coq Require Import List Arith Bool String.
From AV Require Import Model.Layout.
Import ListNotations.
Local Open Scope string_scope.
Local Open Scope list_scope.

Inductive pv := VNone | VInt (n : nat) | VStr (s : string) | VList (l : list pv) | VDict (kvs : list (key * pv)).

Inductive mode := Disable | First | All.

(* fields: required, or optional with an int default *)
Record finfo := { fi_required : bool; fi_default : nat }.
Definition finfos := nat -> finfo.

(* errors, projected to what is compared: class with the key set / length it carries, and the trail *)
Inductive ecls :=
| TypeLE                                       (* TypeLoadError (wrong kind of node, or a field that is not an int) *)
| NoReqFields (ks : list string) | ExtraFields (ks : list key)
| NoReqItems (n : nat) | ExtraItems (n : nat).
Inductive err := E (c : ecls) (trail : path).

Definition extras := list (key * pv).          (* the collected mapping of one node *)

Inductive outcome :=
| Loaded (fields : list (nat * nat)) (extra : extras)
| Single (e : err)                             (* DISABLE / FIRST *)
| Group (es : list err).                       (* ALL: AggregateLoadError *)

Fixpoint lookup (k : key) (kvs : list (key * pv)) : option pv :=
  match kvs with [] => None | (k', v) :: r => if key_eqb k k' then Some v else lookup k r end.

Inductive got := Found (v : pv) | Missing | BadKind.

Definition dget (d : pv) (k : string) : got :=
  match d with
  | VDict kvs => match lookup (KS k) kvs with Some v => Found v | None => Missing end
  | _ => BadKind
  end.
Definition lget (d : pv) (i : nat) : got :=
  match d with
  | VList l => match nth_error l i with Some v => Found v | None => Missing end
  | _ => BadKind
  end.

Section Sem.
Variable info : finfos.
Variable pol : policy.

Definition is_required (c : crown) : bool :=
  match c with CField i => fi_required (info i) | _ => true end.
Definition required_keys (m : list (string * crown)) : list string :=
  map fst (filter (fun kc => is_required (snd kc)) m).
Definition keys_of (d : pv) : list key := match d with VDict kvs => map fst kvs | _ => [] end.
Definition has_key (d : pv) (k : string) : bool := existsb (key_eqb (KS k)) (keys_of d).
Definition missing_required (m : list (string * crown)) (d : pv) : list string :=
  filter (fun k => negb (has_key d k)) (required_keys m).
Definition known (m : list (string * crown)) (k : key) : bool := existsb (fun kc => key_eqb k (KS (fst kc))) m.
Definition unknown_items (m : list (string * crown)) (d : pv) : extras :=
  match d with VDict kvs => filter (fun kv => negb (known m (fst kv))) kvs | _ => [] end.
Definition unknown_keys (m : list (string * crown)) (d : pv) : list key := map fst (unknown_items m d).
Definition data_len (d : pv) : nat := match d with VList l => List.length l | _ => 0 end.

Definition trail_of (md : mode) (p : path) : path := match md with Disable => [] | _ => p end.

(* ------------------------------------------------ DISABLE / FIRST: the first error in crown order ---- *)
Inductive step1 := Go1 (fields : list (nat * nat)) (x : extras) | Stop (e : err).

Definition add_sub_extra (k : key) (sx x : extras) : extras :=
  match sx with [] => x | _ => x ++ [(k, VDict sx)] end.

Section FirstLoops.
Variable md : mode.
Variable rec : crown -> path -> pv -> list (nat * nat) -> step1.      (* the loader of a sub-node *)

(* the children of a dict node, in crown order; x is the extra mapping of the node being processed *)
Fixpoint dict_first (m : list (string * crown)) (p : path) (d : pv) (rest : list (string * crown))
                    (f : list (nat * nat)) (x : extras) : step1 :=
  match rest with
  | [] => Go1 f x
  | (k, sub) :: r =>
    match dget d k with
    | BadKind => Stop (E TypeLE (trail_of md p))
    | Missing =>
        match sub with
        | CField i => if fi_required (info i)
                      then Stop (E (NoReqFields (missing_required m d)) (trail_of md p))
                      else dict_first m p d r (f ++ [(i, fi_default (info i))]) x
        | _ => Stop (E (NoReqFields (missing_required m d)) (trail_of md p))
        end
    | Found v =>
        match sub with
        | CField i => match v with
                      | VInt n => dict_first m p d r (f ++ [(i, n)]) x
                      | _ => Stop (E TypeLE (trail_of md (p ++ [KS k])))
                      end
        | CNone => dict_first m p d r f x
        | _ => match rec sub (p ++ [KS k]) v f with
               | Go1 f' sx => dict_first m p d r f' (add_sub_extra (KS k) sx x)
               | Stop e => Stop e
               end
        end
    end
  end.

Fixpoint list_first (expected : nat) (p : path) (d : pv) (rest : list crown) (i : nat) (f : list (nat * nat)) : step1 :=
  match rest with
  | [] => Go1 f []
  | sub :: r =>
    match sub with
    | CNone => list_first expected p d r (S i) f
    | _ =>
      match lget d i with
      | BadKind => Stop (E TypeLE (trail_of md p))
      | Missing => Stop (E (NoReqItems expected) (trail_of md p))
      | Found v =>
          match sub with
          | CField id => match v with
                         | VInt n => list_first expected p d r (S i) (f ++ [(id, n)])
                         | _ => Stop (E TypeLE (trail_of md (p ++ [KI i])))
                         end
          | _ => match rec sub (p ++ [KI i]) v f with
                 | Go1 f' _ => list_first expected p d r (S i) f'
                 | Stop e => Stop e
                 end
          end
      end
    end
  end.
End FirstLoops.

Definition is_forbid : bool := match pol with Forbid => true | _ => false end.

Fixpoint first (md : mode) (c : crown) (p : path) (d : pv) (f : list (nat * nat)) {struct c} : step1 :=
  match c with
  | CField _ | CNone => Go1 f []
  | CDict m =>
    match (match m with [] => (match d with VDict _ => Go1 f [] | _ => Stop (E TypeLE (trail_of md p)) end)
                      | _ => dict_first md (first md) m p d m f [] end) with
    | Stop e => Stop e
    | Go1 f' x =>
        match pol with
        | Skip => Go1 f' []
        | Forbid => match unknown_keys m d with
                    | [] => Go1 f' []
                    | ks => Stop (E (ExtraFields ks) (trail_of md p))
                    end
        | Collect => Go1 f' (x ++ unknown_items m d)
        end
    end
  | CList m =>
    let expected := List.length m in
    match d with
    | VList _ =>
      match list_first md (first md) expected p d m 0 f with
      | Stop e => Stop e
      | Go1 f' _ =>
          if Nat.ltb (data_len d) expected then Stop (E (NoReqItems expected) (trail_of md p))
          else if is_forbid && Nat.ltb expected (data_len d)
               then Stop (E (ExtraItems expected) (trail_of md p))
               else Go1 f' []
      end
    | _ => Stop (E TypeLE (trail_of md p))
    end
  end.

(* ------------------------------------------------ ALL: every error ---- *)
Record st := { fields : list (nat * nat); errs : list err }.
Inductive stepA := GoA (s : st) (x : extras) | BadA.      (* BadA: the data of this node has the wrong kind *)

Definition add_err (e : err) (s : st) : st := {| fields := fields s; errs := errs s ++ [e] |}.
Definition add_field (i v : nat) (s : st) : st := {| fields := fields s ++ [(i, v)]; errs := errs s |}.

Section AllLoops.
Variable rec : crown -> path -> pv -> st -> stepA.

(* nf: the NoRequiredFieldsLoadError of this node has been reported *)
Fixpoint dict_all (m : list (string * crown)) (p : path) (d : pv) (rest : list (string * crown))
                  (s : st) (x : extras) (nf : bool) : stepA :=
  match rest with
  | [] => GoA s x
  | (k, sub) :: r =>
    match dget d k with
    | BadKind => BadA
    | Missing =>
        let report := if nf then s else add_err (E (NoReqFields (missing_required m d)) p) s in
        match sub with
        | CField i => if fi_required (info i) then dict_all m p d r report x true
                      else dict_all m p d r (add_field i (fi_default (info i)) s) x nf
        | _ => dict_all m p d r report x true
        end
    | Found v =>
        match sub with
        | CField i => match v with
                      | VInt n => dict_all m p d r (add_field i n s) x nf
                      | _ => dict_all m p d r (add_err (E TypeLE (p ++ [KS k])) s) x nf
                      end
        | CNone => dict_all m p d r s x nf
        | _ => match rec sub (p ++ [KS k]) v s with
               | GoA s' sx => dict_all m p d r s' (add_sub_extra (KS k) sx x) nf
               | BadA => dict_all m p d r (add_err (E TypeLE (p ++ [KS k])) s) x nf   (* the TypeLoadError wrapper *)
               end
        end
    end
  end.

Fixpoint list_all (p : path) (d : pv) (rest : list crown) (i : nat) (s : st) : stepA :=
  match rest with
  | [] => GoA s []
  | sub :: r =>
    match sub with
    | CNone => list_all p d r (S i) s
    | _ =>
      match lget d i with
      | BadKind => BadA
      | Missing => list_all p d r (S i) s                    (* reported once by the length check *)
      | Found v =>
          match sub with
          | CField id => match v with
                         | VInt n => list_all p d r (S i) (add_field id n s)
                         | _ => list_all p d r (S i) (add_err (E TypeLE (p ++ [KI i])) s)
                         end
          | _ => match rec sub (p ++ [KI i]) v s with
                 | GoA s' _ => list_all p d r (S i) s'
                 | BadA => list_all p d r (S i) (add_err (E TypeLE (p ++ [KI i])) s)
                 end
          end
      end
    end
  end.
End AllLoops.

Fixpoint all (c : crown) (p : path) (d : pv) (s : st) {struct c} : stepA :=
  match c with
  | CField _ | CNone => GoA s []
  | CDict m =>
    match (match m with [] => (match d with VDict _ => GoA s [] | _ => BadA end) | _ => dict_all all m p d m s [] false end) with
    | BadA => BadA
    | GoA s' x =>
        match pol with
        | Skip => GoA s' []
        | Forbid => match unknown_keys m d with
                    | [] => GoA s' []
                    | ks => GoA (add_err (E (ExtraFields ks) p) s') []
                    end
        | Collect => GoA s' (x ++ unknown_items m d)
        end
    end
  | CList m =>
    let expected := List.length m in
    match d with
    | VList _ =>
      match list_all all p d m 0 s with
      | BadA => BadA
      | GoA s' _ =>
          if Nat.ltb (data_len d) expected then GoA (add_err (E (NoReqItems expected) p) s') []
          else if is_forbid && Nat.ltb expected (data_len d)
               then GoA (add_err (E (ExtraItems expected) p) s') []
               else GoA s' []
      end
    | _ => BadA
    end
  end.

Definition load (md : mode) (c : crown) (d : pv) : outcome :=
  match md with
  | All => match all c [] d {| fields := []; errs := [] |} with
           | BadA => Group [E TypeLE []]
           | GoA s x => match errs s with [] => Loaded (fields s) x | es => Group es end
           end
  | _ => match first md c [] d [] with
         | Stop e => Single e
         | Go1 f x => Loaded f x
         end
  end.
End Sem.

(* ------------------------------------------------ dumper ---- *)
Section Dump.
Variable value : nat -> option nat.            (* the int held by each field of the object *)
Variable omit : nat -> bool.                   (* the field has a sieve (omit_default applies and it has a default) *)
Variable default : nat -> nat.

Definition omitted (i : nat) : bool :=
  omit i && match value i with Some v => Nat.eqb v (default i) | None => false end.

Section DumpLoops.
Variable rec : crown -> option pv.

Fixpoint dump_dict (l : list (string * crown)) : option (list (key * pv)) :=
  match l with
  | [] => Some []
  | (k, sub) :: r =>
    match sub, dump_dict r with
    | _, None => None
    | CField i, Some t => if omitted i then Some t
                          else match value i with Some v => Some ((KS k, VInt v) :: t) | None => None end
    | _, Some t => match rec sub with Some v => Some ((KS k, v) :: t) | None => None end
    end
  end.

Fixpoint dump_list (l : list crown) : option (list pv) :=
  match l with
  | [] => Some []
  | sub :: r => match rec sub, dump_list r with Some v, Some t => Some (v :: t) | _, _ => None end
  end.
End DumpLoops.

Fixpoint dump (c : crown) : option pv :=
  match c with
  | CField i => option_map VInt (value i)
  | CNone => Some VNone
  | CDict m => option_map VDict (dump_dict dump m)
  | CList m => option_map VList (dump_list dump m)
  end.

(* extra_out: the mappings of the target fields are unpacked into the root *)
Definition dump_model (c : crown) (extra : extras) : option pv :=
  match dump c with
  | Some (VDict kvs) => Some (VDict (kvs ++ extra))
  | other => other
  end.
End Dump.
