(* Model of the non-model loaders of adaptix: scalar loaders (concrete_provider.py), iterable / fixed tuple / dict /
   union / literal loaders (iterable_provider.py, constant_length_tuple_provider.py, dict_provider.py,
   generic_provider.py), each in its three separately written debug-trail variants and two coercion variants.
   Error trees carry class, relative trail, offending input (leaf classes) and children, as the library builds them.
   Outcomes: Ok v | Err (LoadErr tree) | Err (PyExn k)  -- PyExn = an exception that is not a LoadError. *)
From Coq Require Import List ZArith Bool String Ascii.
From AV Require Import Model.Harness Model.Val.
Import ListNotations.

Inductive lit := LInt (z : Z) | LBool (b : bool) | LStr (s : string).
Inductive ikind := KList | KTuple | KSet | KFrozenSet.        (* what the iterable loader builds *)
Inductive ty :=
| TInt | TFloat | TBool | TStr | TNone | TAny
| TLit (ls : list lit)
| TIter (k : ikind) (t : ty)        (* list / set / frozenset / tuple[t, ...] / abstract collections by ABC_TO_IMPL *)
| TTuple (ts : list ty)
| TDict (k v : ty)
| TOpt (t : ty)                     (* a union of exactly one case and None *)
| TUnion (ts : list ty)             (* any other union, cases in the normaliser's order *)
| TUser (n : nat).                  (* a type served by a user-supplied loader (loader(T, func)) *)
Inductive mode := Disable | First | All.

Inductive telem := Idx (n : nat) | Key (k : pv) | ItemKey (k : pv).
Inductive ecls := TypeLE | ExcludedLE | ValueLE | BadVariantLE | NoReqItemsLE | ExtraItemsLE
                | UnionLE | AggLE | PlainLE.
Inductive err := LE (c : ecls) (trail : list telem) (inp : option pv) (subs : list err).
Inductive pyexn := XType | XValue | XOverflow | XOther.
Inductive res := Ok (v : pv) | Err (e : err) | Exn (x : pyexn).

Definition leaf (c : ecls) (v : pv) : res := Err (LE c [] (Some v) []).
Definition push (m : mode) (t : telem) (e : err) : err :=
  match m with Disable => e | _ => match e with LE c tr i s => LE c (t :: tr) i s end end.

(* ---------------- scalars ---------------- *)
Definition is_digit (c : ascii) : bool := let n := nat_of_ascii c in (48 <=? n)%nat && (n <=? 57)%nat.
Fixpoint all_digits (s : string) : bool :=
  match s with EmptyString => true | String c r => is_digit c && all_digits r end.
Fixpoint digits_val (s : string) (acc : Z) : Z :=
  match s with EmptyString => acc | String c r => digits_val r (10 * acc + Z.of_nat (nat_of_ascii c - 48))%Z end.
(* int("...") on the strings the generators use: optional sign, then ASCII digits *)
Definition parse_int (s : string) : option Z :=
  match s with
  | String "-" r => if negb (String.eqb r "") && all_digits r then Some (- digits_val r 0)%Z else None
  | String "+" r => if negb (String.eqb r "") && all_digits r then Some (digits_val r 0) else None
  | EmptyString => None
  | _ => if all_digits s then Some (digits_val s 0) else None
  end.

Definition FLOAT_MAX : Z := 2 ^ 1024.
Definition float_of_int (orig : pv) (z : Z) : res :=        (* float(int): OverflowError beyond the double range *)
  if (Z.abs z <? FLOAT_MAX)%Z then Ok (VFloat z) else leaf ValueLE orig.

Definition load_int (sc : bool) (v : pv) : res :=
  if sc then match v with VInt _ => Ok v | _ => leaf TypeLE v end
  else match v with
       | VInt _ => Ok v
       | VBool b => Ok (VInt (if b then 1 else 0))
       | VFloat z => Ok (VInt z)
       | VStr s | VBytes s => match parse_int s with Some z => Ok (VInt z) | None => leaf ValueLE v end
       | _ => leaf TypeLE v
       end.
Definition load_float (sc : bool) (v : pv) : res :=
  if sc then match v with VFloat _ => Ok v | VInt z => float_of_int v z | _ => leaf TypeLE v end
  else match v with
       | VFloat _ => Ok v
       | VInt z => float_of_int v z
       | VBool b => Ok (VFloat (if b then 1 else 0))
       | VStr s | VBytes s => match parse_int s with Some z => float_of_int v z | None => leaf ValueLE v end
       | _ => leaf TypeLE v
       end.
Definition load_bool (sc : bool) (v : pv) : res :=
  if sc then match v with VBool _ => Ok v | _ => leaf TypeLE v end else Ok (VBool (truthy v)).
Definition load_str (sc : bool) (v : pv) : res :=
  if sc then match v with VStr _ => Ok v | _ => leaf TypeLE v end else Ok (VStr (py_str v)).
Definition load_none (v : pv) : res := match v with VNone => Ok VNone | _ => leaf TypeLE v end.

(* ---------------- Literal ---------------- *)
Definition lit_val (l : lit) : pv := match l with LInt z => VInt z | LBool b => VBool b | LStr s => VStr s end.
Definition boolish (l : lit) : bool :=
  match l with LBool _ => true | LInt z => Z.eqb z 0 || Z.eqb z 1 | _ => false end.
(* strict and some member is a bool or an exact 0/1: compare (type, value); otherwise Python == *)
Definition load_lit (sc : bool) (ls : list lit) (v : pv) : res :=
  if sc && existsb boolish ls
  then (if existsb (fun l => veq (lit_val l) v) ls then Ok v else leaf BadVariantLE v)
  else (if existsb (fun l => pyeq (lit_val l) v) ls then Ok v else leaf BadVariantLE v).

(* ---------------- what can be iterated, and how ---------------- *)
Fixpoint chars (s : string) : list pv :=
  match s with EmptyString => [] | String c r => VStr (String c EmptyString) :: chars r end.
Fixpoint byte_vals (s : string) : list pv :=
  match s with EmptyString => [] | String c r => VInt (Z.of_nat (nat_of_ascii c)) :: byte_vals r end.
Inductive view := Items (l : list pv) | Excl | NotIter.
Definition iter_view (sc : bool) (v : pv) : view :=
  match v with
  | VList l | VTuple l | VSet l | VFrozenSet l | VIter l => Items l
  | VBytes s => Items (byte_vals s)
  | VDict kvs => if sc then Excl else Items (map fst kvs)
  | VStr s => if sc then Excl else Items (chars s)
  | _ => NotIter
  end.

Definition build (k : ikind) (l : list pv) : pv :=
  match k with KList => VList l | KTuple => VTuple l | KSet => VSet (set_of l) | KFrozenSet => VFrozenSet (set_of l) end.

(* ---------------- element loops, one per debug mode (named, top level) ---------------- *)
Inductive acc1 := A1Ok (vs : list pv) | A1Err (e : err) | A1Exn (x : pyexn).

Definition map_stop (f : pv -> res) : list pv -> acc1 :=
  fix go l := match l with
  | [] => A1Ok []
  | x :: r => match f x with
              | Err e => A1Err e | Exn k => A1Exn k
              | Ok a => match go r with A1Ok b => A1Ok (a :: b) | o => o end
              end
  end.
Definition map_first (f : pv -> res) : nat -> list pv -> acc1 :=
  fix go i l := match l with
  | [] => A1Ok []
  | x :: r => match f x with
              | Err e => A1Err (push First (Idx i) e) | Exn k => A1Exn k
              | Ok a => match go (S i) r with A1Ok b => A1Ok (a :: b) | o => o end
              end
  end.
(* ALL: every LoadError is collected; an unexpected exception turns the whole group into a plain ExceptionGroup *)
Definition map_all (f : pv -> res) : nat -> list pv -> list pv * list err * option pyexn :=
  fix go i l := match l with
  | [] => ([], [], None)
  | x :: r => let '(vs, es, u) := go (S i) r in
              match f x with
              | Ok a => (a :: vs, es, u)
              | Err e => (vs, push All (Idx i) e :: es, u)
              | Exn k => (vs, es, Some k)
              end
  end.

Definition zip_stop : list (pv -> res) -> list pv -> acc1 :=
  fix go fs l := match fs, l with
  | f :: fr, x :: r => match f x with
                       | Err e => A1Err e | Exn k => A1Exn k
                       | Ok a => match go fr r with A1Ok b => A1Ok (a :: b) | o => o end
                       end
  | _, _ => A1Ok []
  end.
Definition zip_first : nat -> list (pv -> res) -> list pv -> acc1 :=
  fix go i fs l := match fs, l with
  | f :: fr, x :: r => match f x with
                       | Err e => A1Err (push First (Idx i) e) | Exn k => A1Exn k
                       | Ok a => match go (S i) fr r with A1Ok b => A1Ok (a :: b) | o => o end
                       end
  | _, _ => A1Ok []
  end.
Definition zip_all : nat -> list (pv -> res) -> list pv -> list pv * list err * option pyexn :=
  fix go i fs l := match fs, l with
  | f :: fr, x :: r => let '(vs, es, u) := go (S i) fr r in
                       match f x with
                       | Ok a => (a :: vs, es, u)
                       | Err e => (vs, push All (Idx i) e :: es, u)
                       | Exn k => (vs, es, Some k)
                       end
  | _, _ => ([], [], None)
  end.

(* dict items *)
Inductive accd := ADOk (kvs : list (pv * pv)) | ADErr (e : err) | ADExn (x : pyexn).
Definition dict_stop (fk fv : pv -> res) : list (pv * pv) -> list (pv * pv) -> accd :=
  fix go acc l := match l with
  | [] => ADOk acc
  | (k, v) :: r =>
      (* result[key_loader(k)] = value_loader(v): the right-hand side is evaluated first *)
      match fv v with
      | Err e => ADErr e | Exn x => ADExn x
      | Ok v' => match fk k with
                 | Err e => ADErr e | Exn x => ADExn x
                 | Ok k' => go (dict_set acc k' v') r
                 end
      end
  end.
Definition dict_first (fk fv : pv -> res) : list (pv * pv) -> list (pv * pv) -> accd :=
  fix go acc l := match l with
  | [] => ADOk acc
  | (k, v) :: r =>
      match fk k with
      | Err e => ADErr (push First (ItemKey k) e) | Exn x => ADExn x
      | Ok k' => match fv v with
                 | Err e => ADErr (push First (Key k) e) | Exn x => ADExn x
                 | Ok v' => go (dict_set acc k' v') r
                 end
      end
  end.
Definition dict_all (fk fv : pv -> res) : list (pv * pv) -> list (pv * pv) -> list (pv * pv) * list err * option pyexn :=
  fix go acc l := match l with
  | [] => (acc, [], None)
  | (k, v) :: r =>
      let ek := match fk k with Err e => [push All (ItemKey k) e] | _ => [] end in
      let ev := match fv v with Err e => [push All (Key k) e] | _ => [] end in
      let ux := match fk k, fv v with Exn x, _ => Some x | _, Exn x => Some x | _, _ => None end in
      let acc' := match fk k, fv v with Ok k', Ok v' => dict_set acc k' v' | _, _ => acc end in
      let '(res, es, u) := go acc' r in
      (res, ek ++ ev ++ es, match ux with Some x => Some x | None => u end)
  end.

(* union *)
Fixpoint union_disable (v : pv) (rs : list res) : res :=
  match rs with
  | [] => Err (LE PlainLE [] None [])
  | Ok a :: _ => Ok a
  | Err _ :: r => union_disable v r
  | Exn x :: _ => Exn x
  end.
Fixpoint union_first (acc : list err) (rs : list res) : res :=
  match rs with
  | [] => Err (LE UnionLE [] None (rev acc))
  | Ok a :: _ => Ok a
  | Err e :: r => union_first (e :: acc) r
  | Exn x :: _ => Exn x
  end.
(* ALL keeps going after an unexpected exception but then never returns a result *)
Fixpoint union_all (acc : list err) (u : option pyexn) (rs : list res) : res :=
  match rs with
  | [] => match u with Some x => Exn x | None => Err (LE UnionLE [] None (rev acc)) end
  | Ok a :: r => match u with Some _ => union_all acc u r | None => Ok a end
  | Err e :: r => union_all (e :: acc) u r
  | Exn x :: r => union_all acc (Some x) r
  end.

Definition agg (es : list err) : res := Err (LE AggLE [] None es).

Section L.
Variable user : nat -> pv -> res.       (* what the user-supplied loaders do *)
Variable md : mode.
Variable sc : bool.

Fixpoint load (t : ty) (v : pv) {struct t} : res :=
  match t with
  | TInt => load_int sc v | TFloat => load_float sc v | TBool => load_bool sc v | TStr => load_str sc v
  | TNone => load_none v | TAny => Ok v
  | TLit ls => load_lit sc ls v
  | TUser n => user n v
  | TIter k t' =>
      match iter_view sc v with
      | Excl => leaf ExcludedLE v
      | NotIter => leaf TypeLE v
      | Items l =>
          match md with
          | Disable => match map_stop (load t') l with A1Ok r => Ok (build k r) | A1Err e => Err e | A1Exn x => Exn x end
          | First => match map_first (load t') 0 l with A1Ok r => Ok (build k r) | A1Err e => Err e | A1Exn x => Exn x end
          | All => let '(vs, es, u) := map_all (load t') 0 l in
                   match u with
                   | Some x => Exn x
                   | None => match es with [] => Ok (build k vs) | _ => agg es end
                   end
          end
      end
  | TTuple ts =>
      match iter_view sc v with
      | Excl => leaf ExcludedLE v
      | NotIter => leaf TypeLE v
      | Items l =>
          (* every mode converts the datum with tuple(data) first and reports that copy in length errors *)
          let n := List.length ts in let m := List.length l in
          let shown := VTuple l in
          if (n <? m)%nat then leaf ExtraItemsLE shown else if (m <? n)%nat then leaf NoReqItemsLE shown else
          let fs := map (fun t1 => load t1) ts in
          match md with
          | Disable => match zip_stop fs l with A1Ok r => Ok (VTuple r) | A1Err e => Err e | A1Exn x => Exn x end
          | First => match zip_first 0 fs l with A1Ok r => Ok (VTuple r) | A1Err e => Err e | A1Exn x => Exn x end
          | All => let '(vs, es, u) := zip_all 0 fs l in
                   match u with
                   | Some x => Exn x
                   | None => match es with [] => Ok (VTuple vs) | _ => agg es end
                   end
          end
      end
  | TDict tk tv =>
      match v with
      | VDict kvs =>
          match md with
          | Disable => match dict_stop (load tk) (load tv) [] kvs with ADOk r => Ok (VDict r) | ADErr e => Err e | ADExn x => Exn x end
          | First => match dict_first (load tk) (load tv) [] kvs with ADOk r => Ok (VDict r) | ADErr e => Err e | ADExn x => Exn x end
          | All => let '(r, es, u) := dict_all (load tk) (load tv) [] kvs in
                   match u with
                   | Some x => Exn x
                   | None => match es with [] => Ok (VDict r) | _ => agg es end
                   end
          end
      | _ => leaf TypeLE v
      end
  | TOpt t' =>
      match v with
      | VNone => Ok VNone
      | _ => match load t' v with
             | Ok a => Ok a
             | Err e => match md with Disable => Err e | _ => Err (LE UnionLE [] None [LE TypeLE [] (Some v) []; e]) end
             | Exn x => Exn x
             end
      end
  | TUnion ts =>
      let rs := map (fun t1 => load t1 v) ts in
      match md with
      | Disable => union_disable v rs
      | First => union_first [] rs
      | All => union_all [] None rs
      end
  end.
End L.
