(* C12 - a shared retort under concurrent first use: arbitrary threads, arbitrary interleavings of the atomic accesses to
   the shared call cache, the loader cache and the recursion stubs (retort/builtin_mediator.py cached_call,
   retort/operating_retort.py FuncWrapper / LocatedRequestCallableRecursionResolver, morphing/facade/retort.py loader
   cache).  Closures are trees carrying an identity; stubs are leaves with an owner and a location.
   The transition relation is the specification; [replay] is its executable reading used to check recorded traces. *)
From Coq Require Import List Arith Bool.
Import ListNotations.

Definition tid := nat. Definition sid := nat. Definition cid := nat.

Inductive clo := Clo (id:cid) (fn:nat) (refs:list carg)
with carg := AConst (n:nat) | AStub (s:sid) | AClo (c:clo).

Fixpoint sreach (c:clo) : list sid :=
  match c with Clo _ _ refs =>
    (fix go (l:list carg) : list sid :=
       match l with [] => []
       | AConst _ :: r => go r
       | AStub s :: r => s :: go r
       | AClo c' :: r => sreach c' ++ go r end) refs end.
Definition areach (a:carg) : list sid :=
  match a with AConst _ => [] | AStub s => [s] | AClo c => sreach c end.
Definition lreach (l:list carg) : list sid := flat_map areach l.

Lemma sreach_clo id fn refs : sreach (Clo id fn refs) = lreach refs.
Proof. unfold lreach. simpl. induction refs as [|[n|s|c] r IH]; simpl; auto; now rewrite IH. Qed.

(* key equality: by identity of closures; stubs by identity or by location *)
Section Sem.
Variable by_identity : bool.
Variable loc : sid -> nat.          (* location a stub stands for *)
Variable owner : sid -> tid.        (* who created it (ghost) *)

Definition cid_of (c:clo) := match c with Clo i _ _ => i end.
Definition key := (nat * list carg)%type.
Inductive arg_match : carg -> carg -> Prop :=
| AM_const n : arg_match (AConst n) (AConst n)
| AM_clo c : arg_match (AClo c) (AClo c)                      (* closures: identity *)
| AM_stub s s' : (if by_identity then s = s' else loc s = loc s') -> arg_match (AStub s) (AStub s').
Definition key_match (k k':key) : Prop := fst k = fst k' /\ Forall2 arg_match (snd k) (snd k').

Record state := {
  cc    : list (key * clo);          (* shared call cache *)
  lc    : option clo;                (* shared loader cache (one type) *)
  bound : list (sid * clo);          (* stub cells that have been set *)
  hold  : list (tid * carg);         (* what each thread has a reference to *)
  fin   : list tid;                  (* threads whose creation phase is over *)
  next  : nat                        (* allocator for closure ids *)
}.

Definition holds (st:state) (t:tid) (a:carg) : Prop := In (t,a) (hold st).
Definition is_bound (st:state) (s:sid) : Prop := exists c, In (s,c) (bound st).

Inductive step : state -> state -> Prop :=
| S_new_stub st t s : owner s = t -> ~ In t (fin st) ->
    step st {| cc := cc st; lc := lc st; bound := bound st; hold := (t, AStub s) :: hold st; fin := fin st; next := next st |}
| S_hit st t fn args c : Forall (fun a => match a with AConst _ => True | _ => holds st t a end) args ->
    (exists k', In (k', c) (cc st) /\ key_match (fn,args) k') ->
    step st {| cc := cc st; lc := lc st; bound := bound st; hold := (t, AClo c) :: hold st; fin := fin st; next := next st |}
| S_miss st t fn args : Forall (fun a => match a with AConst _ => True | _ => holds st t a end) args ->
    (* create, remember locally; insertion into the cache is a separate atomic step *)
    step st {| cc := cc st; lc := lc st; bound := bound st;
               hold := (t, AClo (Clo (next st) fn args)) :: hold st; fin := fin st; next := S (next st) |}
| S_put st t fn args c : holds st t (AClo c) -> c = Clo (cid_of c) fn args ->
    step st {| cc := ((fn,args), c) :: cc st; lc := lc st; bound := bound st; hold := hold st; fin := fin st; next := next st |}
| S_bind st t s c : owner s = t -> holds st t (AStub s) -> holds st t (AClo c) -> ~ In t (fin st) ->
    step st {| cc := cc st; lc := lc st; bound := (s,c) :: bound st; hold := hold st; fin := fin st; next := next st |}
| S_finish st t : (forall s, holds st t (AStub s) -> owner s = t -> is_bound st s) ->
    (* the request returns: every stub it created has been set (track_response) *)
    (forall s, owner s = t -> (holds st t (AStub s) \/ ~ exists a, In (t,a) (hold st) /\ In s (areach a))) ->
    step st {| cc := cc st; lc := lc st; bound := bound st; hold := hold st; fin := t :: fin st; next := next st |}
| S_lc_put st t c : In t (fin st) -> holds st t (AClo c) ->
    step st {| cc := cc st; lc := Some c; bound := bound st; hold := hold st; fin := fin st; next := next st |}
| S_lc_get st t c : lc st = Some c ->
    step st {| cc := cc st; lc := lc st; bound := bound st; hold := (t, AClo c) :: hold st; fin := fin st; next := next st |}.

Definition init : state := {| cc := []; lc := None; bound := []; hold := []; fin := []; next := 0 |}.
Inductive reachable : state -> Prop :=
| R0 : reachable init
| RS st st' : reachable st -> step st st' -> reachable st'.

End Sem.

(* ------------------------------------------------------------------------------------------------------------------ *)
(* executable reading of [step]: recorded events are replayed, every precondition is checked *)

Fixpoint clo_eqb (a b : clo) {struct a} : bool :=
  match a, b with
  | Clo i f ra, Clo j g rb =>
      Nat.eqb i j && Nat.eqb f g &&
      (fix go (x y : list carg) {struct x} : bool :=
         match x, y with
         | [], [] => true
         | p :: x', q :: y' => carg_eqb p q && go x' y'
         | _, _ => false
         end) ra rb
  end
with carg_eqb (a b : carg) {struct a} : bool :=
  match a, b with
  | AConst n, AConst m => Nat.eqb n m
  | AStub s, AStub s' => Nat.eqb s s'
  | AClo c, AClo c' => clo_eqb c c'
  | _, _ => false
  end.

Fixpoint list_eqb (x y : list carg) : bool :=
  match x, y with
  | [], [] => true
  | p :: x', q :: y' => carg_eqb p q && list_eqb x' y'
  | _, _ => false
  end.

Inductive earg := EConst (n : nat) | EStub (s : sid) | ECloId (id : cid).

Inductive event :=
| ENewStub (t : tid) (s : sid)
| EHit (t : tid) (fn : nat) (args : list earg) (result : cid)
| EMiss (t : tid) (fn : nat) (args : list earg)
| EPut (t : tid) (fn : nat) (args : list earg) (c : cid)
| EBind (t : tid) (s : sid) (c : cid)
| EFinish (t : tid)
| ELcPut (t : tid) (c : cid)
| ELcGet (t : tid).

Section Replay.
Variable by_identity : bool.
Variable loc : sid -> nat.
Variable owner : sid -> tid.

Definition held_by (st : state) (t : tid) : list carg :=
  flat_map (fun p => if Nat.eqb (fst p) t then [snd p] else []) (hold st).

Definition holds_b (st : state) (t : tid) (a : carg) : bool := existsb (carg_eqb a) (held_by st t).

Definition find_clo (st : state) (t : tid) (id : cid) : option clo :=
  match find (fun a => match a with AClo c => Nat.eqb (cid_of c) id | _ => false end) (held_by st t) with
  | Some (AClo c) => Some c
  | _ => None
  end.

(* an argument as the thread can name it: a constant, a stub it holds, a closure it holds *)
Definition resolve (st : state) (t : tid) (a : earg) : option carg :=
  match a with
  | EConst n => Some (AConst n)
  | EStub s => if holds_b st t (AStub s) then Some (AStub s) else None
  | ECloId id => option_map AClo (find_clo st t id)
  end.

Fixpoint resolve_all (st : state) (t : tid) (l : list earg) : option (list carg) :=
  match l with
  | [] => Some []
  | a :: r => match resolve st t a, resolve_all st t r with
              | Some x, Some xs => Some (x :: xs)
              | _, _ => None
              end
  end.

Definition arg_match_b (a b : carg) : bool :=
  match a, b with
  | AConst n, AConst m => Nat.eqb n m
  | AClo c, AClo c' => clo_eqb c c'
  | AStub s, AStub s' => if by_identity then Nat.eqb s s' else Nat.eqb (loc s) (loc s')
  | _, _ => false
  end.
Fixpoint args_match_b (x y : list carg) : bool :=
  match x, y with
  | [], [] => true
  | p :: x', q :: y' => arg_match_b p q && args_match_b x' y'
  | _, _ => false
  end.
Definition key_match_b (k k' : key) : bool := Nat.eqb (fst k) (fst k') && args_match_b (snd k) (snd k').

Definition with_hold (st : state) (h : list (tid * carg)) (n : nat) : state :=
  {| cc := cc st; lc := lc st; bound := bound st; hold := h; fin := fin st; next := n |}.

Definition is_bound_b (st : state) (s : sid) : bool := existsb (fun p => Nat.eqb (fst p) s) (bound st).
Definition in_fin (st : state) (t : tid) : bool := existsb (Nat.eqb t) (fin st).

Definition apply (st : state) (e : event) : option state :=
  match e with
  | ENewStub t s =>
      if Nat.eqb (owner s) t && negb (in_fin st t) then Some (with_hold st ((t, AStub s) :: hold st) (next st)) else None
  | EHit t fn eargs id =>
      match resolve_all st t eargs with
      | None => None
      | Some args =>
        match find (fun kc => key_match_b (fn, args) (fst kc) && Nat.eqb (cid_of (snd kc)) id) (cc st) with
        | Some (_, c) => Some (with_hold st ((t, AClo c) :: hold st) (next st))
        | None => None
        end
      end
  | EMiss t fn eargs =>
      match resolve_all st t eargs with
      | None => None
      | Some args => Some (with_hold st ((t, AClo (Clo (next st) fn args)) :: hold st) (S (next st)))
      end
  | EPut t fn eargs id =>
      match resolve_all st t eargs, find_clo st t id with
      | Some args, Some c =>
          if clo_eqb c (Clo (cid_of c) fn args)
          then Some {| cc := ((fn, args), c) :: cc st; lc := lc st; bound := bound st; hold := hold st; fin := fin st; next := next st |}
          else None
      | _, _ => None
      end
  | EBind t s id =>
      match find_clo st t id with
      | Some c =>
          if Nat.eqb (owner s) t && holds_b st t (AStub s) && negb (in_fin st t)
          then Some {| cc := cc st; lc := lc st; bound := (s, c) :: bound st; hold := hold st; fin := fin st; next := next st |}
          else None
      | None => None
      end
  | EFinish t =>
      let mine := filter (fun s => Nat.eqb (owner s) t) (lreach (held_by st t)) in
      if forallb (fun s => holds_b st t (AStub s) && is_bound_b st s) mine
      then Some {| cc := cc st; lc := lc st; bound := bound st; hold := hold st; fin := t :: fin st; next := next st |}
      else None
  | ELcPut t id =>
      match find_clo st t id with
      | Some c => if in_fin st t
                  then Some {| cc := cc st; lc := Some c; bound := bound st; hold := hold st; fin := fin st; next := next st |}
                  else None
      | None => None
      end
  | ELcGet t =>
      match lc st with
      | Some c => Some (with_hold st ((t, AClo c) :: hold st) (next st))
      | None => None
      end
  end.

(* number of events accepted before the first one whose precondition fails; all accepted = length *)
Fixpoint replay (st : state) (evs : list event) : nat * state :=
  match evs with
  | [] => (0, st)
  | e :: r => match apply st e with
              | Some st' => let (n, s) := replay st' r in (S n, s)
              | None => (0, st)
              end
  end.
End Replay.
