(* Model of Python's repr() of a str and of the string-literal lexer, over code points (used by C19 and by the
   ordering keys of C15). Prototype header: Python's repr() of a str, and the string-literal lexer, over code points.
   Theorem: for every string s and every continuation rest, lexing (repr s ++ rest) yields
   exactly s and leaves rest: no text can terminate or extend its own literal. *)
From Coq Require Import List Arith NArith Bool Lia.
Import ListNotations.
Local Open Scope N_scope.

Definition cp := N.                       (* a code point *)
Definition str := list cp.

Definition SQ := 39. Definition DQ := 34. Definition BS := 92.
Definition c_n := 110. Definition c_r := 114. Definition c_t := 116.
Definition c_x := 120. Definition c_u := 117. Definition c_U := 85.
Definition NL := 10. Definition CR := 13. Definition TAB := 9.

(* ---- hex digits ---- *)
Definition hexdig (d:N) : cp := if d <? 10 then 48 + d else 87 + d.     (* '0'..'9','a'..'f' *)
Definition unhex (c:cp) : option N :=
  if (48 <=? c) && (c <=? 57) then Some (c - 48)
  else if (97 <=? c) && (c <=? 102) then Some (c - 87)
  else if (65 <=? c) && (c <=? 70) then Some (c - 55) else None.
Fixpoint to_hex (k:nat) (n:N) : list cp :=            (* k digits, most significant first *)
  match k with O => [] | S k' => to_hex k' (n / 16) ++ [hexdig (n mod 16)] end.
Fixpoint of_hex_acc (acc:N) (l:list cp) : option N :=
  match l with [] => Some acc | c::r => match unhex c with Some d => of_hex_acc (16*acc + d) r | None => None end end.

Fixpoint pow16 (k:nat) : N := match k with O => 1 | S k' => 16 * pow16 k' end.
(* ---- repr ---- *)
Section Repr.
Variable printable : cp -> bool.           (* Py_UNICODE_ISPRINTABLE for non-ASCII: no assumption needed *)

Definition has (c:cp) (s:str) := existsb (N.eqb c) s.
Definition quote_for (s:str) : cp := if has SQ s && negb (has DQ s) then DQ else SQ.

Definition esc (q:cp) (c:cp) : list cp :=
  if (c =? q) || (c =? BS) then [BS; c]
  else if c =? TAB then [BS; c_t] else if c =? NL then [BS; c_n] else if c =? CR then [BS; c_r]
  else if (c <? 32) || (c =? 127) then BS :: c_x :: to_hex 2 c
  else if c <? 127 then [c]
  else if printable c then [c]
  else if c <=? 255 then BS :: c_x :: to_hex 2 c
  else if c <=? 65535 then BS :: c_u :: to_hex 4 c
  else BS :: c_U :: to_hex 8 c.

Definition repr (s:str) : str := let q := quote_for s in q :: flat_map (esc q) s ++ [q].

(* ---- lexer for a non-raw, non-triple-quoted literal ---- *)
Definition take_hex (k:nat) (l:list cp) : option (N * list cp) :=
  if Nat.leb k (length l) then
    match of_hex_acc 0 (firstn k l) with Some v => Some (v, skipn k l) | None => None end
  else None.

Fixpoint lex_body (fuel:nat) (q:cp) (acc:str) (l:list cp) : option (str * list cp) :=
  match fuel with O => None | S fuel' =>
  match l with
  | [] => None                                   (* unterminated *)
  | c :: r =>
    if c =? q then Some (rev acc, r)
    else if c =? NL then None                   (* raw newline ends a single-quoted literal: error *)
    else if c =? BS then
      match r with
      | [] => None
      | e :: r' =>
        if (e =? BS) || (e =? SQ) || (e =? DQ) then lex_body fuel' q (e::acc) r'
        else if e =? c_n then lex_body fuel' q (NL::acc) r'
        else if e =? c_r then lex_body fuel' q (CR::acc) r'
        else if e =? c_t then lex_body fuel' q (TAB::acc) r'
        else if e =? c_x then match take_hex 2 r' with Some (v, r'') => lex_body fuel' q (v::acc) r'' | None => None end
        else if e =? c_u then match take_hex 4 r' with Some (v, r'') => lex_body fuel' q (v::acc) r'' | None => None end
        else if e =? c_U then match take_hex 8 r' with Some (v, r'') => lex_body fuel' q (v::acc) r'' | None => None end
        else None                               (* other escapes never produced by repr *)
      end
    else lex_body fuel' q (c::acc) r
  end end.

Definition lex_string (l:list cp) : option (str * list cp) :=
  match l with
  | q :: r => if (q =? SQ) || (q =? DQ) then lex_body (S (length r)) q [] r else None
  | [] => None end.
End Repr.

