(* C20 - load, dump and convert over values whose mutable containers carry an identity.
   Every operation is the execution of a rebuilding plan derived from the types; executing a plan threads an allocation
   counter and gives each container it builds the next identity.  Positions the documentation says are passed as is
   (Any) return the argument's node unchanged.  Executable; no proofs here. *)
From Coq Require Import List Arith Bool.
Import ListNotations.

Inductive hv :=
| HAtom (a : nat)                               (* immutable scalar; HAtom 0 is None *)
| HTuple (l : list hv)                          (* immutable container (tuple, frozenset): identity not tracked *)
| HList (id : nat) (l : list hv)
| HSet (id : nat) (l : list hv)
| HDict (id : nat) (kv : list (hv * hv))
| HObj (id : nat) (cls : nat) (fs : list (nat * hv)).        (* model instance: field index -> value *)

Inductive dflt :=
| DNone                                         (* required *)
| DFresh (kind : nat)                           (* default factory / literal container: 0 list, 1 dict, 2 set *)
| DConst (v : hv).                              (* the class's own default object, captured as a constant *)

Inductive plan :=
| PAsIs | PAtom
| PList (p : plan) | PTuple (p : plan) | PSet (p : plan) | PDict (k v : plan) | POpt (p : plan)
| PToObj (cls : nat) (fields : list (nat * nat * plan * dflt)) (extra : option nat)
     (* mapping -> model instance; (field index, key atom, plan, default); extra = field collecting the unknown keys *)
| PToDict (fields : list (nat * nat * plan)) (extra : list nat)
     (* model instance -> mapping; extra = fields whose mappings are unpacked into the result, in this order *)
| PObjToObj (cls : nat) (fields : list (nat * nat * plan)).   (* (destination field, source field, plan) *)

Definition hv_eqb_atom (a : hv) (k : nat) : bool := match a with HAtom x => Nat.eqb x k | _ => false end.

Fixpoint lookup_key (k : nat) (kv : list (hv * hv)) : option hv :=
  match kv with [] => None | (a, x) :: r => if hv_eqb_atom a k then Some x else lookup_key k r end.

Fixpoint lookup_field (i : nat) (fs : list (nat * hv)) : option hv :=
  match fs with [] => None | (j, x) :: r => if Nat.eqb i j then Some x else lookup_field i r end.

Definition elements (v : hv) : option (list hv) :=
  match v with HList _ l | HSet _ l | HTuple l => Some l | _ => None end.

(* result, identities built, next identity *)
Definition res := (hv * list nat * nat)%type.

(* a loop threading the allocation counter: used for elements, items and fields alike *)
Section MapStep.
Variables A B : Type.
Variable step : A -> nat -> option (B * list nat * nat).

Fixpoint map_step (l : list A) (n : nat) : option (list B * list nat * nat) :=
  match l with
  | [] => Some ([], [], n)
  | x :: r => match step x n with
              | None => None
              | Some (a, b1, n1) => match map_step r n1 with
                                    | None => None
                                    | Some (t, b2, n2) => Some (a :: t, b1 ++ b2, n2)
                                    end
              end
  end.
End MapStep.
Arguments map_step {A B} step l n.

Definition fresh_container (kind n : nat) : hv :=
  match kind with 0 => HList n [] | 1 => HDict n [] | _ => HSet n [] end.

Definition known_key (fields : list (nat * nat * plan * dflt)) (k : hv) : bool :=
  existsb (fun f => hv_eqb_atom k (snd (fst (fst f)))) fields.

(* one (key, value) item: key first, then value *)
Definition item_step (fk fv : hv -> nat -> option res) (e : hv * hv) (n : nat) : option ((hv * hv) * list nat * nat) :=
  match fk (fst e) n with
  | None => None
  | Some (k', b1, n1) => match fv (snd e) n1 with
                         | None => None
                         | Some (x', b2, n2) => Some ((k', x'), b1 ++ b2, n2)
                         end
  end.

Definition tag {K} (k : K) (r : option res) : option ((K * hv) * list nat * nat) :=
  match r with Some (x, b, n) => Some ((k, x), b, n) | None => None end.

Definition default_value (d : dflt) (m : nat) : option res :=
  match d with
  | DNone => None
  | DFresh kind => Some (fresh_container kind m, [m], S m)
  | DConst c => Some (c, [], m)
  end.

(* the items of the mappings held by the extra_out fields *)
Fixpoint unpacked (fs : list (nat * hv)) (extra : list nat) : option (list (hv * hv)) :=
  match extra with
  | [] => Some []
  | fi :: r => match lookup_field fi fs, unpacked fs r with
               | Some (HDict _ more), Some rest => Some (more ++ rest)
               | _, _ => None
               end
  end.

Fixpoint exec (p : plan) (v : hv) (n : nat) {struct p} : option res :=
  match p with
  | PAsIs => Some (v, [], n)
  | PAtom => match v with HAtom _ => Some (v, [], n) | _ => None end
  | PList q =>
      match elements v with
      | Some l => match map_step (exec q) l (S n) with
                  | Some (l', b, n') => Some (HList n l', n :: b, n') | None => None end
      | None => None
      end
  | PTuple q =>
      match elements v with
      | Some l => match map_step (exec q) l n with
                  | Some (l', b, n') => Some (HTuple l', b, n') | None => None end
      | None => None
      end
  | PSet q =>
      match elements v with
      | Some l => match map_step (exec q) l (S n) with
                  | Some (l', b, n') => Some (HSet n l', n :: b, n') | None => None end
      | None => None
      end
  | PDict pk pv =>
      match v with
      | HDict _ kv => match map_step (item_step (exec pk) (exec pv)) kv (S n) with
                      | Some (kv', b, n') => Some (HDict n kv', n :: b, n') | None => None end
      | _ => None
      end
  | POpt q => match v with HAtom 0 => Some (v, [], n) | _ => exec q v n end
  | PToObj cls fields extra =>
      match v with
      | HDict _ kv =>
        match map_step (fun f m => match f with (i, key, q, d) =>
                          tag i (match lookup_key key kv with Some x => exec q x m | None => default_value d m end) end)
                       fields (S n) with
        | None => None
        | Some (fs, b, n1) =>
          match extra with
          | None => Some (HObj n cls fs, n :: b, n1)
          | Some fi =>
              let unknown := filter (fun e => negb (known_key fields (fst e))) kv in
              Some (HObj n cls (fs ++ [(fi, HDict n1 unknown)]), n :: b ++ [n1], S n1)
          end
        end
      | _ => None
      end
  | PToDict fields extra =>
      match v with
      | HObj _ _ fs =>
        match map_step (fun f m => match f with (i, key, q) =>
                          tag (HAtom key) (match lookup_field i fs with Some x => exec q x m | None => None end) end)
                       fields (S n) with
        | None => None
        | Some (kv, b, n1) =>
          match unpacked fs extra with
          | Some more => Some (HDict n (kv ++ more), n :: b, n1)
          | None => None
          end
        end
      | _ => None
      end
  | PObjToObj cls fields =>
      match v with
      | HObj _ _ fs =>
        match map_step (fun f m => match f with (dst, src, q) =>
                          tag dst (match lookup_field src fs with Some x => exec q x m | None => None end) end)
                       fields (S n) with
        | None => None
        | Some (fs', b, n1) => Some (HObj n cls fs', n :: b, n1)
        end
      | _ => None
      end
  end.

(* all identities occurring in a value *)
Fixpoint ids (v : hv) : list nat :=
  match v with
  | HAtom _ => []
  | HTuple l => flat_map ids l
  | HList i l | HSet i l => i :: flat_map ids l
  | HDict i kv => i :: flat_map (fun e => ids (fst e) ++ ids (snd e)) kv
  | HObj i _ fs => i :: flat_map (fun e => ids (snd e)) fs
  end.

(* identities of the constants a plan captures (the classes' own default objects) *)
Fixpoint const_ids (p : plan) : list nat :=
  match p with
  | PAsIs | PAtom => []
  | PList q | PTuple q | PSet q | POpt q => const_ids q
  | PDict k v => const_ids k ++ const_ids v
  | PToObj _ fields _ =>
      flat_map (fun f => match f with (_, _, q, d) =>
                           const_ids q ++ match d with DConst c => ids c | _ => [] end end) fields
  | PToDict fields _ => flat_map (fun f => const_ids (snd f)) fields
  | PObjToObj _ fields => flat_map (fun f => const_ids (snd f)) fields
  end.

(* ------------------------------------------------------------------------------------------------------------------ *)
(* the plans of the three operations, from a type *)

Inductive hty :=
| TAtom | TAny
| TList (t : hty) | TSeq (t : hty) | TSet (t : hty) | TFrozen (t : hty) | TDict (k v : hty) | TOpt (t : hty)
| TModel (cls : nat) (fields : list (nat * hty * dflt)) (extra : option nat) (extra_out : list nat).
     (* field index = key atom = attribute; extra = index of the field that collects the unknown keys (extra_in);
        extra_out = the fields whose mappings are unpacked when dumping *)

Definition is_extra (extra : option nat) (i : nat) : bool :=
  match extra with Some e => Nat.eqb i e | None => false end.

Fixpoint load_plan (t : hty) : plan :=
  match t with
  | TAtom => PAtom | TAny => PAsIs
  | TList a => PList (load_plan a)
  | TSeq a | TFrozen a => PTuple (load_plan a)
  | TSet a => PSet (load_plan a)
  | TDict k v => PDict (load_plan k) (load_plan v)
  | TOpt a => POpt (load_plan a)
  | TModel cls fields extra _ =>
      PToObj cls (flat_map (fun f => match f with (i, a, d) =>
                                       if is_extra extra i then [] else [(i, i, load_plan a, d)] end) fields)
             extra
  end.

Fixpoint dump_plan (t : hty) : plan :=
  match t with
  | TAtom => PAtom | TAny => PAsIs
  | TList a => PList (dump_plan a)
  | TSeq a | TFrozen a | TSet a => PTuple (dump_plan a)
  | TDict k v => PDict (dump_plan k) (dump_plan v)
  | TOpt a => POpt (dump_plan a)
  | TModel cls fields _ extra_out =>
      PToDict (flat_map (fun f => match f with (i, a, d) =>
                                    if existsb (Nat.eqb i) extra_out then [] else [(i, i, dump_plan a)] end) fields)
              extra_out
  end.

(* conversion between two types of the same outline (a destination Any takes the value as is) *)
Fixpoint conv_plan (s d : hty) : option plan :=
  match d with
  | TAny => Some PAsIs
  | _ =>
    match s, d with
    | TAtom, TAtom => Some PAsIs
    | TList a, TList b | TSeq a, TList b | TSet a, TList b | TFrozen a, TList b => option_map PList (conv_plan a b)
    | TList a, TSeq b | TSeq a, TSeq b | TSet a, TSeq b | TFrozen a, TSeq b
    | TList a, TFrozen b | TSeq a, TFrozen b | TSet a, TFrozen b | TFrozen a, TFrozen b => option_map PTuple (conv_plan a b)
    | TList a, TSet b | TSeq a, TSet b | TSet a, TSet b | TFrozen a, TSet b => option_map PSet (conv_plan a b)
    | TDict k v, TDict k' v' =>
        match conv_plan k k', conv_plan v v' with Some pk, Some pv => Some (PDict pk pv) | _, _ => None end
    | TOpt a, TOpt b => option_map POpt (conv_plan a b)
    | TModel _ fs _ _, TModel cls fd _ _ =>
        let fix go (fd : list (nat * hty * dflt)) : option (list (nat * nat * plan)) :=
          match fd with
          | [] => Some []
          | (i, b, _) :: r =>
            match find (fun f => Nat.eqb (fst (fst f)) i) fs with
            | None => None
            | Some (_, a, _) =>
              match conv_plan a b, go r with
              | Some q, Some t => Some ((i, i, q) :: t)
              | _, _ => None
              end
            end
          end in
        option_map (PObjToObj cls) (go fd)
    | _, _ => None
    end
  end.
