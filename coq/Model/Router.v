(* Model of adaptix._internal.retort.routers (ExactOriginCombiner, LocatedRequestRouter) and of the request bus
   (request_bus.BasicRequestBus._send_inner, provider_wrapper.ChainingProvider), plus recipe assembly
   (base_retort.BaseRetort._calculate_derived, Retort.extend) and a retort used as a provider.
   `clear1` selects the combiner as repaired (true) or as it was in the pinned tree (false: a one-element combo was
   emitted but not cleared). *)
From Coq Require Import List Arith Bool Lia.
Import ListNotations.

Definition origin := nat.
Definition handler := nat.
Inductive checker := ExactO (o:origin) | Other (p:origin -> bool).
Definition check (c:checker) (req:origin) : bool :=
  match c with ExactO o => Nat.eqb o req | Other p => p req end.

Inductive item := Single (c:checker) (h:handler) | Table (t:list (origin*handler)).

Fixpoint lookup (o:origin) (t:list (origin*handler)) : option handler :=
  match t with [] => None | (k,h)::r => if Nat.eqb k o then Some h else lookup o r end.
Definition mem_key o t := match lookup o t with Some _ => true | None => false end.

(* _stop_combo, parametrised by whether the one-element combo is cleared (the code: false) *)
Definition stop_combo (clear1:bool) (combo:list (origin*handler)) (extra:option (checker*handler))
  : list item * list (origin*handler) :=
  let tail := match extra with Some (c,h) => [Single c h] | None => [] end in
  match combo with
  | [] => (tail, [])
  | [(o,h)] => (Single (ExactO o) h :: tail, if clear1 then [] else [(o,h)])
  | _ => (Table combo :: tail, [])
  end.

Definition register (clear1:bool) (combo:list (origin*handler)) (ch:checker*handler)
  : list item * list (origin*handler) :=
  match fst ch with
  | ExactO o => if mem_key o combo then stop_combo clear1 combo (Some ch)
                else ([], combo ++ [(o, snd ch)])
  | Other _ => stop_combo clear1 combo (Some ch)
  end.

Fixpoint combine_from (clear1:bool) (combo:list (origin*handler)) (r:list (checker*handler)) : list item :=
  match r with
  | [] => fst (stop_combo clear1 combo None)
  | ch::rest => let '(out, combo') := register clear1 combo ch in out ++ combine_from clear1 combo' rest
  end.
Definition combine clear1 r := combine_from clear1 [] r.

Definition cand_item (req:origin) (it:item) : list handler :=
  match it with
  | Single c h => if check c req then [h] else []
  | Table t => match lookup req t with Some h => [h] | None => [] end
  end.
Definition candidates_items req items := flat_map (cand_item req) items.
Definition candidates_lin (req:origin) (r:list (checker*handler)) : list handler :=
  map snd (filter (fun ch => check (fst ch) req) r).


(* ---------------- the request bus ---------------- *)
(* what a handler does when called *)
Inductive beh := Answer (a:nat) | AnswerC (c:list nat) | Decline | Terminal | ChainFirst (f:nat) | ChainLast (f:nat).
Inductive out := Found (closure:list nat) | NotFound | Failed.      (* closure = composition, outermost first *)

Section Bus.
Variable behaviour : handler -> beh.

(* the bus as a fold over candidates; second component = handlers consulted, in order *)
Fixpoint send (cs:list handler) : out * list handler :=
  match cs with
  | [] => (NotFound, [])
  | h :: r =>
    match behaviour h with
    | Answer a => (Found [a], [h])
    | AnswerC c => (Found c, [h])
    | Decline => let '(o, tr) := send r in (o, h :: tr)
    | Terminal => (Failed, [h])
    | ChainFirst f => let '(o, tr) := send r in
        (match o with Found c => Found (c ++ [f]) | x => x end, h :: tr)      (* f first, then the next loader *)
    | ChainLast f => let '(o, tr) := send r in
        (match o with Found c => Found (f :: c) | x => x end, h :: tr)
    end
  end.

(* the bus as coded: route_handler scans items from an offset and returns (handler, index + 1) *)
Fixpoint route (req:origin) (items:list item) (idx:nat) : option (handler * nat) :=
  match items with
  | [] => None
  | it :: r => match cand_item req it with
               | h :: _ => Some (h, S idx)
               | [] => route req r (S idx) end end.

Fixpoint send_items (fuel:nat) (req:origin) (items:list item) (off:nat) : out * list handler :=
  match fuel with O => (NotFound, []) | S n =>
    match route req (skipn off items) off with
    | None => (NotFound, [])
    | Some (h, next) =>
      match behaviour h with
      | Answer a => (Found [a], [h])
      | AnswerC c => (Found c, [h])
      | Decline => let '(o, tr) := send_items n req items next in (o, h :: tr)
      | Terminal => (Failed, [h])
      | ChainFirst f => let '(o, tr) := send_items n req items next in
          (match o with Found c => Found (c ++ [f]) | x => x end, h :: tr)
      | ChainLast f => let '(o, tr) := send_items n req items next in
          (match o with Found c => Found (f :: c) | x => x end, h :: tr)
      end end end.

End Bus.

(* ---------------- recipe assembly ---------------- *)
Definition recipe := list (checker * handler).
(* head ++ instance recipe ++ class recipes in MRO order ++ tail *)
Definition full_recipe (head inst : recipe) (classes : list recipe) (tail : recipe) : recipe :=
  head ++ inst ++ concat classes ++ tail.
Definition extend (inst new : recipe) : recipe := new ++ inst.

(* the whole pipeline: optimised router built from the recipe, bus started at offset 0 *)
Definition resolve (clear1 : bool) (behaviour : handler -> beh) (r : recipe) (req : origin) : out * list handler :=
  let items := combine clear1 r in send_items behaviour (S (List.length items)) req items 0.
(* the reference: plain chain of responsibility over the recipe in order *)
Definition resolve_spec (behaviour : handler -> beh) (r : recipe) (req : origin) : out * list handler :=
  send behaviour (candidates_lin req r).

(* a retort placed in a recipe: serves the request from its own recipe; not finding a provider there is a plain
   CannotProvide (the outer search goes on), a terminal failure inside is terminal outside *)
Definition nested_beh (inner : out) : beh :=
  match inner with Found c => AnswerC c | NotFound => Decline | Failed => Terminal end.
