(* Model of the non-model dumpers: scalars as is, iterables to tuple (list for list children), fixed tuples, dicts,
   Optional, Literal, and the union dumper that dispatches on the runtime class through its MRO
   (generic_provider.UnionProvider._make_dumper, datastructures.ClassDispatcher.dispatch).
   dump returns None where the real dumper raises (ill-typed object, no union case for the class). *)
From Coq Require Import List ZArith Bool String Ascii.
From AV Require Import Model.Harness Model.Val Model.Load.
Import ListNotations.

(* runtime classes: builtins by number, user classes 100 + n *)
Definition C_NONE := 0. Definition C_BOOL := 1. Definition C_INT := 2. Definition C_FLOAT := 3. Definition C_STR := 4.
Definition C_BYTES := 5. Definition C_LIST := 6. Definition C_TUPLE := 7. Definition C_SET := 8. Definition C_FROZENSET := 9.
Definition C_DICT := 10. Definition C_OBJECT := 11. Definition C_ITER := 12.

Section D.
Variable user_mro : nat -> list nat.      (* user class n |-> its MRO restricted to user classes, itself first *)

Definition class_of (v : pv) : nat :=
  match v with
  | VNone => C_NONE | VBool _ => C_BOOL | VInt _ => C_INT | VFloat _ => C_FLOAT | VStr _ => C_STR | VBytes _ => C_BYTES
  | VList _ => C_LIST | VTuple _ => C_TUPLE | VSet _ => C_SET | VFrozenSet _ => C_FROZENSET | VDict _ => C_DICT
  | VIter _ => C_ITER | VObj n => 100 + n
  end.
Definition mro (c : nat) : list nat :=
  if Nat.ltb c 100 then (if Nat.eqb c C_BOOL then [C_BOOL; C_INT; C_OBJECT] else [c; C_OBJECT])
  else map (fun n => 100 + n) (user_mro (c - 100)) ++ [C_OBJECT].

(* the class a union case is registered under; None = not a class (Any, nested unions): the dumper can not be built *)
Definition case_class (t : ty) : option nat :=
  match t with
  | TInt => Some C_INT | TFloat => Some C_FLOAT | TBool => Some C_BOOL | TStr => Some C_STR | TNone => Some C_NONE
  | TIter KList _ => Some C_LIST | TIter KTuple _ => Some C_TUPLE | TIter KSet _ => Some C_SET
  | TIter KFrozenSet _ => Some C_FROZENSET
  | TTuple _ => Some C_TUPLE | TDict _ _ => Some C_DICT | TUser n => Some (100 + n)
  | TLit _ | TAny | TOpt _ | TUnion _ => None
  end.

(* ClassDispatcher.dispatch: the first class of the MRO that has an entry *)
Fixpoint assoc_case (c : nat) (tbl : list (nat * ty)) : option ty :=
  match tbl with [] => None | (k, t) :: r => if Nat.eqb k c then Some t else assoc_case c r end.
Fixpoint dispatch (classes : list nat) (tbl : list (nat * ty)) : option ty :=
  match classes with
  | [] => None
  | c :: r => match assoc_case c tbl with Some t => Some t | None => dispatch r tbl end
  end.
Definition case_table (ts : list ty) : list (nat * ty) :=
  flat_map (fun t => match case_class t with Some c => [(c, t)] | None => [] end) ts.
Definition literal_case (ts : list ty) : option (list lit) :=
  (fix go (l : list ty) := match l with [] => None | TLit ls :: _ => Some ls | _ :: r => go r end) ts.

Definition all_some {A B} (g : A -> option B) : list A -> option (list B) :=
  fix go l := match l with
              | [] => Some []
              | x :: r => match g x, go r with Some v, Some vs => Some (v :: vs) | _, _ => None end
              end.
Definition elems_of (v : pv) : option (list pv) :=
  match v with VList l | VTuple l | VSet l | VFrozenSet l => Some l | _ => None end.

Fixpoint dump (t : ty) (v : pv) {struct t} : option pv :=
  match t with
  | TInt | TFloat | TBool | TStr | TNone | TAny | TLit _ => Some v            (* no conversion *)
  | TUser n => Some (VStr ("user" ++ show_nat n))                                (* a user-supplied dumper *)
  | TIter k t' =>
      match elems_of v with
      | Some l => option_map (match k with KList => VList | _ => VTuple end) (all_some (dump t') l)
      | None => None
      end
  | TTuple ts =>
      match v with
      | VTuple l | VList l =>
          if Nat.eqb (List.length l) (List.length ts)
          then option_map VTuple
                 ((fix go (ts : list ty) (l : list pv) {struct ts} : option (list pv) :=
                     match ts, l with
                     | t1 :: tr, x :: r => match dump t1 x, go tr r with Some a, Some b => Some (a :: b) | _, _ => None end
                     | _, _ => Some []
                     end) ts l)
          else None
      | _ => None
      end
  | TDict tk tv =>
      match v with
      | VDict kvs =>
          option_map VDict
            ((fix go (acc : list (pv * pv)) (l : list (pv * pv)) {struct l} : option (list (pv * pv)) :=
                match l with
                | [] => Some acc
                | (k, x) :: r => match dump tk k, dump tv x with
                                 | Some k', Some x' => go (dict_set acc k' x') r
                                 | _, _ => None
                                 end
                end) [] kvs)
      | _ => None
      end
  | TOpt t' => match v with VNone => Some VNone | _ => dump t' v end
  | TUnion ts =>
      if match literal_case ts with Some ls => existsb (fun l => pyeq (lit_val l) v) ls | None => false end
      then Some v
      else
        (* dispatch on the runtime class; the chosen case's own dumper is applied *)
        match dispatch (mro (class_of v)) (case_table ts) with
        | None => None
        | Some tsel =>
            (fix pick (cands : list ty) {struct cands} : option pv :=
               match cands with
               | [] => None
               | t1 :: r =>
                   if (match case_class t1, case_class tsel with
                       | Some a, Some b => Nat.eqb a b | _, _ => false end)
                   then dump t1 v else pick r
               end) ts
        end
  end.
End D.
