(* Model of adaptix._internal.type_tools.normalize_type (TypeNormalizer) on the hint grammar of property C15:
   None, Any, classes, NewTypes, parametrised and bare generics, tuples, Literal, Optional, Union (also written |),
   Annotated.  Normal forms compare by (origin, args); Literal members compare type-aware.  Union members and
   literal members are put in a stable order by a *string key* built exactly as _make_orderable builds it, so the
   order (which decides the order union loaders try their cases) is part of the model.
   `typed` selects the literal de-duplication: true = by (type, value) (the repaired _dedup), false = by Python ==
   (the pinned tree: 0 == False, 1 == True). *)
From Coq Require Import List Arith NArith ZArith Bool String Ascii.
From AV Require Import Model.Repr Model.Harness.
Import ListNotations.

(* ---------- strings as code point lists, lexicographic order (Python str comparison) ---------- *)
Definition key := list N.
Fixpoint cps (s : string) : key :=
  match s with EmptyString => [] | String c r => N.of_nat (nat_of_ascii c) :: cps r end.
Fixpoint lex_ltb (a b : key) : bool :=
  match a, b with
  | _, [] => false
  | [], _ :: _ => true
  | x :: a', y :: b' => if N.ltb x y then true else if N.ltb y x then false else lex_ltb a' b'
  end.

(* stable insertion sort by key (list.sort(key=...) is stable) *)
Section Sort.
Variable A : Type.
Variable kf : A -> key.
Fixpoint insert (x : A) (l : list A) : list A :=
  match l with [] => [x] | y :: r => if lex_ltb (kf x) (kf y) then x :: y :: r else y :: insert x r end.
Fixpoint isort (l : list A) : list A := match l with [] => [] | x :: r => insert x (isort r) end.
End Sort.
Arguments insert {A}. Arguments isort {A}.

Fixpoint dedup {A} (eqb : A -> A -> bool) (l : list A) : list A :=   (* keep first occurrences *)
  match l with [] => [] | x :: r => x :: filter (fun y => negb (eqb x y)) (dedup eqb r) end.

(* ---------- literals ---------- *)
Inductive lit := LInt (z : Z) | LBool (b : bool) | LStr (s : string) | LBytes (s : string) | LEnum (cls idx : nat).

Definition lit_eqb (a b : lit) : bool :=              (* (type, value) equality *)
  match a, b with
  | LInt x, LInt y => Z.eqb x y
  | LBool x, LBool y => Bool.eqb x y
  | LStr x, LStr y => String.eqb x y
  | LBytes x, LBytes y => String.eqb x y
  | LEnum c i, LEnum d j => Nat.eqb c d && Nat.eqb i j
  | _, _ => false
  end.
Definition lit_pyeq (a b : lit) : bool :=             (* Python ==: True == 1, False == 0 *)
  match a, b with
  | LInt x, LBool y | LBool y, LInt x => Z.eqb x (if y then 1 else 0)%Z
  | _, _ => lit_eqb a b
  end.

(* ---------- world: what str() gives for the origins in play (interpreter facts shipped with each case) ---------- *)
Inductive tvspec := TVAny | TVBound (c : nat) | TVConstr (cs : list nat).   (* bound / constraints are plain classes *)
Record world := World {
  w_str : list (nat * string);               (* origin id |-> str(origin), e.g. "<class 'int'>" *)
  w_params : list (nat * list tvspec);       (* generic origin |-> its type variables *)
  w_enum : list (nat * nat * string);        (* (enum class, member index) |-> member name *)
  w_enum_str : list (nat * string);          (* enum class |-> str(type(member)), e.g. "<enum 'Color'>" *)
  w_enum_cls : list (nat * string)           (* enum class |-> class __name__ (str(member) = "Name.MEMBER") *)
}.
Fixpoint assoc {A} (k : nat) (l : list (nat * A)) : option A :=
  match l with [] => None | (k', v) :: r => if Nat.eqb k k' then Some v else assoc k r end.
Definition str_of (w : world) (o : nat) : string := match assoc o (w_str w) with Some s => s | None => "?" end.
Definition enum_name (w : world) (c i : nat) : string :=
  match find (fun e => Nat.eqb (fst (fst e)) c && Nat.eqb (snd (fst e)) i) (w_enum w) with
  | Some e => snd e | None => "?" end.
Definition enum_str (w : world) (c : nat) : string := match assoc c (w_enum_str w) with Some s => s | None => "?" end.
Definition enum_cls (w : world) (c : nat) : string := match assoc c (w_enum_cls w) with Some s => s | None => "?" end.

(* repr() / str() of literal members *)
Definition py_repr_str (s : string) : key := repr (fun _ => true) (cps s).
Definition lit_repr_key (w : world) (l : lit) : key :=       (* _LiteralNormType._make_orderable *)
  match l with
  | LInt z => cps (show_Z z)
  | LBool b => cps (if b then "True" else "False")
  | LStr s => py_repr_str s
  | LBytes s => cps "b" ++ py_repr_str s
  | LEnum c i => cps (enum_str w c) ++ cps (enum_name w c i)
  end.
Definition lit_str (w : world) (l : lit) : key :=            (* str(obj), used when a Literal sits inside a Union *)
  match l with
  | LInt z => cps (show_Z z)
  | LBool b => cps (if b then "True" else "False")
  | LStr s => cps s
  | LBytes s => cps "b" ++ py_repr_str s
  | LEnum c i => cps (enum_cls w c) ++ cps "." ++ cps (enum_name w c i)
  end.

(* ---------- hints and normal forms ---------- *)
Inductive hint :=
| HNone | HAny
| HCls (c : nat)                          (* a non-generic class *)
| HNewType (n : nat)
| HGen (g : nat) (args : list hint)       (* List[int], dict[str, int], G[int] *)
| HBare (g : nat)                         (* list, typing.List, G *)
| HTupleFix (ts : list hint) | HTupleVar (t : hint) | HTupleBare
| HLit (ls : list (option lit))           (* None may appear inside Literal *)
| HOpt (h : hint)
| HUnion (hs : list hint)                 (* Union[...] or a | b | ... *)
| HAnn (h : hint) (metas : list nat).

Inductive norm :=
| NNone | NAny
| NCls (c : nat) | NNewType (n : nat)
| NGen (g : nat) (args : list norm)
| NTupleFix (ns : list norm) | NTupleVar (n : norm)
| NLit (ls : list lit)
| NUnion (ns : list norm)
| NAnn (n : norm) (metas : list nat).

Fixpoint norm_eqb (a b : norm) {struct a} : bool :=
  let fix list_eqb (l1 l2 : list norm) {struct l1} : bool :=
      match l1, l2 with
      | [], [] => true
      | x :: r1, y :: r2 => norm_eqb x y && list_eqb r1 r2
      | _, _ => false
      end in
  match a, b with
  | NNone, NNone | NAny, NAny => true
  | NCls c, NCls d => Nat.eqb c d
  | NNewType c, NNewType d => Nat.eqb c d
  | NGen g l1, NGen h l2 => Nat.eqb g h && list_eqb l1 l2
  | NTupleFix l1, NTupleFix l2 => list_eqb l1 l2
  | NTupleVar x, NTupleVar y => norm_eqb x y
  | NLit l1, NLit l2 =>
      (fix go (l1 l2 : list lit) : bool :=
         match l1, l2 with [], [] => true | x :: r1, y :: r2 => lit_eqb x y && go r1 r2 | _, _ => false end) l1 l2
  | NUnion l1, NUnion l2 => list_eqb l1 l2
  | NAnn x m1, NAnn y m2 => norm_eqb x y && (if list_eq_dec Nat.eq_dec m1 m2 then true else false)
  | _, _ => false
  end.

(* ---------- the ordering key of a union member: f"{origin} {[keys of args]}" ---------- *)
Definition py_list_str (items : list key) : key :=         (* str() of a list of str: [repr, repr, ...] *)
  cps "[" ++
  (fix go (l : list key) : key :=
     match l with [] => [] | [x] => repr (fun _ => true) x | x :: r => repr (fun _ => true) x ++ cps ", " ++ go r end) items
  ++ cps "]".
Definition ID_TUPLE := 1000. Definition ID_UNION := 1001. Definition ID_LITERAL := 1002.
Definition ID_ANNOTATED := 1003. Definition ID_ANY := 1004. Definition ID_NONE := 1005.

Fixpoint norm_key (w : world) (n : norm) {struct n} : key :=
  let head (o : nat) (ks : list key) : key := cps (str_of w o) ++ cps " " ++ py_list_str ks in
  match n with
  | NNone => head ID_NONE []
  | NAny => head ID_ANY []
  | NCls c => head c []
  | NNewType c => head c []
  | NGen g args => head g (map (norm_key w) args)
  | NTupleFix ns => head ID_TUPLE (map (norm_key w) ns)
  | NTupleVar x => head ID_TUPLE [norm_key w x; cps "Ellipsis"]
  | NLit ls => head ID_LITERAL (map (lit_str w) ls)
  | NUnion ns => head ID_UNION (map (norm_key w) ns)
  | NAnn x ms => head ID_ANNOTATED (norm_key w x :: map (fun m => cps (show_nat m)) ms)
  end.

(* ---------- union construction: unfold, dedup, merge literals, order ---------- *)
Definition is_lit (n : norm) : bool := match n with NLit _ => true | _ => false end.
Definition flatten (ns : list norm) : list norm :=
  flat_map (fun n => match n with NUnion l => l | _ => [n] end) ns.
Definition lits_of (ns : list norm) : list lit := flat_map (fun n => match n with NLit l => l | _ => [] end) ns.
Definition mk_lit (w : world) (ls : list lit) : norm := NLit (isort (lit_repr_key w) ls).
Definition lit_dedup (typed : bool) : list lit -> list lit := dedup (if typed then lit_eqb else lit_pyeq).

Definition merged_members (w : world) (typed : bool) (ns : list norm) : list norm :=
  let dd := dedup norm_eqb (flatten ns) in
  filter (fun n => negb (is_lit n)) dd ++
  match lits_of dd with [] => [] | ls => [mk_lit w (lit_dedup typed ls)] end.

Definition mk_union (w : world) (typed : bool) (ns : list norm) : norm :=
  match merged_members w typed ns with
  | [x] => x
  | ms => NUnion (isort (norm_key w) ms)
  end.

(* ---------- implicit parameters of bare generics ---------- *)
Definition implicit_param (w : world) (typed : bool) (tv : tvspec) : norm :=
  match tv with
  | TVAny => NAny
  | TVBound c => NCls c
  | TVConstr cs => mk_union w typed (map NCls cs)
  end.
Definition implicit_params (w : world) (typed : bool) (g : nat) : list norm :=
  match assoc g (w_params w) with Some tvs => map (implicit_param w typed) tvs | None => [] end.

Fixpoint somes {A} (l : list (option A)) : list A :=
  match l with [] => [] | Some x :: r => x :: somes r | None :: r => somes r end.
Definition has_none {A} (l : list (option A)) : bool := existsb (fun o => match o with None => true | _ => false end) l.

Fixpoint normalize (w : world) (typed : bool) (h : hint) {struct h} : norm :=
  match h with
  | HNone => NNone
  | HAny => NAny
  | HCls c => NCls c
  | HNewType c => NNewType c
  | HGen g args => NGen g (map (normalize w typed) args)
  | HBare g => NGen g (implicit_params w typed g)
  | HTupleFix ts => NTupleFix (map (normalize w typed) ts)
  | HTupleVar t => NTupleVar (normalize w typed t)
  | HTupleBare => NTupleVar NAny
  | HLit ls =>
      (* typing de-duplicates the members type-aware before adaptix sees them *)
      let vals := dedup lit_eqb (somes ls) in
      if has_none ls then
        match vals with
        | [] => NNone                                                     (* Literal[None] is None *)
        | _ => NUnion (isort (norm_key w) [NNone; mk_lit w (lit_dedup typed vals)])
        end
      else mk_lit w vals
  | HOpt h' => mk_union w typed [normalize w typed h'; NNone]
  | HUnion hs => mk_union w typed (map (normalize w typed) hs)
  | HAnn h' ms => NAnn (normalize w typed h') ms
  end.

(* a hint that spells a normal form back (used to state idempotence) *)
Fixpoint reify (n : norm) : hint :=
  match n with
  | NNone => HNone | NAny => HAny | NCls c => HCls c | NNewType c => HNewType c
  | NGen g args => HGen g (map reify args)
  | NTupleFix ns => HTupleFix (map reify ns)
  | NTupleVar x => HTupleVar (reify x)
  | NLit ls => HLit (map Some ls)
  | NUnion ns => HUnion (map reify ns)
  | NAnn x ms => HAnn (reify x) ms
  end.

(* ---------- meaning: which (abstract) runtime values a form admits ---------- *)
Inductive value := VNoneV | VLitV (l : lit) | VInst (c : nat) (elems : list value) | VNew (n : nat).
Fixpoint den (n : norm) (v : value) {struct n} : bool :=
  match n with
  | NNone => match v with VNoneV => true | _ => false end
  | NAny => true
  | NCls c => match v with VInst c' [] => Nat.eqb c c' | _ => false end
  | NNewType c => match v with VNew c' => Nat.eqb c c' | _ => false end
  | NGen g args =>
      match v with
      | VInst g' elems => Nat.eqb g g' &&
          (* every element is admitted by some parameter (coarse, but enough to separate different arguments) *)
          forallb (fun e => existsb (fun a => den a e) args) elems
      | _ => false
      end
  | NTupleFix ns =>
      match v with
      | VInst t elems => Nat.eqb t ID_TUPLE &&
          (fix go (ns : list norm) (es : list value) : bool :=
             match ns, es with [], [] => true | a :: r, e :: r' => den a e && go r r' | _, _ => false end) ns elems
      | _ => false
      end
  | NTupleVar x => match v with VInst t elems => Nat.eqb t ID_TUPLE && forallb (den x) elems | _ => false end
  | NLit ls => match v with VLitV l => existsb (lit_eqb l) ls | _ => false end
  | NUnion ns => existsb (fun m => den m v) ns
  | NAnn x _ => den x v
  end.
