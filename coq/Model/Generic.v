(* Model of adaptix._internal.type_tools.generic_resolver.GenericResolver (members by parents + substitution of type
   variables) against the specification "the annotation in the defining class with the substitutions composed along the
   inheritance path".  Classes are a table cname -> (params, orig_bases with their argument hints, own annotations). *)
From Coq Require Import List Arith Bool Lia.
Import ListNotations.

Notation var := nat (only parsing). Notation cname := nat (only parsing). Notation fname := nat (only parsing).
Inductive tyx := TV (v:var) | TC (c:nat) (args:list tyx).

Definition sub_t := list (var * tyx).                  (* simultaneous substitution *)
Fixpoint assoc {A} (k:nat) (l:list (nat*A)) : option A :=
  match l with [] => None | (k',v)::r => if Nat.eqb k k' then Some v else assoc k r end.
Fixpoint subst (s:sub_t) (t:tyx) : tyx :=
  match t with
  | TV v => match assoc v s with Some u => u | None => TV v end
  | TC c args => TC c (map (subst s) args) end.
Fixpoint closed (t:tyx) : bool := match t with TV _ => false | TC _ args => forallb closed args end.
Fixpoint vars_in (ps:list var) (t:tyx) : bool :=
  match t with TV v => existsb (Nat.eqb v) ps | TC _ args => forallb (vars_in ps) args end.

Record cls := { params : list var; bases : list (cname * list tyx); own : list (fname * tyx) }.

Fixpoint first_some {A} (l:list (option A)) : option A :=
  match l with [] => None | Some a :: _ => Some a | None :: r => first_some r end.

Section Hier.
Variable table : cname -> cls.
Definition bind (C:cname) (args:list tyx) : sub_t := combine (params (table C)) args.

(* what an introspector returns for C: every field, annotated as written in its defining class *)
Fixpoint raw (fuel:nat) (C:cname) (f:fname) : option tyx :=
  match fuel with O => None | S n =>
    match assoc f (own (table C)) with
    | Some t => Some t
    | None => first_some (map (fun b => raw n (fst b) f) (bases (table C))) end end.

(* GenericResolver: _get_members_by_parents + _get_members_of_parametrized_generic *)
Fixpoint by_parents (fuel:nat) (C:cname) (f:fname) : option tyx :=
  match fuel with O => None | S n =>
    match raw (S n) C f with
    | None => None
    | Some r =>
      if closed r then Some r                                   (* not generic: keep the raw hint *)
      else match assoc f (own (table C)) with
           | Some _ => Some r                                   (* overridden here: keep own hint *)
           | None =>
             match first_some (map (fun b => option_map (subst (bind (fst b) (snd b))) (by_parents n (fst b) f))
                                   (bases (table C))) with
             | Some t => Some t
             | None => Some r end end end end.
Definition resolve (fuel:nat) (C:cname) (args:list tyx) (f:fname) : option tyx :=
  option_map (subst (bind C args)) (by_parents fuel C f).

(* specification: the annotation in the defining class, with the substitutions composed on the way down *)
Fixpoint spec (fuel:nat) (C:cname) (args:list tyx) (f:fname) : option tyx :=
  match fuel with O => None | S n =>
    match assoc f (own (table C)) with
    | Some t => Some (subst (bind C args) t)
    | None => first_some (map (fun b => spec n (fst b) (map (subst (bind C args)) (snd b)) f) (bases (table C))) end end.
End Hier.

