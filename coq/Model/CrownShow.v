(* Printers and entry points for the C03 correspondence check.  No theorem depends on this file. *)
From Coq Require Import List Arith Bool String.
From AV Require Import Model.Harness Model.NameStyle Model.Layout Model.CrownSem.
Import ListNotations.
Local Open Scope list_scope.
Local Open Scope string_scope.

Definition show_key (k : key) : string := match k with KS s => "'" ++ s ++ "'" | KI n => show_nat n end.
Definition show_path (p : path) : string := join "/" (map show_key p).

Fixpoint show_pv (fuel : nat) (v : pv) : string :=
  match fuel with O => "?" | S f =>
  match v with
  | VNone => "None"
  | VInt n => show_nat n
  | VStr s => "s:" ++ s
  | VList l => "[" ++ join "," (map (show_pv f) l) ++ "]"
  | VDict kvs => "{" ++ join "," (sort_s (map (fun kv => show_key (fst kv) ++ ":" ++ show_pv f (snd kv)) kvs)) ++ "}"
  end end.

Definition show_ecls (c : ecls) : string :=
  match c with
  | TypeLE => "TypeLoadError"
  | NoReqFields ks => "NoRequiredFieldsLoadError{" ++ join "," (sort_s ks) ++ "}"
  | ExtraFields ks => "ExtraFieldsLoadError{" ++ join "," (sort_s (map show_key ks)) ++ "}"
  | NoReqItems n => "NoRequiredItemsLoadError{" ++ show_nat n ++ "}"
  | ExtraItems n => "ExtraItemsLoadError{" ++ show_nat n ++ "}"
  end.
Definition show_err (e : err) : string := match e with E c t => show_ecls c ++ "@" ++ show_path t end.

Definition show_outcome (o : outcome) : string :=
  match o with
  | Loaded fs x => "ok " ++ join ";" (sort_s (map (fun p => show_nat (fst p) ++ "=" ++ show_nat (snd p)) fs)) ++
                   " extra=" ++ show_pv 30 (VDict x)
  | Single e => "err " ++ show_err e
  | Group es => "errs " ++ join ";" (sort_s (map show_err es))
  end.

(* a field: id, name, required, default *)
Definition fspec := (nat * string * bool * nat)%type.
Definition to_fld (f : fspec) : fld := match f with (i, n, r, _) => {| f_id := i; f_name := n; f_required := r |} end.
Definition info_of (fs : list fspec) (i : nat) : finfo :=
  match find (fun f => match f with (j, _, _, _) => Nat.eqb i j end) fs with
  | Some (_, _, r, d) => {| fi_required := r; fi_default := d |}
  | None => {| fi_required := true; fi_default := 0 |}
  end.
Definition name_of_id (fs : list fspec) (i : nat) : string :=
  match find (fun f => match f with (j, _, _, _) => Nat.eqb i j end) fs with
  | Some (_, n, _, _) => n | None => "" end.

Definition run_loads (stack : list overlay) (fs : list fspec) (md : mode) (inputs : list pv) : string :=
  match make_layout stack false (map to_fld fs) with
  | Bad why => "layout-error"
  | Good c ps =>
      (* fields that are not part of the layout keep the default of the class (C08) *)
      let targets := match s_extra_in (provide_schema stack) with XCollect t => t | _ => [] end in
      let skipped := flat_map (fun f => match f with (i, n, _, d) =>
                        if existsb (fun ip => Nat.eqb (fst ip) i) ps || mem n targets then [] else [(i, d)] end) fs in
      join "|" (map (fun d => show_outcome
                   (match load (info_of fs) (policy_of (s_extra_in (provide_schema stack))) md c d with
                    | Loaded l x => Loaded (l ++ skipped) x
                    | o => o end)) inputs)
  end.

Definition run_dumps (stack : list overlay) (fs : list fspec) (objs : list (list (nat * nat) * list (key * pv))) : string :=
  match make_layout stack true (map to_fld fs) with
  | Bad why => "layout-error"
  | Good c _ =>
      let sc := provide_schema stack in
      let omit := fun i => negb (fi_required (info_of fs i)) &&
                           match s_omit sc with OmitAll => true | OmitNone => false | OmitNames l => mem (name_of_id fs i) l end in
      join "|" (map (fun o =>
        match dump_model (fun i => option_map snd (find (fun p => Nat.eqb (fst p) i) (fst o))) omit
                         (fun i => fi_default (info_of fs i)) c (snd o) with
        | Some v => show_pv 30 v | None => "dump-error" end) objs)
  end.

Definition show_layout (stack : list overlay) (output : bool) (fs : list fspec) : string :=
  match make_layout stack output (map to_fld fs) with
  | Bad why => "layout-error:" ++ why
  | Good _ ps => join ";" (map (fun ip => show_nat (fst ip) ++ "->" ++ show_path (snd ip)) ps)
  end.
