(* C19 - how generated code gets hold of objects that have no literal (morphing/model/basic_gen.py,
   compile_closure_with_globals_capturing): every such name of the namespace is bound, in the maker function, to a global
   whose name is "g_" + name, prefixed with further "g_" while the candidate is a name of the namespace, the name of the
   closure or - in the tree as repaired (`fixed`) - a global name already handed out.  Executable; no proofs here. *)
From Coq Require Import List Arith Bool String.
Import ListNotations.
Local Open Scope string_scope.

Definition gname (s : string) : string := "g_" ++ s.
Definition mem (s : string) (l : list string) : bool := existsb (String.eqb s) l.

Fixpoint find_free (fuel : nat) (taken : string -> bool) (g : string) : string :=
  match fuel with
  | O => g
  | S f => if taken g then find_free f taken (gname g) else g
  end.

Definition taken_by (fixed : bool) (ns : list string) (closure : string) (acc : list (string * string)) (g : string) : bool :=
  mem g ns || (fixed && mem g (map snd acc)) || String.eqb g closure.

(* todo: the names to capture (those whose value has no literal), in namespace order *)
Fixpoint capture_loop (fixed : bool) (fuel : nat) (ns : list string) (closure : string) (todo : list string)
                      (acc : list (string * string)) : list (string * string) :=
  match todo with
  | [] => acc
  | name :: r => capture_loop fixed fuel ns closure r (acc ++ [(name, find_free fuel (taken_by fixed ns closure acc) (gname name))])
  end.

Definition capture (fixed : bool) (ns : list string) (closure : string) (captured : list string) : list (string * string) :=
  capture_loop fixed (List.length ns + List.length captured + 2) ns closure captured [].
