(* Model of the implicit coercion rules of adaptix.conversion (coercer_provider.py): which (source, destination)
   pairs of field types get a coercer without user-supplied coercers, and what that coercer does.
   Provider order: iterable, dict, Optional (structural, terminal once both sides parse), then the as-is rules:
   same type, destination Any, union sub-case, non-generic subclass.
   `by_origin` = the union sub-case rule of the pinned tree (a non-union source was compared by ORIGIN only and a
   multi-case union containing None was treated as Optional of its first case); false = the repaired rules. *)
From Coq Require Import List Arith Bool Lia.
Import ListNotations.

Inductive ty := TAny | TNone | TCls (c:nat) | TList (k:nat) (t:ty) | TDict (k v:ty) | TOpt (t:ty) | TUnion (ts:list ty).
Inductive val := VNone | VObj (c:nat) | VList (l:list val) | VDict (kvs:list (val*val)).

Fixpoint ty_eqb (a b:ty) : bool :=
  match a, b with
  | TAny, TAny | TNone, TNone => true
  | TCls x, TCls y => Nat.eqb x y
  | TList k x, TList k' y => Nat.eqb k k' && ty_eqb x y
  | TDict k v, TDict k' v' => ty_eqb k k' && ty_eqb v v'
  | TOpt x, TOpt y => ty_eqb x y
  | TUnion xs, TUnion ys =>
      (fix go (xs ys:list ty) : bool := match xs, ys with [], [] => true | x::xr, y::yr => ty_eqb x y && go xr yr | _, _ => false end) xs ys
  | _, _ => false end.


Section Sem.
Variable subc : nat -> nat -> bool.                         (* issubclass on non-generic classes *)

Fixpoint has_type (t:ty) (v:val) : bool :=
  match t with
  | TAny => true
  | TNone => match v with VNone => true | _ => false end
  | TCls c => match v with VObj c' => subc c' c | _ => false end
  | TList _ t' => match v with VList l => forallb (has_type t') l | _ => false end
  | TDict k w => match v with VDict kvs => forallb (fun kv => has_type k (fst kv) && has_type w (snd kv)) kvs | _ => false end
  | TOpt t' => match v with VNone => true | _ => has_type t' v end
  | TUnion ts => existsb (fun t' => has_type t' v) ts
  end.

Inductive co := AsIs | MapList (c:co) | MapDict (k v:co) | MapOpt (c:co).
Fixpoint apply (c:co) (v:val) : val :=
  match c with
  | AsIs => v
  | MapList c' => match v with VList l => VList (map (apply c') l) | _ => v end
  | MapDict ck cv => match v with VDict kvs => VDict (map (fun kv => (apply ck (fst kv), apply cv (snd kv))) kvs) | _ => v end
  | MapOpt c' => match v with VNone => VNone | _ => apply c' v end
  end.

Definition mem (t:ty) (ts:list ty) := existsb (ty_eqb t) ts.
Definition origin_eqb (a b:ty) : bool :=                       (* compare origins only *)
  match a, b with
  | TList k _, TList k' _ => Nat.eqb k k'
  | TDict _ _, TDict _ _ | TAny, TAny | TNone, TNone => true
  | TCls x, TCls y => Nat.eqb x y | _, _ => false end.

(* the cases of a union-like type; Optional[X] is Union[X, None] *)
Definition cases_of (t:ty) : option (list ty) :=
  match t with TUnion ts => Some ts | TOpt t' => Some [t'; TNone] | _ => None end.

(* the as-is rules that remain when no structural provider applies *)
Definition as_is (by_origin:bool) (s d:ty) : bool :=
  ty_eqb s d
  || match d with TAny => true | _ => false end
  || match cases_of d with
     | Some ds => match cases_of s with
                  | Some ss => forallb (fun x => mem x ds) ss
                  | None => if by_origin then existsb (origin_eqb s) ds else mem s ds
                  end
     | None => false
     end
  || match s, d with TCls a, TCls b => subc a b | _, _ => false end.

Fixpoint coercible (by_origin:bool) (s d:ty) {struct s} : option co :=
  match s, d with
  | TList _ s', TList _ d' => option_map MapList (coercible by_origin s' d')
  | TDict sk sv, TDict dk dv =>
      match coercible by_origin sk dk, coercible by_origin sv dv with Some a, Some b => Some (MapDict a b) | _, _ => None end
  | TOpt s', TOpt d' => option_map MapOpt (coercible by_origin s' d')
  | _, _ => if as_is by_origin s d then Some AsIs else None
  end.
End Sem.
