(* C16, further sentences of the property as theorems over Model/Generic.v:
   - every type variable is replaced: with closed arguments the resolved field type mentions no variable at all;
   - an overriding annotation shadows whatever the bases say;
   - a class used bare behaves as the class parametrised with the documented implicit parameters. *)
From Coq Require Import List Arith Bool Lia.
Import ListNotations.
From AV Require Import Model.Generic Proofs.GenericProofs.

Lemma forallb_map_ext {A} (f g : A -> bool) l : (forall a, In a l -> f a = true -> g a = true) -> forallb f l = true -> forallb g l = true.
Proof.
  induction l as [|a r IH]; simpl; intros H Hf; [reflexivity|]. apply andb_true_iff in Hf. destruct Hf as [Ha Hr].
  apply andb_true_iff. split; [apply H; auto|apply IH; auto].
Qed.

(* binding the parameters to closed arguments closes every term over those parameters *)
Lemma subst_bind_closed ps : forall (az : list tyx) t, length az = length ps -> Forall (fun a => closed a = true) az ->
  vars_in ps t = true -> closed (subst (combine ps az) t) = true.
Proof.
  intros az t Hl Hc. induction t as [v|c args IH] using tyx_ind'; simpl; intro H.
  - destruct (assoc_combine_in ps az v Hl H) as [u Hu]. rewrite Hu.
    assert (In u az) as Hin.
    { clear -Hu. revert az Hu. induction ps as [|p ps IHp]; intros az Hu; [discriminate|].
      destruct az as [|a az]; [discriminate|]. simpl in Hu. destruct (Nat.eqb v p); [injection Hu as <-; now left|right; eauto]. }
    rewrite Forall_forall in Hc. now apply Hc.
  - induction IH as [|x r Hx _ IHr]; simpl in *; [reflexivity|].
    apply andb_true_iff in H. destruct H as [H1 H2]. apply andb_true_iff. split; auto.
Qed.

Lemma forall_closed_map_subst ps (az bargs : list tyx) : length az = length ps -> Forall (fun a => closed a = true) az ->
  Forall (fun a => vars_in ps a = true) bargs -> Forall (fun a => closed a = true) (map (subst (combine ps az)) bargs).
Proof.
  intros Hl Hc Hb. induction Hb as [|b r Hb _ IH]; simpl; constructor; auto. now apply subst_bind_closed.
Qed.

Section More.
Variable table : cname -> cls.
Hypothesis WF : forall C, wf_cls table C.

Lemma first_some_in {A} (l : list (option A)) a : first_some l = Some a -> In (Some a) l.
Proof. induction l as [|[x|] r IH]; simpl; intro H; [discriminate|injection H as <-; now left|right; auto]. Qed.

(* the specification leaves no variable when the arguments have none *)
Lemma spec_closed : forall fuel C args f t, length args = length (params (table C)) ->
  Forall (fun a => closed a = true) args -> spec table fuel C args f = Some t -> closed t = true.
Proof.
  induction fuel as [|n IH]; intros C args f t Hl Hc H; [discriminate|]. simpl in H.
  destruct (WF C) as [Hown Hbases].
  destruct (assoc f (own (table C))) as [t0|] eqn:Ea.
  - injection H as <-. apply subst_bind_closed; auto. apply (Hown f). now apply assoc_in.
  - apply first_some_in in H. apply in_map_iff in H. destruct H as [[B ba] [Hs Hin]]. simpl in Hs.
    destruct (Hbases B ba Hin) as [Hlen Hvars].
    eapply (IH B _ f t); [|  |exact Hs].
    + now rewrite map_length.
    + apply forall_closed_map_subst; auto.
Qed.

Theorem resolved_type_has_no_variable : forall fuel C args f t, length args = length (params (table C)) ->
  Forall (fun a => closed a = true) args -> resolve table fuel C args f = Some t -> closed t = true.
Proof.
  intros fuel C args f t Hl Hc H. rewrite (resolver_is_substitution table WF fuel C args f Hl) in H.
  eapply spec_closed; eassumption.
Qed.

(* shadowing: the class's own annotation decides, whatever its bases declare for that field *)
Theorem own_annotation_shadows : forall fuel C args f t, length args = length (params (table C)) ->
  assoc f (own (table C)) = Some t -> resolve table (S fuel) C args f = Some (subst (bind table C args) t).
Proof.
  intros fuel C args f t Hl Ho. rewrite (resolver_is_substitution table WF (S fuel) C args f Hl). simpl. now rewrite Ho.
Qed.

(* inherited: a field the class does not annotate comes from the first base that has it, resolved for the base applied to
   its arguments as the class writes them, with the class's own parameters substituted *)
Theorem inherited_through_base : forall fuel C args f, length args = length (params (table C)) ->
  assoc f (own (table C)) = None ->
  resolve table (S fuel) C args f =
  first_some (map (fun b => resolve table fuel (fst b) (map (subst (bind table C args)) (snd b)) f) (bases (table C))).
Proof.
  intros fuel C args f Hl Ho. rewrite (resolver_is_substitution table WF (S fuel) C args f Hl). simpl. rewrite Ho.
  apply first_some_ext. intros [B ba] Hin. simpl. destruct (WF C) as [_ Hbases]. destruct (Hbases B ba Hin) as [Hlen _].
  symmetry. apply (resolver_is_substitution table WF). now rewrite map_length.
Qed.

(* a class used bare: the documented implicit parameter of each of its type variables (Any, the bound, the union of the
   constraints) takes the place of the missing argument *)
Variable implicit : var -> tyx.
Definition resolve_bare (fuel : nat) (C : cname) (f : fname) : option tyx :=
  resolve table fuel C (map implicit (params (table C))) f.

Theorem bare_is_implicit_substitution : forall fuel C f,
  resolve_bare fuel C f = spec table fuel C (map implicit (params (table C))) f.
Proof. intros. unfold resolve_bare. apply (resolver_is_substitution table WF). now rewrite map_length. Qed.

Theorem bare_has_no_variable : (forall v, closed (implicit v) = true) ->
  forall fuel C f t, resolve_bare fuel C f = Some t -> closed t = true.
Proof.
  intros Hi fuel C f t H. eapply resolved_type_has_no_variable; [| |exact H].
  - now rewrite map_length.
  - apply Forall_forall. intros a Ha. apply in_map_iff in Ha. destruct Ha as [v [<- _]]. apply Hi.
Qed.
End More.

(* non-vacuity on the table of GenericProofs: Mid[U](Base[U, int]) used bare with Any for U *)
Definition ANY := TC 103 [].
Example bare_example : map (resolve_bare tbl (fun _ => ANY) 5 1) [0; 1; 2] = [Some ANY; Some INT; Some (LIST ANY)].
Proof. vm_compute. reflexivity. Qed.
