From Coq Require Import List Arith Bool Lia.
Import ListNotations.
From AV Require Import Model.Router.

(* the code as it is: refuted *)
Example refuted :
  exists r req, candidates_items req (combine false r) <> candidates_lin req r.
Proof.
  exists [(ExactO 0, 10); (Other (fun _ => false), 11); (ExactO 1, 12)], 0.
  vm_compute. discriminate.
Qed.

(* the repaired combiner *)
Definition keys_nodup (t:list (origin*handler)) := NoDup (map fst t).
Definition as_recipe (t:list (origin*handler)) : list (checker*handler) := map (fun kh => (ExactO (fst kh), snd kh)) t.

Lemma lookup_app o a b : lookup o (a ++ b) = match lookup o a with Some h => Some h | None => lookup o b end.
Proof. induction a as [|[k h] a IH]; simpl; auto. destruct (Nat.eqb k o); auto. Qed.

Lemma cand_table req t : keys_nodup t ->
  match lookup req t with Some h => [h] | None => [] end = candidates_lin req (as_recipe t).
Proof.
  unfold keys_nodup, candidates_lin, as_recipe. induction t as [|[k h] t IH]; simpl; intro ND; auto.
  inversion ND as [|? ? Hn ND']; subst.
  destruct (Nat.eqb k req) eqn:E; simpl.
  - apply Nat.eqb_eq in E; subst. f_equal.
    assert (L: lookup req t = None).
    { clear -Hn. induction t as [|[k' h'] t IH]; simpl in *; auto.
      destruct (Nat.eqb k' req) eqn:E'; [apply Nat.eqb_eq in E'; subst; exfalso; auto|]. apply IH. auto. }
    rewrite <- IH by assumption. now rewrite L.
  - apply IH; assumption.
Qed.

Lemma cand_lin_app req a b : candidates_lin req (a ++ b) = candidates_lin req a ++ candidates_lin req b.
Proof. unfold candidates_lin. now rewrite filter_app, map_app. Qed.

Lemma stop_combo_spec req combo extra : keys_nodup combo ->
  candidates_items req (fst (stop_combo true combo extra))
  = candidates_lin req (as_recipe combo ++ match extra with Some ch => [ch] | None => [] end)
  /\ snd (stop_combo true combo extra) = [].
Proof.
  intro ND. rewrite cand_lin_app. unfold stop_combo.
  assert (T: candidates_items req (match extra with Some (c,h) => [Single c h] | None => [] end)
             = candidates_lin req (match extra with Some ch => [ch] | None => [] end)).
  { destruct extra as [[c h]|]; simpl; auto. unfold candidates_lin; simpl. destruct (check c req); simpl; auto. }
  destruct combo as [|[o h] [|kh2 combo]]; cbn [fst snd]; (split; [|reflexivity]).
  - cbn [as_recipe map candidates_lin filter]. simpl. exact T.
  - unfold candidates_items in *. cbn [flat_map cand_item]. rewrite T.
    unfold candidates_lin at 2. cbn [as_recipe map filter fst snd check].
    destruct (Nat.eqb o req); reflexivity.
  - unfold candidates_items in *. cbn [flat_map cand_item]. rewrite T. f_equal. now apply cand_table.
Qed.

Lemma mem_key_false_nodup o h combo : keys_nodup combo -> mem_key o combo = false -> keys_nodup (combo ++ [(o,h)]).
Proof.
  unfold keys_nodup, mem_key. intros ND M. rewrite map_app. simpl.
  assert (NI: ~ In o (map fst combo)).
  { clear ND. induction combo as [|[k h'] c IH]; simpl in *; auto.
    destruct (Nat.eqb k o) eqn:E; [discriminate|]. apply Nat.eqb_neq in E. intros [->|HI]; [congruence|]. apply IH; auto. }
  clear M. induction combo as [|[k h'] c IH]; simpl in *.
  - constructor; [simpl; tauto | constructor].
  - inversion ND as [|? ? Hk ND']; subst. constructor.
    + rewrite in_app_iff. simpl. intros [HI|[E|[]]]; [auto | subst; apply NI; auto].
    + apply IH; auto.
Qed.

Lemma cand_items_app req a b : candidates_items req (a ++ b) = candidates_items req a ++ candidates_items req b.
Proof. unfold candidates_items. apply flat_map_app. Qed.

Theorem combine_candidates req : forall r combo, keys_nodup combo ->
  candidates_items req (combine_from true combo r) = candidates_lin req (as_recipe combo ++ r).
Proof.
  induction r as [|[c h] rest IH]; intros combo ND; simpl.
  - destruct (stop_combo_spec req combo None ND) as [E _]. rewrite app_nil_r in *. exact E.
  - assert (Stop: forall ch,
              candidates_items req (fst (stop_combo true combo (Some ch)) ++ combine_from true (snd (stop_combo true combo (Some ch))) rest)
              = candidates_lin req (as_recipe combo ++ ch :: rest)).
    { intro ch. destruct (stop_combo_spec req combo (Some ch) ND) as [E E2].
      rewrite E2, cand_items_app, E, (IH [] ltac:(constructor)). simpl.
      replace (as_recipe combo ++ ch :: rest) with ((as_recipe combo ++ [ch]) ++ rest) by (now rewrite <- app_assoc).
      now rewrite (cand_lin_app req (as_recipe combo ++ [ch])). }
    unfold register; cbn [fst snd].
    destruct c as [o|p].
    + destruct (mem_key o combo) eqn:M.
      * specialize (Stop (ExactO o, h)). destruct (stop_combo true combo (Some (ExactO o, h))). exact Stop.
      * simpl. rewrite (IH (combo ++ [(o,h)]) (mem_key_false_nodup o h combo ND M)).
        unfold as_recipe. rewrite map_app. simpl. now rewrite <- app_assoc.
    + specialize (Stop (Other p, h)). destruct (stop_combo true combo (Some (Other p, h))). exact Stop.
Qed.

Corollary router_candidates req r : candidates_items req (combine true r) = candidates_lin req r.
Proof. apply (combine_candidates req r []). constructor. Qed.

Section BusProofs.
Variable behaviour : handler -> beh.
Definition single (req:origin) (items:list item) := Forall (fun it => length (cand_item req it) <= 1) items.

Lemma cand_item_single req it : length (cand_item req it) <= 1.
Proof. destruct it as [c h|t]; simpl; [destruct (check c req)|destruct (lookup req t)]; simpl; lia. Qed.

(* routing from an offset finds the head of the remaining candidates, and what follows it is the rest *)
Lemma cand_cons req it r : candidates_items req (it :: r) = cand_item req it ++ candidates_items req r.
Proof. reflexivity. Qed.

Lemma route_spec req : forall items idx,
  match route req items idx with
  | None => candidates_items req items = []
  | Some (h, next) => idx < next /\ next <= idx + length items /\
      candidates_items req items = h :: candidates_items req (skipn (next - idx) items) end.
Proof.
  induction items as [|it r IH]; intro idx; [reflexivity|].
  cbn [route]. rewrite cand_cons. cbn [length].
  pose proof (cand_item_single req it) as L1.
  destruct (cand_item req it) as [|h [|h' t]]; simpl in L1; try lia.
  - specialize (IH (S idx)). destruct (route req r (S idx)) as [[h next]|].
    + destruct IH as (A & B & C). split; [lia|]. split; [lia|].
      replace (next - idx) with (S (next - S idx)) by lia. exact C.
    + exact IH.
  - split; [lia|]. split; [lia|]. replace (S idx - idx) with 1 by lia. reflexivity.
Qed.

Lemma skipn_add {A} (l:list A) : forall a b, skipn a (skipn b l) = skipn (a + b) l.
Proof.
  intros a b. revert l. induction b as [|b IH]; intro l.
  - now rewrite Nat.add_0_r.
  - destruct l as [|x r]; [now rewrite !skipn_nil|]. rewrite Nat.add_succ_r. simpl. apply IH.
Qed.

Theorem send_items_is_send req items : forall fuel off, length items - off < fuel -> off <= length items ->
  send_items behaviour fuel req items off = send behaviour (candidates_items req (skipn off items)).
Proof.
  induction fuel as [|n IH]; intros off Hf Ho; [lia|]. cbn [send_items].
  pose proof (route_spec req (skipn off items) off) as R.
  destruct (route req (skipn off items) off) as [[h next]|].
  - destruct R as (A & B & C). rewrite skipn_length in B. rewrite C. cbn [send].
    rewrite skipn_add in *. replace (next - off + off) with next in * by lia.
    destruct (behaviour h); try reflexivity; rewrite IH by lia; reflexivity.
  - rewrite R. reflexivity.
Qed.

End BusProofs.

(* putting it together with combine_candidates: the optimised router and the linear recipe give the same
   outcome and consult the same handlers in the same order, hence no handler twice unless listed twice *)
Corollary bus_refines_linear behaviour req recipe :
  send_items behaviour (S (length (combine true recipe))) req (combine true recipe) 0
  = send behaviour (candidates_lin req recipe).
Proof.
  rewrite send_items_is_send by lia. simpl. now rewrite router_candidates.
Qed.

(* ---------------- consequences stated on the whole pipeline ---------------- *)
Theorem resolve_is_spec behaviour r req : resolve true behaviour r req = resolve_spec behaviour r req.
Proof. unfold resolve, resolve_spec. apply bus_refines_linear. Qed.

(* the handlers consulted are a prefix of the matching providers, in recipe order *)
Lemma send_trace_prefix behaviour cs : exists rest, cs = snd (send behaviour cs) ++ rest.
Proof.
  induction cs as [|h r [rest IH]]; [exists []; reflexivity|].
  cbn [send]. destruct (behaviour h); try (exists r; reflexivity);
    destruct (send behaviour r) as [o tr]; cbn [snd] in *; exists rest; simpl; now f_equal.
Qed.

Lemma prefix_nodup {A} (a b : list A) : NoDup (a ++ b) -> NoDup a.
Proof.
  induction a as [|x a IH]; simpl; intro H; [constructor|].
  inversion H as [|? ? Hn H']; subst. constructor; [|auto].
  intro I. apply Hn. apply in_or_app. now left.
Qed.

Lemma filter_map_nodup (req : origin) (r : recipe) : NoDup (map snd r) -> NoDup (candidates_lin req r).
Proof.
  unfold candidates_lin. induction r as [|[c h] r IH]; simpl; intro H; [constructor|].
  inversion H as [|? ? Hn H']; subst. destruct (check c req); simpl; [|auto].
  constructor; [|auto]. intro I. apply Hn. clear -I.
  induction r as [|[c' h'] r IH]; simpl in *; [contradiction|].
  destruct (check c' req); simpl in *; [destruct I; [left|right]|right]; auto.
Qed.

Theorem no_provider_consulted_twice behaviour r req :
  NoDup (map snd r) -> NoDup (snd (resolve true behaviour r req)).
Proof.
  intro H. rewrite resolve_is_spec. unfold resolve_spec.
  destruct (send_trace_prefix behaviour (candidates_lin req r)) as [rest E].
  apply filter_map_nodup with (req := req) in H. rewrite E in H. now apply prefix_nodup in H.
Qed.

Theorem consulted_only_matching behaviour r req h :
  In h (snd (resolve true behaviour r req)) -> exists c, In (c, h) r /\ check c req = true.
Proof.
  rewrite resolve_is_spec. unfold resolve_spec. intro I.
  destruct (send_trace_prefix behaviour (candidates_lin req r)) as [rest E].
  assert (I2 : In h (candidates_lin req r)) by (rewrite E; apply in_or_app; now left).
  unfold candidates_lin in I2. apply in_map_iff in I2. destruct I2 as [[c h'] [Eh F]]. simpl in Eh. subst h'.
  apply filter_In in F. destruct F as [F1 F2]. exists c. split; assumption.
Qed.

(* first match: providers before the first matching one that does not decline are consulted and skipped; that one
   decides; nothing after it is consulted unless it chains *)
Fixpoint all_decline (behaviour : handler -> beh) (cs : list handler) : bool :=
  match cs with [] => true | h :: r => match behaviour h with Decline => all_decline behaviour r | _ => false end end.

Theorem first_match_answers behaviour r req pre h a post :
  candidates_lin req r = pre ++ h :: post -> all_decline behaviour pre = true -> behaviour h = Answer a ->
  resolve true behaviour r req = (Found [a], pre ++ [h]).
Proof.
  intros E D A. rewrite resolve_is_spec. unfold resolve_spec. rewrite E. clear E.
  induction pre as [|p pre IH]; cbn [app send all_decline] in *.
  - now rewrite A.
  - destruct (behaviour p); try discriminate. rewrite (IH D). reflexivity.
Qed.

Theorem terminal_stops behaviour r req pre h post :
  candidates_lin req r = pre ++ h :: post -> all_decline behaviour pre = true -> behaviour h = Terminal ->
  resolve true behaviour r req = (Failed, pre ++ [h]).
Proof.
  intros E D A. rewrite resolve_is_spec. unfold resolve_spec. rewrite E. clear E.
  induction pre as [|p pre IH]; cbn [app send all_decline] in *.
  - now rewrite A.
  - destruct (behaviour p); try discriminate. rewrite (IH D). reflexivity.
Qed.

(* Chain.FIRST / Chain.LAST compose the user function with the result of the rest exactly once, in the documented
   direction (closure lists are outermost-first: the last element is applied to the data first) *)
Theorem chain_first_once behaviour r req h f post :
  candidates_lin req r = h :: post -> behaviour h = ChainFirst f ->
  resolve true behaviour r req =
  (match fst (send behaviour post) with Found c => Found (c ++ [f]) | x => x end, h :: snd (send behaviour post)).
Proof.
  intros E A. rewrite resolve_is_spec. unfold resolve_spec. rewrite E. cbn [send]. rewrite A.
  destruct (send behaviour post) as [o l]; cbn [fst snd]; destruct o; reflexivity.
Qed.

Theorem chain_last_once behaviour r req h f post :
  candidates_lin req r = h :: post -> behaviour h = ChainLast f ->
  resolve true behaviour r req =
  (match fst (send behaviour post) with Found c => Found (f :: c) | x => x end, h :: snd (send behaviour post)).
Proof.
  intros E A. rewrite resolve_is_spec. unfold resolve_spec. rewrite E. cbn [send]. rewrite A.
  destruct (send behaviour post) as [o l]; cbn [fst snd]; destruct o; reflexivity.
Qed.

(* recipe assembly: instance recipe first, then class recipes; extend() prepends *)
Theorem full_recipe_order req head inst classes tail :
  candidates_lin req (full_recipe head inst classes tail) =
  candidates_lin req head ++ candidates_lin req inst ++ candidates_lin req (concat classes) ++ candidates_lin req tail.
Proof. unfold full_recipe. now rewrite !cand_lin_app. Qed.

Theorem extend_prepends req inst new :
  candidates_lin req (extend inst new) = candidates_lin req new ++ candidates_lin req inst.
Proof. unfold extend. apply cand_lin_app. Qed.

(* the combiner of the pinned tree (one-element combo not cleared) does NOT have the property *)
Theorem as_coded_refuted :
  exists behaviour r req, resolve false behaviour r req <> resolve_spec behaviour r req.
Proof.
  exists (fun h => match h with 10 => ChainFirst 7 | 11 => Decline | _ => Answer 1 end),
         [(ExactO 0, 10); (Other (fun _ => true), 11); (ExactO 1, 12); (Other (fun _ => true), 13)], 0.
  vm_compute. discriminate.
Qed.

Example nonvacuous :
  resolve true (fun h => match h with 10 => ChainFirst 7 | 11 => Decline | 12 => ChainLast 8 | _ => Answer 1 end)
    [(ExactO 0, 10); (Other (fun _ => true), 11); (ExactO 1, 99); (Other (fun o => Nat.eqb o 0), 12); (ExactO 0, 13)] 0
  = (Found [8; 1; 7], [10; 11; 12; 13]).
Proof. vm_compute. reflexivity. Qed.
