(* every crown make_layout accepts has pairwise distinct keys in each of its mapping nodes, after re-ordering too: the
   hypothesis `CrownProofs.wf c` of the model-loader theorems (C03 round trip / exact paths, C05 exactly once) holds of
   every layout the builder produces *)
From Coq Require Import List Arith Bool String Permutation.
From AV Require Import Model.NameStyle Model.Layout Model.CrownSem Proofs.CrownProofs Proofs.LayoutProofs Proofs.CrownOnce.
Import ListNotations.
Local Open Scope list_scope.

Lemma uks_forall m : uks m <-> Forall (fun kc => uk (snd kc)) m.
Proof.
  unfold uks. induction m as [|kc r IH].
  - split; intro H; [constructor|exact I].
  - split; intro H.
    + destruct H as [H1 H2]. constructor; [exact H1|]. apply IH. exact H2.
    + inversion H as [|a b H1 H2]; subst. split; [exact H1|]. apply IH. exact H2.
Qed.
Lemma uki_forall m : uki m <-> Forall uk m.
Proof.
  unfold uki. induction m as [|c r IH].
  - split; intro H; [constructor|exact I].
  - split; intro H.
    + destruct H as [H1 H2]. constructor; [exact H1|]. apply IH. exact H2.
    + inversion H as [|a b H1 H2]; subst. split; [exact H1|]. apply IH. exact H2.
Qed.

Lemma wf_dict m : wf (CDict m) <-> NoDup (map fst m) /\ Forall (fun kc => wf (snd kc)) m.
Proof.
  cbn [wf]. split; intros [Hn H]; split; try exact Hn.
  - induction m as [|kc r IH]; [constructor|]. inversion Hn; subst. constructor; [exact (proj1 H)|]. apply IH; [assumption|exact (proj2 H)].
  - clear Hn. induction H as [|kc r Hk _ IH]; [exact I|]. split; assumption.
Qed.
Lemma wf_list m : wf (CList m) <-> Forall wf m.
Proof.
  cbn [wf]. split; intro H.
  - induction m as [|c r IH]; [constructor|]. constructor; [exact (proj1 H)|]. apply IH. exact (proj2 H).
  - induction H as [|c r Hc _ IH]; [exact I|]. split; assumption.
Qed.

Lemma forall_perm {A} (P : A -> Prop) l l' : Permutation l l' -> Forall P l -> Forall P l'.
Proof. intros Hp H. apply Forall_forall. intros x Hx. rewrite Forall_forall in H. apply H. eapply Permutation_in; [apply Permutation_sym; exact Hp|exact Hx]. Qed.

Theorem uk_reorder_wf : forall c, uk c -> wf (reorder c).
Proof.
  induction c as [i| |m IH|m IH] using crown_ind'; intro H; cbn [reorder]; try exact I.
  - destruct H as [Hn Hs]. apply uks_forall in Hs.
    set (m' := map (fun kc : string * crown => (fst kc, reorder (snd kc))) m).
    assert (Hn' : NoDup (map fst m')).
    { unfold m'. rewrite map_map. cbn [fst]. exact Hn. }
    assert (Hw' : Forall (fun kc => wf (snd kc)) m').
    { unfold m'. apply Forall_forall. intros kc Hin. apply in_map_iff in Hin. destruct Hin as [[k0 c0] [<- Hin]]. cbn [snd fst].
      rewrite Forall_forall in IH, Hs. apply (IH (k0, c0) Hin). exact (Hs (k0, c0) Hin). }
    apply wf_dict. pose proof (reordered_children_perm m') as Hp. split.
    + eapply Permutation_NoDup; [apply Permutation_map; apply Permutation_sym; exact Hp|exact Hn'].
    + eapply forall_perm; [apply Permutation_sym; exact Hp|exact Hw'].
  - apply uki_forall in H. apply wf_list. apply Forall_forall. intros c Hin. apply in_map_iff in Hin.
    destruct Hin as [c0 [<- Hin]]. rewrite Forall_forall in IH, H. apply (IH c0 Hin). exact (H c0 Hin).
Qed.

Theorem accepted_layout_has_distinct_keys : forall stack output fs c paths,
  make_layout stack output fs = Good c paths -> wf c.
Proof.
  intros stack output fs c paths H. unfold make_layout in H.
  repeat match type of H with
         | (if ?b then _ else _) = _ => let E := fresh "E" in destruct b eqn:E; [discriminate|]
         end.
  match type of H with
  | Good (reorder (fold_left _ ?present ?start)) _ = _ => set (pr := present) in *; set (st := start) in *
  end.
  injection H as <- _. rewrite fold_build. apply uk_reorder_wf. apply uk_build.
  assert (Hroot : uk (if s_as_list (provide_schema stack) then CList [] else CDict [])).
  { destruct (s_as_list (provide_schema stack)); cbn; [exact I|split; [constructor|exact I]]. }
  unfold st. clearbody pr.
  destruct pr as [|gp r]; [exact Hroot|]. destruct gp as [g pth]. destruct pth as [|kk q]; [exact Hroot|].
  destruct kk as [k|i]; cbn; [split; [constructor|exact I]|exact I].
Qed.

(* hence "exactly once" for every accepted input layout, no hypothesis left on the crown *)
Theorem accepted_layout_reports_each_offence_once : forall stack fs c paths (info : finfos) (pol : policy) d es,
  make_layout stack false fs = Good c paths -> load info pol All c d = Group es -> NoDup es.
Proof.
  intros stack fs c paths info pol d es H. apply model_all_errors_are_distinct.
  exact (accepted_layout_has_distinct_keys _ _ _ _ _ H).
Qed.
