(* C17 - proofs about Model/Kinds.v *)
From Coq Require Import List Arith Bool String Permutation.
From AV Require Import Model.NameStyle Model.Layout Model.Kinds.
Import ListNotations.
Local Open Scope list_scope.

Definition keeps_definition_order (k : mkind) : bool := match k with KTypedDict => false | _ => true end.

(* every kind that lists its fields in definition order hands the very same fields to the name layout *)
Theorem same_fields_for_definition_order_kinds : forall k1 k2 lm,
  keeps_definition_order k1 = true -> keeps_definition_order k2 = true ->
  layout_fields k1 lm = layout_fields k2 lm.
Proof. intros k1 k2 lm H1 H2. destruct k1, k2; try discriminate; reflexivity. Qed.

(* ... hence the same layout, the same crown, and (loader and dumper being functions of the crown) the same behaviour,
   for every stack of name_mapping providers *)
Corollary same_layout_for_definition_order_kinds : forall k1 k2 lm stack output,
  keeps_definition_order k1 = true -> keeps_definition_order k2 = true ->
  make_layout stack output (layout_fields k1 lm) = make_layout stack output (layout_fields k2 lm).
Proof. intros. now rewrite (same_fields_for_definition_order_kinds k1 k2 lm). Qed.

(* TypedDict lists the same fields, alphabetically *)
Lemma insert_by_name_perm f l : Permutation (insert_by_name f l) (f :: l).
Proof.
  induction l as [|g r IH]; cbn [insert_by_name]; [apply Permutation_refl|].
  destruct (String.leb (attr_of f) (attr_of g)); [apply Permutation_refl|].
  eapply Permutation_trans; [apply perm_skip; exact IH|apply perm_swap].
Qed.

Theorem typed_dict_lists_the_same_fields : forall lm, Permutation (ordered KTypedDict lm) lm.
Proof.
  intro lm. cbn [ordered]. unfold sort_by_name. induction lm as [|f r IH]; cbn [fold_right]; [constructor|].
  eapply Permutation_trans; [apply insert_by_name_perm|apply perm_skip; exact IH].
Qed.

(* ... and the position of a field matters to its path only through as_list *)
Theorem position_matters_only_for_as_list : forall sc output i j f,
  s_as_list sc = false -> map_field sc output i f = map_field sc output j f.
Proof. intros sc output i j f H. unfold map_field, generate_key. rewrite H. reflexivity. Qed.

(* where the kinds do differ: parameter kinds and names - which C08 / C13 show never to matter for what is bound *)
Theorem keyword_only_kinds : forall k f,
  (k = KTypedDict \/ k = KPydantic \/ k = KSqlAlchemy) -> param_kind k f = Ctor.KwOnly.
Proof. intros k f [->|[->| ->]]; reflexivity. Qed.

Theorem attrs_parameter_drops_the_underscore : forall f,
  l_private f = true -> field_id KAttrs f = String.append "_" (param_name KAttrs f).
Proof. intros f H. unfold field_id, param_name, attr_of. now rewrite H. Qed.
