(* C17 - proofs about Model/Kinds.v *)
From Coq Require Import List Arith Bool String Permutation.
From AV Require Import Model.NameStyle Model.Layout Model.Kinds.
Import ListNotations.
Local Open Scope list_scope.

Definition keeps_definition_order (k : mkind) : bool := match k with KTypedDict => false | _ => true end.

(* every kind that lists its fields in definition order hands the very same fields to the name layout *)
Theorem same_fields_for_definition_order_kinds : forall k1 k2 lm,
  keeps_definition_order k1 = true -> keeps_definition_order k2 = true ->
  layout_fields k1 lm = layout_fields k2 lm.
Proof. intros k1 k2 lm H1 H2. destruct k1, k2; try discriminate; reflexivity. Qed.

(* ... hence the same layout, the same crown, and (loader and dumper being functions of the crown) the same behaviour,
   for every stack of name_mapping providers *)
Corollary same_layout_for_definition_order_kinds : forall k1 k2 lm stack output,
  keeps_definition_order k1 = true -> keeps_definition_order k2 = true ->
  make_layout stack output (layout_fields k1 lm) = make_layout stack output (layout_fields k2 lm).
Proof. intros. now rewrite (same_fields_for_definition_order_kinds k1 k2 lm). Qed.

(* TypedDict lists the same fields, alphabetically *)
Lemma insert_by_name_perm f l : Permutation (insert_by_name f l) (f :: l).
Proof.
  induction l as [|g r IH]; cbn [insert_by_name]; [apply Permutation_refl|].
  destruct (String.leb (attr_of f) (attr_of g)); [apply Permutation_refl|].
  eapply Permutation_trans; [apply perm_skip; exact IH|apply perm_swap].
Qed.

Theorem typed_dict_lists_the_same_fields : forall lm, Permutation (ordered KTypedDict lm) lm.
Proof.
  intro lm. cbn [ordered]. unfold sort_by_name. induction lm as [|f r IH]; cbn [fold_right]; [constructor|].
  eapply Permutation_trans; [apply insert_by_name_perm|apply perm_skip; exact IH].
Qed.

(* ... and the position of a field matters to its path only through as_list *)
Theorem position_matters_only_for_as_list : forall sc output i j f,
  s_as_list sc = false -> map_field sc output i f = map_field sc output j f.
Proof. intros sc output i j f H. unfold map_field, generate_key. rewrite H. reflexivity. Qed.

(* where the kinds do differ: parameter kinds and names - which C08 / C13 show never to matter for what is bound *)
Theorem keyword_only_kinds : forall k f,
  (k = KTypedDict \/ k = KPydantic \/ k = KSqlAlchemy) -> param_kind k f = Ctor.KwOnly.
Proof. intros k f [->|[->| ->]]; reflexivity. Qed.

Theorem attrs_parameter_drops_the_underscore : forall f,
  l_private f = true -> field_id KAttrs f = String.append "_" (param_name KAttrs f).
Proof. intros f H. unfold field_id, param_name, attr_of. now rewrite H. Qed.

(* ---- TypedDict against the definition-order kinds, when the layout does not depend on positions ---- *)
Definition named_paths (sc : schema) (output : bool) (fs : list Layout.fld) : list (string * mapped) :=
  map (fun nf => (f_name (snd nf), map_field sc output (fst nf) (snd nf))) (combine (seq 0 (List.length fs)) fs).

Lemma map_field_ignores_id sc output i f g :
  f_name f = f_name g -> map_field sc output i f = map_field sc output i g.
Proof. intro H. unfold map_field. rewrite H. reflexivity. Qed.

Lemma named_paths_without_positions sc output : s_as_list sc = false -> forall fs,
  named_paths sc output fs = map (fun f => (f_name f, map_field sc output 0 f)) fs.
Proof.
  intros Hl fs. unfold named_paths. generalize 0 at 1. induction fs as [|f r IH]; intro n; [reflexivity|].
  cbn [List.length seq combine map fst snd]. rewrite (position_matters_only_for_as_list sc output n 0 f Hl). f_equal. apply IH.
Qed.

Lemma layout_fields_names k lm :
  map (fun f => (f_name f, f_required f)) (layout_fields k lm) = map (fun l => (field_id k l, l_required l)) (ordered k lm).
Proof.
  unfold layout_fields. generalize (ordered k lm). intro ol. generalize 0. induction ol as [|l r IH]; intro n; [reflexivity|].
  cbn [List.length seq combine map fst snd f_name f_required]. f_equal. apply IH.
Qed.

(* every logical field gets the same path whether the model is a TypedDict or a kind that keeps the definition order *)
Theorem typed_dict_same_paths : forall k lm sc output,
  keeps_definition_order k = true -> s_as_list sc = false ->
  Permutation (named_paths sc output (layout_fields KTypedDict lm)) (named_paths sc output (layout_fields k lm)).
Proof.
  intros k lm sc output Hk Hl. rewrite !(named_paths_without_positions sc output Hl).
  (* both sides are a function of (name, required) of each field, and those lists are permutations of each other *)
  assert (Hf : forall fs, map (fun f => (f_name f, map_field sc output 0 f)) fs =
                          map (fun nr : string * bool => (fst nr, map_field sc output 0 {| f_id := 0; f_name := fst nr; f_required := snd nr |}))
                              (map (fun f => (f_name f, f_required f)) fs)).
  { intro fs. rewrite map_map. apply map_ext. intro f. cbn [fst snd]. f_equal. }
  rewrite (Hf (layout_fields KTypedDict lm)), (Hf (layout_fields k lm)). apply Permutation_map.
  rewrite !layout_fields_names.
  assert (Hid : forall l, field_id KTypedDict l = field_id k l) by reflexivity.
  assert (Hord : ordered k lm = lm) by (destruct k; try discriminate; reflexivity). rewrite Hord.
  apply Permutation_map. exact (typed_dict_lists_the_same_fields lm).
Qed.
