(* Proofs about Model/Load.v: every debug-trail variant computes the same mode-independent specification spec_ok
   and never lets a non-LoadError escape (C06, C04 for the fragment); strict coercion only narrows (C07);
   characterisation of the per-type rules (C02). *)
From Coq Require Import List ZArith Bool String Ascii Lia.
From AV Require Import Model.Harness Model.Val Model.Load.
Import ListNotations.

Definition okval (r : res) : option pv := match r with Ok v => Some v | _ => None end.
Definition no_exn (r : res) : Prop := match r with Exn _ => False | _ => True end.
Definition good (r : res) (o : option pv) : Prop := okval r = o /\ no_exn r.

(* ---------------- the mode-independent specification ---------------- *)
Fixpoint all_ok (g : pv -> option pv) (l : list pv) : option (list pv) :=
  match l with
  | [] => Some []
  | x :: r => match g x, all_ok g r with Some a, Some b => Some (a :: b) | _, _ => None end
  end.
Fixpoint all_ok2 (gs : list (pv -> option pv)) (l : list pv) : option (list pv) :=
  match gs, l with
  | g :: gr, x :: r => match g x, all_ok2 gr r with Some a, Some b => Some (a :: b) | _, _ => None end
  | _, _ => Some []
  end.
Fixpoint all_okd (gk gv : pv -> option pv) (acc : list (pv * pv)) (l : list (pv * pv)) : option (list (pv * pv)) :=
  match l with
  | [] => Some acc
  | (k, v) :: r => match gk k, gv v with
                   | Some k', Some v' => all_okd gk gv (dict_set acc k' v') r
                   | _, _ => None
                   end
  end.
Fixpoint first_some (os : list (option pv)) : option pv :=
  match os with [] => None | Some a :: _ => Some a | None :: r => first_some r end.

Section Spec.
Variable user : nat -> pv -> res.
Variable sc : bool.
Fixpoint spec_ok (t : ty) (v : pv) {struct t} : option pv :=
  match t with
  | TInt => okval (load_int sc v) | TFloat => okval (load_float sc v) | TBool => okval (load_bool sc v)
  | TStr => okval (load_str sc v) | TNone => okval (load_none v) | TAny => Some v
  | TLit ls => okval (load_lit sc ls v)
  | TUser n => okval (user n v)
  | TIter k t' =>
      match iter_view sc v with
      | Items l => option_map (build k) (all_ok (spec_ok t') l)
      | _ => None
      end
  | TTuple ts =>
      match iter_view sc v with
      | Items l => if Nat.eqb (List.length l) (List.length ts)
                   then option_map VTuple (all_ok2 (map (fun t1 => spec_ok t1) ts) l) else None
      | _ => None
      end
  | TDict tk tv =>
      match v with
      | VDict kvs => option_map VDict (all_okd (spec_ok tk) (spec_ok tv) [] kvs)
      | _ => None
      end
  | TOpt t' => match v with VNone => Some VNone | _ => spec_ok t' v end
  | TUnion ts => first_some (map (fun t1 => spec_ok t1 v) ts)
  end.
End Spec.

(* ---------------- induction principle for ty ---------------- *)
Section TyInd.
Variable P : ty -> Prop.
Hypothesis HInt : P TInt. Hypothesis HFloat : P TFloat. Hypothesis HBool : P TBool. Hypothesis HStr : P TStr.
Hypothesis HNone : P TNone. Hypothesis HAny : P TAny. Hypothesis HLit : forall ls, P (TLit ls).
Hypothesis HIter : forall k t, P t -> P (TIter k t).
Hypothesis HTuple : forall ts, Forall P ts -> P (TTuple ts).
Hypothesis HDict : forall k v, P k -> P v -> P (TDict k v).
Hypothesis HOpt : forall t, P t -> P (TOpt t).
Hypothesis HUnion : forall ts, Forall P ts -> P (TUnion ts).
Hypothesis HUser : forall n, P (TUser n).
Fixpoint ty_ind' (t : ty) : P t :=
  let fix all (ts : list ty) : Forall P ts :=
      match ts with [] => Forall_nil P | t1 :: r => Forall_cons t1 (ty_ind' t1) (all r) end in
  match t with
  | TInt => HInt | TFloat => HFloat | TBool => HBool | TStr => HStr | TNone => HNone | TAny => HAny
  | TLit ls => HLit ls
  | TIter k t' => HIter k t' (ty_ind' t')
  | TTuple ts => HTuple ts (all ts)
  | TDict k v => HDict k v (ty_ind' k) (ty_ind' v)
  | TOpt t' => HOpt t' (ty_ind' t')
  | TUnion ts => HUnion ts (all ts)
  | TUser n => HUser n
  end.
End TyInd.

(* ---------------- scalars never raise anything but LoadError ---------------- *)
Lemma float_of_int_noexn v z : no_exn (float_of_int v z).
Proof. unfold float_of_int. destruct (Z.abs z <? FLOAT_MAX)%Z; exact I. Qed.

Lemma scalar_noexn sc v :
  no_exn (load_int sc v) /\ no_exn (load_float sc v) /\ no_exn (load_bool sc v) /\ no_exn (load_str sc v)
  /\ no_exn (load_none v).
Proof.
  repeat split; destruct sc, v; simpl; try exact I; try apply float_of_int_noexn;
    try (destruct (parse_int s); simpl; try exact I; apply float_of_int_noexn).
Qed.
Lemma lit_noexn sc ls v : no_exn (load_lit sc ls v).
Proof.
  unfold load_lit. destruct (sc && existsb boolish ls);
    match goal with |- context[if ?b then _ else _] => destruct b end; exact I.
Qed.

(* ---------------- the loops ---------------- *)
Section Loops.
Variable f : pv -> res.
Variable g : pv -> option pv.

Lemma map_stop_spec l : Forall (fun x => good (f x) (g x)) l ->
  match map_stop f l with
  | A1Ok r => all_ok g l = Some r
  | A1Err _ => all_ok g l = None
  | A1Exn _ => False
  end.
Proof.
  induction 1 as [|x r [E N] _ IH]; simpl; [reflexivity|].
  destruct (f x) as [a|e|k]; simpl in *; try contradiction; rewrite <- E; [|reflexivity].
  destruct (map_stop f r); try contradiction; now rewrite IH.
Qed.

Lemma map_first_spec l : Forall (fun x => good (f x) (g x)) l -> forall i,
  match map_first f i l with
  | A1Ok r => all_ok g l = Some r
  | A1Err _ => all_ok g l = None
  | A1Exn _ => False
  end.
Proof.
  induction 1 as [|x r [E N] _ IH]; intro i; simpl; [reflexivity|].
  destruct (f x) as [a|e|k]; simpl in *; try contradiction; rewrite <- E; [|reflexivity].
  specialize (IH (S i)). destruct (map_first f (S i) r); try contradiction; now rewrite IH.
Qed.

Lemma map_all_spec l : Forall (fun x => good (f x) (g x)) l -> forall i,
  let '(vs, es, u) := map_all f i l in
  u = None /\ match all_ok g l with Some r => es = [] /\ vs = r | None => es <> [] end.
Proof.
  induction 1 as [|x r [E N] _ IH]; intro i; simpl; [repeat split; reflexivity|].
  specialize (IH (S i)). destruct (map_all f (S i) r) as [[vs es] u]. destruct IH as [-> IH].
  destruct (f x) as [a|e|k]; simpl in *; try contradiction; rewrite <- E; (split; [reflexivity|]).
  - destruct (all_ok g r); [destruct IH as [-> ->]; split; reflexivity | exact IH].
  - discriminate.
Qed.
End Loops.

Section ZipLoops.
Lemma zip_stop_spec fs gs l : Forall2 (fun f g => forall x, good (f x) (g x)) fs gs ->
  match zip_stop fs l with
  | A1Ok r => all_ok2 gs l = Some r
  | A1Err _ => all_ok2 gs l = None
  | A1Exn _ => False
  end.
Proof.
  intro H. revert l. induction H as [|f g fr gr Hfg _ IH]; intros [|x r]; simpl; try reflexivity.
  destruct (Hfg x) as [E N]. destruct (f x) as [a|e|k]; simpl in *; try contradiction; rewrite <- E; [|reflexivity].
  specialize (IH r). destruct (zip_stop fr r); try contradiction; now rewrite IH.
Qed.
Lemma zip_first_spec fs gs l : Forall2 (fun f g => forall x, good (f x) (g x)) fs gs -> forall i,
  match zip_first i fs l with
  | A1Ok r => all_ok2 gs l = Some r
  | A1Err _ => all_ok2 gs l = None
  | A1Exn _ => False
  end.
Proof.
  intro H. revert l. induction H as [|f g fr gr Hfg _ IH]; intros [|x r] i; simpl; try reflexivity.
  destruct (Hfg x) as [E N]. destruct (f x) as [a|e|k]; simpl in *; try contradiction; rewrite <- E; [|reflexivity].
  specialize (IH r (S i)). destruct (zip_first (S i) fr r); try contradiction; now rewrite IH.
Qed.
Lemma zip_all_spec fs gs l : Forall2 (fun f g => forall x, good (f x) (g x)) fs gs -> forall i,
  let '(vs, es, u) := zip_all i fs l in
  u = None /\ match all_ok2 gs l with Some r => es = [] /\ vs = r | None => es <> [] end.
Proof.
  intro H. revert l. induction H as [|f g fr gr Hfg _ IH]; intros [|x r] i; simpl; try (repeat split; reflexivity).
  specialize (IH r (S i)). destruct (zip_all (S i) fr r) as [[vs es] u]. destruct IH as [-> IH].
  destruct (Hfg x) as [E N]. destruct (f x) as [a|e|k]; simpl in *; try contradiction; rewrite <- E; (split; [reflexivity|]).
  - destruct (all_ok2 gr r); [destruct IH as [-> ->]; split; reflexivity | exact IH].
  - discriminate.
Qed.
End ZipLoops.

Section DictLoops.
Variables fk fv : pv -> res.
Variables gk gv : pv -> option pv.
Definition good_items (l : list (pv * pv)) : Prop :=
  Forall (fun kv => good (fk (fst kv)) (gk (fst kv)) /\ good (fv (snd kv)) (gv (snd kv))) l.

Lemma dict_stop_spec l : good_items l -> forall acc,
  match dict_stop fk fv acc l with
  | ADOk r => all_okd gk gv acc l = Some r
  | ADErr _ => all_okd gk gv acc l = None
  | ADExn _ => False
  end.
Proof.
  induction 1 as [|[k v] r [[Ek Nk] [Ev Nv]] _ IH]; intro acc; simpl in *; [reflexivity|].
  destruct (fv v) as [v'|e|x]; simpl in *; try contradiction; rewrite <- Ev.
  - destruct (fk k) as [k'|e|x]; simpl in *; try contradiction; rewrite <- Ek; [apply IH | reflexivity].
  - destruct (gk k); reflexivity.
Qed.
Lemma dict_first_spec l : good_items l -> forall acc,
  match dict_first fk fv acc l with
  | ADOk r => all_okd gk gv acc l = Some r
  | ADErr _ => all_okd gk gv acc l = None
  | ADExn _ => False
  end.
Proof.
  induction 1 as [|[k v] r [[Ek Nk] [Ev Nv]] _ IH]; intro acc; simpl in *; [reflexivity|].
  destruct (fk k) as [k'|e|x]; simpl in *; try contradiction; rewrite <- Ek; [|reflexivity].
  destruct (fv v) as [v'|e|x]; simpl in *; try contradiction; rewrite <- Ev; [apply IH | reflexivity].
Qed.
Lemma dict_all_spec l : good_items l -> forall acc,
  let '(res, es, u) := dict_all fk fv acc l in
  u = None /\ match all_okd gk gv acc l with Some r => es = [] /\ res = r | None => es <> [] end.
Proof.
  induction 1 as [|[k v] r [[Ek Nk] [Ev Nv]] _ IH]; intro acc; simpl in *; [repeat split; reflexivity|].
  destruct (fk k) as [k'|ek|x] eqn:FK; simpl in *; try contradiction;
  destruct (fv v) as [v'|ev|y] eqn:FV; simpl in *; try contradiction; rewrite <- Ek; try rewrite <- Ev.
  - specialize (IH (dict_set acc k' v')). destruct (dict_all fk fv (dict_set acc k' v') r) as [[res es] u].
    destruct IH as [-> IH]. split; [reflexivity|]. exact IH.
  - specialize (IH acc). destruct (dict_all fk fv acc r) as [[res es] u]. destruct IH as [-> _].
    split; [reflexivity | discriminate].
  - specialize (IH acc). destruct (dict_all fk fv acc r) as [[res es] u]. destruct IH as [-> _].
    split; [reflexivity | discriminate].
  - specialize (IH acc). destruct (dict_all fk fv acc r) as [[res es] u]. destruct IH as [-> _].
    split; [reflexivity | discriminate].
Qed.
End DictLoops.

(* ---------------- union ---------------- *)
Lemma union_disable_spec v rs os : Forall2 good rs os -> good (union_disable v rs) (first_some os).
Proof.
  induction 1 as [|r o rr orr [E N] _ IH]; simpl; [split; [reflexivity|exact I]|].
  destruct r as [a|e|x]; simpl in *; try contradiction; rewrite <- E; [split; [reflexivity|exact I] | exact IH].
Qed.
Lemma union_first_spec rs os : Forall2 good rs os -> forall acc, good (union_first acc rs) (first_some os).
Proof.
  induction 1 as [|r o rr orr [E N] _ IH]; intro acc; simpl; [split; [reflexivity|exact I]|].
  destruct r as [a|e|x]; simpl in *; try contradiction; rewrite <- E; [split; [reflexivity|exact I] | apply IH].
Qed.
Lemma union_all_spec rs os : Forall2 good rs os -> forall acc, good (union_all acc None rs) (first_some os).
Proof.
  induction 1 as [|r o rr orr [E N] _ IH]; intro acc; simpl; [split; [reflexivity|exact I]|].
  destruct r as [a|e|x]; simpl in *; try contradiction; rewrite <- E; [split; [reflexivity|exact I] | apply IH].
Qed.

Section WithUser.
(* user-supplied loaders: assumed to signal bad input by LoadError only (the property's own side condition) *)
Variable U : nat -> pv -> res.
Hypothesis U_ok : forall n v, no_exn (U n v).

(* ---------------- every mode computes the specification and raises LoadError only ---------------- *)
Theorem load_is_spec md sc : forall t v, good (load U md sc t v) (spec_ok U sc t v).
Proof.
  induction t as [| | | | | |ls|k t IH|ts IH|tk tv IHk IHv|t IH|ts IH|n] using ty_ind'; intro v;
    cbn [load spec_ok].
  - split; [reflexivity | apply (scalar_noexn sc v)].
  - split; [reflexivity | apply (scalar_noexn sc v)].
  - split; [reflexivity | apply (scalar_noexn sc v)].
  - split; [reflexivity | apply (scalar_noexn sc v)].
  - split; [reflexivity | apply (scalar_noexn true v)].
  - split; [reflexivity | exact I].
  - split; [reflexivity | apply lit_noexn].
  - (* iterable *)
    destruct (iter_view sc v) as [l| |]; [|split; [reflexivity|exact I]..].
    assert (HF : Forall (fun x => good (load U md sc t x) (spec_ok U sc t x)) l) by (apply Forall_forall; intros; apply IH).
    destruct md.
    + pose proof (map_stop_spec _ _ l HF) as S. destruct (map_stop (load U Disable sc t) l); try contradiction;
        rewrite S; split; simpl; auto.
    + pose proof (map_first_spec _ _ l HF 0) as S. destruct (map_first (load U First sc t) 0 l); try contradiction;
        rewrite S; split; simpl; auto.
    + pose proof (map_all_spec _ _ l HF 0) as S. destruct (map_all (load U All sc t) 0 l) as [[vs es] u].
      destruct S as [-> S]. destruct (all_ok (spec_ok U sc t) l).
      * destruct S as [-> ->]. split; simpl; auto.
      * destruct es; [contradiction|]. split; simpl; auto.
  - (* fixed tuple *)
    destruct (iter_view sc v) as [l| |]; [|split; [reflexivity|exact I]..].
    destruct (List.length ts <? List.length l)%nat eqn:E1.
    { apply Nat.ltb_lt in E1. replace (Nat.eqb (List.length l) (List.length ts)) with false
        by (symmetry; apply Nat.eqb_neq; lia). split; [reflexivity|exact I]. }
    destruct (List.length l <? List.length ts)%nat eqn:E2.
    { apply Nat.ltb_lt in E2. replace (Nat.eqb (List.length l) (List.length ts)) with false
        by (symmetry; apply Nat.eqb_neq; lia). split; [reflexivity|exact I]. }
    apply Nat.ltb_ge in E1, E2.
    replace (Nat.eqb (List.length l) (List.length ts)) with true by (symmetry; apply Nat.eqb_eq; lia).
    assert (HF : Forall2 (fun f g => forall x, good (f x) (g x))
                   (map (fun t1 => load U md sc t1) ts) (map (fun t1 => spec_ok U sc t1) ts)).
    { clear E1 E2. induction IH as [|t1 r H _ IH']; simpl; constructor; auto. }
    destruct md.
    + pose proof (zip_stop_spec _ _ l HF) as S. destruct (zip_stop (map (fun t1 => load U Disable sc t1) ts) l);
        try contradiction; rewrite S; split; simpl; auto.
    + pose proof (zip_first_spec _ _ l HF 0) as S. destruct (zip_first 0 (map (fun t1 => load U First sc t1) ts) l);
        try contradiction; rewrite S; split; simpl; auto.
    + pose proof (zip_all_spec _ _ l HF 0) as S. destruct (zip_all 0 (map (fun t1 => load U All sc t1) ts) l) as [[vs es] u].
      destruct S as [-> S]. destruct (all_ok2 (map (fun t1 => spec_ok U sc t1) ts) l).
      * destruct S as [-> ->]. split; simpl; auto.
      * destruct es; [contradiction|]. split; simpl; auto.
  - (* dict *)
    destruct v; try (split; [reflexivity|exact I]).
    assert (HG : good_items (load U md sc tk) (load U md sc tv) (spec_ok U sc tk) (spec_ok U sc tv) kvs).
    { apply Forall_forall. intros [k v] _. split; [apply IHk | apply IHv]. }
    destruct md.
    + pose proof (dict_stop_spec _ _ _ _ kvs HG []) as S.
      destruct (dict_stop (load U Disable sc tk) (load U Disable sc tv) [] kvs); try contradiction; rewrite S; split; simpl; auto.
    + pose proof (dict_first_spec _ _ _ _ kvs HG []) as S.
      destruct (dict_first (load U First sc tk) (load U First sc tv) [] kvs); try contradiction; rewrite S; split; simpl; auto.
    + pose proof (dict_all_spec _ _ _ _ kvs HG []) as S.
      destruct (dict_all (load U All sc tk) (load U All sc tv) [] kvs) as [[r es] u].
      destruct S as [-> S]. destruct (all_okd (spec_ok U sc tk) (spec_ok U sc tv) [] kvs).
      * destruct S as [-> ->]. split; simpl; auto.
      * destruct es; [contradiction|]. split; simpl; auto.
  - (* optional *)
    destruct v; try (split; [reflexivity|exact I]);
      match goal with |- context[load U md sc t ?x] =>
        destruct (IH x) as [E N]; destruct (load U md sc t x) as [a|e|k]; simpl in *; try contradiction;
        rewrite <- E; destruct md; split; simpl; auto
      end.
  - (* union *)
    assert (HF : Forall2 good (map (fun t1 => load U md sc t1 v) ts) (map (fun t1 => spec_ok U sc t1 v) ts)).
    { induction IH as [|t1 r H _ IH']; simpl; constructor; auto. }
    destruct md; [apply union_disable_spec | apply union_first_spec | apply union_all_spec]; exact HF.
  - split; [reflexivity | apply U_ok].
Qed.

(* ---------------- C06: the three modes agree on acceptance and on the value ---------------- *)
Theorem modes_agree sc t v m1 m2 : okval (load U m1 sc t v) = okval (load U m2 sc t v).
Proof. destruct (load_is_spec m1 sc t v) as [-> _]. destruct (load_is_spec m2 sc t v) as [-> _]. reflexivity. Qed.

(* ---------------- C04 for the fragment: nothing but LoadError ---------------- *)
Theorem load_raises_only_load_error md sc t v : no_exn (load U md sc t v).
Proof. apply load_is_spec. Qed.

(* ---------------- C02: the per-type rules, read off the specification ---------------- *)
Lemma first_some_sound os r : first_some os = Some r -> In (Some r) os.
Proof. induction os as [|[a|] os IH]; simpl; intro H; [discriminate | inversion H; auto | auto]. Qed.
Lemma first_some_none os : first_some os = None <-> Forall (fun o => o = None) os.
Proof.
  induction os as [|[a|] os IH]; simpl; split; intro H; auto; try discriminate.
  - inversion H; discriminate.
  - constructor; [reflexivity | now apply IH].
  - inversion H; now apply IH.
Qed.
Lemma first_some_complete os : (exists r, In (Some r) os) -> exists r, first_some os = Some r.
Proof.
  intros [r H]. destruct (first_some os) eqn:E; eauto.
  rewrite first_some_none, Forall_forall in E. specialize (E _ H). discriminate.
Qed.

(* a union loader returns the result of a case that accepts the datum, and fails only if every case fails *)
Theorem union_sound md sc ts v r :
  load U md sc (TUnion ts) v = Ok r -> exists t, In t ts /\ okval (load U md sc t v) = Some r.
Proof.
  intro H. destruct (load_is_spec md sc (TUnion ts) v) as [E _]. rewrite H in E. cbn [spec_ok okval] in E. symmetry in E.
  apply first_some_sound, in_map_iff in E. destruct E as (t & Et & It). exists t. split; auto.
  destruct (load_is_spec md sc t v) as [-> _]. exact Et.
Qed.
Theorem union_complete md sc ts v :
  (exists t r, In t ts /\ okval (load U md sc t v) = Some r) -> exists r, load U md sc (TUnion ts) v = Ok r.
Proof.
  intros (t & r & It & Ht). destruct (load_is_spec md sc (TUnion ts) v) as [E _].
  destruct (load_is_spec md sc t v) as [Et _]. rewrite Ht in Et.
  destruct (first_some_complete (map (fun t1 => spec_ok U sc t1 v) ts)) as [r' Hr'].
  { exists r. apply in_map_iff. exists t. split; auto. }
  cbn [spec_ok] in E. rewrite Hr' in E. destruct (load U md sc (TUnion ts) v) as [a|e|x]; simpl in E; try discriminate.
  exists a. reflexivity.
Qed.
Theorem union_fails_iff_all_fail md sc ts v :
  okval (load U md sc (TUnion ts) v) = None <-> Forall (fun t => okval (load U md sc t v) = None) ts.
Proof.
  destruct (load_is_spec md sc (TUnion ts) v) as [-> _]. simpl. rewrite first_some_none, Forall_map.
  split; apply Forall_impl; intros t; destruct (load_is_spec md sc t v) as [-> _]; auto.
Qed.

(* iterables: strict mode takes any iterable except str and Mapping, lax mode any iterable; elements are loaded one by
   one; the result is the container ABC_TO_IMPL / the origin prescribes *)
Theorem iterable_rule md sc k t v r :
  load U md sc (TIter k t) v = Ok r <->
  exists l rs, iter_view sc v = Items l /\ all_ok (fun x => okval (load U md sc t x)) l = Some rs /\ r = build k rs.
Proof.
  assert (EXT : forall l, all_ok (fun x => okval (load U md sc t x)) l = all_ok (spec_ok U sc t) l).
  { induction l as [|x l IH]; simpl; auto. destruct (load_is_spec md sc t x) as [-> _]. now rewrite IH. }
  destruct (load_is_spec md sc (TIter k t) v) as [E _]. cbn [spec_ok] in E. split.
  - intro H. rewrite H in E. simpl in E. destruct (iter_view sc v) as [l| |]; try discriminate.
    destruct (all_ok (spec_ok U sc t) l) as [rs|] eqn:A; try discriminate. inversion E. exists l, rs. rewrite EXT. auto.
  - intros (l & rs & V & A & ->). rewrite V, <- EXT, A in E. cbn [option_map] in E.
    destruct (load U md sc (TIter k t) v) as [a|e|x]; cbn [okval] in E; try discriminate. congruence.
Qed.
Theorem strict_iterable_excludes_str_and_mapping md k t s kvs :
  okval (load U md true (TIter k t) (VStr s)) = None /\ okval (load U md true (TIter k t) (VDict kvs)) = None.
Proof.
  split; [destruct (load_is_spec md true (TIter k t) (VStr s)) as [-> _] |
          destruct (load_is_spec md true (TIter k t) (VDict kvs)) as [-> _]]; reflexivity.
Qed.
Theorem strict_tuple_excludes_str_and_mapping md ts s kvs :
  okval (load U md true (TTuple ts) (VStr s)) = None /\ okval (load U md true (TTuple ts) (VDict kvs)) = None.
Proof.
  split; [destruct (load_is_spec md true (TTuple ts) (VStr s)) as [-> _] |
          destruct (load_is_spec md true (TTuple ts) (VDict kvs)) as [-> _]]; reflexivity.
Qed.

Theorem tuple_rule md sc ts v r :
  load U md sc (TTuple ts) v = Ok r <->
  exists l rs, iter_view sc v = Items l /\ List.length l = List.length ts /\
               all_ok2 (map (fun t1 x => okval (load U md sc t1 x)) ts) l = Some rs /\ r = VTuple rs.
Proof.
  assert (EXT : forall ts l, all_ok2 (map (fun t1 x => okval (load U md sc t1 x)) ts) l
                             = all_ok2 (map (fun t1 => spec_ok U sc t1) ts) l).
  { induction ts0 as [|t1 r0 IH]; intros [|x l]; simpl; auto.
    destruct (load_is_spec md sc t1 x) as [-> _]. now rewrite IH. }
  destruct (load_is_spec md sc (TTuple ts) v) as [E _]. cbn [spec_ok] in E. split.
  - intro H. rewrite H in E. simpl in E. destruct (iter_view sc v) as [l| |]; try discriminate.
    destruct (Nat.eqb (List.length l) (List.length ts)) eqn:L; try discriminate. apply Nat.eqb_eq in L.
    destruct (all_ok2 (map (fun t1 => spec_ok U sc t1) ts) l) as [rs|] eqn:A; try discriminate.
    inversion E. exists l, rs. rewrite EXT. auto.
  - intros (l & rs & V & L & A & ->). rewrite V, <- EXT, A in E. apply Nat.eqb_eq in L. rewrite L in E. cbn [option_map] in E.
    destruct (load U md sc (TTuple ts) v) as [a|e|x]; cbn [okval] in E; try discriminate. congruence.
Qed.

Theorem dict_rule md sc tk tv v r :
  load U md sc (TDict tk tv) v = Ok r <->
  exists kvs res, v = VDict kvs /\
    all_okd (fun x => okval (load U md sc tk x)) (fun x => okval (load U md sc tv x)) [] kvs = Some res /\ r = VDict res.
Proof.
  assert (EXT : forall kvs acc, all_okd (fun x => okval (load U md sc tk x)) (fun x => okval (load U md sc tv x)) acc kvs
                                = all_okd (spec_ok U sc tk) (spec_ok U sc tv) acc kvs).
  { induction kvs as [|[k x] l IH]; intro acc; simpl; auto.
    destruct (load_is_spec md sc tk k) as [-> _]. destruct (load_is_spec md sc tv x) as [-> _].
    destruct (spec_ok U sc tk k), (spec_ok U sc tv x); auto. }
  destruct (load_is_spec md sc (TDict tk tv) v) as [E _]. cbn [spec_ok] in E. split.
  - intro H. rewrite H in E. simpl in E. destruct v; try discriminate.
    destruct (all_okd (spec_ok U sc tk) (spec_ok U sc tv) [] kvs) as [res|] eqn:A; try discriminate.
    inversion E. exists kvs, res. rewrite EXT. auto.
  - intros (kvs & res & -> & A & ->). rewrite <- EXT, A in E. cbn [option_map] in E.
    destruct (load U md sc (TDict tk tv) (VDict kvs)) as [a|e|x]; cbn [okval] in E; try discriminate. congruence.
Qed.

(* Literal: membership by Python ==, except that strict mode tells bool from int when a bool / 0 / 1 member exists *)
Theorem literal_rule md sc ls v :
  okval (load U md sc (TLit ls) v) =
  if (if sc && existsb boolish ls then existsb (fun l => veq (lit_val l) v) ls
      else existsb (fun l => pyeq (lit_val l) v) ls) then Some v else None.
Proof.
  destruct (load_is_spec md sc (TLit ls) v) as [-> _]. cbn [spec_ok]. unfold load_lit.
  destruct (sc && existsb boolish ls); match goal with |- context[if ?b then _ else _] => destruct b end; reflexivity.
Qed.
Theorem strict_literal_tells_bool_from_int md ls b :
  existsb boolish ls = true ->
  okval (load U md true (TLit ls) (VBool b)) = Some (VBool b) -> In (LBool b) ls.
Proof.
  intros B H. rewrite literal_rule in H. cbn [andb] in H. rewrite B in H.
  destruct (existsb (fun l => veq (lit_val l) (VBool b)) ls) eqn:E; try discriminate.
  apply existsb_exists in E. destruct E as (l & Il & El). destruct l; simpl in El; try discriminate.
  apply Bool.eqb_prop in El. now subst.
Qed.

Theorem optional_rule md sc t v :
  okval (load U md sc (TOpt t) v) = match v with VNone => Some VNone | _ => okval (load U md sc t v) end.
Proof.
  destruct (load_is_spec md sc (TOpt t) v) as [-> _]. cbn [spec_ok].
  destruct v; try reflexivity;
    match goal with |- context[load U md sc t ?x] => destruct (load_is_spec md sc t x) as [-> _] end; reflexivity.
Qed.

(* ---------------- C07: strict coercion only narrows ---------------- *)
Definition tag_int (v : pv) := match v with VInt _ => true | _ => false end.
Theorem strict_int_origin md v r : okval (load U md true TInt v) = Some r -> exists z, v = VInt z /\ r = v.
Proof. cbn [load]. destruct v; simpl; intro H; try discriminate. inversion H. eauto. Qed.
Theorem strict_float_origin md v r : okval (load U md true TFloat v) = Some r ->
  (exists z, v = VFloat z /\ r = v) \/ (exists z, v = VInt z /\ r = VFloat z).
Proof.
  cbn [load]. destruct v; simpl; intro H; try discriminate.
  - right. unfold float_of_int in H. destruct (Z.abs z <? FLOAT_MAX)%Z; simpl in H; try discriminate. inversion H. eauto.
  - left. inversion H. eauto.
Qed.
Theorem strict_str_origin md v r : okval (load U md true TStr v) = Some r -> exists s, v = VStr s /\ r = v.
Proof. cbn [load]. destruct v; simpl; intro H; try discriminate. inversion H. eauto. Qed.
Theorem strict_bool_origin md v r : okval (load U md true TBool v) = Some r -> exists b, v = VBool b /\ r = v.
Proof. cbn [load]. destruct v; simpl; intro H; try discriminate. inversion H. eauto. Qed.
Theorem none_origin md sc v r : okval (load U md sc TNone v) = Some r -> v = VNone /\ r = VNone.
Proof. cbn [load]. destruct v; simpl; intro H; try discriminate. inversion H. auto. Qed.

Lemma veq_pyeq_lit l v : veq (lit_val l) v = true -> pyeq (lit_val l) v = true.
Proof.
  destruct l, v; simpl; try discriminate; auto.
  intro H. destruct b, b0; auto.
Qed.

Definition union_free : ty -> Prop :=
  fix uf (t : ty) : Prop :=
    match t with
    | TUnion _ => False
    | TIter _ t' | TOpt t' => uf t'
    | TDict k v => uf k /\ uf v
    | TTuple ts => (fix all (l : list ty) : Prop := match l with [] => True | x :: r => uf x /\ all r end) ts
    | _ => True
    end.

Lemma all_ok_mono g1 g2 l r : (forall x a, g1 x = Some a -> g2 x = Some a) -> all_ok g1 l = Some r -> all_ok g2 l = Some r.
Proof.
  intro H. revert r. induction l as [|x l IH]; simpl; intros r E; auto.
  destruct (g1 x) as [a|] eqn:G; try discriminate. destruct (all_ok g1 l) as [b|]; try discriminate.
  rewrite (H _ _ G), (IH b eq_refl). exact E.
Qed.

Lemma strict_view_lax v l : iter_view true v = Items l -> iter_view false v = Items l.
Proof. destruct v; simpl; intro H; try discriminate; auto. Qed.

(* every datum accepted with strict coercion is accepted without it, with the same result when no union is involved *)
Theorem strict_sub_lax_value : forall t, union_free t -> forall v r, spec_ok U true t v = Some r -> spec_ok U false t v = Some r.
Proof.
  induction t as [| | | | | |ls|k t IH|ts IH|tk tv IHk IHv|t IH|ts IH|n] using ty_ind'; intros UF v r; cbn [spec_ok].
  - destruct v; simpl; try discriminate; auto.
  - destruct v; simpl; try discriminate; auto.
  - destruct v; simpl; try discriminate; intro E; inversion E; subst. destruct b; reflexivity.
  - destruct v; simpl; try discriminate; auto.
  - auto.
  - auto.
  - unfold load_lit. cbn [andb]. destruct (existsb boolish ls).
    + destruct (existsb (fun l => veq (lit_val l) v) ls) eqn:E; simpl; try discriminate.
      apply existsb_exists in E. destruct E as (l & Il & El).
      assert (P : existsb (fun l => pyeq (lit_val l) v) ls = true)
        by (apply existsb_exists; exists l; split; auto; now apply veq_pyeq_lit).
      rewrite P. auto.
    + auto.
  - destruct (iter_view true v) as [l| |] eqn:V; try discriminate. rewrite (strict_view_lax _ _ V).
    destruct (all_ok (spec_ok U true t) l) as [rs|] eqn:A; try discriminate. simpl. intro E.
    rewrite (all_ok_mono _ (spec_ok U false t) l rs (fun x a => IH UF x a) A). exact E.
  - destruct (iter_view true v) as [l| |] eqn:V; try discriminate. rewrite (strict_view_lax _ _ V).
    destruct (Nat.eqb (List.length l) (List.length ts)); try discriminate.
    assert (M : forall l rs, all_ok2 (map (fun t1 => spec_ok U true t1) ts) l = Some rs ->
                             all_ok2 (map (fun t1 => spec_ok U false t1) ts) l = Some rs).
    { clear V. cbn in UF. induction IH as [|t1 ts' H _ IH']; intros [|x l'] rs; simpl; auto.
      destruct UF as [U1 U2]. destruct (spec_ok U true t1 x) as [a|] eqn:G; try discriminate.
      destruct (all_ok2 (map (fun t0 => spec_ok U true t0) ts') l') as [b|] eqn:A; try discriminate.
      rewrite (H U1 _ _ G), (IH' U2 l' b A). auto. }
    destruct (all_ok2 (map (fun t1 => spec_ok U true t1) ts) l) as [rs|] eqn:A; try discriminate.
    rewrite (M l rs A). auto.
  - destruct v; try discriminate. cbn in UF. destruct UF as [Uk Uv].
    assert (M : forall kvs acc res, all_okd (spec_ok U true tk) (spec_ok U true tv) acc kvs = Some res ->
                                    all_okd (spec_ok U false tk) (spec_ok U false tv) acc kvs = Some res).
    { induction kvs0 as [|[k x] l IH]; intros acc res; simpl; auto.
      destruct (spec_ok U true tk k) as [k'|] eqn:Gk; try discriminate.
      destruct (spec_ok U true tv x) as [x'|] eqn:Gv; try discriminate.
      rewrite (IHk Uk _ _ Gk), (IHv Uv _ _ Gv). apply IH. }
    destruct (all_okd (spec_ok U true tk) (spec_ok U true tv) [] kvs) as [res|] eqn:A; try discriminate.
    rewrite (M kvs [] res A). auto.
  - destruct v; auto; apply IH; exact UF.
  - contradiction.
  - auto.
Qed.

(* with unions: still accepted (some case accepts; as documented any accepting case may win) *)
Lemma all_ok_ex g1 g2 l r : (forall x a, g1 x = Some a -> exists a', g2 x = Some a') ->
  all_ok g1 l = Some r -> exists r', all_ok g2 l = Some r'.
Proof.
  intro H. revert r. induction l as [|x l IH]; simpl; intros r E; eauto.
  destruct (g1 x) as [a|] eqn:G; try discriminate. destruct (all_ok g1 l) as [b|]; try discriminate.
  destruct (H _ _ G) as [a' ->]. destruct (IH b eq_refl) as [b' ->]. eauto.
Qed.

Theorem strict_sub_lax_accepts : forall t v r, spec_ok U true t v = Some r -> exists r', spec_ok U false t v = Some r'.
Proof.
  induction t as [| | | | | |ls|k t IH|ts IH|tk tv IHk IHv|t IH|ts IH|n] using ty_ind'; intros v r; cbn [spec_ok].
  - destruct v; simpl; try discriminate; eauto.
  - destruct v; simpl; try discriminate; eauto.
  - simpl. eauto.
  - simpl. eauto.
  - eauto.
  - eauto.
  - intro H. exists r. revert H. apply (strict_sub_lax_value (TLit ls) I v r).
  - destruct (iter_view true v) as [l| |] eqn:V; try discriminate. rewrite (strict_view_lax _ _ V).
    destruct (all_ok (spec_ok U true t) l) as [rs|] eqn:A; try discriminate. intros _.
    destruct (all_ok_ex _ (spec_ok U false t) l rs (fun x a => IH x a) A) as [rs' ->]. simpl. eauto.
  - destruct (iter_view true v) as [l| |] eqn:V; try discriminate. rewrite (strict_view_lax _ _ V).
    destruct (Nat.eqb (List.length l) (List.length ts)); try discriminate.
    assert (M : forall l rs, all_ok2 (map (fun t1 => spec_ok U true t1) ts) l = Some rs ->
                             exists rs', all_ok2 (map (fun t1 => spec_ok U false t1) ts) l = Some rs').
    { clear V. induction IH as [|t1 ts' H _ IH']; intros [|x l'] rs; simpl; eauto.
      destruct (spec_ok U true t1 x) as [a|] eqn:G; try discriminate.
      destruct (all_ok2 (map (fun t0 => spec_ok U true t0) ts') l') as [b|] eqn:A; try discriminate.
      destruct (H _ _ G) as [a' ->]. destruct (IH' l' b A) as [b' ->]. eauto. }
    destruct (all_ok2 (map (fun t1 => spec_ok U true t1) ts) l) as [rs|] eqn:A; try discriminate.
    destruct (M l rs A) as [rs' ->]. simpl. eauto.
  - destruct v; try discriminate.
    assert (M : forall kvs acc res, all_okd (spec_ok U true tk) (spec_ok U true tv) acc kvs = Some res ->
                                    forall acc', exists res', all_okd (spec_ok U false tk) (spec_ok U false tv) acc' kvs = Some res').
    { induction kvs0 as [|[k x] l IH]; intros acc res; simpl; eauto.
      destruct (spec_ok U true tk k) as [k'|] eqn:Gk; try discriminate.
      destruct (spec_ok U true tv x) as [x'|] eqn:Gv; try discriminate.
      destruct (IHk _ _ Gk) as [k'' ->]. destruct (IHv _ _ Gv) as [x'' ->]. intros A acc'. eapply IH; eauto. }
    destruct (all_okd (spec_ok U true tk) (spec_ok U true tv) [] kvs) as [res|] eqn:A; try discriminate.
    destruct (M kvs [] res A []) as [res' ->]. simpl. eauto.
  - destruct v; eauto.
  - intro H. apply first_some_sound, in_map_iff in H. destruct H as (t & Ht & It).
    rewrite Forall_forall in IH. destruct (IH t It v r Ht) as [r' Hr'].
    apply first_some_complete. exists r'. apply in_map_iff. exists t. auto.
  - eauto.
Qed.

Theorem strict_only_narrows md1 md2 t v r :
  load U md1 true t v = Ok r -> exists r', load U md2 false t v = Ok r'.
Proof.
  intro H. destruct (load_is_spec md1 true t v) as [E _]. rewrite H in E. simpl in E. symmetry in E.
  destruct (strict_sub_lax_accepts t v r E) as [r' Hr']. destruct (load_is_spec md2 false t v) as [E2 _].
  rewrite Hr' in E2. destruct (load U md2 false t v); try discriminate. inversion E2. eauto.
Qed.
Theorem strict_only_narrows_same_value md1 md2 t v r :
  union_free t -> load U md1 true t v = Ok r -> load U md2 false t v = Ok r.
Proof.
  intros UF H. destruct (load_is_spec md1 true t v) as [E _]. rewrite H in E. simpl in E. symmetry in E.
  pose proof (strict_sub_lax_value t UF v r E) as Hr. destruct (load_is_spec md2 false t v) as [E2 _].
  rewrite Hr in E2. destruct (load U md2 false t v); try discriminate. now inversion E2.
Qed.

End WithUser.

Example nonvacuous_load :
  let U := fun (_ : nat) (v : pv) => Ok v in
  load U All true (TDict TStr (TIter KList (TOpt TInt))) (VDict [(VStr "a", VTuple [VInt 1; VNone]); (VStr "b", VList [])])
  = Ok (VDict [(VStr "a", VList [VInt 1; VNone]); (VStr "b", VList [])])
  /\ load U All true (TIter KList TInt) (VList [VInt 1; VStr "x"; VBool true])
     = Err (LE AggLE [] None [LE TypeLE [Idx 1] (Some (VStr "x")) []; LE TypeLE [Idx 2] (Some (VBool true)) []])
  /\ load U First false (TIter KList TInt) (VList [VInt 1; VStr "x"; VBool true])
     = Err (LE ValueLE [Idx 1] (Some (VStr "x")) []).
Proof. repeat split; vm_compute; reflexivity. Qed.
