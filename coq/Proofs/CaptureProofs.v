(* C19 - the globals handed out by compile_closure_with_globals_capturing (Model/Capture.v), tree as repaired: pairwise
   different, none of them a name of the namespace or the name of the closure - so no captured object can replace another
   one and no assignment `name = g_name` can read a namespace name.  The loop of the tree as it was is refuted. *)
From Coq Require Import List Arith Bool String Lia FinFun.
From AV Require Import Model.Capture Generated.GenNames.
Import ListNotations.
Local Open Scope string_scope.

Lemma mem_in s l : mem s l = true <-> In s l.
Proof.
  unfold mem. rewrite existsb_exists. split.
  - intros [x [Hin He]]. apply String.eqb_eq in He. now subst.
  - intro Hin. exists s. split; [exact Hin|apply String.eqb_refl].
Qed.
Lemma mem_false s l : mem s l = false <-> ~ In s l.
Proof.
  rewrite <- mem_in. destruct (mem s l); split; intro H.
  - discriminate.
  - exfalso. now apply H.
  - intro E. discriminate.
  - reflexivity.
Qed.

Fixpoint iter_g (k : nat) (g : string) : string := match k with O => g | S k' => iter_g k' (gname g) end.
Lemma length_gname g : String.length (gname g) = 2 + String.length g.
Proof. reflexivity. Qed.
Lemma length_iter_g k : forall g, String.length (iter_g k g) = 2 * k + String.length g.
Proof. induction k as [|k IH]; intro g; cbn [iter_g]; [lia|]. rewrite IH, length_gname. lia. Qed.

(* if the name returned is still taken, every candidate tried was taken *)
Lemma find_free_exhausted taken : forall fuel g, taken (find_free fuel taken g) = true ->
  forall k, k <= fuel -> taken (iter_g k g) = true.
Proof.
  induction fuel as [|f IH]; intros g H k Hk; cbn [find_free] in H.
  - assert (k = 0) by lia. subst. exact H.
  - destruct (taken g) eqn:Eg.
    + destruct k as [|k]; [exact Eg|]. cbn [iter_g]. apply IH; [exact H|lia].
    + rewrite Eg in H. discriminate.
Qed.

Lemma candidates_nodup g : forall n, NoDup (map (fun k => iter_g k g) (seq 0 n)).
Proof.
  intro n. apply Injective_map_NoDup; [|apply seq_NoDup].
  intros a b H. apply (f_equal String.length) in H. rewrite !length_iter_g in H. lia.
Qed.

(* with more fuel than names in the finite set T that defines `taken`, the name returned is not taken *)
Lemma find_free_is_free (T : list string) taken fuel g :
  (forall s, taken s = true -> In s T) -> List.length T <= fuel -> taken (find_free fuel taken g) = false.
Proof.
  intros HT Hf. destruct (taken (find_free fuel taken g)) eqn:E; [|reflexivity]. exfalso.
  pose proof (find_free_exhausted taken fuel g E) as Hall.
  assert (Hincl : incl (map (fun k => iter_g k g) (seq 0 (S fuel))) T).
  { intros s Hs. apply in_map_iff in Hs. destruct Hs as [k [<- Hk]]. apply in_seq in Hk. apply HT. apply Hall. lia. }
  pose proof (NoDup_incl_length (candidates_nodup g (S fuel)) Hincl) as Hlen.
  rewrite map_length, seq_length in Hlen. lia.
Qed.

Lemma NoDup_app_snoc {A} (l : list A) x : NoDup l -> ~ In x l -> NoDup (l ++ [x]).
Proof.
  intros Hn Hx. induction Hn as [|a l Ha _ IH]; cbn [app]; [repeat constructor; intros []|].
  constructor.
  - intro Hin. apply in_app_or in Hin. destruct Hin as [Hin|[<-|[]]]; [contradiction|]. apply Hx. now left.
  - apply IH. intro Hin. apply Hx. now right.
Qed.

Section Loop.
Variable ns : list string.
Variable closure : string.

Definition good (acc : list (string * string)) : Prop :=
  NoDup (map snd acc) /\ forall g, In g (map snd acc) -> ~ In g ns /\ g <> closure.

Lemma taken_in_T acc s : taken_by true ns closure acc s = true -> In s (ns ++ map snd acc ++ [closure]).
Proof.
  unfold taken_by. cbn [andb]. intro H. apply orb_true_iff in H. destruct H as [H|H].
  - apply orb_true_iff in H. destruct H as [H|H]; apply mem_in in H; apply in_or_app; [now left|right; apply in_or_app; now left].
  - apply String.eqb_eq in H. subst. apply in_or_app. right. apply in_or_app. right. now left.
Qed.

Lemma loop_good fuel : forall todo acc, good acc -> List.length ns + List.length acc + List.length todo + 1 <= fuel ->
  good (capture_loop true fuel ns closure todo acc).
Proof.
  induction todo as [|name r IH]; intros acc Hg Hf; cbn [capture_loop]; [exact Hg|].
  set (g := find_free fuel (taken_by true ns closure acc) (gname name)).
  assert (Hfree : taken_by true ns closure acc g = false).
  { apply (find_free_is_free (ns ++ map snd acc ++ [closure])); [apply taken_in_T|].
    rewrite !app_length, map_length. cbn [List.length] in *. lia. }
  unfold taken_by in Hfree. cbn [andb] in Hfree.
  apply orb_false_iff in Hfree. destruct Hfree as [Hfree Hc]. apply orb_false_iff in Hfree. destruct Hfree as [Hn Ha].
  apply mem_false in Hn. apply mem_false in Ha. apply String.eqb_neq in Hc.
  apply IH.
  - destruct Hg as [Hnd Hall]. split.
    + rewrite map_app. cbn [map snd]. apply NoDup_app_snoc; assumption.
    + intros g0 Hin. rewrite map_app in Hin. apply in_app_or in Hin. destruct Hin as [Hin|[<-|[]]]; [now apply Hall|]. split; assumption.
  - rewrite app_length. cbn [List.length] in *. lia.
Qed.
End Loop.

Theorem captured_globals_are_fresh_and_distinct : forall ns closure captured,
  let r := capture true ns closure captured in
  NoDup (map snd r) /\ (forall g, In g (map snd r) -> ~ In g ns /\ g <> closure).
Proof.
  intros ns closure captured. unfold capture. apply loop_good.
  - split; [constructor|intros g []].
  - cbn [List.length]. lia.
Qed.

(* every captured name gets exactly one global, in order *)
Lemma loop_names fixed fuel ns closure : forall todo acc,
  map fst (capture_loop fixed fuel ns closure todo acc) = (map fst acc ++ todo)%list.
Proof.
  induction todo as [|name r IH]; intro acc; cbn [capture_loop]; [now rewrite app_nil_r|].
  rewrite IH, map_app. cbn [map fst]. now rewrite <- app_assoc.
Qed.
Theorem every_captured_name_is_bound_once : forall fixed ns closure captured,
  map fst (capture fixed ns closure captured) = captured.
Proof. intros. unfold capture. now rewrite loop_names. Qed.

(* the loop of the tree as it was (candidates checked against the namespace and the closure name only): with x and g_x in
   one namespace both are captured under g_g_x *)
Theorem capture_as_coded_refuted : exists ns closure captured, ~ NoDup (map snd (capture false ns closure captured)).
Proof.
  exists ["f"; "g_f"], "loader", ["f"; "g_f"]. vm_compute. intro H. inversion H as [|a l Hni _]; subst. apply Hni. now left.
Qed.

Example capture_example :
  capture true ["f"; "g_f"; "data"] "g_data" ["f"; "g_f"; "data"] = [("f", "g_g_f"); ("g_f", "g_g_g_f"); ("data", "g_g_data")].
Proof. vm_compute. reflexivity. Qed.

(* the loop Model/Capture.v transcribes, regenerated from morphing/model/basic_gen.py on every run: a name whose value has
   no literal gets the candidate 'g_' + name, prefixed again with 'g_' while it is a name of the namespace, a global name
   already handed out, or the name of the closure *)
Definition reviewed_capture_loop_code : list string :=
  ["value_literal = get_literal_expr(value)"; "if value_literal is None: global_name = f'g_{name}' while global_name in namespace or global_name in global_namespace_dict or global_name == closure_name: global_name = f'g_{global_name}' global_namespace_dict[global_name] = value builder += f'{name} = {global_name}' else: builder += f'{name} = {value_literal}'"].
Theorem capture_loop_code_is_the_modelled_one : capture_loop_code = reviewed_capture_loop_code.
Proof. vm_compute. reflexivity. Qed.
