From Coq Require Import List Arith Bool Lia.
Import ListNotations.
From AV Require Import Model.Cache.

Section CacheProofs.
Variable cst : Type.
Variable ceq : cst -> cst -> bool.
Variable D : Type.
Variable combine : nat -> list cst -> list D -> D.
Notation sem := (sem combine). Notation exec := (exec ceq combine).
Notation cached_call := (cached_call ceq). Notation find := (find ceq). Notation keq := (keq ceq).
Notation ceq_list := (ceq_list ceq).
Notation state := (state cst D). Notation key := (key cst). Notation req := (req cst).
(* ---------- the theorem ---------- *)
Hypothesis key_sound : forall s cs cs' ds, ceq_list cs cs' = true -> combine s cs ds = combine s cs' ds.

Definition heap_ok (st:state) := forall j d, In (j,d) (heap st) -> j < next st.
Definition entry_ok (st:state) (k:key) (i:id) :=
  den (heap st) i = Some (combine (ksite k) (kconsts k) (dens (heap st) (kids k)))
  /\ Forall (fun j => exists d, den (heap st) j = Some d) (kids k).
Definition Inv (st:state) := heap_ok st /\ (forall k i, In (k,i) (cache st) -> entry_ok st k i).
Definition extends (st st':state) := next st <= next st' /\ forall j d, den (heap st) j = Some d -> den (heap st') j = Some d.

Lemma den_lt st j d : heap_ok st -> den (heap st) j = Some d -> j < next st.
Proof.
  unfold heap_ok. intros H. induction (heap st) as [|[j' d'] r IH]; simpl; [discriminate|].
  destruct (Nat.eqb_spec j j'); [intros _; subst; eapply H; left; reflexivity | intro E; apply IH; auto].
  intros; eapply H; right; eauto.
Qed.

Lemma ids_eqb_eq a b : ids_eqb a b = true -> a = b.
Proof. revert b; induction a; destruct b; simpl; try discriminate; auto.
  intro H. apply andb_true_iff in H. destruct H as [H1 H2]. apply Nat.eqb_eq in H1. subst. f_equal; auto. Qed.

Lemma find_in k l i : find k l = Some i -> exists k', In (k',i) l /\ keq k k' = true.
Proof. induction l as [|[k' j] r IH]; simpl; [discriminate|]. destruct (keq k k') eqn:E.
  - intro H; inversion H; subst. eauto.
  - intro H. destruct (IH H) as (k'' & Hin & Hk). eauto. Qed.

Lemma dens_ext (h h' : list (id * D)) is_ : (forall j d, den h j = Some d -> den h' j = Some d) ->
  Forall (fun j => exists d, den h j = Some d) is_ -> dens h' is_ = dens h is_.
Proof.
  intros He. induction 1 as [|j r [d Hd] _ IH]; simpl; auto. rewrite Hd, (He _ _ Hd), IH. reflexivity.
Qed.

Lemma keq_parts k k' : keq k k' = true -> ksite k = ksite k' /\ ceq_list (kconsts k) (kconsts k') = true /\ kids k = kids k'.
Proof. unfold keq. intro H. apply andb_true_iff in H. destruct H as [H H3]. apply andb_true_iff in H. destruct H as [H1 H2].
  apply Nat.eqb_eq in H1. apply ids_eqb_eq in H3. auto. Qed.

Lemma extends_refl st : extends st st. Proof. split; auto. Qed.
Lemma extends_trans a b c : extends a b -> extends b c -> extends a c.
Proof. intros [A1 A2] [B1 B2]. split; [lia|auto]. Qed.

Lemma cc_sound st k d : Inv st -> Forall (fun j => exists d, den (heap st) j = Some d) (kids k) ->
  d = combine (ksite k) (kconsts k) (dens (heap st) (kids k)) ->
  Inv (snd (cached_call st k d)) /\ extends st (snd (cached_call st k d))
  /\ den (heap (snd (cached_call st k d))) (fst (cached_call st k d)) = Some d.
Proof.
  intros [Hh Hc] Hk Hd. unfold cached_call. destruct (find k (cache st)) as [i|] eqn:Ef; simpl.
  - (* hit *)
    split; [split; auto|]. split; [apply extends_refl|].
    destruct (find_in _ _ _ Ef) as (k' & Hin & Hq). destruct (keq_parts _ _ Hq) as (Es & Ec & Ei).
    destruct (Hc _ _ Hin) as [Hden _]. rewrite Hden, Hd, Es, Ei. f_equal. symmetry. now apply key_sound.
  - (* miss: a new closure object *)
    assert (Hfresh: forall j d', den (heap st) j = Some d' -> Nat.eqb j (next st) = false).
    { intros j d' Hj. apply Nat.eqb_neq. pose proof (den_lt st j d' Hh Hj). lia. }
    assert (Hext: forall j d', den (heap st) j = Some d' -> den ((next st, d) :: heap st) j = Some d').
    { intros j d' Hj. simpl. now rewrite (Hfresh _ _ Hj). }
    split; [split|split].
    + intros j d' [E|Hin]; simpl; [inversion E; lia | specialize (Hh _ _ Hin); lia].
    + intros k0 i0 [E|Hin]; unfold entry_ok; simpl heap.
      * inversion E; subst k0 i0. split.
        -- simpl. rewrite Nat.eqb_refl. f_equal. rewrite (dens_ext (heap st)); auto.
        -- eapply Forall_impl; [|exact Hk]. intros j [d' Hj]. exists d'. apply Hext; auto.
      * destruct (Hc _ _ Hin) as [Hden Hids]. split.
        -- rewrite (Hext _ _ Hden). f_equal. f_equal. symmetry. apply dens_ext; auto.
        -- eapply Forall_impl; [|exact Hids]. intros j [d' Hj]. exists d'. apply Hext; auto.
    + split; simpl; [lia|auto].
    + simpl. now rewrite Nat.eqb_refl.
Qed.

Section RInd.
Variable P : req -> Prop.
Hypothesis H : forall s cs subs, Forall P subs -> P (Req s cs subs).
Fixpoint req_ind' (r:req) : P r :=
  match r with Req s cs subs => H s cs subs ((fix go (l:list req) : Forall P l :=
     match l with [] => Forall_nil _ | x::t => Forall_cons _ (req_ind' x) (go t) end) subs) end.
End RInd.

Definition good (r:req) := forall st, Inv st ->
  Inv (snd (exec r st)) /\ extends st (snd (exec r st)) /\ den (heap (snd (exec r st))) (fst (exec r st)) = Some (sem r).

Lemma exec_list_good subs : Forall good subs -> forall st, Inv st ->
  Inv (snd (exec_list exec subs st)) /\ extends st (snd (exec_list exec subs st))
  /\ Forall2 (fun i r => den (heap (snd (exec_list exec subs st))) i = Some (sem r)) (fst (exec_list exec subs st)) subs.
Proof.
  induction 1 as [|r rest Hr _ IH]; intros st Hi; simpl.
  - split; [exact Hi|]. split; [apply extends_refl | constructor].
  - destruct (Hr st Hi) as (I1 & E1 & D1). destruct (exec r st) as [i st1]. simpl in *.
    destruct (IH st1 I1) as (I2 & E2 & D2). destruct (exec_list exec rest st1) as [is_ st2]. simpl in *.
    split; [exact I2|]. split; [eapply extends_trans; eauto|]. constructor; auto. apply (proj2 E2). exact D1.
Qed.

Theorem history_independent : forall r, good r.
Proof.
  induction r as [s cs subs IH] using req_ind'. intros st Hi. cbn [exec].
  destruct (exec_list_good subs IH st Hi) as (I1 & E1 & D1).
  destruct (exec_list exec subs st) as [is_ st1]. simpl in *.
  assert (Hd: dens (heap st1) is_ = map sem subs).
  { clear -D1. induction D1 as [|i r is' rs Hir _ IHd]; simpl; auto. unfold dens in *. simpl. rewrite Hir. simpl. f_equal. exact IHd. }
  assert (Hk: Forall (fun j => exists d, den (heap st1) j = Some d) is_).
  { clear -D1. induction D1; constructor; eauto. }
  destruct (cc_sound st1 {| ksite := s; kconsts := cs; kids := is_ |} _ I1 Hk eq_refl) as (I2 & E2 & D2).
  simpl in *. rewrite Hd in *. split; [exact I2|]. split; [eapply extends_trans; eauto | exact D2].
Qed.
End CacheProofs.

