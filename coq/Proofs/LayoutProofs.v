(* C03 - proofs about Model/Layout.v: the documented precedence rules, and the crown builder puts every field at its path *)
From Coq Require Import List Arith Bool String Lia Permutation.
From AV Require Import Model.NameStyle Model.Layout.
Import ListNotations.
Local Open Scope list_scope.

(* ------------------------------------------------------------------------------------------------------------------ *)
(* precedence rules *)

Definition presented (sc : schema) (f : fld) : bool :=
  negb (mem (f_name f) (s_skip sc)) && match s_only sc with None => true | Some l => mem (f_name f) l end.

(* map > name_style / trim: when the map has an entry for the field, the path is that entry with ... replaced by the
   generated key; style and trimming enter only through ... *)
Theorem map_decides : forall sc out idx f gk r,
  generate_key sc idx (f_name f) = Some gk -> first_entry (f_name f) (s_map sc) = Some r ->
  map_field sc out idx f =
    match resolve gk r with Some p => if presented sc f then At p else Absent | None => Absent end.
Proof.
  intros sc out idx f gk r Hg Hm. unfold map_field, presented. rewrite Hg, Hm. destruct (resolve gk r); reflexivity.
Qed.

Corollary explicit_key_ignores_style : forall sc out idx f gk k,
  generate_key sc idx (f_name f) = Some gk -> first_entry (f_name f) (s_map sc) = Some (MPath [RK k]) ->
  presented sc f = true -> map_field sc out idx f = At [k].
Proof. intros sc out idx f gk k Hg Hm Hp. rewrite (map_decides sc out idx f gk _ Hg Hm). cbn. now rewrite Hp. Qed.

Corollary ellipsis_is_generated_key : forall sc out idx f gk,
  generate_key sc idx (f_name f) = Some gk -> first_entry (f_name f) (s_map sc) = Some (MPath [RDots]) ->
  presented sc f = true -> map_field sc out idx f = At [gk].
Proof. intros sc out idx f gk Hg Hm Hp. rewrite (map_decides sc out idx f gk _ Hg Hm). cbn. now rewrite Hp. Qed.

Corollary mapped_to_None_is_absent : forall sc out idx f gk,
  generate_key sc idx (f_name f) = Some gk -> first_entry (f_name f) (s_map sc) = Some MSkip ->
  map_field sc out idx f = Absent.
Proof. intros sc out idx f gk Hg Hm. now rewrite (map_decides sc out idx f gk _ Hg Hm). Qed.

(* without an entry: the generated key (trimmed, styled, or the index) - except private fields when dumping *)
Theorem unmapped_gets_generated_key : forall sc out idx f gk,
  generate_key sc idx (f_name f) = Some gk -> first_entry (f_name f) (s_map sc) = None ->
  (out && String.prefix "_" (f_name f)) = false -> presented sc f = true ->
  map_field sc out idx f = At [gk].
Proof. intros sc out idx f gk Hg Hm Hpriv Hp. unfold map_field. unfold presented in Hp. now rewrite Hg, Hm, Hpriv, Hp. Qed.

(* skip > only *)
Theorem skip_beats_only : forall sc out idx f p,
  mem (f_name f) (s_skip sc) = true -> map_field sc out idx f <> At p.
Proof.
  intros sc out idx f p Hs. unfold map_field. destruct (generate_key sc idx (f_name f)); [|discriminate].
  destruct (match first_entry (f_name f) (s_map sc) with
            | Some r => resolve k r
            | None => if out && String.prefix "_" (f_name f) then None else Some [k] end); [|discriminate].
  rewrite Hs. cbn. discriminate.
Qed.

Theorem only_restricts : forall sc out idx f p l,
  s_only sc = Some l -> mem (f_name f) l = false -> map_field sc out idx f <> At p.
Proof.
  intros sc out idx f p l Ho Hm. unfold map_field. destruct (generate_key sc idx (f_name f)); [|discriminate].
  destruct (match first_entry (f_name f) (s_map sc) with
            | Some r => resolve k r
            | None => if out && String.prefix "_" (f_name f) then None else Some [k] end); [|discriminate].
  rewrite Ho, Hm, andb_false_r. discriminate.
Qed.

Theorem as_list_key_is_the_index : forall sc idx name, s_as_list sc = true -> generate_key sc idx name = Some (KI idx).
Proof. intros sc idx name H. unfold generate_key. now rewrite H. Qed.

(* earlier name_mapping providers override later ones; their map entries are consulted first *)
Definition merged (stack : list overlay) : overlay := fold_right merge default_overlay stack.

Theorem earlier_overlay_wins : forall o rest,
  (forall b, o_trim o = Some b -> s_trim (provide_schema (o :: rest)) = b) /\
  (forall s, o_style o = Some s -> s_style (provide_schema (o :: rest)) = s) /\
  (forall b, o_as_list o = Some b -> s_as_list (provide_schema (o :: rest)) = b) /\
  (forall l, o_skip o = Some l -> s_skip (provide_schema (o :: rest)) = l) /\
  (forall l, o_only o = Some l -> s_only (provide_schema (o :: rest)) = l) /\
  (forall x, o_omit o = Some x -> s_omit (provide_schema (o :: rest)) = x) /\
  (forall x, o_extra_in o = Some x -> s_extra_in (provide_schema (o :: rest)) = x) /\
  (forall x, o_extra_out o = Some x -> s_extra_out (provide_schema (o :: rest)) = x).
Proof.
  intros o rest. unfold provide_schema. cbn [fold_right]. unfold merge, to_schema. cbn.
  repeat split; intros v H; rewrite H; reflexivity.
Qed.

Lemma merged_map_some stack : exists m, o_map (merged stack) = Some m.
Proof.
  induction stack as [|o r [m IH]]; [eexists; reflexivity|]. unfold merged in *. cbn [fold_right]. unfold merge at 1. cbn [o_map].
  rewrite IH. destruct (o_map o); eexists; reflexivity.
Qed.

Theorem earlier_map_entries_first : forall o rest m,
  o_map o = Some m -> s_map (provide_schema (o :: rest)) = m ++ s_map (provide_schema rest).
Proof.
  intros o rest m H. unfold provide_schema. cbn [fold_right]. fold (merged rest). destruct (merged_map_some rest) as [m' Hm'].
  unfold to_schema, merge. cbn [o_map s_map]. rewrite H, Hm'. reflexivity.
Qed.

(* ------------------------------------------------------------------------------------------------------------------ *)
(* the crown builder *)

Fixpoint find_key (k : string) (m : list (string * crown)) : option crown :=
  match m with [] => None | (k', c) :: r => if String.eqb k k' then Some c else find_key k r end.

Fixpoint get (c : crown) (p : path) : option crown :=
  match p with
  | [] => Some c
  | KS k :: r => match c with CDict m => match find_key k m with Some sub => get sub r | None => None end | _ => None end
  | KI i :: r => match c with CList m => match nth_error m i with Some sub => get sub r | None => None end | _ => None end
  end.

Definition old_or_none (o : option crown) : crown := match o with Some c => c | None => CNone end.

Lemma find_upsert_same k f m : find_key k (upsert k f m) = Some (f (old_or_none (find_key k m))).
Proof.
  induction m as [|[k' c] r IH]; cbn [upsert find_key].
  - now rewrite String.eqb_refl.
  - destruct (String.eqb k k') eqn:E; cbn [find_key]; rewrite E; [reflexivity|exact IH].
Qed.

Lemma find_upsert_other k k' f m : k <> k' -> find_key k' (upsert k f m) = find_key k' m.
Proof.
  intro Hne. induction m as [|[k2 c] r IH]; cbn [upsert find_key].
  - destruct (String.eqb k' k) eqn:E; [apply String.eqb_eq in E; congruence|reflexivity].
  - destruct (String.eqb k k2) eqn:E; cbn [find_key].
    + apply String.eqb_eq in E. subst k2. destruct (String.eqb k' k) eqn:E2; [apply String.eqb_eq in E2; congruence|reflexivity].
    + destruct (String.eqb k' k2); [reflexivity|exact IH].
Qed.

Lemma nth_set_same i f : forall m, nth_error (set_nth i f m) i = Some (f (old_or_none (nth_error m i))).
Proof.
  induction i as [|i IH]; intros [|c r]; cbn [set_nth nth_error]; try reflexivity.
  - rewrite (IH []). destruct i; reflexivity.
  - exact (IH r).
Qed.

Lemma nth_set_other i j f : forall m x, i <> j -> nth_error m j = Some x -> nth_error (set_nth i f m) j = Some x.
Proof.
  revert j. induction i as [|i IH]; intros j m x Hne Hn.
  - destruct j as [|j]; [congruence|]. destruct m as [|c r]; cbn [set_nth nth_error] in *; [discriminate|exact Hn].
  - destruct m as [|c r]; [destruct j; discriminate|]. destruct j as [|j]; cbn [set_nth nth_error] in *; [exact Hn|].
    apply IH; [lia|exact Hn].
Qed.

(* the inserted leaf is found at its path, whatever was there before *)
Theorem get_insert_same : forall p leaf t, get (insert p leaf t) p = Some leaf.
Proof.
  induction p as [|[k|i] r IH]; intros leaf t; cbn [insert get]; [reflexivity| |].
  - rewrite find_upsert_same. apply IH.
  - rewrite nth_set_same. apply IH.
Qed.

(* two paths that part at a node by two different keys of the same kind *)
Fixpoint diverge (p q : path) : bool :=
  match p, q with
  | KS a :: p', KS b :: q' => if String.eqb a b then diverge p' q' else true
  | KI a :: p', KI b :: q' => if Nat.eqb a b then diverge p' q' else true
  | _, _ => false
  end.

(* inserting along p leaves what is found at q untouched *)
Theorem get_insert_other : forall p q leaf t x,
  diverge p q = true -> get t q = Some x -> get (insert p leaf t) q = Some x.
Proof.
  induction p as [|[a|a] p' IH]; intros [|[b|b] q'] leaf t x Hd Hg; cbn [diverge] in Hd; try discriminate.
  - cbn [get] in Hg. destruct t as [| |m|]; try discriminate. cbn [insert get].
    destruct (String.eqb a b) eqn:E.
    + apply String.eqb_eq in E. subst b. rewrite find_upsert_same.
      destruct (find_key a m) as [sub|]; [|discriminate]. cbn [old_or_none]. exact (IH q' leaf sub x Hd Hg).
    + rewrite find_upsert_other; [exact Hg|]. intro; subst. rewrite String.eqb_refl in E. discriminate.
  - cbn [get] in Hg. destruct t as [| | |m]; try discriminate. cbn [insert get].
    destruct (Nat.eqb a b) eqn:E.
    + apply Nat.eqb_eq in E. subst b. rewrite nth_set_same.
      destruct (nth_error m a) as [sub|]; [|discriminate]. cbn [old_or_none]. exact (IH q' leaf sub x Hd Hg).
    + destruct (nth_error m b) as [sub|] eqn:En; [|discriminate].
      rewrite (nth_set_other a b _ m sub); [exact Hg| |exact En]. intro; subst. rewrite Nat.eqb_refl in E. discriminate.
Qed.

(* building: after all insertions every path leads to its own field *)
Definition build_raw (present : list (nat * path)) (start : crown) : crown :=
  fold_left (fun t fp => insert (snd fp) (CField (fst fp)) t) present start.

Theorem every_field_at_its_path : forall present start,
  (forall a b pre mid post, present = pre ++ a :: mid ++ b :: post -> diverge (snd b) (snd a) = true) ->
  forall f p, In (f, p) present -> get (build_raw present start) p = Some (CField f).
Proof.
  intros present. unfold build_raw.
  (* generalise over what has been inserted so far *)
  assert (G : forall todo t (done : list (nat * path)),
             (forall fp, In fp done -> get t (snd fp) = Some (CField (fst fp))) ->
             (forall a b, In a done -> In b todo -> diverge (snd b) (snd a) = true) ->
             (forall a b pre mid post, todo = pre ++ a :: mid ++ b :: post -> diverge (snd b) (snd a) = true) ->
             forall fp, In fp (done ++ todo) ->
               get (fold_left (fun t fp => insert (snd fp) (CField (fst fp)) t) todo t) (snd fp) = Some (CField (fst fp))).
  { induction todo as [|x r IH]; intros t done Hdone Hcross Hpair fp Hin; cbn [fold_left].
    - rewrite app_nil_r in Hin. exact (Hdone fp Hin).
    - apply (IH (insert (snd x) (CField (fst x)) t) (done ++ [x])).
      + intros y Hy. apply in_app_or in Hy. destruct Hy as [Hy|[<-|[]]].
        * apply get_insert_other; [exact (Hcross y x Hy (or_introl eq_refl))|exact (Hdone y Hy)].
        * apply get_insert_same.
      + intros a b Ha Hb. apply in_app_or in Ha. destruct Ha as [Ha|[<-|[]]].
        * exact (Hcross a b Ha (or_intror Hb)).
        * apply in_split in Hb. destruct Hb as [mid [post ->]]. exact (Hpair x b [] mid post eq_refl).
      + intros a b pre mid post E. apply (Hpair a b (x :: pre) mid post). cbn. now rewrite E.
      + rewrite <- app_assoc. exact Hin. }
  intros start Hpair f p Hin.
  exact (G present start [] (fun fp H => match H with end) (fun a b H => match H with end) Hpair (f, p) Hin).
Qed.

(* ------------------------------------------------------------------------------------------------------------------ *)
(* validation makes any two paths part at a node by different keys of one kind *)

Lemma validated_paths_diverge : forall p q,
  kinds_clash p q = false -> is_prefix p q = false -> is_prefix q p = false -> diverge p q = true.
Proof.
  induction p as [|[a|a] p' IH]; intros [|[b|b] q'] Hc Hp Hq; cbn in *; try discriminate.
  - destruct (String.eqb a b) eqn:E; [|reflexivity]. cbn in *.
    assert (String.eqb b a = true) as E' by (apply String.eqb_eq; apply String.eqb_eq in E; congruence).
    rewrite E' in Hq. cbn in Hq. apply IH; assumption.
  - destruct (Nat.eqb a b) eqn:E; [|reflexivity]. cbn in *.
    assert (Nat.eqb b a = true) as E' by (apply Nat.eqb_eq; apply Nat.eqb_eq in E; congruence).
    rewrite E' in Hq. cbn in Hq. apply IH; assumption.
Qed.

Lemma pairwise_false {A} (bad : A -> A -> bool) : forall l,
  pairwise bad l = false -> forall a b pre mid post, l = pre ++ a :: mid ++ b :: post -> bad a b = false /\ bad b a = false.
Proof.
  induction l as [|x r IH]; intros H a b pre mid post E; [destruct pre; discriminate|].
  cbn [pairwise] in H. apply orb_false_iff in H. destruct H as [H1 H2].
  destruct pre as [|y pre']; cbn in E; injection E as -> ->.
  - assert (Hin : In b (mid ++ b :: post)) by (apply in_or_app; right; left; reflexivity).
    assert (Hx : (bad a b || bad b a) = false).
    { destruct (bad a b || bad b a) eqn:Eb; [|reflexivity]. exfalso.
      assert (existsb (fun y => bad a y || bad y a) (mid ++ b :: post) = true) by (apply existsb_exists; exists b; auto).
      congruence. }
    apply orb_false_iff in Hx. exact Hx.
  - exact (IH H2 a b pre' mid post eq_refl).
Qed.

(* ------------------------------------------------------------------------------------------------------------------ *)
(* ordering the children of mapping nodes does not move anything *)

Fixpoint uk (c : crown) : Prop :=               (* unique keys in every mapping node *)
  match c with
  | CField _ | CNone => True
  | CDict m => NoDup (map fst m) /\
               (fix go (m : list (string * crown)) : Prop := match m with [] => True | kc :: r => uk (snd kc) /\ go r end) m
  | CList m => (fix go (m : list crown) : Prop := match m with [] => True | c' :: r => uk c' /\ go r end) m
  end.

Lemma find_key_in k m c : find_key k m = Some c -> In (k, c) m.
Proof.
  induction m as [|[k' c'] r IH]; cbn; [discriminate|]. destruct (String.eqb k k') eqn:E.
  - intros [= ->]. apply String.eqb_eq in E. subst. left. reflexivity.
  - intro H. right. exact (IH H).
Qed.

Lemma in_find_key k m c : NoDup (map fst m) -> In (k, c) m -> find_key k m = Some c.
Proof.
  induction m as [|[k' c'] r IH]; intros Hn Hi; [destruct Hi|]. cbn [map fst] in Hn. inversion Hn as [|x y Hx Hy]; subst.
  cbn [find_key]. destruct Hi as [Hi|Hi].
  - injection Hi as -> ->. now rewrite String.eqb_refl.
  - destruct (String.eqb k k') eqn:E; [|exact (IH Hy Hi)]. apply String.eqb_eq in E. subst. exfalso. apply Hx.
    change k' with (fst (k', c)). apply in_map. exact Hi.
Qed.

Lemma find_key_perm k l l' : NoDup (map fst l) -> Permutation l l' -> find_key k l = find_key k l'.
Proof.
  intros Hn Hp. assert (Hn' : NoDup (map fst l')) by (eapply Permutation_NoDup; [apply Permutation_map; exact Hp|exact Hn]).
  destruct (find_key k l) as [c|] eqn:E.
  - symmetry. apply in_find_key; [exact Hn'|]. eapply Permutation_in; [exact Hp|]. exact (find_key_in k l c E).
  - destruct (find_key k l') as [c|] eqn:E'; [|reflexivity].
    apply find_key_in in E'. apply (Permutation_in _ (Permutation_sym Hp)) in E'.
    rewrite (in_find_key k l c Hn E') in E. discriminate.
Qed.

Lemma insert_sorted_perm kc l : Permutation (insert_sorted kc l) (kc :: l).
Proof.
  induction l as [|x r IH]; cbn [insert_sorted]; [constructor; constructor|].
  destruct (String.leb (fst kc) (fst x)); [apply Permutation_refl|].
  eapply Permutation_trans; [apply perm_skip; exact IH|apply perm_swap].
Qed.

Lemma sort_perm l : Permutation (fold_right insert_sorted [] l) l.
Proof.
  induction l as [|x r IH]; cbn [fold_right]; [constructor|].
  eapply Permutation_trans; [apply insert_sorted_perm|apply perm_skip; exact IH].
Qed.

Lemma partition_perm {A} (P : A -> bool) l : Permutation (filter P l ++ filter (fun x => negb (P x)) l) l.
Proof.
  induction l as [|x r IH]; cbn [filter]; [constructor|]. destruct (P x); cbn [negb app].
  - apply perm_skip. exact IH.
  - eapply Permutation_trans; [apply Permutation_sym; apply Permutation_middle|apply perm_skip; exact IH].
Qed.

Lemma reordered_children_perm m' :
  Permutation (filter (fun kc : string * crown => is_leaf (snd kc)) m' ++
               fold_right insert_sorted [] (filter (fun kc => negb (is_leaf (snd kc))) m')) m'.
Proof.
  eapply Permutation_trans; [apply Permutation_app_head; apply sort_perm|].
  exact (partition_perm (fun kc : string * crown => is_leaf (snd kc)) m').
Qed.

Lemma find_key_map k (g : crown -> crown) m :
  find_key k (map (fun kc => (fst kc, g (snd kc))) m) = option_map g (find_key k m).
Proof.
  induction m as [|[k' c] r IH]; cbn [map find_key fst snd]; [reflexivity|]. destruct (String.eqb k k'); [reflexivity|exact IH].
Qed.

Lemma uk_child k m sub : uk (CDict m) -> find_key k m = Some sub -> uk sub.
Proof.
  cbn [uk]. intros [_ H]. induction m as [|[k' c] r IH]; cbn [find_key]; [discriminate|].
  destruct H as [H1 H2]. destruct (String.eqb k k'); [intros [= <-]; exact H1|exact (IH H2)].
Qed.
Lemma uk_item i m sub : uk (CList m) -> nth_error m i = Some sub -> uk sub.
Proof.
  cbn [uk]. revert i. induction m as [|c r IH]; intros [|i] H E; cbn [nth_error] in E; try discriminate.
  - injection E as <-. exact (proj1 H).
  - exact (IH i (proj2 H) E).
Qed.

Theorem get_reorder : forall p c, uk c -> get (reorder c) p = option_map reorder (get c p).
Proof.
  induction p as [|[k|i] r IH]; intros c Hu; [reflexivity| |].
  - destruct c as [| |m|m]; try reflexivity. cbn [reorder get].
    set (m' := map (fun kc => (fst kc, reorder (snd kc))) m).
    assert (Hn : NoDup (map fst m')).
    { unfold m'. rewrite map_map. cbn [fst]. exact (proj1 Hu). }
    rewrite (find_key_perm k _ m'); [|eapply Permutation_NoDup; [apply Permutation_map; apply Permutation_sym;
                                                                  apply reordered_children_perm|exact Hn]
                                     |apply reordered_children_perm].
    unfold m'. rewrite find_key_map. destruct (find_key k m) as [sub|] eqn:E; [|reflexivity]. cbn [option_map].
    exact (IH sub (uk_child k m sub Hu E)).
  - destruct c as [| |m|m]; try reflexivity. cbn [reorder get]. rewrite nth_error_map.
    destruct (nth_error m i) as [sub|] eqn:E; [|reflexivity]. cbn [option_map]. exact (IH sub (uk_item i m sub Hu E)).
Qed.

(* ------------------------------------------------------------------------------------------------------------------ *)
(* insertion keeps keys unique *)

Lemma upsert_keys k f m : NoDup (map fst m) -> NoDup (map fst (upsert k f m)).
Proof.
  induction m as [|[k' c] r IH]; intro H; cbn [upsert map fst].
  - constructor; [intros []|constructor].
  - cbn [map fst] in H. inversion H as [|x y Hx Hy]; subst. destruct (String.eqb k k') eqn:E; cbn [map fst].
    + constructor; assumption.
    + constructor; [|exact (IH Hy)]. intro Hin. apply Hx. clear -Hin E. induction r as [|[k2 c2] r IH]; cbn [upsert map fst] in *.
      * destruct Hin as [Hin|[]]. subst. rewrite String.eqb_refl in E. discriminate.
      * destruct (String.eqb k k2) eqn:E2; cbn [map fst] in *; [exact Hin|]. destruct Hin as [Hin|Hin]; [left; exact Hin|right; exact (IH Hin)].
Qed.

Definition uks (m : list (string * crown)) : Prop :=
  (fix go (m : list (string * crown)) : Prop := match m with [] => True | kc :: r => uk (snd kc) /\ go r end) m.
Definition uki (m : list crown) : Prop :=
  (fix go (m : list crown) : Prop := match m with [] => True | c' :: r => uk c' /\ go r end) m.

Lemma upsert_uks k f m : (forall c, uk c -> uk (f c)) -> uks m -> uks (upsert k f m).
Proof.
  intros Hf. induction m as [|[k' c] r IH]; intro H; cbn [upsert].
  - cbn. split; [apply Hf; exact I|exact I].
  - destruct H as [H1 H2]. destruct (String.eqb k k'); cbn; [split; [apply Hf; exact H1|exact H2]|split; [exact H1|exact (IH H2)]].
Qed.

Lemma set_nth_uki f : (forall c, uk c -> uk (f c)) -> forall i m, uki m -> uki (set_nth i f m).
Proof.
  intros Hf. induction i as [|i IH]; intros [|c r] H; cbn [set_nth].
  - cbn. split; [apply Hf; exact I|exact I].
  - destruct H as [H1 H2]. cbn. split; [apply Hf; exact H1|exact H2].
  - cbn. split; [exact I|exact (IH [] I)].
  - destruct H as [H1 H2]. cbn. split; [exact H1|exact (IH r H2)].
Qed.

Lemma uk_insert : forall p leaf t, uk leaf -> uk t -> uk (insert p leaf t).
Proof.
  induction p as [|[k|i] r IH]; intros leaf t Hl Ht; cbn [insert]; [exact Hl| |].
  - assert (Hm : NoDup (map fst (match t with CDict m => m | _ => [] end)) /\ uks (match t with CDict m => m | _ => [] end)).
    { destruct t; try (split; [constructor|exact I]). exact Ht. }
    cbn [uk]. split; [apply upsert_keys; exact (proj1 Hm)|]. apply upsert_uks; [|exact (proj2 Hm)]. intros c Hc. exact (IH leaf c Hl Hc).
  - assert (Hm : uki (match t with CList m => m | _ => [] end)) by (destruct t; try exact I; exact Ht).
    cbn [uk]. apply set_nth_uki; [|exact Hm]. intros c Hc. exact (IH leaf c Hl Hc).
Qed.

Lemma uk_build present : forall start, uk start -> uk (build_raw present start).
Proof.
  unfold build_raw. induction present as [|fp r IH]; intros start H; cbn [fold_left]; [exact H|].
  apply IH. apply uk_insert; [exact I|exact H].
Qed.

Lemma fold_build (present : list (fld * path)) : forall start,
  fold_left (fun t fp => insert (snd fp) (CField (f_id (fst fp))) t) present start =
  build_raw (map (fun fp => (f_id (fst fp), snd fp)) present) start.
Proof. unfold build_raw. induction present as [|fp r IH]; intro start; cbn [fold_left map fst snd]; [reflexivity|apply IH]. Qed.

(* the chain: whenever the layout is accepted, every field of it is found in the crown at the path the rules give it *)
Theorem layout_puts_every_field_at_its_path : forall stack output fs c paths,
  make_layout stack output fs = Good c paths ->
  forall f p, In (f, p) paths -> get c p = Some (CField f).
Proof.
  intros stack output fs c paths H f p Hin. unfold make_layout in H.
  repeat match type of H with
         | (if ?b then _ else _) = _ => let E := fresh "E" in destruct b eqn:E; [discriminate|]
         end.
  match type of H with
  | Good (reorder (fold_left _ ?present _)) _ = _ => set (pr := present) in *
  end.
  match type of H with
  | Good (reorder (fold_left _ _ ?start)) _ = _ => set (st := start) in *
  end.
  injection H as <- <-. rewrite fold_build.
  assert (Hst : uk st).
  { assert (Hroot : uk (if s_as_list (provide_schema stack) then CList [] else CDict [])).
    { destruct (s_as_list (provide_schema stack)); cbn; [exact I|split; [constructor|exact I]]. }
    unfold st. clearbody pr.
    destruct pr as [|gp r]; [exact Hroot|]. destruct gp as [g pth]. destruct pth as [|kk q]; [exact Hroot|].
    destruct kk as [k|i]; cbn; [split; [constructor|exact I]|exact I]. }
  rewrite get_reorder by (apply uk_build; exact Hst).
  assert (Hpair : forall a b pre mid post,
             map (fun fp : fld * path => (f_id (fst fp), snd fp)) pr = pre ++ a :: mid ++ b :: post ->
             diverge (snd b) (snd a) = true).
  { intros a b pre mid post Epaths.
    assert (Esnd : map snd pr = map snd pre ++ snd a :: map snd mid ++ snd b :: map snd post).
    { transitivity (map snd (map (fun fp : fld * path => (f_id (fst fp), snd fp)) pr)); [now rewrite map_map|].
      rewrite Epaths. rewrite !map_app. cbn [map]. rewrite map_app. reflexivity. }
    match goal with Hc : pairwise kinds_clash _ = false |- _ => destruct (pairwise_false _ _ Hc _ _ _ _ _ Esnd) as [_ C2] end.
    match goal with Hp : pairwise (fun p q => is_prefix p q) _ = false |- _ =>
      destruct (pairwise_false _ _ Hp _ _ _ _ _ Esnd) as [P1 P2] end.
    apply validated_paths_diverge; assumption. }
  rewrite (every_field_at_its_path _ st Hpair f p Hin). reflexivity.
Qed.
