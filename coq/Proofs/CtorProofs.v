(* C08 - proofs about Model/Ctor.v *)
From Coq Require Import List Arith ZArith Bool NArith Lia.
From AV Require Import Model.Ctor.
Import ListNotations.

(* ------------------------------------------------------------------------------------------------------------------ *)
(* induction over values, through the lists inside them *)
Section ValInd.
Variable P : val -> Prop.
Hypothesis Hint : forall z, P (VInt z).
Hypothesis Hbool : forall b, P (VBool b).
Hypothesis Hnone : P VNone.
Hypothesis Hell : P VEllipsis.
Hypothesis Hni : P VNotImpl.
Hypothesis Hfl : forall f, P (VFloat f).
Hypothesis Hstr : forall s, P (VStr s).
Hypothesis Hby : forall s, P (VBytes s).
Hypothesis Hba : forall s, P (VByteArray s).
Hypothesis Hlook : forall c z, P (VLook c z).
Hypothesis Hbi : forall n, P (VBuiltin n).
Hypothesis Hlist : forall l, Forall P l -> P (VList l).
Hypothesis Htuple : forall l, Forall P l -> P (VTuple l).
Hypothesis Hset : forall l, P (VSet l).
Hypothesis Hfs : forall l, P (VFrozenset l).
Hypothesis Hdict : forall l, Forall (fun kv => P (fst kv) /\ P (snd kv)) l -> P (VDict l).
Hypothesis Hrange : forall a b c, P (VRange a b c).
Hypothesis Hslice : forall a b c, P a -> P b -> P c -> P (VSlice a b c).
Hypothesis Hobj : forall i, P (VObj i).
Hypothesis Hmade : forall f c, P (VMade f c).
Hypothesis Hhid : forall i, P (VHidden i).

Fixpoint val_ind' (v : val) : P v :=
  match v with
  | VInt z => Hint z | VBool b => Hbool b | VNone => Hnone | VEllipsis => Hell | VNotImpl => Hni
  | VFloat f => Hfl f | VStr s => Hstr s | VBytes s => Hby s | VByteArray s => Hba s
  | VLook c z => Hlook c z | VBuiltin n => Hbi n
  | VList l => Hlist l ((fix go (l : list val) : Forall P l :=
                          match l with [] => Forall_nil _ | x :: r => Forall_cons _ (val_ind' x) (go r) end) l)
  | VTuple l => Htuple l ((fix go (l : list val) : Forall P l :=
                          match l with [] => Forall_nil _ | x :: r => Forall_cons _ (val_ind' x) (go r) end) l)
  | VSet l => Hset l | VFrozenset l => Hfs l
  | VDict l => Hdict l ((fix go (l : list (val * val)) : Forall (fun kv => P (fst kv) /\ P (snd kv)) l :=
                          match l with
                          | [] => Forall_nil _
                          | x :: r => Forall_cons _ (conj (val_ind' (fst x)) (val_ind' (snd x))) (go r)
                          end) l)
  | VRange a b c => Hrange a b c
  | VSlice a b c => Hslice a b c (val_ind' a) (val_ind' b) (val_ind' c)
  | VObj i => Hobj i | VMade f c => Hmade f c | VHidden i => Hhid i
  end.
End ValInd.

(* ------------------------------------------------------------------------------------------------------------------ *)
(* the literal a default is rendered as evaluates to that very default: same value, same type *)

Lemma all_some_map_eval (l : list val) :
  Forall (fun v => forall e, literal_expr as_is v = Some e -> eval e = v) l ->
  forall es, all_some (map (literal_expr as_is) l) = Some es -> map eval es = l.
Proof.
  induction 1 as [|v l Hv _ IH]; intros es E; cbn [map all_some] in E.
  - injection E as <-. reflexivity.
  - destruct (literal_expr as_is v) as [e|] eqn:Ev; [|discriminate].
    destruct (all_some (map (literal_expr as_is) l)) as [es'|] eqn:El; [|discriminate].
    injection E as <-. cbn [map]. rewrite (Hv e eq_refl), (IH es' eq_refl). reflexivity.
Qed.

Lemma builtin_name_sound v n : builtin_name as_is v = Some n -> of_name n = v.
Proof.
  destruct v; cbn; try discriminate; try (intros [= <-]; reflexivity).
  - destruct b; intros [= <-]; reflexivity.
  - destruct z as [|p|p]; try discriminate. destruct p; discriminate.
Qed.

Theorem literal_faithful : forall v e, literal_expr as_is v = Some e -> eval e = v.
Proof.
  induction v using val_ind'; intros e E.
  - injection E as <-. reflexivity.
  - cbn in E. destruct b; injection E as <-; reflexivity.
  - injection E as <-. reflexivity.
  - injection E as <-. reflexivity.
  - injection E as <-. reflexivity.
  - destruct f; cbn in E; try discriminate; injection E as <-; reflexivity.
  - injection E as <-. reflexivity.
  - injection E as <-. reflexivity.
  - injection E as <-. reflexivity.
  - cbn in E. destruct z as [|p|p]; try discriminate. destruct p; discriminate.
  - injection E as <-. reflexivity.
  - (* list *)
    cbn [literal_expr builtin_name] in E.
    destruct (all_some (map (literal_expr as_is) l)) as [es|] eqn:El; [|discriminate].
    injection E as <-. cbn [eval]. f_equal. apply all_some_map_eval; assumption.
  - (* tuple *)
    cbn [literal_expr builtin_name] in E.
    destruct (all_some (map (literal_expr as_is) l)) as [es|] eqn:El; [|discriminate].
    assert (Hm : map eval es = l) by (apply all_some_map_eval; assumption).
    destruct es as [|e1 [|e2 es']]; cbn [bare_single as_is] in E; injection E as <-; cbn [eval]; f_equal; exact Hm.
  - destruct l; injection E as <-; reflexivity.
  - destruct l; injection E as <-; reflexivity.
  - (* dict *)
    cbn [literal_expr builtin_name] in E.
    match type of E with option_map _ ?X = _ => destruct X as [es|] eqn:El; [|discriminate] end.
    injection E as <-. cbn [eval]. f_equal.
    revert es El. induction H as [|kv l [Hk Hx] _ IH]; intros es El; cbn [map all_some] in El.
    + injection El as <-. reflexivity.
    + destruct (literal_expr as_is (fst kv)) as [k|] eqn:Ek; [|discriminate].
      destruct (literal_expr as_is (snd kv)) as [x|] eqn:Ex; [|discriminate].
      match type of El with match ?X with _ => _ end = _ => destruct X as [es'|] eqn:El'; [|discriminate] end.
      injection El as <-. cbn [map fst snd]. rewrite (Hk k eq_refl), (Hx x eq_refl), (IH es' eq_refl).
      destruct kv; reflexivity.
  - injection E as <-. reflexivity.
  - (* slice *)
    cbn [literal_expr builtin_name] in E.
    destruct (literal_expr as_is v1) as [e1|] eqn:E1; [|discriminate].
    destruct (literal_expr as_is v2) as [e2|] eqn:E2; [|discriminate].
    destruct (literal_expr as_is v3) as [e3|] eqn:E3; [|discriminate].
    cbn [swapped as_is] in E. injection E as <-. cbn [eval].
    rewrite (IHv1 e1 eq_refl), (IHv2 e2 eq_refl), (IHv3 e3 eq_refl). reflexivity.
  - discriminate.
  - discriminate.
  - discriminate.
Qed.

(* the code as it was: each of the three quirks produces a different object *)
Example as_was_decimal_one_became_True :
  option_map eval (literal_expr as_was (VLook 0 1)) = Some (VBool true).
Proof. reflexivity. Qed.
Example as_was_range_arguments_swapped :
  option_map eval (literal_expr as_was (VRange 1 10 2)) = Some (VRange 1 2 10).
Proof. reflexivity. Qed.
Example as_was_one_tuple_lost_its_comma :
  option_map eval (literal_expr as_was (VTuple [VInt 1])) = Some (VInt 1).
Proof. reflexivity. Qed.

(* ------------------------------------------------------------------------------------------------------------------ *)
(* an omitted field holds exactly what the class itself would produce *)

Theorem default_is_own_default d c n :
  default_clause as_is d = Some c -> own_default d n = Some (run_clause c n).
Proof.
  destruct d as [|v|f|i]; cbn [default_clause]; try discriminate.
  - destruct (literal_expr as_is v) as [e|] eqn:E; intros [= <-]; cbn [run_clause own_default].
    + rewrite (literal_faithful v e E). reflexivity.
    + reflexivity.
  - destruct f; cbn; intros [= <-]; reflexivity.
Qed.

(* ------------------------------------------------------------------------------------------------------------------ *)
(* the call: every argument reaches its own parameter, once *)

Definition optional (f : fld) : bool := negb (frequired f).

(* InputShape._validate and the name layout's rule that only optional fields may be skipped *)
Fixpoint kinds_sorted (fs : list fld) : bool :=
  match fs with
  | [] => true
  | f :: r => forallb (fun g => Nat.leb (kind_rank (pkind f)) (kind_rank (pkind g))) r && kinds_sorted r
  end.

Definition valid (fs : list fld) : Prop :=
  kinds_sorted fs = true /\
  NoDup (map pname fs) /\
  (forall f, In f fs -> is_posonly (pkind f) = true -> frequired f = true) /\
  (forall f, In f fs -> fskipped f = true -> frequired f = false).

Definition wanted (st : status) : option val :=
  match st with SSkipped => None | SPacked ov => ov | SPassed v => Some v end.

Definition entries (l : list (fld * status)) : list (nat * val) :=
  flat_map (fun p => match wanted (snd p) with Some v => [(pname (fst p), v)] | None => [] end) l.

(* statuses are consistent with the shape: skipped / packed fields are optional, hence never positional-only *)
Definition st_ok (p : fld * status) : Prop :=
  match snd p with
  | SSkipped | SPacked _ => is_posonly (pkind (fst p)) = false
  | SPassed _ => True
  end.

Definition kw_args (l : list (fld * status)) : list (nat * val) :=
  flat_map (fun p => match snd p with SPassed v => [(pname (fst p), v)] | _ => [] end) l.
Definition packed_args (l : list (fld * status)) : list (nat * val) :=
  flat_map (fun p => match snd p with SPacked (Some v) => [(pname (fst p), v)] | _ => [] end) l.

(* once a parameter was skipped (or from the first keyword-only one on) everything is passed by keyword *)
Lemma arrange_kw_phase : forall l skipped,
  (skipped = true \/ Forall (fun p => is_kw (pkind (fst p)) = true) l) ->
  arrange true skipped l = (map (fun nv => Kw (fst nv) (snd nv)) (kw_args l), packed_args l).
Proof.
  induction l as [|[f st] r IH]; intros skipped H; [reflexivity|].
  assert (Hr : forall sk, (sk = true \/ Forall (fun p => is_kw (pkind (fst p)) = true) r) ->
                     arrange true sk r = (map (fun nv => Kw (fst nv) (snd nv)) (kw_args r), packed_args r))
    by (intros; apply IH; assumption).
  assert (Hrest : skipped = true \/ Forall (fun p => is_kw (pkind (fst p)) = true) r).
  { destruct H as [H|H]; [left; exact H|right; inversion H; assumption]. }
  cbn [arrange]. destruct st as [|ov|v].
  - rewrite (Hr true) by (left; reflexivity). reflexivity.
  - rewrite (Hr true) by (left; reflexivity). unfold kw_args, packed_args. cbn [flat_map snd fst].
    destruct ov; reflexivity.
  - rewrite (Hr skipped Hrest).
    assert (is_kw (pkind f) || skipped = true) as ->.
    { destruct H as [->|H]; [apply orb_true_r|]. inversion H as [|x y Hx Hy]; subst. cbn [fst] in Hx. rewrite Hx. reflexivity. }
    unfold kw_args, packed_args. cbn [flat_map snd fst app map]. reflexivity.
Qed.

(* the leading positional run *)
Definition lead (p : fld * status) : bool :=
  match snd p with SPassed _ => negb (is_kw (pkind (fst p))) | _ => false end.

Fixpoint lead_prefix (l : list (fld * status)) : list (fld * status) * list (fld * status) :=
  match l with
  | [] => ([], [])
  | p :: r => if lead p then let (a, b) := lead_prefix r in (p :: a, b) else ([], l)
  end.

Lemma lead_prefix_app l : fst (lead_prefix l) ++ snd (lead_prefix l) = l.
Proof.
  induction l as [|p r IH]; [reflexivity|]. cbn [lead_prefix]. destruct (lead p); [|reflexivity].
  destruct (lead_prefix r) as [a b]. cbn [fst snd app] in *. now rewrite IH.
Qed.

Definition pos_vals (l : list (fld * status)) : list val :=
  flat_map (fun p => match snd p with SPassed v => [v] | _ => [] end) l.

Lemma kinds_sorted_tail f r : kinds_sorted (f :: r) = true -> kinds_sorted r = true.
Proof. cbn [kinds_sorted]. intro H. apply andb_true_iff in H. tauto. Qed.

Lemma kw_then_all_kw f r : kinds_sorted (f :: r) = true -> is_kw (pkind f) = true ->
  Forall (fun g => is_kw (pkind g) = true) r.
Proof.
  cbn [kinds_sorted]. intros H Hk. apply andb_true_iff in H. destruct H as [H _].
  rewrite forallb_forall in H. apply Forall_forall. intros g Hg. specialize (H g Hg).
  apply Nat.leb_le in H. destruct (pkind f); try discriminate. destruct (pkind g); cbn in *; try lia; reflexivity.
Qed.

Lemma arrange_is_spec : forall l,
  kinds_sorted (map fst l) = true ->
  arrange true false l =
    (map Pos (pos_vals (fst (lead_prefix l))) ++ map (fun nv => Kw (fst nv) (snd nv)) (kw_args (snd (lead_prefix l))),
     packed_args (snd (lead_prefix l))).
Proof.
  induction l as [|[f st] r IH]; intros Hs; [reflexivity|].
  cbn [lead_prefix]. destruct (lead (f, st)) eqn:El.
  - unfold lead in El. cbn [snd fst] in El. destruct st as [|ov|v]; try discriminate.
    apply negb_true_iff in El. cbn [arrange]. rewrite El. cbn [orb].
    cbn [map] in Hs. rewrite (IH (kinds_sorted_tail _ _ Hs)).
    destruct (lead_prefix r) as [a b]. cbn [fst snd]. unfold pos_vals. cbn [flat_map snd app map]. reflexivity.
  - cbn [fst snd pos_vals flat_map map app].
    unfold lead in El. cbn [snd fst] in El. destruct st as [|ov|v].
    + cbn [arrange]. rewrite (arrange_kw_phase r true) by (left; reflexivity). reflexivity.
    + cbn [arrange]. rewrite (arrange_kw_phase r true) by (left; reflexivity).
      unfold kw_args, packed_args. cbn [flat_map snd fst]. destruct ov; reflexivity.
    + apply negb_false_iff in El. apply arrange_kw_phase. right. constructor; [exact El|].
      cbn [map fst] in Hs. pose proof (kw_then_all_kw _ _ Hs El) as Hall.
      apply Forall_forall. intros p Hp. rewrite Forall_forall in Hall. apply Hall. apply in_map. exact Hp.
Qed.

Lemma positional_split vs kws : positional (map Pos vs ++ map (fun nv => Kw (fst nv) (snd nv)) kws) = vs.
Proof.
  unfold positional. rewrite flat_map_app.
  assert (H1 : flat_map (fun a => match a with Pos v => [v] | Kw _ _ => [] end) (map Pos vs) = vs).
  { induction vs as [|v r IH]; [reflexivity|]. cbn [map flat_map app]. now rewrite IH. }
  assert (H2 : flat_map (fun a => match a with Pos v => [v] | Kw _ _ => [] end)
                 (map (fun nv : nat * val => Kw (fst nv) (snd nv)) kws) = []).
  { induction kws as [|k r IH]; [reflexivity|]. cbn [map flat_map app]. exact IH. }
  rewrite H1, H2. apply app_nil_r.
Qed.

Lemma keywords_split vs kws : keywords (map Pos vs ++ map (fun nv => Kw (fst nv) (snd nv)) kws) = kws.
Proof.
  unfold keywords. rewrite flat_map_app.
  assert (H1 : flat_map (fun a => match a with Pos _ => [] | Kw n v => [(n, v)] end) (map Pos vs) = []).
  { induction vs as [|v r IH]; [reflexivity|]. cbn [map flat_map app]. exact IH. }
  assert (H2 : flat_map (fun a => match a with Pos _ => [] | Kw n v => [(n, v)] end)
                 (map (fun nv : nat * val => Kw (fst nv) (snd nv)) kws) = kws).
  { induction kws as [|[k x] r IH]; [reflexivity|]. cbn [map flat_map app fst snd]. now rewrite IH. }
  rewrite H1, H2. reflexivity.
Qed.

Lemma lead_prefix_all_lead l : Forall (fun p => lead p = true) (fst (lead_prefix l)).
Proof.
  induction l as [|p r IH]; [constructor|]. cbn [lead_prefix]. destruct (lead p) eqn:E; [|constructor].
  destruct (lead_prefix r) as [a b]. cbn [fst] in *. constructor; assumption.
Qed.

(* positional arguments land on the leading parameters, in order *)
Lemma bind_pos_lead : forall a b,
  Forall (fun p => lead p = true) a ->
  bind_pos (map fst (a ++ b)) (pos_vals a) = Some (entries a).
Proof.
  induction a as [|[f st] r IH]; intros b H; [reflexivity|].
  inversion H as [|x y Hl Hr]; subst. unfold lead in Hl. cbn [snd fst] in Hl.
  destruct st as [|ov|v]; try discriminate. apply negb_true_iff in Hl.
  unfold pos_vals, entries. cbn [flat_map snd fst app map wanted bind_pos]. rewrite Hl.
  fold (pos_vals r). fold (entries r). rewrite (IH b Hr). reflexivity.
Qed.

Lemma find_param_in : forall sig f, NoDup (map pname sig) -> In f sig -> find_param (pname f) sig = Some f.
Proof.
  induction sig as [|p r IH]; intros f Hn Hi; [destruct Hi|]. cbn [find_param].
  destruct Hi as [->|Hi]; [now rewrite Nat.eqb_refl|].
  inversion Hn as [|x y Hx Hy]; subst. destruct (Nat.eqb (pname p) (pname f)) eqn:E.
  - apply Nat.eqb_eq in E. exfalso. apply Hx. rewrite E. apply in_map. exact Hi.
  - apply IH; assumption.
Qed.

Lemma existsb_key_false (bound : list (nat * val)) n :
  ~ In n (map fst bound) -> existsb (fun b => Nat.eqb (fst b) n) bound = false.
Proof.
  intro H. apply not_true_iff_false. intro E. apply existsb_exists in E. destruct E as [x [Hx Ex]].
  apply Nat.eqb_eq in Ex. apply H. rewrite <- Ex. apply in_map. exact Hx.
Qed.

Lemma bind_kw_ok sig : forall kws bound,
  (forall n v, In (n, v) kws -> exists p, find_param n sig = Some p /\ is_posonly (pkind p) = false) ->
  NoDup (map fst (bound ++ kws)) ->
  bind_kw sig bound kws = Some (bound ++ kws).
Proof.
  induction kws as [|[n v] r IH]; intros bound Hf Hn; [now rewrite app_nil_r|].
  cbn [bind_kw]. destruct (Hf n v (or_introl eq_refl)) as [p [Hp Hk]]. rewrite Hp, Hk.
  rewrite existsb_key_false.
  - rewrite (IH (bound ++ [(n, v)])).
    + now rewrite <- app_assoc.
    + intros n' v' Hi. apply (Hf n' v'). right. exact Hi.
    + rewrite <- app_assoc. exact Hn.
  - rewrite map_app in Hn. cbn [map fst] in Hn. apply NoDup_remove_2 in Hn. intro Hc. apply Hn.
    apply in_or_app. left. exact Hc.
Qed.

(* ---- the bindings are a rearrangement of "every wanted field under its own parameter name" *)
From Coq Require Import Permutation.

Lemma entries_app a b : entries (a ++ b) = entries a ++ entries b.
Proof. unfold entries. apply flat_map_app. Qed.

Lemma kw_packed_perm b : Permutation (kw_args b ++ packed_args b) (entries b).
Proof.
  induction b as [|[f st] r IH]; [constructor|].
  unfold kw_args, packed_args, entries. cbn [flat_map snd fst wanted].
  fold (kw_args r). fold (packed_args r). fold (entries r).
  destruct st as [|[v|]|v]; cbn [app].
  - exact IH.
  - apply Permutation_sym. apply Permutation_cons_app. apply Permutation_sym. exact IH.
  - exact IH.
  - constructor. exact IH.
Qed.

Lemma entries_names_incl l k : In k (map fst (entries l)) -> In k (map pname (map fst l)).
Proof.
  induction l as [|[f st] r IH]; [intros []|]. unfold entries. cbn [flat_map snd fst map].
  fold (entries r). rewrite map_app. intro H. apply in_app_or in H. destruct H as [H|H].
  - left. destruct (wanted st); cbn in H; [destruct H as [H|[]]; exact H|destruct H].
  - right. apply IH. exact H.
Qed.

Lemma entries_nodup l : NoDup (map pname (map fst l)) -> NoDup (map fst (entries l)).
Proof.
  induction l as [|[f st] r IH]; intro H; [constructor|]. unfold entries. cbn [flat_map snd fst map].
  fold (entries r). cbn [map fst] in H. inversion H as [|x y Hx Hy]; subst.
  destruct (wanted st); cbn [app map fst].
  - constructor; [|apply IH; exact Hy]. intro Hc. apply Hx. apply entries_names_incl. exact Hc.
  - apply IH. exact Hy.
Qed.

Lemma in_entries l k v : In (k, v) (entries l) <-> exists f st, In (f, st) l /\ k = pname f /\ wanted st = Some v.
Proof.
  unfold entries. rewrite in_flat_map. split.
  - intros [[f st] [Hi Hv]]. cbn [fst snd] in Hv. destruct (wanted st) as [w|] eqn:E; [|destruct Hv].
    destruct Hv as [Hv|[]]. injection Hv as <- <-. exists f, st. auto.
  - intros [f [st [Hi [-> Hw]]]]. exists (f, st). split; [exact Hi|]. cbn [fst snd]. rewrite Hw. left. reflexivity.
Qed.

Lemma kinds_sorted_app_tail x y : kinds_sorted (x ++ y) = true -> kinds_sorted y = true.
Proof.
  induction x as [|p r IH]; [auto|]. cbn [app]. intro H. apply IH. exact (kinds_sorted_tail _ _ H).
Qed.

Lemma after_nonlead_no_posonly : forall a b,
  kinds_sorted (map fst (a ++ b)) = true -> Forall st_ok (a ++ b) ->
  (match b with [] => True | g :: _ => lead g = false end) ->
  forall f st, In (f, st) b -> is_posonly (pkind f) = false.
Proof.
  intros a b Hs Hok Hg f st Hi. destruct b as [|[g sg] b']; [destruct Hi|].
  rewrite map_app in Hs. apply kinds_sorted_app_tail in Hs. cbn [map fst] in Hs.
  assert (Hgok : st_ok (g, sg)).
  { rewrite Forall_forall in Hok. apply Hok. apply in_or_app. right. left. reflexivity. }
  assert (Hgn : is_posonly (pkind g) = false).
  { unfold lead in Hg. unfold st_ok in Hgok. cbn [snd fst] in *. destruct sg as [|og|wg]; try exact Hgok.
    apply negb_false_iff in Hg. destruct (pkind g); try discriminate. reflexivity. }
  destruct Hi as [Hi|Hi]; [injection Hi as <- <-; exact Hgn|].
  cbn [kinds_sorted] in Hs. apply andb_true_iff in Hs. destruct Hs as [Hs _]. rewrite forallb_forall in Hs.
  assert (Hf : In f (map fst b')) by (change f with (fst (f, st)); apply in_map; exact Hi).
  specialize (Hs f Hf). apply Nat.leb_le in Hs.
  destruct (pkind g); try discriminate; destruct (pkind f); cbn in *; try reflexivity; lia.
Qed.

Lemma lead_prefix_rest_head l : match snd (lead_prefix l) with [] => True | g :: _ => lead g = false end.
Proof.
  induction l as [|p r IH]; [exact I|]. cbn [lead_prefix]. destruct (lead p) eqn:E.
  - destruct (lead_prefix r) as [a b]. exact IH.
  - cbn [snd]. exact E.
Qed.

Theorem call_binds_exactly : forall l,
  kinds_sorted (map fst l) = true ->
  NoDup (map pname (map fst l)) ->
  Forall st_ok l ->
  exists b, (let (args, packed) := arrange true false l in bind (map fst l) args packed) = Some b /\
            NoDup (map fst b) /\
            (forall k v, In (k, v) b <-> exists f st, In (f, st) l /\ k = pname f /\ wanted st = Some v).
Proof.
  intros l Hs Hn Hok. rewrite (arrange_is_spec l Hs).
  pose proof (lead_prefix_app l) as Happ. pose proof (lead_prefix_all_lead l) as Hlead.
  pose proof (lead_prefix_rest_head l) as Hhead.
  destruct (lead_prefix l) as [a b]. cbn [fst snd] in *.
  subst l. unfold bind. rewrite positional_split, keywords_split.
  rewrite (bind_pos_lead a b Hlead).
  assert (Hperm : Permutation (entries a ++ kw_args b ++ packed_args b) (entries (a ++ b))).
  { rewrite entries_app. apply Permutation_app_head. apply kw_packed_perm. }
  assert (Hnd : NoDup (map fst (entries a ++ kw_args b ++ packed_args b))).
  { apply (Permutation_NoDup (l := map fst (entries (a ++ b)))).
    - apply Permutation_map. apply Permutation_sym. exact Hperm.
    - apply entries_nodup. exact Hn. }
  exists (entries a ++ kw_args b ++ packed_args b). split; [|split].
  - apply bind_kw_ok; [|exact Hnd].
    intros n v Hi.
    assert (Hin : In (n, v) (entries b)).
    { apply (Permutation_in _ (kw_packed_perm b)). exact Hi. }
    apply in_entries in Hin. destruct Hin as [f [st [Hfi [-> Hw]]]].
    exists f. split.
    + apply find_param_in; [exact Hn|]. rewrite map_app. apply in_or_app. right.
      change f with (fst (f, st)). apply in_map. exact Hfi.
    + apply (after_nonlead_no_posonly a b Hs Hok Hhead f st Hfi).
  - exact Hnd.
  - intros k v. rewrite <- in_entries. split; intro H.
    + apply (Permutation_in _ Hperm). exact H.
    + apply (Permutation_in _ (Permutation_sym Hperm)). exact H.
Qed.

(* ------------------------------------------------------------------------------------------------------------------ *)
(* run time values, then the whole load *)

Lemma lookup_in_nodup {A} (b : list (nat * A)) k v : NoDup (map fst b) -> (lookup k b = Some v <-> In (k, v) b).
Proof.
  unfold lookup. induction b as [|[k' v'] r IH]; intro Hn; cbn [find map fst] in *.
  - split; [discriminate|intros []].
  - inversion Hn as [|x y Hx Hy]; subst. cbn [fst]. destruct (Nat.eqb k' k) eqn:E.
    + apply Nat.eqb_eq in E. subst k'. cbn [option_map snd]. split.
      * intros [= ->]. left. reflexivity.
      * intros [H|H]; [injection H as ->; reflexivity|]. exfalso. apply Hx.
        change k with (fst (k, v)). apply in_map. exact H.
    + rewrite (IH Hy). split; [intro H; right; exact H|]. intros [H|H]; [|exact H].
      injection H as -> ->. rewrite Nat.eqb_refl in E. discriminate.
Qed.

Lemma lookup_none_nodup {A} (b : list (nat * A)) k : lookup k b = None <-> ~ In k (map fst b).
Proof.
  unfold lookup. induction b as [|[k' v'] r IH]; cbn [find map fst].
  - split; [intros _ []|reflexivity].
  - destruct (Nat.eqb k' k) eqn:E.
    + apply Nat.eqb_eq in E. subst. cbn. split; [discriminate|]. intro H. exfalso. apply H. left. reflexivity.
    + rewrite IH. apply Nat.eqb_neq in E. split.
      * intros H [Hc|Hc]; [apply E; exact Hc|apply H; exact Hc].
      * intros H Hc. apply H. right. exact Hc.
Qed.

(* what the variable of a field holds after the body of the loader ran, with the window of factory calls it may use *)
Definition from_default (n0 n1 : nat) (f : fld) (v : val) : Prop :=
  exists m m', n0 <= m /\ m' <= n1 /\ own_default (fdefault f) m = Some (v, m').

Definition st_spec (data : list (nat * val)) (n0 n1 : nat) (p : fld * status) : Prop :=
  let (f, st) := p in
  if fskipped f then st = SSkipped
  else if is_packed f then st = SPacked (lookup (fid f) data)
  else exists v, st = SPassed v /\
       match lookup (fid f) data with Some x => v = x | None => from_default n0 n1 f v end.

Lemma st_spec_widen data n0 n1 n0' n1' p : n0' <= n0 -> n1 <= n1' -> st_spec data n0 n1 p -> st_spec data n0' n1' p.
Proof.
  intros H0 H1. destruct p as [f st]. unfold st_spec. destruct (fskipped f); [auto|]. destruct (is_packed f); [auto|].
  intros [v [E H]]. exists v. split; [exact E|]. destruct (lookup (fid f) data); [exact H|].
  destruct H as [m [m' [Ha [Hb Hc]]]]. exists m, m'. repeat split; try lia. exact Hc.
Qed.

Lemma run_clause_mono c n : n <= snd (run_clause c n).
Proof. destruct c; cbn; lia. Qed.

Lemma assign_ok data : forall fs n,
  (forall f, In f fs -> frequired f = true -> lookup (fid f) data <> None) ->
  exists sts n1, assign as_is data fs n = Some (sts, n1) /\ map fst sts = fs /\ n <= n1 /\
                 Forall (st_spec data n n1) sts.
Proof.
  induction fs as [|f r IH]; intros n Hreq.
  - exists [], n. repeat split; [lia|constructor].
  - assert (Hr : forall g, In g r -> frequired g = true -> lookup (fid g) data <> None)
      by (intros g Hg; apply Hreq; right; exact Hg).
    cbn [assign]. destruct (fskipped f) eqn:Esk.
    + destruct (IH n Hr) as [sts [n1 [E [Hm [Hle Hall]]]]]. rewrite E. cbn [option_map fst snd].
      exists ((f, SSkipped) :: sts), n1. repeat split; [cbn [map fst]; now rewrite Hm|exact Hle|].
      constructor; [unfold st_spec; rewrite Esk; reflexivity|exact Hall].
    + destruct (is_packed f) eqn:Epk.
      * destruct (IH n Hr) as [sts [n1 [E [Hm [Hle Hall]]]]]. rewrite E. cbn [option_map fst snd].
        exists ((f, SPacked (lookup (fid f) data)) :: sts), n1. repeat split; [cbn [map fst]; now rewrite Hm|exact Hle|].
        constructor; [unfold st_spec; rewrite Esk, Epk; reflexivity|exact Hall].
      * unfold field_value. destruct (lookup (fid f) data) as [x|] eqn:El.
        -- destruct (IH n Hr) as [sts [n1 [E [Hm [Hle Hall]]]]]. rewrite E. cbn [option_map fst snd].
           exists ((f, SPassed x) :: sts), n1. repeat split; [cbn [map fst]; now rewrite Hm|exact Hle|].
           constructor; [|exact Hall]. unfold st_spec. rewrite Esk, Epk. exists x. rewrite El. auto.
        -- assert (Hopt : frequired f = false).
           { destruct (frequired f) eqn:Erq; [|reflexivity]. exfalso. apply (Hreq f (or_introl eq_refl) Erq). exact El. }
           destruct (default_clause as_is (fdefault f)) as [c|] eqn:Ec.
           ++ pose proof (default_is_own_default _ _ n Ec) as Hown.
              destruct (run_clause c n) as [v n2] eqn:Erun.
              pose proof (run_clause_mono c n) as Hmono. rewrite Erun in Hmono. cbn [snd] in Hmono.
              destruct (IH n2 Hr) as [sts [n1 [E [Hm [Hle Hall]]]]]. rewrite E. cbn [option_map fst snd].
              exists ((f, SPassed v) :: sts), n1. repeat split; [cbn [map fst]; now rewrite Hm|lia|].
              constructor.
              ** unfold st_spec. rewrite Esk, Epk. exists v. rewrite El. split; [reflexivity|].
                 exists n, n2. repeat split; try lia. exact Hown.
              ** eapply Forall_impl; [|exact Hall]. intros p. apply st_spec_widen; lia.
           ++ exfalso. unfold frequired in Hopt. unfold is_packed in Epk.
              destruct (fdefault f) as [|v|fa|i]; try discriminate.
              ** cbn in Ec. destruct (literal_expr as_is v); discriminate.
              ** destruct fa; discriminate.
Qed.

Lemma valid_st_ok data n0 n1 fs sts :
  valid fs -> map fst sts = fs -> Forall (st_spec data n0 n1) sts -> Forall st_ok sts.
Proof.
  intros [_ [_ [Hpos Hskip]]] Hm Hall. rewrite Forall_forall in *. intros [f st] Hi.
  assert (Hf : In f fs) by (rewrite <- Hm; change f with (fst (f, st)); apply in_map; exact Hi).
  specialize (Hall _ Hi). unfold st_spec in Hall. unfold st_ok. cbn [snd fst].
  destruct (fskipped f) eqn:Esk.
  - subst st. destruct (is_posonly (pkind f)) eqn:Ep; [|reflexivity].
    specialize (Hpos f Hf Ep). specialize (Hskip f Hf Esk). congruence.
  - destruct (is_packed f) eqn:Epk.
    + subst st. destruct (is_posonly (pkind f)) eqn:Ep; [|reflexivity].
      specialize (Hpos f Hf Ep). unfold frequired in Hpos. unfold is_packed in Epk.
      destruct (fdefault f); discriminate.
    + destruct Hall as [v [-> _]]. exact I.
Qed.

(* the loaded object, field by field *)
Definition field_ok (data : list (nat * val)) (n0 n1 : nat) (f : fld) (v : val) : Prop :=
  match (if fskipped f then None else lookup (fid f) data) with
  | Some x => v = x                      (* present in the input: the loaded value *)
  | None => from_default n0 n1 f v       (* otherwise: what the class itself produces for its declared default *)
  end.

Lemma own_default_some d n : d <> NoDefault -> exists v n', own_default d n = Some (v, n') /\ n <= n'.
Proof.
  destruct d as [|v|f|i]; intro H; [contradiction| | |]; cbn [own_default].
  - exists v, n. auto.
  - destruct f; eexists; eexists; split; try reflexivity; lia.
  - eexists; eexists; split; [reflexivity|lia].
Qed.

Lemma construct_ok data n0 (b : list (nat * val)) : forall sts nA n,
  (forall f st, In (f, st) sts -> lookup (pname f) b = wanted st) ->
  (forall f st, In (f, st) sts -> fskipped f = true -> frequired f = false) ->
  Forall (st_spec data n0 nA) sts -> nA <= n -> n0 <= nA ->
  exists o n', construct (map fst sts) b n = Some (o, n') /\ n <= n' /\
               Forall2 (fun p e => fst e = fid (fst p) /\ field_ok data n0 n' (fst p) (snd e)) sts o.
Proof.
  induction sts as [|[f st] r IH]; intros nA n Hlk Hsk Hall HA H0.
  - exists [], n. repeat split; [lia|constructor].
  - inversion Hall as [|x y Hx Hy]; subst.
    assert (Hlk' : forall g sg, In (g, sg) r -> lookup (pname g) b = wanted sg) by (intros; apply Hlk; right; assumption).
    assert (Hsk' : forall g sg, In (g, sg) r -> fskipped g = true -> frequired g = false)
      by (intros g sg Hg; apply (Hsk g sg); right; assumption).
    cbn [map fst construct]. rewrite (Hlk f st (or_introl eq_refl)).
    unfold st_spec in Hx.
    destruct (wanted st) as [v|] eqn:Ew.
    + destruct (IH nA n Hlk' Hsk' Hy HA H0) as [o [n' [E [Hle HF]]]]. rewrite E.
      exists ((fid f, v) :: o), n'. repeat split; [exact Hle|]. constructor; [|exact HF].
      cbn [fst snd]. split; [reflexivity|]. unfold field_ok.
      destruct (fskipped f) eqn:Esk; [subst st; discriminate|].
      destruct (is_packed f) eqn:Epk.
      * subst st. cbn [wanted] in Ew. rewrite Ew. reflexivity.
      * destruct Hx as [w [-> Hw]]. cbn [wanted] in Ew. injection Ew as ->.
        destruct (lookup (fid f) data); [exact Hw|].
        destruct Hw as [m [m' [Ha [Hb Hc]]]]. exists m, m'. repeat split; try lia. exact Hc.
    + assert (Hd : fdefault f <> NoDefault /\ (if fskipped f then None else lookup (fid f) data) = None).
      { destruct (fskipped f) eqn:Esk.
        - split; [|reflexivity]. specialize (Hsk f st (or_introl eq_refl) Esk). unfold frequired in Hsk.
          destruct (fdefault f); [discriminate|..]; discriminate.
        - destruct (is_packed f) eqn:Epk.
          + subst st. cbn [wanted] in Ew. split; [|exact Ew]. unfold is_packed in Epk. destruct (fdefault f); discriminate.
          + destruct Hx as [w [-> _]]. discriminate. }
      destruct Hd as [Hd Hnone].
      destruct (own_default_some (fdefault f) n Hd) as [v [n1 [Eo Hn1]]]. rewrite Eo.
      destruct (IH nA n1 Hlk' Hsk' Hy ltac:(lia) H0) as [o [n' [E [Hle HF]]]]. rewrite E.
      exists ((fid f, v) :: o), n'. repeat split; [lia|]. constructor; [|exact HF].
      cbn [fst snd]. split; [reflexivity|]. unfold field_ok. rewrite Hnone.
      exists n, n1. repeat split; try lia. exact Eo.
Qed.

Lemma Forall2_field_widen data n0 n1 n1' sts o : n1 <= n1' ->
  Forall2 (fun (p : fld * status) (e : nat * val) => fst e = fid (fst p) /\ field_ok data n0 n1 (fst p) (snd e)) sts o ->
  Forall2 (fun (p : fld * status) (e : nat * val) => fst e = fid (fst p) /\ field_ok data n0 n1' (fst p) (snd e)) sts o.
Proof.
  intros Hle. induction 1 as [|p e r o' [Ha Hb] _ IH]; constructor; [|exact IH]. split; [exact Ha|].
  unfold field_ok in *. destruct (if fskipped (fst p) then None else lookup (fid (fst p)) data); [exact Hb|].
  destruct Hb as [m [m' [H1 [H2 H3]]]]. exists m, m'. repeat split; try lia. exact H3.
Qed.

Theorem ctor_exact : forall fs data n0,
  valid fs ->
  (forall f, In f fs -> frequired f = true -> lookup (fid f) data <> None) ->
  exists o n1, load_ctor_from n0 as_is true fs data = Built o n1 /\ n0 <= n1 /\
               Forall2 (fun f e => fst e = fid f /\ field_ok data n0 n1 f (snd e)) fs o.
Proof.
  intros fs data n0 Hv Hreq. unfold load_ctor_from.
  destruct (assign_ok data fs n0 Hreq) as [sts [nA [Ea [Hm [HleA Hall]]]]]. rewrite Ea.
  pose proof (valid_st_ok data n0 nA fs sts Hv Hm Hall) as Hok.
  destruct Hv as [Hs [Hn [Hpos Hskip]]].
  destruct (call_binds_exactly sts ltac:(rewrite Hm; exact Hs) ltac:(rewrite Hm; exact Hn) Hok) as [b [Eb [Hnd Hin]]].
  rewrite Hm in Eb. destruct (arrange true false sts) as [args packed]. rewrite Eb.
  assert (Hlk : forall f st, In (f, st) sts -> lookup (pname f) b = wanted st).
  { intros f st Hi. destruct (wanted st) as [v|] eqn:Ew.
    - apply lookup_in_nodup; [exact Hnd|]. apply Hin. exists f, st. auto.
    - apply lookup_none_nodup. intro Hc. apply in_map_iff in Hc. destruct Hc as [[k v] [Hk Hkv]]. cbn [fst] in Hk. subst k.
      apply Hin in Hkv. destruct Hkv as [g [sg [Hg [Hname Hw]]]].
      (* parameter names are unique, so (g, sg) is (f, st) *)
      assert (Heq : (g, sg) = (f, st)).
      { clear - Hn Hm Hg Hi Hname. rewrite <- Hm in Hn. clear Hm.
        induction sts as [|[h sh] r IH]; [destruct Hi|]. cbn [map fst] in Hn. inversion Hn as [|x y Hx Hy]; subst.
        destruct Hi as [Hi|Hi], Hg as [Hg|Hg].
        - congruence.
        - injection Hi as -> ->. exfalso. apply Hx. rewrite Hname. apply in_map. change g with (fst (g, sg)). apply in_map. exact Hg.
        - injection Hg as -> ->. exfalso. apply Hx. rewrite <- Hname. apply in_map. change f with (fst (f, st)). apply in_map. exact Hi.
        - apply IH; assumption. }
      injection Heq as -> ->. congruence. }
  assert (Hsk : forall f st, In (f, st) sts -> fskipped f = true -> frequired f = false).
  { intros f st Hi. apply Hskip. rewrite <- Hm. change f with (fst (f, st)). apply in_map. exact Hi. }
  destruct (construct_ok data n0 b sts nA nA Hlk Hsk Hall (le_n _) HleA) as [o [n1 [Ec [Hle HF]]]].
  rewrite Hm in Ec. rewrite Ec. exists o, n1. repeat split; [lia|].
  rewrite <- Hm. clear - HF. induction HF as [|p e r o' H _ IH]; constructor; [exact H|exact IH].
Qed.

(* successive loads never share a factory result: every object a user factory made for load 1 carries a call number
   below the counter load 2 starts from *)
Corollary factory_results_fresh : forall fs data n0 o n1 f g k e,
  valid fs -> (forall f, In f fs -> frequired f = true -> lookup (fid f) data <> None) ->
  load_ctor_from n0 as_is true fs data = Built o n1 ->
  In f fs -> In e o -> fst e = fid f -> NoDup (map fid fs) ->
  (if fskipped f then None else lookup (fid f) data) = None -> fdefault f = DFactory (FacUser g) ->
  snd e = VMade g k -> n0 <= k < n1.
Proof.
  intros fs data n0 o n1 f g k e Hv Hreq Hl Hf He Hid Hnd Habs Hfac Hmade.
  destruct (ctor_exact fs data n0 Hv Hreq) as [o' [n1' [El [Hle HF]]]]. rewrite Hl in El. injection El as <- <-.
  assert (Hgo : forall fs o, Forall2 (fun f e => fst e = fid f /\ field_ok data n0 n1 f (snd e)) fs o ->
                 NoDup (map fid fs) -> In f fs -> In e o -> fst e = fid f -> field_ok data n0 n1 f (snd e)).
  { clear. induction 1 as [|h e' r o' [Ha Hb] HF IH]; intros Hnd Hf He Hid; [destruct Hf|].
    cbn [map] in Hnd. inversion Hnd as [|x y Hx Hy]; subst.
    destruct Hf as [->|Hf], He as [->|He].
    - exact Hb.
    - exfalso. apply Hx. rewrite <- Hid. clear - HF He. induction HF as [|a b r o [H1 _] _ IH]; [destruct He|].
      destruct He as [->|He]; [left; auto|right; auto].
    - exfalso. apply Hx. rewrite <- Ha, Hid. apply in_map. exact Hf.
    - apply IH; assumption. }
  pose proof (Hgo fs o HF Hnd Hf He Hid) as Hok. unfold field_ok in Hok. rewrite Habs in Hok.
  destruct Hok as [m [m' [H1 [H2 H3]]]]. rewrite Hfac in H3. cbn in H3. injection H3 as Hv' <-. rewrite Hmade in Hv'.
  injection Hv' as <-. lia.
Qed.

(* a missing required field: no constructor call at all *)
Theorem missing_required_no_call : forall fs data n0 f,
  In f fs -> fskipped f = false -> frequired f = true -> lookup (fid f) data = None ->
  load_ctor_from n0 as_is true fs data = MissingRequired.
Proof.
  intros fs data n0 f Hf Hsk Hreq Hl. unfold load_ctor_from.
  assert (H : forall n, assign as_is data fs n = None).
  { induction fs as [|g r IH]; [destruct Hf|]. intro n. cbn [assign]. destruct Hf as [->|Hf].
    - rewrite Hsk. unfold is_packed, frequired in *. destruct (fdefault f) eqn:Ed; try discriminate.
      unfold field_value. rewrite Hl, Ed. reflexivity.
    - destruct (fskipped g); [rewrite (IH Hf); reflexivity|]. destruct (is_packed g); [rewrite (IH Hf); reflexivity|].
      destruct (field_value as_is data g n) as [[v n1]|]; [rewrite (IH Hf); reflexivity|reflexivity]. }
  rewrite H. reflexivity.
Qed.

(* the code as it was: a packed parameter did not switch the call to keywords *)
Definition sigA (b_present : bool) : list fld * list (nat * val) :=
  ([ {| fid := 0; pname := 0; pkind := PosOrKw; fdefault := NoDefault; fskipped := false |};
     {| fid := 1; pname := 1; pkind := PosOrKw; fdefault := DHidden 7; fskipped := false |};
     {| fid := 2; pname := 2; pkind := PosOrKw; fdefault := DValue (VInt 5); fskipped := false |} ],
   (0, VInt 1) :: (if b_present then [(1, VInt 2)] else [])).
Example as_was_packed_shifted_arguments :
  load_ctor as_is false (fst (sigA false)) (snd (sigA false)) = Built [(0, VInt 1); (1, VInt 5); (2, VInt 5)] 0 /\
  load_ctor as_is false (fst (sigA true)) (snd (sigA true)) = CallError.
Proof. split; reflexivity. Qed.
Example now_packed_is_fine :
  load_ctor as_is true (fst (sigA false)) (snd (sigA false)) = Built [(0, VInt 1); (1, VHidden 7); (2, VInt 5)] 0 /\
  load_ctor as_is true (fst (sigA true)) (snd (sigA true)) = Built [(0, VInt 1); (1, VInt 2); (2, VInt 5)] 0.
Proof. split; reflexivity. Qed.
