From Coq Require Import List NArith ZArith Bool String Lia.
From AV Require Import Model.Val Model.Enum.
Import ListNotations.
Local Open Scope N_scope.

Lemma sub_spec c v : sub c v = true <-> (forall i, N.testbit c i = true -> N.testbit v i = true).
Proof.
  unfold sub. rewrite N.eqb_eq. split.
  - intros H i Hi. rewrite <- H in Hi. rewrite N.land_spec in Hi. now apply andb_true_iff in Hi.
  - intro H. apply N.bits_inj. intro i. rewrite N.land_spec.
    destruct (N.testbit c i) eqn:E; simpl; auto.
Qed.

Lemma fold_lor_acc l : forall a, fold_left N.lor l a = N.lor a (fold_left N.lor l 0).
Proof.
  induction l as [|x r IH]; intro a; cbn [fold_left].
  - now rewrite N.lor_0_r.
  - rewrite (IH (N.lor a x)), (IH (N.lor 0 x)). rewrite N.lor_0_l. now rewrite N.lor_assoc.
Qed.

(* invariant of the loop *)
Lemma dump_loop_spec v : forall cases sum, sub sum v = true ->
  sub (N.lor sum (lor_all (dump_loop v cases sum))) v = true
  /\ (forall c, In c cases -> sub c v = true -> sub c (N.lor sum (lor_all (dump_loop v cases sum))) = true)
  /\ sub sum (N.lor sum (lor_all (dump_loop v cases sum))) = true.
Proof.
  induction cases as [|c r IH]; intros sum Hs; cbn [dump_loop].
  - unfold lor_all; cbn [fold_left]. rewrite N.lor_0_r.
    split; [exact Hs|]. split; [intros c []|]. apply sub_spec; auto.
  - destruct (sub c v && negb (sub c sum)) eqn:E.
    + apply andb_true_iff in E. destruct E as [Ecv _].
      assert (Hs': sub (N.lor sum c) v = true).
      { apply sub_spec. intros i Hi. rewrite N.lor_spec in Hi. apply orb_true_iff in Hi.
        destruct Hi; [eapply sub_spec in Hs | eapply sub_spec in Ecv]; eauto. }
      destruct (IH (N.lor sum c) Hs') as (A & B & C).
      unfold lor_all in *. cbn [fold_left]. rewrite fold_lor_acc. rewrite N.lor_0_l.
      rewrite N.lor_assoc. repeat split; auto.
      * intros c0 [<-|Hin] Hc0; [|auto].
        apply sub_spec. intros i Hi. rewrite sub_spec in C. apply C. rewrite N.lor_spec, Hi. apply orb_true_r.
      * apply sub_spec. intros i Hi. rewrite sub_spec in C. apply C. rewrite N.lor_spec, Hi. reflexivity.
    + destruct (IH sum Hs) as (A & B & C). repeat split; auto.
      intros c0 [<-|Hin] Hc0; [|auto].
      (* c inside v but skipped: it was already covered by sum *)
      rewrite Hc0 in E. simpl in E. apply negb_false_iff in E.
      apply sub_spec. intros i Hi. rewrite sub_spec in C. apply C. rewrite sub_spec in E. auto.
Qed.

Definition covered (cases:list N) (v:N) : Prop :=
  forall i, N.testbit v i = true -> exists c, In c cases /\ sub c v = true /\ N.testbit c i = true.

Theorem loop_roundtrip cases v : covered cases v -> lor_all (dump_loop v cases 0) = v.
Proof.
  intro Hcov.
  assert (H0: sub 0 v = true) by (apply sub_spec; intros i Hi; rewrite N.bits_0 in Hi; discriminate).
  destruct (dump_loop_spec v cases 0 H0) as (A & B & _). rewrite N.lor_0_l in *.
  apply N.bits_inj. intro i.
  destruct (N.testbit v i) eqn:Ev.
  - destruct (Hcov i Ev) as (c & Hin & Hcv & Hci). specialize (B c Hin Hcv). rewrite sub_spec in B. auto.
  - destruct (N.testbit (lor_all (dump_loop v cases 0)) i) eqn:El; auto.
    rewrite sub_spec in A. rewrite (A i El) in Ev. discriminate.
Qed.

(* every OR of admitted cases is covered, so the theorem applies to all "combinations of flags" *)
Lemma lor_all_bit l i : N.testbit (lor_all l) i = true -> exists c, In c l /\ N.testbit c i = true.
Proof.
  unfold lor_all. induction l as [|x r IH] using rev_ind; cbn [fold_left].
  - rewrite N.bits_0. discriminate.
  - rewrite fold_left_app. simpl. rewrite N.lor_spec. intro H. apply orb_true_iff in H. destruct H as [H|H].
    + destruct (IH H) as (c & Hc & Hb). exists c. split; [apply in_or_app; auto|auto].
    + exists x. split; [apply in_or_app; right; left; auto|auto].
Qed.
Lemma lor_all_sub l c : In c l -> sub c (lor_all l) = true.
Proof.
  intro Hin. apply sub_spec. intros i Hi. unfold lor_all.
  induction l as [|x r IH] using rev_ind; [destruct Hin|].
  rewrite fold_left_app. simpl. rewrite N.lor_spec. apply in_app_or in Hin. destruct Hin as [Hin|[<-|[]]].
  - rewrite (IH Hin). reflexivity.
  - rewrite Hi. apply orb_true_r.
Qed.
Theorem combos_covered cases chosen : incl chosen cases -> covered cases (lor_all chosen).
Proof.
  intros Hinc i Hi. destruct (lor_all_bit chosen i Hi) as (c & Hc & Hb).
  exists c. repeat split; auto. now apply lor_all_sub.
Qed.



Lemma lor_all_bit_iff l i : N.testbit (lor_all l) i = true <-> exists c, In c l /\ N.testbit c i = true.
Proof.
  split; [apply lor_all_bit|]. intros (c & Hc & Hb). pose proof (lor_all_sub l c Hc) as S. rewrite sub_spec in S. auto.
Qed.
Lemma lor_all_rev l : lor_all (rev l) = lor_all l.
Proof.
  apply N.bits_inj. intro i. destruct (N.testbit (lor_all l) i) eqn:E.
  - apply lor_all_bit_iff in E. destruct E as (c & Hc & Hb). apply lor_all_bit_iff. exists c. split; auto. now apply in_rev in Hc.
  - destruct (N.testbit (lor_all (rev l)) i) eqn:E2; auto. apply lor_all_bit_iff in E2. destruct E2 as (c & Hc & Hb).
    assert (X : N.testbit (lor_all l) i = true) by (apply lor_all_bit_iff; exists c; split; auto; now apply in_rev).
    congruence.
Qed.
Lemma covered_rev cases v : covered cases v -> covered (rev cases) v.
Proof. intros H i Hi. destruct (H i Hi) as (c & Hc & A & B). exists c. repeat split; auto. now apply in_rev in Hc. Qed.

(* flag_by_member_names: dumping any value whose bits are covered by admitted cases and loading the names back *)
Theorem flag_list_roundtrip ac members v :
  covered (cases_for ac members) v -> flag_load (flag_dump ac members v) = v.
Proof.
  intro H. unfold flag_load, flag_dump. destruct (need_reverse ac members).
  - rewrite lor_all_rev. apply loop_roundtrip. now apply covered_rev.
  - now apply loop_roundtrip.
Qed.
(* every combination (OR) of admitted cases is covered *)
Corollary flag_combo_roundtrip ac members chosen :
  incl chosen (cases_for ac members) ->
  flag_load (flag_dump ac members (lor_all chosen)) = lor_all chosen.
Proof. intro H. apply flag_list_roundtrip. now apply combos_covered. Qed.
(* the dumper only names admitted cases that are inside the value *)
Lemma dump_loop_sound v : forall cases sum c, In c (dump_loop v cases sum) -> In c cases /\ sub c v = true.
Proof.
  induction cases as [|x r IH]; intros sum c; simpl; [tauto|].
  destruct (sub x v && negb (sub x sum)) eqn:E.
  - intros [<-|H]; [apply andb_true_iff in E; tauto | destruct (IH _ _ H); auto].
  - intro H. destruct (IH _ _ H); auto.
Qed.
Theorem flag_dump_sound ac members v c :
  In c (flag_dump ac members v) -> In c (cases_for ac members) /\ sub c v = true.
Proof.
  unfold flag_dump. destruct (need_reverse ac members); intro H.
  - apply in_rev in H. destruct (dump_loop_sound _ _ _ _ H) as [A B]. split; auto. now apply in_rev in A.
  - eapply dump_loop_sound; eauto.
Qed.

(* without coverage the law fails: bit 1 exists only inside the compound member 6 *)
Example uncovered_refuted : flag_load (flag_dump true [1; 6] 2) <> 2.
Proof. vm_compute. discriminate. Qed.

(* ---------------- flag_by_exact_value ---------------- *)
Lemma ones_mask k : 2 ^ k - 1 = N.ones k.
Proof. rewrite N.ones_equiv. lia. Qed.
Theorem flag_exact_in_range_is_combination mask n :
  no_skipped_bits mask = true -> n <= mask -> N.land n mask = n.
Proof.
  unfold no_skipped_bits. rewrite N.eqb_eq. intros Hm Hn.
  rewrite <- Hm, ones_mask, N.land_ones. apply N.mod_small.
  assert (mask < 2 ^ N.size mask) by (destruct mask; [simpl; lia | apply N.size_gt]). lia.
Qed.
Theorem flag_exact_accepts_iff mask z :
  flag_exact_accepts mask z = true <-> (0 <= z <= Z.of_N mask)%Z.
Proof. unfold flag_exact_accepts. rewrite andb_true_iff, !Z.leb_le. tauto. Qed.

(* ---------------- enum by exact value: the table lookup inverts member -> value ---------------- *)
Section EnumExact.
Local Open Scope nat_scope.
Definition fresh_key (k : pv) (tbl : list (pv * nat)) : Prop := Forall (fun e => pyeq (fst e) k = false) tbl.

Lemma dict_put_fresh tbl k m : fresh_key k tbl -> dict_put tbl k m = tbl ++ [(k, m)].
Proof.
  induction tbl as [|[k' m'] r IH]; simpl; auto. intro F. inversion F as [|? ? H1 H2]; subst. simpl in H1.
  rewrite H1. now rewrite IH.
Qed.

(* members' values pairwise different under Python == (no aliases left), each equal to itself (no NaN) *)
Fixpoint distinct_values (vs : list pv) : Prop :=
  match vs with
  | [] => True
  | v :: r => pyeq v v = true /\ Forall (fun w => pyeq v w = false /\ pyeq w v = false) r /\ distinct_values r
  end.

Lemma table_go vs : forall i acc,
  distinct_values vs -> Forall (fun v => fresh_key v acc) vs ->
  (fix go (i : nat) (vs : list pv) (acc : list (pv * nat)) : list (pv * nat) :=
     match vs with [] => acc | v :: r => go (S i) r (dict_put acc v i) end) i vs acc
  = acc ++ combine vs (seq i (List.length vs)).
Proof.
  induction vs as [|v r IH]; intros i acc D F; simpl; [now rewrite app_nil_r|].
  destruct D as (Rv & Dv & Dr). inversion F as [|? ? Fv Fr]; subst.
  rewrite (dict_put_fresh acc v i Fv). rewrite IH; auto.
  - now rewrite <- app_assoc.
  - rewrite Forall_forall in *. intros w Hw. unfold fresh_key. apply Forall_app. split; [apply Fr; auto|].
    constructor; [|constructor]. simpl. apply (Dv w Hw).
Qed.

Lemma lookup_combine vs : forall i m v,
  distinct_values vs -> nth_error vs m = Some v ->
  lookup_pyeq v (combine vs (seq i (List.length vs))) = Some (i + m).
Proof.
  induction vs as [|x r IH]; intros i m v D N; [destruct m; discriminate|].
  destruct D as (Rx & Dx & Dr). simpl. destruct m as [|m]; simpl in N.
  - inversion N; subst. rewrite Rx. f_equal. lia.
  - assert (In v r) by (eapply nth_error_In; eauto). rewrite Forall_forall in Dx. destruct (Dx v H) as [E _].
    rewrite E. rewrite (IH (S i) m v Dr N). f_equal. lia.
Qed.

Theorem enum_exact_roundtrip values m v :
  distinct_values values -> nth_error values m = Some v -> hashable v = true ->
  enum_exact_dump values m = Some v /\ enum_exact_load values v = Some m.
Proof.
  intros D N H. split; [exact N|]. unfold enum_exact_load, value_table. rewrite H.
  rewrite (table_go values 0 [] D); [|apply Forall_forall; intros; constructor]. simpl.
  now rewrite (lookup_combine values 0 m v D N).
Qed.
End EnumExact.
