(* C03 - proofs about Model/CrownSem.v: the dumper writes every field at its path, the loader reads every field from
   its path (or takes the default of an optional field whose key is absent) and loads nothing else *)
From Coq Require Import List Arith Bool String Lia.
From AV Require Import Model.Layout Model.CrownSem.
Import ListNotations.
Local Open Scope list_scope.

(* induction over crowns, through their child lists *)
Section CrownInd.
Variable P : crown -> Prop.
Hypothesis HF : forall i, P (CField i).
Hypothesis HN : P CNone.
Hypothesis HD : forall m, Forall (fun kc => P (snd kc)) m -> P (CDict m).
Hypothesis HL : forall m, Forall P m -> P (CList m).
Fixpoint crown_ind' (c : crown) : P c :=
  match c with
  | CField i => HF i | CNone => HN
  | CDict m => HD m ((fix go (m : list (string * crown)) : Forall (fun kc => P (snd kc)) m :=
       match m with [] => Forall_nil _ | kc :: r => Forall_cons _ (crown_ind' (snd kc)) (go r) end) m)
  | CList m => HL m ((fix go (m : list crown) : Forall P m :=
       match m with [] => Forall_nil _ | c' :: r => Forall_cons _ (crown_ind' c') (go r) end) m)
  end.
End CrownInd.

(* following a path through data *)
Fixpoint get_data (d : pv) (p : path) : option pv :=
  match p with
  | [] => Some d
  | KS k :: r => match d with
                 | VDict kvs => match lookup (KS k) kvs with Some v => get_data v r | None => None end
                 | _ => None end
  | KI i :: r => match d with
                 | VList l => match nth_error l i with Some v => get_data v r | None => None end
                 | _ => None end
  end.

(* every field of a crown with its path relative to the crown, in crown order *)
Definition under (k : key) (l : list (path * nat)) : list (path * nat) := map (fun qi => (k :: fst qi, snd qi)) l.

Fixpoint leaves (c : crown) : list (path * nat) :=
  match c with
  | CField i => [([], i)]
  | CNone => []
  | CDict m => flat_map (fun kc => under (KS (fst kc)) (leaves (snd kc))) m
  | CList m => (fix go (l : list crown) (i : nat) : list (path * nat) :=
                  match l with [] => [] | sub :: r => under (KI i) (leaves sub) ++ go r (S i) end) m 0
  end.

Fixpoint leaves_from (l : list crown) (i : nat) : list (path * nat) :=
  match l with [] => [] | sub :: r => under (KI i) (leaves sub) ++ leaves_from r (S i) end.
Lemma leaves_list m : leaves (CList m) = leaves_from m 0.
Proof. cbn [leaves]. generalize 0. induction m as [|c r IH]; intro i; [reflexivity|]. cbn [leaves_from]. now rewrite IH. Qed.

(* ------------------------------------------------------------------------------------------------------------------ *)
(* the loader *)
Section Loader.
Variable info : finfos.
Variable pol : policy.

(* where a loaded value comes from *)
Definition sourced (d : pv) (qi : path * nat) (iv : nat * nat) : Prop :=
  snd qi = fst iv /\
  (get_data d (fst qi) = Some (VInt (snd iv)) \/
   (fi_required (info (snd qi)) = false /\ snd iv = fi_default (info (snd qi)) /\ get_data d (fst qi) = None)).

(* field crowns are read by the node that contains them: the statement is about mapping and list nodes *)
Definition reads_exactly (md : mode) (c : crown) : Prop :=
  is_leaf c = false ->
  forall p d f0 f x, first info pol md c p d f0 = Go1 f x ->
    exists vals, f = f0 ++ vals /\ Forall2 (sourced d) (leaves c) vals.

Lemma sourced_under_key d k v q iv :
  dget d k = Found v -> sourced v q iv -> sourced d (KS k :: fst q, snd q) iv.
Proof.
  unfold dget. destruct d; try discriminate. destruct (lookup (KS k) kvs) as [w|] eqn:El; [|discriminate].
  intros [= <-] [H1 H2]. split; [exact H1|]. cbn [fst snd get_data]. rewrite El. exact H2.
Qed.

Lemma sourced_under_index d i v q iv :
  lget d i = Found v -> sourced v q iv -> sourced d (KI i :: fst q, snd q) iv.
Proof.
  unfold lget. destruct d; try discriminate. destruct (nth_error l i) as [w|] eqn:El; [|discriminate].
  intros [= <-] [H1 H2]. split; [exact H1|]. cbn [fst snd get_data]. rewrite El. exact H2.
Qed.

Lemma Forall2_under_key d k v l vals :
  dget d k = Found v -> Forall2 (sourced v) l vals -> Forall2 (sourced d) (under (KS k) l) vals.
Proof.
  intros Hd. induction 1 as [|q iv l' vals' H _ IH]; cbn [under map]; constructor; [|exact IH].
  exact (sourced_under_key d k v q iv Hd H).
Qed.
Lemma Forall2_under_index d i v l vals :
  lget d i = Found v -> Forall2 (sourced v) l vals -> Forall2 (sourced d) (under (KI i) l) vals.
Proof.
  intros Hd. induction 1 as [|q iv l' vals' H _ IH]; cbn [under map]; constructor; [|exact IH].
  exact (sourced_under_index d i v q iv Hd H).
Qed.

Lemma dict_first_reads md m p d : forall rest,
  Forall (fun kc => reads_exactly md (snd kc)) rest ->
  forall f0 x0 f x, dict_first info md (first info pol md) m p d rest f0 x0 = Go1 f x ->
    exists vals, f = f0 ++ vals /\
                 Forall2 (sourced d) (flat_map (fun kc => under (KS (fst kc)) (leaves (snd kc))) rest) vals.
Proof.
  induction rest as [|[k sub] r IH]; intros Hall f0 x0 f x E; cbn [dict_first] in E.
  - injection E as <- _. exists []. split; [now rewrite app_nil_r|constructor].
  - inversion Hall as [|a b Hsub Hr]; subst. cbn [flat_map fst snd].
    destruct (dget d k) as [v| |] eqn:Eg; [| |discriminate].
    + (* found *)
      destruct sub as [i| |m'|m'].
      * destruct v; try discriminate. destruct (IH Hr _ _ _ _ E) as [vals [-> HF]].
        exists ((i, n) :: vals). split; [now rewrite <- app_assoc|]. cbn [leaves under map app]. constructor; [|exact HF].
        split; [reflexivity|]. left. cbn [fst get_data]. unfold dget in Eg. destruct d; try discriminate.
        destruct (lookup (KS k) kvs); [|discriminate]. injection Eg as ->. reflexivity.
      * cbn [leaves under map app]. exact (IH Hr _ _ _ _ E).
      * destruct (first info pol md (CDict m') (p ++ [KS k]) v f0) as [f1 sx|e] eqn:Es; [|discriminate].
        destruct (Hsub eq_refl _ _ _ _ _ Es) as [v1 [-> HF1]]. destruct (IH Hr _ _ _ _ E) as [v2 [-> HF2]].
        exists (v1 ++ v2). split; [now rewrite app_assoc|]. apply Forall2_app; [|exact HF2].
        exact (Forall2_under_key d k v _ _ Eg HF1).
      * destruct (first info pol md (CList m') (p ++ [KS k]) v f0) as [f1 sx|e] eqn:Es; [|discriminate].
        destruct (Hsub eq_refl _ _ _ _ _ Es) as [v1 [-> HF1]]. destruct (IH Hr _ _ _ _ E) as [v2 [-> HF2]].
        exists (v1 ++ v2). split; [now rewrite app_assoc|]. apply Forall2_app; [|exact HF2].
        exact (Forall2_under_key d k v _ _ Eg HF1).
    + (* missing *)
      destruct sub as [i| |m'|m']; try discriminate.
      destruct (fi_required (info i)) eqn:Er; [discriminate|].
      destruct (IH Hr _ _ _ _ E) as [vals [-> HF]].
      exists ((i, fi_default (info i)) :: vals). split; [now rewrite <- app_assoc|]. cbn [leaves under map app].
      constructor; [|exact HF]. split; [reflexivity|]. right. cbn [fst snd]. split; [exact Er|]. split; [reflexivity|].
      cbn [get_data]. unfold dget in Eg. destruct d; try discriminate. destruct (lookup (KS k) kvs); [discriminate|reflexivity].
Qed.

Lemma list_first_reads md expected p d : forall rest,
  Forall (reads_exactly md) rest ->
  forall i f0 f x, list_first md (first info pol md) expected p d rest i f0 = Go1 f x ->
    exists vals, f = f0 ++ vals /\ Forall2 (sourced d) (leaves_from rest i) vals.
Proof.
  induction rest as [|sub r IH]; intros Hall i f0 f x E; cbn [list_first] in E.
  - injection E as <- _. exists []. split; [now rewrite app_nil_r|constructor].
  - inversion Hall as [|a b Hsub Hr]; subst. cbn [leaves_from].
    destruct sub as [id| |m'|m'].
    + destruct (lget d i) as [v| |] eqn:Eg; try discriminate. destruct v; try discriminate.
      destruct (IH Hr _ _ _ _ E) as [vals [-> HF]].
      exists ((id, n) :: vals). split; [now rewrite <- app_assoc|]. cbn [leaves under map app]. constructor; [|exact HF].
      split; [reflexivity|]. left. cbn [fst get_data]. unfold lget in Eg. destruct d; try discriminate.
      destruct (nth_error l i); [|discriminate]. injection Eg as ->. reflexivity.
    + cbn [leaves under map app]. exact (IH Hr _ _ _ _ E).
    + destruct (lget d i) as [v| |] eqn:Eg; try discriminate.
      destruct (first info pol md (CDict m') (p ++ [KI i]) v f0) as [f1 sx|e] eqn:Es; [|discriminate].
      destruct (Hsub eq_refl _ _ _ _ _ Es) as [v1 [-> HF1]]. destruct (IH Hr _ _ _ _ E) as [v2 [-> HF2]].
      exists (v1 ++ v2). split; [now rewrite app_assoc|]. apply Forall2_app; [|exact HF2].
      exact (Forall2_under_index d i v _ _ Eg HF1).
    + destruct (lget d i) as [v| |] eqn:Eg; try discriminate.
      destruct (first info pol md (CList m') (p ++ [KI i]) v f0) as [f1 sx|e] eqn:Es; [|discriminate].
      destruct (Hsub eq_refl _ _ _ _ _ Es) as [v1 [-> HF1]]. destruct (IH Hr _ _ _ _ E) as [v2 [-> HF2]].
      exists (v1 ++ v2). split; [now rewrite app_assoc|]. apply Forall2_app; [|exact HF2].
      exact (Forall2_under_index d i v _ _ Eg HF1).
Qed.

Theorem loader_reads_exact_paths : forall md c, reads_exactly md c.
Proof.
  intros md. induction c as [i| |m IH|m IH] using crown_ind'; unfold reads_exactly; intros Hb p d f0 f x Hx;
    try discriminate; cbn [first] in Hx.
  - (* mapping node *)
    assert (Hgo : exists vals, (exists x', (match m with [] => (match d with VDict _ => Go1 f0 [] | _ => Stop (CrownSem.E TypeLE (trail_of md p)) end)
                                              | _ => dict_first info md (first info pol md) m p d m f0 [] end) = Go1 f x') /\
                               f = f0 ++ vals /\ Forall2 (sourced d) (leaves (CDict m)) vals).
    { destruct (match m with [] => (match d with VDict _ => Go1 f0 [] | _ => Stop (CrownSem.E TypeLE (trail_of md p)) end)
                           | _ => dict_first info md (first info pol md) m p d m f0 [] end) as [f' x'|e] eqn:Eg; [|discriminate].
      assert (f' = f) as ->.
      { destruct pol; [injection Hx as <- _; reflexivity| |injection Hx as <- _; reflexivity].
        destruct (unknown_keys m d); [injection Hx as <- _; reflexivity|discriminate]. }
      destruct m as [|kc r].
      - destruct d; try discriminate. injection Eg as <- _. exists []. split; [eexists; reflexivity|].
        split; [now rewrite app_nil_r|constructor].
      - destruct (dict_first_reads md (kc :: r) p d (kc :: r) IH f0 [] f x' Eg) as [vals [-> HF]].
        exists vals. split; [eexists; reflexivity|]. split; [reflexivity|exact HF]. }
    destruct Hgo as [vals [_ [-> HF]]]. exists vals. split; [reflexivity|exact HF].
  - (* list node *)
    destruct d; try discriminate.
    destruct (list_first md (first info pol md) (List.length m) p (VList l) m 0 f0) as [f' x'|e] eqn:Eg; [|discriminate].
    assert (f' = f) as ->.
    { destruct (Nat.ltb (data_len (VList l)) (List.length m)); [discriminate|].
      destruct (is_forbid pol && Nat.ltb (List.length m) (data_len (VList l))); [discriminate|]. injection Hx as <- _. reflexivity. }
    destruct (list_first_reads md (List.length m) p (VList l) m IH 0 f0 f x' Eg) as [vals [-> HF]].
    exists vals. split; [reflexivity|]. rewrite leaves_list. exact HF.
Qed.
End Loader.

(* ------------------------------------------------------------------------------------------------------------------ *)
(* the dumper *)
Section Dumper.
Variable value : nat -> option nat.
Variable omit : nat -> bool.
Variable default : nat -> nat.

(* keys of every mapping node pairwise distinct *)
Fixpoint wf (c : crown) : Prop :=
  match c with
  | CField _ | CNone => True
  | CDict m => NoDup (map fst m) /\
               (fix go (m : list (string * crown)) : Prop := match m with [] => True | kc :: r => wf (snd kc) /\ go r end) m
  | CList m => (fix go (m : list crown) : Prop := match m with [] => True | c' :: r => wf c' /\ go r end) m
  end.

Definition written (d : pv) (qi : path * nat) : Prop :=
  exists v, value (snd qi) = Some v /\ get_data d (fst qi) = Some (VInt v).
Definition absent (d : pv) (qi : path * nat) : Prop := get_data d (fst qi) = None.

(* every field below a node: written at its path, or - when it sits directly in a mapping node and its sieve says so -
   left out *)
Definition placed (d : pv) (c : crown) : Prop :=
  Forall (fun qi => written d qi \/ (omitted value omit default (snd qi) = true /\ absent d qi)) (leaves c).

Lemma lookup_KS_in k (kvs : list (key * pv)) v : lookup (KS k) kvs = Some v -> In (KS k) (map fst kvs).
Proof.
  induction kvs as [|[k' w] r IH]; cbn; [discriminate|]. destruct k' as [s|n]; cbn.
  - destruct (String.eqb k s) eqn:E; [apply String.eqb_eq in E; subst; auto|]. intro H. right. exact (IH H).
  - intro H. right. exact (IH H).
Qed.

Lemma dump_dict_keys m : forall kvs, dump_dict value omit default (dump value omit default) m = Some kvs ->
  forall k, In (KS k) (map fst kvs) -> In k (map fst m).
Proof.
  induction m as [|[k sub] r IH]; intros kvs E k' Hk; cbn [dump_dict] in E.
  - injection E as <-. destruct Hk.
  - destruct (dump_dict value omit default (dump value omit default) r) as [t|] eqn:Er.
    + assert (Hcases : kvs = t \/ exists v, kvs = (KS k, v) :: t).
      { destruct sub as [i| |m'|m'].
        - destruct (omitted value omit default i); [injection E as <-; left; reflexivity|].
          destruct (value i); [injection E as <-; right; eexists; reflexivity|discriminate].
        - destruct (dump value omit default CNone); [injection E as <-; right; eexists; reflexivity|discriminate].
        - destruct (dump value omit default (CDict m')); [injection E as <-; right; eexists; reflexivity|discriminate].
        - destruct (dump value omit default (CList m')); [injection E as <-; right; eexists; reflexivity|discriminate]. }
      destruct Hcases as [->|[v ->]].
      * right. exact (IH t eq_refl k' Hk).
      * cbn [map fst] in Hk. destruct Hk as [Hk|Hk]; [injection Hk as <-; left; reflexivity|right; exact (IH t eq_refl k' Hk)].
    + destruct sub; discriminate.
Qed.

Lemma lookup_cons_other k k' v (t : list (key * pv)) : k <> k' -> lookup (KS k) ((KS k', v) :: t) = lookup (KS k) t.
Proof. intro H. cbn. destruct (String.eqb k k') eqn:E; [apply String.eqb_eq in E; contradiction|reflexivity]. Qed.

Lemma placed_under_key d k v c :
  lookup (KS k) (match d with VDict kvs => kvs | _ => [] end) = Some v ->
  (exists kvs, d = VDict kvs) ->
  Forall (fun qi => written v qi \/ (omitted value omit default (snd qi) = true /\ absent v qi)) (leaves c) ->
  Forall (fun qi => written d qi \/ (omitted value omit default (snd qi) = true /\ absent d qi)) (under (KS k) (leaves c)).
Proof.
  intros Hl [kvs ->] H. unfold under. apply Forall_map. eapply Forall_impl; [|exact H].
  intros [q i] [[w [Hv Hg]]|[Ho Ha]]; [left|right].
  - exists w. split; [exact Hv|]. cbn [fst snd get_data] in *. rewrite Hl. exact Hg.
  - split; [exact Ho|]. unfold absent in *. cbn [fst snd get_data] in *. rewrite Hl. exact Ha.
Qed.

Lemma dump_dict_places m : NoDup (map fst m) ->
  Forall (fun kc => is_leaf (snd kc) = false -> forall d, dump value omit default (snd kc) = Some d -> placed d (snd kc)) m ->
  forall kvs, dump_dict value omit default (dump value omit default) m = Some kvs ->
  Forall (fun qi => written (VDict kvs) qi \/ (omitted value omit default (snd qi) = true /\ absent (VDict kvs) qi))
         (flat_map (fun kc => under (KS (fst kc)) (leaves (snd kc))) m).
Proof.
  induction m as [|[k sub] r IH]; intros Hnd Hall kvs E; cbn [dump_dict] in E.
  - constructor.
  - cbn [map fst] in Hnd. inversion Hnd as [|a b Hk Hr]; subst. inversion Hall as [|a b Hsub Hrest]; subst.
    destruct (dump_dict value omit default (dump value omit default) r) as [t|] eqn:Er; [|destruct sub; discriminate].
    pose proof (IH Hr Hrest t eq_refl) as Ht.
    assert (Hfresh : lookup (KS k) t = None).
    { destruct (lookup (KS k) t) as [w|] eqn:El; [|reflexivity]. exfalso. apply Hk.
      exact (dump_dict_keys r t Er k (lookup_KS_in k t w El)). }
    (* entries of the rest are unaffected by a new first entry under another key *)
    assert (Hlift : forall v, Forall (fun qi => written (VDict ((KS k, v) :: t)) qi \/
                                               (omitted value omit default (snd qi) = true /\ absent (VDict ((KS k, v) :: t)) qi))
                                    (flat_map (fun kc => under (KS (fst kc)) (leaves (snd kc))) r)).
    { intro v. rewrite Forall_forall in Ht |- *. intros [q i] Hq. specialize (Ht _ Hq).
      apply in_flat_map in Hq. destruct Hq as [[k' sub'] [Hin Hq]]. unfold under in Hq. apply in_map_iff in Hq.
      destruct Hq as [[q' i'] [Heq _]]. cbn [fst snd] in Heq. injection Heq as <- <-.
      assert (Hne : k' <> k) by (intro; subst; apply Hk; apply in_map_iff; exists (k, sub'); auto).
      unfold written, absent in *. cbn [fst snd get_data] in *. rewrite (lookup_cons_other k' k v t Hne). exact Ht. }
    cbn [flat_map fst snd]. apply Forall_app.
    destruct sub as [i| |m'|m'].
    + (* a field directly in this node *)
      cbn [leaves under map]. destruct (omitted value omit default i) eqn:Eo.
      * injection E as <-. split; [|exact Ht]. constructor; [|constructor]. right. split; [exact Eo|].
        unfold absent. cbn [fst get_data]. rewrite Hfresh. reflexivity.
      * destruct (value i) as [v|] eqn:Ev; [|discriminate]. injection E as <-. split; [|exact (Hlift (VInt v))].
        constructor; [|constructor]. left. exists v. split; [exact Ev|]. cbn [fst get_data lookup key_eqb]. rewrite String.eqb_refl. reflexivity.
    + cbn [leaves under map]. destruct (dump value omit default CNone) as [v|]; [|discriminate]. injection E as <-.
      split; [constructor|exact (Hlift v)].
    + destruct (dump value omit default (CDict m')) as [v|] eqn:Ed; [|discriminate]. injection E as <-.
      split; [|exact (Hlift v)]. apply (placed_under_key (VDict ((KS k, v) :: t)) k v (CDict m')).
      * cbn [lookup key_eqb]. rewrite String.eqb_refl. reflexivity.
      * eexists; reflexivity.
      * exact (Hsub eq_refl v Ed).
    + destruct (dump value omit default (CList m')) as [v|] eqn:Ed; [|discriminate]. injection E as <-.
      split; [|exact (Hlift v)]. apply (placed_under_key (VDict ((KS k, v) :: t)) k v (CList m')).
      * cbn [lookup key_eqb]. rewrite String.eqb_refl. reflexivity.
      * eexists; reflexivity.
      * exact (Hsub eq_refl v Ed).
Qed.

Lemma placed_under_index l i v c :
  nth_error l i = Some v ->
  Forall (fun qi => written v qi \/ (omitted value omit default (snd qi) = true /\ absent v qi)) (leaves c) ->
  Forall (fun qi => written (VList l) qi \/ (omitted value omit default (snd qi) = true /\ absent (VList l) qi))
         (under (KI i) (leaves c)).
Proof.
  intros Hn H. unfold under. apply Forall_map. eapply Forall_impl; [|exact H].
  intros [q j] [[w [Hv Hg]]|[Ho Ha]]; [left|right].
  - exists w. split; [exact Hv|]. cbn [fst snd get_data] in *. rewrite Hn. exact Hg.
  - split; [exact Ho|]. unfold absent in *. cbn [fst snd get_data] in *. rewrite Hn. exact Ha.
Qed.

(* a field directly in a list node is always written (sieves belong to mapping nodes) *)
Lemma leaf_placed c v : is_leaf c = true -> dump value omit default c = Some v ->
  Forall (fun qi => written v qi \/ (omitted value omit default (snd qi) = true /\ absent v qi)) (leaves c).
Proof.
  destruct c as [i| |m|m]; try discriminate; intros _ E; cbn [dump] in E; cbn [leaves].
  - destruct (value i) as [w|] eqn:Ev; [|discriminate]. injection E as <-. constructor; [|constructor].
    left. exists w. split; [exact Ev|reflexivity].
  - constructor.
Qed.

Lemma dump_list_places : forall m pre,
  Forall (fun c => is_leaf c = false -> forall d, dump value omit default c = Some d -> placed d c) m ->
  forall vs, dump_list (dump value omit default) m = Some vs ->
  Forall (fun qi => written (VList (pre ++ vs)) qi \/
                    (omitted value omit default (snd qi) = true /\ absent (VList (pre ++ vs)) qi))
         (leaves_from m (List.length pre)).
Proof.
  induction m as [|sub r IH]; intros pre Hall vs E; cbn [dump_list] in E; cbn [leaves_from]; [constructor|].
  inversion Hall as [|a b Hsub Hrest]; subst.
  destruct (dump value omit default sub) as [v|] eqn:Ed; [|discriminate].
  destruct (dump_list (dump value omit default) r) as [t|] eqn:Er; [|discriminate]. injection E as <-.
  apply Forall_app. split.
  - apply (placed_under_index (pre ++ v :: t) (List.length pre) v sub).
    + rewrite nth_error_app2 by lia. rewrite Nat.sub_diag. reflexivity.
    + destruct (is_leaf sub) eqn:El; [exact (leaf_placed sub v El Ed)|exact (Hsub eq_refl v eq_refl)].
  - specialize (IH (pre ++ [v]) Hrest t eq_refl). rewrite <- app_assoc in IH. cbn [app] in IH.
    rewrite app_length in IH. cbn [List.length] in IH. rewrite Nat.add_1_r in IH. exact IH.
Qed.

Lemma wf_children m : wf (CDict m) -> Forall (fun kc => wf (snd kc)) m.
Proof. cbn [wf]. intros [_ H]. induction m as [|kc r IH]; [constructor|]. destruct H as [H1 H2]. constructor; auto. Qed.
Lemma wf_items m : wf (CList m) -> Forall wf m.
Proof. cbn [wf]. intro H. induction m as [|c r IH]; [constructor|]. destruct H as [H1 H2]. constructor; auto. Qed.

Theorem dumper_writes_exact_paths : forall c, wf c -> is_leaf c = false ->
  forall d, dump value omit default c = Some d -> placed d c.
Proof.
  induction c as [i| |m IH|m IH] using crown_ind'; intros Hwf Hb d E; try discriminate; cbn [dump] in E.
  - destruct (dump_dict value omit default (dump value omit default) m) as [kvs|] eqn:Ed; [|discriminate].
    injection E as <-. unfold placed. cbn [leaves]. apply dump_dict_places; [exact (proj1 Hwf)| |exact Ed].
    pose proof (wf_children m Hwf) as Hc. rewrite Forall_forall in IH, Hc |- *. intros kc Hin Hl d' Ed'.
    exact (IH kc Hin (Hc kc Hin) Hl d' Ed').
  - destruct (dump_list (dump value omit default) m) as [vs|] eqn:Ed; [|discriminate]. injection E as <-.
    unfold placed. rewrite leaves_list. apply (dump_list_places m [] ); [|exact Ed].
    pose proof (wf_items m Hwf) as Hc. rewrite Forall_forall in IH, Hc |- *. intros c' Hin Hl d' Ed'.
    exact (IH c' Hin (Hc c' Hin) Hl d' Ed').
Qed.

(* list gaps: a None crown is written as None *)
Theorem list_gaps_are_None : dump value omit default CNone = Some VNone.
Proof. reflexivity. Qed.
End Dumper.

(* ------------------------------------------------------------------------------------------------------------------ *)
(* extras of a mapping node whose children are all fields: forbid reports exactly the unknown keys, collect delivers
   exactly the unknown items under their original names, skip delivers nothing *)
Section Extras.
Variable info : finfos.

Definition flat (m : list (string * crown)) : Prop := Forall (fun kc => is_leaf (snd kc) = true) m.

Lemma dict_first_flat_extra md rec m p d : forall rest, flat rest ->
  forall f0 x0 f x, dict_first info md rec m p d rest f0 x0 = Go1 f x -> x = x0.
Proof.
  induction rest as [|[k sub] r IH]; intros Hf f0 x0 f x E; cbn [dict_first] in E.
  - injection E as _ <-. reflexivity.
  - inversion Hf as [|a b Hl Hr]; subst. cbn [snd] in Hl.
    destruct (dget d k) as [v| |]; [| |discriminate].
    + destruct sub as [i| |m'|m']; try discriminate.
      * destruct v; try discriminate. exact (IH Hr _ _ _ _ E).
      * exact (IH Hr _ _ _ _ E).
    + destruct sub as [i| |m'|m']; try discriminate. destruct (fi_required (info i)); [discriminate|]. exact (IH Hr _ _ _ _ E).
Qed.

Theorem collect_delivers_exactly_the_unknown_items : forall md m p d f0 f x,
  m <> [] -> flat m -> first info Collect md (CDict m) p d f0 = Go1 f x -> x = unknown_items m d.
Proof.
  intros md m p d f0 f x Hne Hf E. cbn [first] in E. destruct m as [|kc r]; [congruence|].
  destruct (dict_first info md (first info Collect md) (kc :: r) p d (kc :: r) f0 []) as [f' x'|e] eqn:Eg; [|discriminate].
  injection E as _ <-. rewrite (dict_first_flat_extra md _ _ _ _ _ Hf _ _ _ _ Eg). reflexivity.
Qed.

Theorem forbid_reports_exactly_the_unknown_keys : forall md m p d f0,
  (forall f x, first info Forbid md (CDict m) p d f0 = Go1 f x -> unknown_keys m d = [] /\ x = []) /\
  (forall ks t, first info Forbid md (CDict m) p d f0 = Stop (CrownSem.E (ExtraFields ks) t) ->
     flat m -> ks = unknown_keys m d /\ ks <> []).
Proof.
  intros md m p d f0. split.
  - intros f x Hx. cbn [first] in Hx.
    destruct (match m with [] => _ | _ => _ end) as [f' x'|e]; [|discriminate].
    destruct (unknown_keys m d); [injection Hx as _ <-; auto|discriminate].
  - intros ks t Hx Hf. cbn [first] in Hx.
    destruct (match m with [] => match d with VDict _ => Go1 f0 [] | _ => Stop (CrownSem.E TypeLE (trail_of md p)) end
                        | _ => dict_first info md (first info Forbid md) m p d m f0 [] end) as [f' x'|e] eqn:Eg.
    + destruct (unknown_keys m d) as [|k r]; [discriminate|]. injection Hx as <- _. split; [reflexivity|discriminate].
    + (* an error of a child: with only fields below, it is never an ExtraFields error *)
      exfalso. injection Hx as ->. destruct m as [|kc r]; [destruct d; discriminate|].
      assert (G : forall rest m0 f1 x1, flat rest ->
                    dict_first info md (first info Forbid md) m0 p d rest f1 x1 <> Stop (CrownSem.E (ExtraFields ks) t)).
      { clear. induction rest as [|[k sub] r' IH]; intros m0 f1 x1 Hf Hs; cbn [dict_first] in Hs; [discriminate|].
        inversion Hf as [|a b Hl Hr]; subst. cbn [snd] in Hl.
        destruct (dget d k) as [v| |]; [| |discriminate].
        - destruct sub as [i| |m'|m']; try discriminate.
          + destruct v; try discriminate; exact (IH _ _ _ Hr Hs).
          + exact (IH _ _ _ Hr Hs).
        - destruct sub as [i| |m'|m']; try discriminate. destruct (fi_required (info i)); [discriminate|]. exact (IH _ _ _ Hr Hs). }
      exact (G _ _ _ _ Hf Eg).
Qed.

Theorem skip_delivers_nothing : forall md c p d f0 f x, is_leaf c = false ->
  first info Skip md c p d f0 = Go1 f x -> x = [].
Proof.
  intros md c p d f0 f x Hb E. destruct c as [i| |m|m]; try discriminate; cbn [first] in E.
  - destruct (match m with [] => _ | _ => _ end); [injection E as _ <-; reflexivity|discriminate].
  - destruct d; try discriminate. destruct (list_first md (first info Skip md) (List.length m) p (VList l) m 0 f0); [|discriminate].
    destruct (Nat.ltb _ _); [discriminate|]. cbn in E. injection E as _ <-. reflexivity.
Qed.
End Extras.

(* ------------------------------------------------------------------------------------------------------------------ *)
(* the loader under DebugTrail.ALL: errors only accumulate, and when none was added every field was read from its path *)
Section LoaderAll.
Variable info : finfos.
Variable pol : policy.

Definition all_ok (c : crown) : Prop :=
  is_leaf c = false ->
  forall p d s s' x, all info pol c p d s = GoA s' x ->
    exists es, errs s' = errs s ++ es /\
               (es = [] -> exists vals, fields s' = fields s ++ vals /\ Forall2 (sourced info d) (leaves c) vals).

Lemma app_nil_inv {A} (a b : list A) : a ++ b = [] -> a = [] /\ b = [].
Proof. destruct a; cbn; [auto|discriminate]. Qed.

Lemma cons_app_not_nil {A} (e : A) (l : list A) : [e] ++ l <> [].
Proof. discriminate. Qed.

Lemma dict_all_reads m p d : forall rest,
  Forall (fun kc => all_ok (snd kc)) rest ->
  forall s x0 nf s' x, dict_all info (all info pol) m p d rest s x0 nf = GoA s' x ->
    exists es, errs s' = errs s ++ es /\
      (es = [] -> nf = false ->
       exists vals, fields s' = fields s ++ vals /\
                    Forall2 (sourced info d) (flat_map (fun kc => under (KS (fst kc)) (leaves (snd kc))) rest) vals).
Proof.
  induction rest as [|[k sub] r IH]; intros Hall s x0 nf s' x Hx; cbn [dict_all] in Hx.
  - injection Hx as <- _. exists []. split; [now rewrite app_nil_r|]. intros _ _. exists []. split; [now rewrite app_nil_r|constructor].
  - inversion Hall as [|a b Hsub Hr]; subst. cbn [flat_map fst snd].
    (* a step that adds an error: the conclusion about values is vacuous *)
    assert (Herr : forall e x1 nf1, dict_all info (all info pol) m p d r (add_err e s) x1 nf1 = GoA s' x ->
              exists es, errs s' = errs s ++ es /\
                (es = [] -> nf = false -> exists vals, fields s' = fields s ++ vals /\
                   Forall2 (sourced info d) (under (KS k) (leaves sub) ++ flat_map (fun kc => under (KS (fst kc)) (leaves (snd kc))) r) vals)).
    { intros e x1 nf1 Hr'. destruct (IH Hr _ _ _ _ _ Hr') as [es [He _]]. cbn [add_err errs] in He.
      exists ([e] ++ es). split; [now rewrite He, <- app_assoc|]. intro Hn. exfalso. exact (cons_app_not_nil e es Hn). }
    destruct (dget d k) as [v| |] eqn:Eg; [| |discriminate].
    + destruct sub as [i| |m'|m'].
      * destruct v; try (exact (Herr _ _ _ Hx)).
        destruct (IH Hr _ _ _ _ _ Hx) as [es [He Hv]]. exists es. split; [exact He|]. intros Hn Hnf.
        destruct (Hv Hn Hnf) as [vals [Hf HF]]. cbn [add_field fields] in Hf.
        exists ((i, n) :: vals). split; [now rewrite Hf, <- app_assoc|]. cbn [leaves under map app]. constructor; [|exact HF].
        split; [reflexivity|]. left. cbn [fst get_data]. unfold dget in Eg. destruct d; try discriminate.
        destruct (lookup (KS k) kvs); [|discriminate]. injection Eg as ->. reflexivity.
      * cbn [leaves under map app]. exact (IH Hr _ _ _ _ _ Hx).
      * destruct (all info pol (CDict m') (p ++ [KS k]) v s) as [s1 sx|] eqn:Es; [|exact (Herr _ _ _ Hx)].
        destruct (Hsub eq_refl _ _ _ _ _ Es) as [e1 [He1 Hv1]]. destruct (IH Hr _ _ _ _ _ Hx) as [e2 [He2 Hv2]].
        exists (e1 ++ e2). split; [now rewrite He2, He1, <- app_assoc|]. intros Hn Hnf. apply app_nil_inv in Hn. destruct Hn as [-> ->].
        destruct (Hv1 eq_refl) as [v1 [Hf1 HF1]]. destruct (Hv2 eq_refl Hnf) as [v2 [Hf2 HF2]].
        exists (v1 ++ v2). split; [now rewrite Hf2, Hf1, <- app_assoc|]. apply Forall2_app; [|exact HF2].
        exact (Forall2_under_key info d k v _ _ Eg HF1).
      * destruct (all info pol (CList m') (p ++ [KS k]) v s) as [s1 sx|] eqn:Es; [|exact (Herr _ _ _ Hx)].
        destruct (Hsub eq_refl _ _ _ _ _ Es) as [e1 [He1 Hv1]]. destruct (IH Hr _ _ _ _ _ Hx) as [e2 [He2 Hv2]].
        exists (e1 ++ e2). split; [now rewrite He2, He1, <- app_assoc|]. intros Hn Hnf. apply app_nil_inv in Hn. destruct Hn as [-> ->].
        destruct (Hv1 eq_refl) as [v1 [Hf1 HF1]]. destruct (Hv2 eq_refl Hnf) as [v2 [Hf2 HF2]].
        exists (v1 ++ v2). split; [now rewrite Hf2, Hf1, <- app_assoc|]. apply Forall2_app; [|exact HF2].
        exact (Forall2_under_key info d k v _ _ Eg HF1).
    + (* missing key *)
      assert (Hmiss : dict_all info (all info pol) m p d r
                        (if nf then s else add_err (CrownSem.E (NoReqFields (missing_required info m d)) p) s) x0 true = GoA s' x ->
                exists es, errs s' = errs s ++ es /\
                  (es = [] -> nf = false -> exists vals, fields s' = fields s ++ vals /\
                     Forall2 (sourced info d) (under (KS k) (leaves sub) ++ flat_map (fun kc => under (KS (fst kc)) (leaves (snd kc))) r) vals)).
      { destruct nf.
        - intro Hr'. destruct (IH Hr _ _ _ _ _ Hr') as [es [He _]]. exists es. split; [exact He|]. intros _ Hc. discriminate.
        - exact (Herr _ _ _). }
      destruct sub as [i| |m'|m']; try (exact (Hmiss Hx)).
      destruct (fi_required (info i)) eqn:Er; [exact (Hmiss Hx)|].
      destruct (IH Hr _ _ _ _ _ Hx) as [es [He Hv]]. exists es. split; [exact He|]. intros Hn Hnf.
      destruct (Hv Hn Hnf) as [vals [Hf HF]]. cbn [add_field fields] in Hf.
      exists ((i, fi_default (info i)) :: vals). split; [now rewrite Hf, <- app_assoc|]. cbn [leaves under map app].
      constructor; [|exact HF]. split; [reflexivity|]. right. cbn [fst snd]. split; [exact Er|]. split; [reflexivity|].
      cbn [get_data]. unfold dget in Eg. destruct d; try discriminate. destruct (lookup (KS k) kvs); [discriminate|reflexivity].
Qed.

Lemma list_all_reads p d : forall rest,
  Forall all_ok rest ->
  forall i s s' x, list_all (all info pol) p d rest i s = GoA s' x ->
    exists es, errs s' = errs s ++ es /\
      (es = [] -> (forall j, i <= j < i + List.length rest -> nth_error rest (j - i) <> Some CNone -> lget d j <> Missing) ->
       exists vals, fields s' = fields s ++ vals /\ Forall2 (sourced info d) (leaves_from rest i) vals).
Proof.
  induction rest as [|sub r IH]; intros Hall i s s' x Hx; cbn [list_all] in Hx.
  - injection Hx as <- _. exists []. split; [now rewrite app_nil_r|]. intros _ _. exists []. split; [now rewrite app_nil_r|constructor].
  - inversion Hall as [|a b Hsub Hr]; subst. cbn [leaves_from].
    assert (Hshift : forall (P : nat -> Prop), (forall j, i <= j < i + List.length (sub :: r) -> nth_error (sub :: r) (j - i) <> Some CNone -> P j) ->
              forall j, Datatypes.S i <= j < Datatypes.S i + List.length r -> nth_error r (j - Datatypes.S i) <> Some CNone -> P j).
    { intros P H j Hj Hn. apply H; [cbn [List.length]; lia|]. replace (j - i) with (Datatypes.S (j - Datatypes.S i)) by lia. exact Hn. }
    assert (Herr : forall e, list_all (all info pol) p d r (Datatypes.S i) (add_err e s) = GoA s' x ->
              exists es, errs s' = errs s ++ es /\
                (es = [] -> (forall j, i <= j < i + List.length (sub :: r) -> nth_error (sub :: r) (j - i) <> Some CNone -> lget d j <> Missing) ->
                 exists vals, fields s' = fields s ++ vals /\ Forall2 (sourced info d) (under (KI i) (leaves sub) ++ leaves_from r (Datatypes.S i)) vals)).
    { intros e Hr'. destruct (IH Hr _ _ _ _ Hr') as [es [He _]]. cbn [add_err errs] in He.
      exists ([e] ++ es). split; [now rewrite He, <- app_assoc|]. intro Hn. exfalso. exact (cons_app_not_nil e es Hn). }
    destruct sub as [id| |m'|m'].
    + destruct (lget d i) as [v| |] eqn:Eg; [| |discriminate].
      * destruct v; try (exact (Herr _ Hx)).
        destruct (IH Hr _ _ _ _ Hx) as [es [He Hv]]. exists es. split; [exact He|]. intros Hn Hpres.
        destruct (Hv Hn (Hshift _ Hpres)) as [vals [Hf HF]]. cbn [add_field fields] in Hf.
        exists ((id, n) :: vals). split; [now rewrite Hf, <- app_assoc|]. cbn [leaves under map app]. constructor; [|exact HF].
        split; [reflexivity|]. left. cbn [fst get_data]. unfold lget in Eg. destruct d; try discriminate.
        destruct (nth_error l i); [|discriminate]. injection Eg as ->. reflexivity.
      * (* a missing item is reported by the length check: excluded by the premise *)
        destruct (IH Hr _ _ _ _ Hx) as [es [He Hv]]. exists es. split; [exact He|]. intros Hn Hpres. exfalso.
        apply (Hpres i); [cbn [List.length]; lia| |exact Eg]. rewrite Nat.sub_diag. cbn. discriminate.
    + cbn [leaves under map app]. destruct (IH Hr _ _ _ _ Hx) as [es [He Hv]]. exists es. split; [exact He|]. intros Hn Hpres.
      exact (Hv Hn (Hshift _ Hpres)).
    + destruct (lget d i) as [v| |] eqn:Eg; [| |discriminate].
      * destruct (all info pol (CDict m') (p ++ [KI i]) v s) as [s1 sx|] eqn:Es; [|exact (Herr _ Hx)].
        destruct (Hsub eq_refl _ _ _ _ _ Es) as [e1 [He1 Hv1]]. destruct (IH Hr _ _ _ _ Hx) as [e2 [He2 Hv2]].
        exists (e1 ++ e2). split; [now rewrite He2, He1, <- app_assoc|]. intros Hn Hpres. apply app_nil_inv in Hn. destruct Hn as [-> ->].
        destruct (Hv1 eq_refl) as [v1 [Hf1 HF1]]. destruct (Hv2 eq_refl (Hshift _ Hpres)) as [v2 [Hf2 HF2]].
        exists (v1 ++ v2). split; [now rewrite Hf2, Hf1, <- app_assoc|]. apply Forall2_app; [|exact HF2].
        exact (Forall2_under_index info d i v _ _ Eg HF1).
      * destruct (IH Hr _ _ _ _ Hx) as [es [He Hv]]. exists es. split; [exact He|]. intros Hn Hpres. exfalso.
        apply (Hpres i); [cbn [List.length]; lia| |exact Eg]. rewrite Nat.sub_diag. cbn. discriminate.
    + destruct (lget d i) as [v| |] eqn:Eg; [| |discriminate].
      * destruct (all info pol (CList m') (p ++ [KI i]) v s) as [s1 sx|] eqn:Es; [|exact (Herr _ Hx)].
        destruct (Hsub eq_refl _ _ _ _ _ Es) as [e1 [He1 Hv1]]. destruct (IH Hr _ _ _ _ Hx) as [e2 [He2 Hv2]].
        exists (e1 ++ e2). split; [now rewrite He2, He1, <- app_assoc|]. intros Hn Hpres. apply app_nil_inv in Hn. destruct Hn as [-> ->].
        destruct (Hv1 eq_refl) as [v1 [Hf1 HF1]]. destruct (Hv2 eq_refl (Hshift _ Hpres)) as [v2 [Hf2 HF2]].
        exists (v1 ++ v2). split; [now rewrite Hf2, Hf1, <- app_assoc|]. apply Forall2_app; [|exact HF2].
        exact (Forall2_under_index info d i v _ _ Eg HF1).
      * destruct (IH Hr _ _ _ _ Hx) as [es [He Hv]]. exists es. split; [exact He|]. intros Hn Hpres. exfalso.
        apply (Hpres i); [cbn [List.length]; lia| |exact Eg]. rewrite Nat.sub_diag. cbn. discriminate.
Qed.

Lemma lget_in_range l j : j < List.length l -> lget (VList l) j <> Missing.
Proof.
  intro H. unfold lget. destruct (nth_error l j) eqn:E; [discriminate|]. apply nth_error_None in E. lia.
Qed.

Theorem loader_all_reads_exact_paths : forall c, all_ok c.
Proof.
  induction c as [i| |m IH|m IH] using crown_ind'; unfold all_ok; intros Hb p d s s' x Hx; try discriminate; cbn [all] in Hx.
  - (* mapping node *)
    destruct (match m with [] => (match d with VDict _ => GoA s [] | _ => BadA end)
                         | _ => dict_all info (all info pol) m p d m s [] false end) as [s1 x1|] eqn:Eg; [|discriminate].
    assert (Hinner : exists es, errs s1 = errs s ++ es /\
               (es = [] -> exists vals, fields s1 = fields s ++ vals /\ Forall2 (sourced info d) (leaves (CDict m)) vals)).
    { destruct m as [|kc r].
      - destruct d; try discriminate. injection Eg as <- _. exists []. split; [now rewrite app_nil_r|]. intros _. exists [].
        split; [now rewrite app_nil_r|constructor].
      - destruct (dict_all_reads (kc :: r) p d (kc :: r) IH s [] false s1 x1 Eg) as [es [He Hv]].
        exists es. split; [exact He|]. intro Hn. exact (Hv Hn eq_refl). }
    destruct Hinner as [es [He Hv]].
    destruct pol.
    + injection Hx as <- _. exists es. split; [exact He|exact Hv].
    + destruct (unknown_keys m d) as [|k ks].
      * injection Hx as <- _. exists es. split; [exact He|exact Hv].
      * injection Hx as <- _. cbn [add_err errs fields]. exists (es ++ [CrownSem.E (ExtraFields (k :: ks)) p]).
        split; [now rewrite He, <- app_assoc|]. intro Hn. apply app_nil_inv in Hn. destruct Hn as [_ Hn]. discriminate.
    + injection Hx as <- _. exists es. split; [exact He|exact Hv].
  - (* list node *)
    destruct d; try discriminate.
    destruct (list_all (all info pol) p (VList l) m 0 s) as [s1 x1|] eqn:Eg; [|discriminate].
    destruct (list_all_reads p (VList l) m IH 0 s s1 x1 Eg) as [es [He Hv]].
    destruct (Nat.ltb (data_len (VList l)) (List.length m)) eqn:Elen.
    + injection Hx as <- _. cbn [add_err errs]. exists (es ++ [CrownSem.E (NoReqItems (List.length m)) p]).
      split; [now rewrite He, <- app_assoc|]. intro Hn. apply app_nil_inv in Hn. destruct Hn as [_ Hn]. discriminate.
    + apply Nat.ltb_ge in Elen. cbn [data_len] in Elen.
      assert (Hpres : forall j, 0 <= j < 0 + List.length m -> nth_error m (j - 0) <> Some CNone -> lget (VList l) j <> Missing)
        by (intros j Hj _; apply lget_in_range; lia).
      destruct (is_forbid pol && Nat.ltb (List.length m) (data_len (VList l))).
      * injection Hx as <- _. cbn [add_err errs]. exists (es ++ [CrownSem.E (ExtraItems (List.length m)) p]).
        split; [now rewrite He, <- app_assoc|]. intro Hn. apply app_nil_inv in Hn. destruct Hn as [_ Hn]. discriminate.
      * injection Hx as <- _. exists es. split; [exact He|]. intro Hn. destruct (Hv Hn Hpres) as [vals [Hf HF]].
        exists vals. split; [exact Hf|]. rewrite leaves_list. exact HF.
Qed.

(* the statement in terms of [load]: under ALL a successful load read every field from its path and nothing else *)
Corollary load_all_reads_exact_paths : forall c d fs x, is_leaf c = false ->
  load info pol All c d = Loaded fs x -> Forall2 (sourced info d) (leaves c) fs.
Proof.
  intros c d fs x Hb H. unfold load in H.
  destruct (all info pol c [] d {| fields := []; errs := [] |}) as [s' x'|] eqn:E; [|discriminate].
  destruct (errs s') eqn:Ee; [|discriminate]. injection H as <- _.
  destruct (loader_all_reads_exact_paths c Hb _ _ _ _ _ E) as [es [He Hv]]. cbn [errs fields] in He, Hv.
  rewrite Ee in He. cbn in He. subst es. destruct (Hv eq_refl) as [vals [Hf HF]]. cbn in Hf. now rewrite Hf.
Qed.
End LoaderAll.

(* the same statement for every debug mode, in terms of [load] *)
Theorem load_reads_exact_paths : forall info pol md c d fs x, is_leaf c = false ->
  load info pol md c d = Loaded fs x -> Forall2 (sourced info d) (leaves c) fs.
Proof.
  intros info pol md c d fs x Hb H. destruct md; [| |exact (load_all_reads_exact_paths info pol c d fs x Hb H)].
  - unfold load in H. destruct (first info pol Disable c [] d []) as [f x'|e] eqn:E; [|discriminate]. injection H as <- _.
    destruct (loader_reads_exact_paths info pol Disable c Hb _ _ _ _ _ E) as [vals [-> HF]]. exact HF.
  - unfold load in H. destruct (first info pol First c [] d []) as [f x'|e] eqn:E; [|discriminate]. injection H as <- _.
    destruct (loader_reads_exact_paths info pol First c Hb _ _ _ _ _ E) as [vals [-> HF]]. exact HF.
Qed.

(* ------------------------------------------------------------------------------------------------------------------ *)
(* round trip through a crown: loading what the dumper wrote gives back every field - in DISABLE and FIRST mode, under
   every extra policy, with omit_default in force *)
Section RoundTrip.
Variable info : finfos.
Variable pol : policy.
Variable val : nat -> nat.                    (* the object: field -> value *)
Variable omit : nat -> bool.
Variable default : nat -> nat.
(* a sieve exists only for an optional field, and it compares with the default the loader would supply *)
Hypothesis omit_ok : forall i, omit i = true -> fi_required (info i) = false /\ fi_default (info i) = default i.

Notation value := (fun i => Some (val i)).
Notation dumpc := (dump value omit default).
Notation om := (omitted value omit default).

Definition expected (c : crown) : list (nat * nat) := map (fun qi => (snd qi, val (snd qi))) (leaves c).

Lemma expected_under k l : map (fun qi : path * nat => (snd qi, val (snd qi))) (under k l) = map (fun qi => (snd qi, val (snd qi))) l.
Proof. unfold under. rewrite map_map. reflexivity. Qed.

Lemma dump_total : forall c, exists d, dumpc c = Some d.
Proof.
  induction c as [i| |m IH|m IH] using crown_ind'; cbn [dump]; try (eexists; reflexivity).
  - assert (H : exists kvs, dump_dict value omit default dumpc m = Some kvs).
    { induction IH as [|[k sub] r Hsub _ IHr]; [eexists; reflexivity|]. destruct IHr as [t Ht]. cbn [dump_dict]. rewrite Ht.
      cbn [snd] in Hsub. destruct Hsub as [v Hv]. destruct sub as [i| |m'|m'].
      - destruct (om i); eexists; reflexivity.
      - rewrite Hv. eexists; reflexivity.
      - rewrite Hv. eexists; reflexivity.
      - rewrite Hv. eexists; reflexivity. }
    destruct H as [kvs ->]. eexists; reflexivity.
  - assert (H : exists vs, dump_list dumpc m = Some vs).
    { induction IH as [|sub r [v Hv] _ [t Ht]]; [eexists; reflexivity|]. cbn [dump_list]. rewrite Hv, Ht. eexists; reflexivity. }
    destruct H as [vs ->]. eexists; reflexivity.
Qed.

(* what is found under each key of a dumped mapping node *)
Lemma dump_dict_lookup : forall m kvs, NoDup (map fst m) -> dump_dict value omit default dumpc m = Some kvs ->
  forall k sub, In (k, sub) m ->
    lookup (KS k) kvs = match sub with
                        | CField i => if om i then None else Some (VInt (val i))
                        | _ => dumpc sub
                        end.
Proof.
  induction m as [|[k0 sub0] r IH]; intros kvs Hnd E k sub Hin; [destruct Hin|].
  cbn [map fst] in Hnd. inversion Hnd as [|a b Hk Hr]; subst. cbn [dump_dict] in E.
  destruct (dump_dict value omit default dumpc r) as [t|] eqn:Er; [|destruct sub0; discriminate].
  assert (Hfresh : lookup (KS k0) t = None).
  { destruct (lookup (KS k0) t) as [w|] eqn:El; [|reflexivity]. exfalso. apply Hk.
    exact (dump_dict_keys value omit default r t Er k0 (lookup_KS_in k0 t w El)). }
  destruct Hin as [Hin|Hin].
  - injection Hin as <- <-. destruct sub0 as [i| |m'|m'].
    + destruct (om i); injection E as <-; [exact Hfresh|]. cbn [lookup key_eqb]. now rewrite String.eqb_refl.
    + cbn [dump] in E |- *. injection E as <-. cbn [lookup key_eqb]. now rewrite String.eqb_refl.
    + destruct (dumpc (CDict m')) as [v|]; [|discriminate]. injection E as <-. cbn [lookup key_eqb]. now rewrite String.eqb_refl.
    + destruct (dumpc (CList m')) as [v|]; [|discriminate]. injection E as <-. cbn [lookup key_eqb]. now rewrite String.eqb_refl.
  - assert (Hne : k <> k0) by (intro; subst; apply Hk; apply in_map_iff; exists (k0, sub); auto).
    rewrite <- (IH t Hr eq_refl k sub Hin).
    destruct sub0 as [i| |m'|m'].
    + destruct (om i); injection E as <-; [reflexivity|]. exact (lookup_cons_other k k0 _ t Hne).
    + cbn [dump] in E. injection E as <-. exact (lookup_cons_other k k0 _ t Hne).
    + destruct (dumpc (CDict m')) as [v|]; [|discriminate]. injection E as <-. exact (lookup_cons_other k k0 _ t Hne).
    + destruct (dumpc (CList m')) as [v|]; [|discriminate]. injection E as <-. exact (lookup_cons_other k k0 _ t Hne).
Qed.

Lemma dumped_has_no_unknown_keys m kvs : dump_dict value omit default dumpc m = Some kvs -> unknown_items m (VDict kvs) = [].
Proof.
  intro E. unfold unknown_items.
  assert (H : forall kv, In kv kvs -> known m (fst kv) = true).
  { intros [k v] Hin. cbn [fst].
    assert (Hk : exists s, k = KS s).
    { clear -E Hin. revert kvs E Hin. induction m as [|[k0 sub0] r IH]; intros kvs E Hin; cbn [dump_dict] in E.
      - injection E as <-. destruct Hin.
      - destruct (dump_dict value omit default dumpc r) as [t|] eqn:Er; [|destruct sub0; discriminate].
        assert (Hc : kvs = t \/ exists w, kvs = (KS k0, w) :: t).
        { destruct sub0 as [i| |m'|m'].
          - destruct (om i); injection E as <-; [left; reflexivity|right; eexists; reflexivity].
          - destruct (dumpc CNone); [injection E as <-; right; eexists; reflexivity|discriminate].
          - destruct (dumpc (CDict m')); [injection E as <-; right; eexists; reflexivity|discriminate].
          - destruct (dumpc (CList m')); [injection E as <-; right; eexists; reflexivity|discriminate]. }
        destruct Hc as [->|[w ->]]; [exact (IH t eq_refl Hin)|]. destruct Hin as [Hin|Hin]; [injection Hin as <- _; eexists; reflexivity|exact (IH t eq_refl Hin)]. }
    destruct Hk as [s ->]. unfold known. apply existsb_exists.
    assert (Hs : In s (map fst m)).
    { apply (dump_dict_keys value omit default m kvs E s). change (KS s) with (fst (KS s, v)). apply in_map. exact Hin. }
    apply in_map_iff in Hs. destruct Hs as [[k' c'] [Hk' Hin']]. cbn [fst] in Hk'. subst. exists (s, c'). split; [exact Hin'|].
    cbn [key_eqb fst]. apply String.eqb_refl. }
  clear E. induction kvs as [|kv r IHr]; [reflexivity|]. cbn [filter]. rewrite (H kv (or_introl eq_refl)). cbn [negb].
  apply IHr. intros kv' Hin. apply H. right. exact Hin.
Qed.

Lemma map_flat_map_comm {A B C} (g : B -> C) (h : A -> list B) (l : list A) :
  map g (flat_map h l) = flat_map (fun x => map g (h x)) l.
Proof. induction l as [|a r IH]; [reflexivity|]. cbn [flat_map]. now rewrite map_app, IH. Qed.

Definition rt_ok (md : mode) (c : crown) : Prop :=
  wf c -> is_leaf c = false -> forall d, dumpc c = Some d -> forall p f0,
    first info pol md c p d f0 = Go1 (f0 ++ expected c) [].

Lemma om_value i : om i = true -> fi_required (info i) = false /\ fi_default (info i) = val i.
Proof.
  unfold omitted. intro H. apply andb_true_iff in H. destruct H as [H1 H2]. apply Nat.eqb_eq in H2.
  destruct (omit_ok i H1) as [Hr Hd]. split; [exact Hr|congruence].
Qed.

Lemma dict_first_roundtrip md m kvs p : NoDup (map fst m) -> dump_dict value omit default dumpc m = Some kvs ->
  forall rest, (forall kc, In kc rest -> In kc m) ->
  Forall (fun kc => wf (snd kc)) rest -> Forall (fun kc => rt_ok md (snd kc)) rest ->
  forall f x, dict_first info md (first info pol md) m p (VDict kvs) rest f x =
              Go1 (f ++ flat_map (fun kc => map (fun qi => (snd qi, val (snd qi))) (under (KS (fst kc)) (leaves (snd kc)))) rest) x.
Proof.
  intros Hnd Ed. induction rest as [|[k sub] r IH]; intros Hin Hwf Hrt f x; cbn [dict_first flat_map].
  - now rewrite app_nil_r.
  - inversion Hwf as [|a b Hw Hwr]; subst. inversion Hrt as [|a b Hs Hsr]; subst. cbn [fst snd] in *.
    assert (Hr : forall kc, In kc r -> In kc m) by (intros kc H; apply Hin; right; exact H).
    pose proof (dump_dict_lookup m kvs Hnd Ed k sub (Hin _ (or_introl eq_refl))) as Hl.
    unfold dget. rewrite expected_under. destruct sub as [i| |m'|m'].
    + destruct (om i) eqn:Eo; rewrite Hl.
      * destruct (om_value i Eo) as [Hreq Hdef]. rewrite Hreq, Hdef. rewrite (IH Hr Hwr Hsr). cbn [leaves map snd]. now rewrite <- app_assoc.
      * rewrite (IH Hr Hwr Hsr). cbn [leaves map snd]. now rewrite <- app_assoc.
    + rewrite Hl. cbn [dump leaves map]. exact (IH Hr Hwr Hsr f x).
    + destruct (dump_total (CDict m')) as [v Hv]. rewrite Hl, Hv. rewrite (Hs Hw eq_refl v Hv). cbn [add_sub_extra].
      rewrite (IH Hr Hwr Hsr). unfold expected. now rewrite <- app_assoc.
    + destruct (dump_total (CList m')) as [v Hv]. rewrite Hl, Hv. rewrite (Hs Hw eq_refl v Hv). cbn [add_sub_extra].
      rewrite (IH Hr Hwr Hsr). unfold expected. now rewrite <- app_assoc.
Qed.

Lemma dump_list_forall2 : forall m vs, dump_list dumpc m = Some vs -> Forall2 (fun sub v => dumpc sub = Some v) m vs.
Proof.
  induction m as [|sub r IH]; intros vs E; cbn [dump_list] in E; [injection E as <-; constructor|].
  destruct (dumpc sub) as [v|] eqn:Ev; [|discriminate]. destruct (dump_list dumpc r) as [t|] eqn:Er; [|discriminate].
  injection E as <-. constructor; [exact Ev|exact (IH t eq_refl)].
Qed.

Lemma list_first_roundtrip md n p : forall rest pre vs,
  Forall2 (fun sub v => dumpc sub = Some v) rest vs ->
  Forall wf rest -> Forall (rt_ok md) rest ->
  forall f, list_first md (first info pol md) n p (VList (pre ++ vs)) rest (List.length pre) f =
            Go1 (f ++ map (fun qi => (snd qi, val (snd qi))) (leaves_from rest (List.length pre))) [].
Proof.
  induction rest as [|sub r IH]; intros pre vs HF Hwf Hrt f; cbn [list_first leaves_from].
  - now rewrite app_nil_r.
  - inversion HF as [|a v b t Hd Ht]; subst. inversion Hwf as [|a b Hw Hwr]; subst. inversion Hrt as [|a b Hs Hsr]; subst.
    assert (Hnext : forall f', list_first md (first info pol md) n p (VList (pre ++ v :: t)) r (Datatypes.S (List.length pre)) f' =
                       Go1 (f' ++ map (fun qi => (snd qi, val (snd qi))) (leaves_from r (Datatypes.S (List.length pre)))) []).
    { intro f'. specialize (IH (pre ++ [v]) t Ht Hwr Hsr f'). rewrite <- app_assoc in IH. cbn [app] in IH.
      rewrite app_length in IH. cbn [List.length] in IH. rewrite Nat.add_1_r in IH. exact IH. }
    assert (Hget : lget (VList (pre ++ v :: t)) (List.length pre) = Found v).
    { unfold lget. rewrite nth_error_app2 by lia. rewrite Nat.sub_diag. reflexivity. }
    rewrite map_app, expected_under. destruct sub as [id| |m'|m'].
    + rewrite Hget. cbn [dump option_map] in Hd. injection Hd as <-. rewrite Hnext. cbn [leaves map snd]. now rewrite <- app_assoc.
    + cbn [leaves map app]. exact (Hnext f).
    + rewrite Hget. rewrite (Hs Hw eq_refl v Hd). rewrite Hnext. unfold expected. now rewrite <- app_assoc.
    + rewrite Hget. rewrite (Hs Hw eq_refl v Hd). rewrite Hnext. unfold expected. now rewrite <- app_assoc.
Qed.

Lemma forall2_length {A B} (R : A -> B -> Prop) l l' : Forall2 R l l' -> List.length l = List.length l'.
Proof. induction 1; cbn; congruence. Qed.

Theorem crown_roundtrip : forall md c, rt_ok md c.
Proof.
  intros md. induction c as [i| |m IH|m IH] using crown_ind'; unfold rt_ok; intros Hwf Hb d Ed p f0; try discriminate;
    cbn [dump] in Ed; cbn [first].
  - destruct (dump_dict value omit default dumpc m) as [kvs|] eqn:Ek; [|discriminate]. injection Ed as <-.
    assert (Hloop : (match m with [] => Go1 f0 [] | _ => dict_first info md (first info pol md) m p (VDict kvs) m f0 [] end)
                    = Go1 (f0 ++ expected (CDict m)) []).
    { destruct m as [|kc r]; [unfold expected; cbn; now rewrite app_nil_r|].
      rewrite (dict_first_roundtrip md (kc :: r) kvs p (proj1 Hwf) Ek (kc :: r) (fun _ H => H) (wf_children _ Hwf) IH).
      unfold expected. cbn [leaves]. rewrite map_flat_map_comm. reflexivity. }
    destruct m as [|kc r].
    + cbn in Ek. injection Ek as <-. unfold unknown_keys, unknown_items. cbn. unfold expected. cbn. rewrite app_nil_r. destruct pol; reflexivity.
    + rewrite Hloop. unfold unknown_keys. rewrite (dumped_has_no_unknown_keys (kc :: r) kvs Ek). cbn. destruct pol; reflexivity.
  - destruct (dump_list dumpc m) as [vs|] eqn:Ev; [|discriminate]. injection Ed as <-.
    pose proof (dump_list_forall2 m vs Ev) as HF.
    pose proof (list_first_roundtrip md (List.length m) p m [] vs HF (wf_items _ Hwf) IH f0) as Hl. cbn [app List.length] in Hl.
    rewrite Hl. cbn [data_len]. rewrite <- (forall2_length _ _ _ HF). rewrite Nat.ltb_irrefl. rewrite andb_false_r.
    unfold expected. now rewrite leaves_list.
Qed.

(* in terms of [load]: for DISABLE and FIRST, load (dump obj) gives back the value of every field and no extras *)
Corollary load_dump_roundtrip : forall md c d, md <> All -> wf c -> is_leaf c = false -> dumpc c = Some d ->
  load info pol md c d = Loaded (expected c) [].
Proof.
  intros md c d Hmd Hwf Hb Ed. unfold load. destruct md; [| |congruence]; rewrite (crown_roundtrip _ c Hwf Hb d Ed [] []); reflexivity.
Qed.
End RoundTrip.
