(* C05 on Model/Load.v: following the trail of every reported error from the root of the input reaches the value the
   error reports as its input (FIRST and ALL); under DISABLE no error carries a trail. *)
From Coq Require Import List ZArith Bool String Ascii Lia.
From AV Require Import Model.Harness Model.Val Model.Load Proofs.LoadProofs.
Import ListNotations.

(* ---------------- walking a trail ---------------- *)
Fixpoint assoc_veq (k : pv) (kvs : list (pv * pv)) : option pv :=
  match kvs with [] => None | (k', v) :: r => if veq k k' then Some v else assoc_veq k r end.

Definition step_into (sc : bool) (v : pv) (t : telem) : option pv :=
  match t with
  | Idx n => match iter_view sc v with Items l => nth_error l n | _ => None end
  | Key k => match v with VDict kvs => assoc_veq k kvs | _ => None end
  | ItemKey k => match v with VDict kvs => if existsb (fun kv => veq k (fst kv)) kvs then Some k else None | _ => None end
  end.
Fixpoint follow (sc : bool) (v : pv) (tr : list telem) : option pv :=
  match tr with
  | [] => Some v
  | t :: r => match step_into sc v t with Some v' => follow sc v' r | None => None end
  end.

(* the reported input is the value at the end of the trail - for the two length errors of fixed tuples it is the
   tuple() copy the loader made of that value *)
Definition reaches (sc : bool) (root : pv) (tr : list telem) (inp : pv) : Prop :=
  exists w, follow sc root tr = Some w /\ (w = inp \/ exists l, iter_view sc w = Items l /\ inp = VTuple l).

(* leaves of an error tree with their trails made absolute *)
Fixpoint leaves (e : err) : list (list telem * ecls * option pv) :=
  match e with
  | LE c tr inp subs =>
      match subs with
      | [] => [(tr, c, inp)]
      | _ => map (fun l => (tr ++ fst (fst l), snd (fst l), snd l))
                 ((fix go (l : list err) : list (list telem * ecls * option pv) :=
                     match l with [] => [] | x :: r => leaves x ++ go r end) subs)
      end
  end.
Definition leaves_list (l : list err) : list (list telem * ecls * option pv) := flat_map leaves l.

Lemma leaves_go_is_list (l : list err) :
  (fix go (l : list err) : list (list telem * ecls * option pv) :=
     match l with [] => [] | x :: r => leaves x ++ go r end) l = leaves_list l.
Proof. unfold leaves_list. induction l as [|x l IH]; simpl; auto; try (now rewrite IH). Qed.

Lemma leaves_unfold c tr inp subs :
  leaves (LE c tr inp subs) =
  match subs with [] => [(tr, c, inp)]
  | _ => map (fun l => (tr ++ fst (fst l), snd (fst l), snd l)) (leaves_list subs) end.
Proof.
  destruct subs as [|s r]; [reflexivity|].
  change (leaves (LE c tr inp (s :: r))) with
    (map (fun l => (tr ++ fst (fst l), snd (fst l), snd l))
       ((fix go (l : list err) : list (list telem * ecls * option pv) :=
           match l with [] => [] | x :: r => leaves x ++ go r end) (s :: r))).
  now rewrite leaves_go_is_list.
Qed.

Definition ok_leaf (sc : bool) (root : pv) (l : list telem * ecls * option pv) : Prop :=
  match snd l with Some i => reaches sc root (fst (fst l)) i | None => True end.
Definition localised (sc : bool) (root : pv) (e : err) : Prop := Forall (ok_leaf sc root) (leaves e).

(* well-formed input data: the keys of every dict are pairwise different (as a real dict guarantees) *)
Fixpoint keys_distinct (kvs : list (pv * pv)) : Prop :=
  match kvs with [] => True | (k, _) :: r => existsb (fun kv => veq (fst kv) k) r = false /\ keys_distinct r end.

Lemma veq_refl : forall v, veq v v = true.
Proof.
  fix IH 1. intro v. destruct v; simpl; auto using Bool.eqb_reflx, Z.eqb_refl, String.eqb_refl, Nat.eqb_refl.
  1-4,6: (induction l as [|x l IHl]; simpl; auto; rewrite IH; simpl; exact IHl).
  induction kvs as [|[a b] l IHl]; simpl; auto. rewrite !IH. simpl. exact IHl.
Qed.

Lemma assoc_veq_here k v r : assoc_veq k ((k, v) :: r) = Some v.
Proof. simpl. now rewrite veq_refl. Qed.

(* ---------------- shifting the root ---------------- *)
Lemma leaves_push md t e : md <> Disable ->
  leaves (push md t e) = map (fun l => (t :: fst (fst l), snd (fst l), snd l)) (leaves e).
Proof.
  intro H. destruct e as [c tr inp subs]. destruct md; [contradiction| |]; cbn [push];
    rewrite !leaves_unfold; destruct subs; simpl; auto; rewrite map_map; apply map_ext; intros [[a b] c']; reflexivity.
Qed.

Lemma localised_push sc md root t x e :
  md <> Disable -> step_into sc root t = Some x -> localised sc x e -> localised sc root (push md t e).
Proof.
  intros Hm Hs He. unfold localised in *. rewrite (leaves_push md t e Hm), Forall_map.
  eapply Forall_impl; [|exact He]. intros [[tr c] [i|]] H; unfold ok_leaf in *; simpl in *; auto.
  unfold reaches in *. destruct H as (w & Hf & Hw). exists w. split; auto. cbn [follow]. now rewrite Hs.
Qed.

Lemma localised_group sc root c subs :
  Forall (localised sc root) subs -> localised sc root (LE c [] None subs).
Proof.
  intros H. unfold localised. rewrite leaves_unfold. destruct subs as [|s r]; [constructor; [exact I|constructor]|].
  rewrite Forall_map. unfold leaves_list. apply Forall_flat_map.
  eapply Forall_impl; [|exact H]. intros e He. eapply Forall_impl; [|exact He].
  intros [[tr c'] i]; auto.
Qed.

Lemma localised_leaf sc c v : localised sc v (LE c [] (Some v) []).
Proof. constructor; [|constructor]. exists v. split; [reflexivity | left; reflexivity]. Qed.
Lemma localised_leaf_copy sc root c l : iter_view sc root = Items l -> localised sc root (LE c [] (Some (VTuple l)) []).
Proof. intro H. constructor; [|constructor]. exists root. split; [reflexivity | right; eauto]. Qed.
Lemma localised_plain sc root c : localised sc root (LE c [] None []).
Proof. constructor; [exact I | constructor]. Qed.

(* ---------------- where the errors of the loops come from ---------------- *)
Section Loops.
Variable f : pv -> res.

Lemma map_first_err l : forall i e, map_first f i l = A1Err e ->
  exists j x e0, nth_error l j = Some x /\ f x = Err e0 /\ e = push First (Idx (i + j)) e0.
Proof.
  induction l as [|x r IH]; intros i e; simpl; [discriminate|].
  destruct (f x) as [a|e0|k] eqn:F; try discriminate.
  - destruct (map_first f (S i) r) as [b|e'|k] eqn:M; try discriminate. intro H; inversion H; subst.
    destruct (IH _ _ M) as (j & y & e0 & N & Fy & ->). exists (S j), y, e0. repeat split; auto. replace (S i + j) with (i + S j) by lia. reflexivity.
  - intro H; inversion H; subst. exists 0, x, e0. repeat split; auto. now rewrite Nat.add_0_r.
Qed.

Lemma map_all_errs l : forall i vs es u, map_all f i l = (vs, es, u) ->
  Forall (fun e => exists j x e0, nth_error l j = Some x /\ f x = Err e0 /\ e = push All (Idx (i + j)) e0) es.
Proof.
  induction l as [|x r IH]; intros i vs es u; simpl.
  - intro H; inversion H; constructor.
  - destruct (map_all f (S i) r) as [[vs' es'] u'] eqn:M. specialize (IH _ _ _ _ M).
    assert (SH : Forall (fun e => exists j y e0, nth_error (x :: r) j = Some y /\ f y = Err e0 /\ e = push All (Idx (i + j)) e0) es').
    { eapply Forall_impl; [|exact IH]. intros e (j & y & e0 & N & Fy & ->). exists (S j), y, e0.
      repeat split; auto. replace (S i + j) with (i + S j) by lia. reflexivity. }
    destruct (f x) as [a|e0|k] eqn:F; intro H; inversion H; subst; auto.
    constructor; auto. exists 0, x, e0. repeat split; auto. now rewrite Nat.add_0_r.
Qed.
End Loops.

Lemma zip_first_err fs l : forall i e, zip_first i fs l = A1Err e ->
  exists j x g e0, nth_error l j = Some x /\ nth_error fs j = Some g /\ g x = Err e0 /\ e = push First (Idx (i + j)) e0.
Proof.
  revert l. induction fs as [|g fr IH]; intros [|x r] i e; simpl; try discriminate.
  destruct (g x) as [a|e0|k] eqn:F; try discriminate.
  - destruct (zip_first (S i) fr r) as [b|e'|k] eqn:M; try discriminate. intro H; inversion H; subst.
    destruct (IH _ _ _ M) as (j & y & g' & e0 & N & G & Fy & ->). exists (S j), y, g', e0.
    repeat split; auto. replace (S i + j) with (i + S j) by lia. reflexivity.
  - intro H; inversion H; subst. exists 0, x, g, e0. repeat split; auto. now rewrite Nat.add_0_r.
Qed.

Lemma zip_all_errs fs l : forall i vs es u, zip_all i fs l = (vs, es, u) ->
  Forall (fun e => exists j x g e0, nth_error l j = Some x /\ nth_error fs j = Some g /\ g x = Err e0 /\
                                    e = push All (Idx (i + j)) e0) es.
Proof.
  revert l. induction fs as [|g fr IH]; intros [|x r] i vs es u; simpl; try (intro H; inversion H; constructor).
  destruct (zip_all (S i) fr r) as [[vs' es'] u'] eqn:M. specialize (IH _ _ _ _ _ M).
  assert (SH : Forall (fun e => exists j y g' e0, nth_error (x :: r) j = Some y /\ nth_error (g :: fr) j = Some g' /\
                                                  g' y = Err e0 /\ e = push All (Idx (i + j)) e0) es').
  { eapply Forall_impl; [|exact IH]. intros e (j & y & g' & e0 & N & G & Fy & ->). exists (S j), y, g', e0.
    repeat split; auto. replace (S i + j) with (i + S j) by lia. reflexivity. }
  destruct (g x) as [a|e0|k] eqn:F; intro H; inversion H; subst; auto.
  constructor; auto. exists 0, x, g, e0. repeat split; auto. now rewrite Nat.add_0_r.
Qed.

Definition from_item (md : mode) (fk fv : pv -> res) (kvs : list (pv * pv)) (e : err) : Prop :=
  exists k v e0, In (k, v) kvs /\
    ((fk k = Err e0 /\ e = push md (ItemKey k) e0) \/ (fv v = Err e0 /\ e = push md (Key k) e0)).

Lemma dict_first_err fk fv l : forall acc e, dict_first fk fv acc l = ADErr e -> from_item First fk fv l e.
Proof.
  induction l as [|[k v] r IH]; intros acc e; simpl; [discriminate|].
  destruct (fk k) as [k'|e0|x] eqn:FK; try discriminate.
  - destruct (fv v) as [v'|e0|x] eqn:FV; try discriminate.
    + intro H. destruct (IH _ _ H) as (k0 & v0 & e0 & I & D). exists k0, v0, e0. split; [right; auto | exact D].
    + intro H; inversion H; subst. exists k, v, e0. split; [left; auto | right; auto].
  - intro H; inversion H; subst. exists k, v, e0. split; [left; auto | left; auto].
Qed.

Lemma dict_all_errs fk fv l : forall acc res es u, dict_all fk fv acc l = (res, es, u) ->
  Forall (from_item All fk fv l) es.
Proof.
  induction l as [|[k v] r IH]; intros acc res es u; simpl.
  - intro H; inversion H; constructor.
  - match goal with |- context[dict_all fk fv ?a r] => destruct (dict_all fk fv a r) as [[res' es'] u'] eqn:M end.
    specialize (IH _ _ _ _ M).
    assert (SH : Forall (from_item All fk fv ((k, v) :: r)) es').
    { eapply Forall_impl; [|exact IH]. intros e (k0 & v0 & e0 & I & D). exists k0, v0, e0. split; [right; auto | exact D]. }
    intro H; inversion H; subst. apply Forall_app. split; [|apply Forall_app; split; auto].
    + destruct (fk k) as [?|e0|?] eqn:FK; constructor; [|constructor].
      exists k, v, e0. split; [left; auto | left; auto].
    + destruct (fv v) as [?|e0|?] eqn:FV; constructor; [|constructor].
      exists k, v, e0. split; [left; auto | right; auto].
Qed.

Lemma dict_stop_err fk fv l : forall acc e, dict_stop fk fv acc l = ADErr e ->
  exists k v, In (k, v) l /\ (fk k = Err e \/ fv v = Err e).
Proof.
  induction l as [|[k v] r IH]; intros acc e; simpl; [discriminate|].
  destruct (fv v) as [v'|e0|x] eqn:FV; try discriminate.
  - destruct (fk k) as [k'|e0|x] eqn:FK; try discriminate.
    + intro H. destruct (IH _ _ H) as (k0 & v0 & I & D). exists k0, v0. split; [right; auto | exact D].
    + intro H; inversion H; subst. exists k, v. split; [left; auto | left; auto].
  - intro H; inversion H; subst. exists k, v. split; [left; auto | right; auto].
Qed.

Lemma union_first_errs rs : forall acc e, union_first acc rs = Err e ->
  exists es, e = LE UnionLE [] None (rev acc ++ es) /\ Forall (fun e' => In (Err e') rs) es.
Proof.
  induction rs as [|r rs IH]; intros acc e; simpl.
  - intro H; inversion H. exists []. now rewrite app_nil_r.
  - destruct r as [a|e0|x]; try discriminate. intro H. destruct (IH _ _ H) as (es & -> & F).
    exists (e0 :: es). split; [simpl; now rewrite <- app_assoc|].
    constructor; [left; reflexivity|]. eapply Forall_impl; [|exact F]. intros; right; auto.
Qed.
Lemma union_all_errs rs : forall acc e, union_all acc None rs = Err e ->
  exists es, e = LE UnionLE [] None (rev acc ++ es) /\ Forall (fun e' => In (Err e') rs) es.
Proof.
  assert (G : forall rs acc x e, union_all acc (Some x) rs <> Err e).
  { induction rs0 as [|r rs0 IH]; intros acc x e; simpl; [discriminate|]. destruct r; apply IH. }
  induction rs as [|r rs IH]; intros acc e; simpl.
  - intro H; inversion H. exists []. now rewrite app_nil_r.
  - destruct r as [a|e0|x]; try discriminate.
    + intro H. destruct (IH _ _ H) as (es & -> & F).
      exists (e0 :: es). split; [simpl; now rewrite <- app_assoc|].
      constructor; [left; reflexivity|]. eapply Forall_impl; [|exact F]. intros; right; auto.
    + intro H. exfalso. eapply G; eauto.
Qed.

(* ---------------- well-formed input data ---------------- *)
Fixpoint wf (v : pv) {struct v} : Prop :=
  let fix all (l : list pv) {struct l} : Prop := match l with [] => True | x :: r => wf x /\ all r end in
  match v with
  | VList l | VTuple l | VSet l | VFrozenSet l | VIter l => all l
  | VDict kvs =>
      keys_distinct kvs /\
      (fix go (l : list (pv * pv)) {struct l} : Prop := match l with [] => True | (k, x) :: r => wf k /\ wf x /\ go r end) kvs
  | _ => True
  end.
Fixpoint wf_all (l : list pv) : Prop := match l with [] => True | x :: r => wf x /\ wf_all r end.
Fixpoint wf_items (l : list (pv * pv)) : Prop := match l with [] => True | (k, x) :: r => wf k /\ wf x /\ wf_items r end.

Lemma wf_all_nth l : wf_all l -> forall j x, nth_error l j = Some x -> wf x.
Proof.
  induction l as [|y r IH]; intros W [|j] x; simpl; try discriminate.
  - intro H; inversion H; subst. apply W.
  - apply IH, W.
Qed.
Lemma wf_chars s : wf_all (chars s).
Proof. induction s; simpl; auto. Qed.
Lemma wf_bytes s : wf_all (byte_vals s).
Proof. induction s; simpl; auto. Qed.
Lemma wf_items_keys kvs : wf_items kvs -> wf_all (map fst kvs).
Proof. induction kvs as [|[k x] r IH]; simpl; auto. intros (A & B & C). auto. Qed.
Lemma wf_items_in kvs k x : wf_items kvs -> In (k, x) kvs -> wf k /\ wf x.
Proof.
  induction kvs as [|[k' x'] r IH]; simpl; [tauto|]. intros (A & B & C) [E|I]; [inversion E; subst; auto | auto].
Qed.

Lemma wf_view sc v l : wf v -> iter_view sc v = Items l -> wf_all l.
Proof.
  destruct v; simpl; try discriminate; intros W H; try (inversion H; subst; exact W).
  - destruct sc; try discriminate. inversion H. apply wf_chars.
  - inversion H. apply wf_bytes.
  - destruct sc; try discriminate. inversion H. apply wf_items_keys, W.
Qed.

Lemma keys_distinct_assoc (kvs : list (pv * pv)) k v : keys_distinct kvs -> In (k, v) kvs -> assoc_veq k kvs = Some v.
Proof.
  induction kvs as [|[k' v'] r IH]; simpl; intros D I; [contradiction|]. destruct D as [Dk Dr].
  destruct I as [E|I].
  - inversion E; subst. now rewrite veq_refl.
  - destruct (veq k k') eqn:E.
    + exfalso. assert (X : existsb (fun kv => veq (fst kv) k') r = true).
      { apply existsb_exists. exists (k, v). split; auto. }
      congruence.
    + apply IH; auto.
Qed.
Lemma key_present (kvs : list (pv * pv)) k v : In (k, v) kvs -> existsb (fun kv => veq k (fst kv)) kvs = true.
Proof. intro I. apply existsb_exists. exists (k, v). split; auto. apply veq_refl. Qed.

(* ---------------- scalar errors are leaves at the datum ---------------- *)
Definition leaf_at (v : pv) (r : res) : Prop := forall e, r = Err e -> exists c, e = LE c [] (Some v) [].
Lemma leaf_is c v : leaf_at v (leaf c v).
Proof. intros e H. inversion H. eauto. Qed.
Lemma ok_is v a : leaf_at v (Ok a).
Proof. intros e H. discriminate. Qed.
Lemma float_of_int_leaf v z : leaf_at v (float_of_int v z).
Proof. unfold float_of_int. destruct (Z.abs z <? FLOAT_MAX)%Z; [apply ok_is | apply leaf_is]. Qed.
Lemma scalars_leaf sc v :
  leaf_at v (load_int sc v) /\ leaf_at v (load_float sc v) /\ leaf_at v (load_bool sc v) /\ leaf_at v (load_str sc v) /\
  leaf_at v (load_none v).
Proof.
  repeat split; destruct sc, v; simpl; try apply ok_is; try apply leaf_is; try apply float_of_int_leaf;
    destruct (parse_int s); try apply ok_is; try apply leaf_is; apply float_of_int_leaf.
Qed.
Lemma lit_leaf sc ls v : leaf_at v (load_lit sc ls v).
Proof.
  unfold load_lit. destruct (sc && existsb boolish ls);
    match goal with |- context[if ?b then _ else _] => destruct b end; try apply ok_is; apply leaf_is.
Qed.

(* ---------------- the theorem: FIRST and ALL errors are localised ---------------- *)
Section Exact.
Variable U : nat -> pv -> res.
Variable sc : bool.
(* what a user-supplied loader reports must itself point into its datum *)
Hypothesis U_local : forall n v e, U n v = Err e -> localised sc v e.

Lemma from_leaf v r e : leaf_at v r -> r = Err e -> localised sc v e.
Proof. intros L H. destruct (L e H) as [c ->]. apply localised_leaf. Qed.

Theorem trail_exact md : md <> Disable -> forall t v e, wf v -> load U md sc t v = Err e -> localised sc v e.
Proof.
  intro Hmd.
  induction t as [| | | | | |ls|k t IH|ts IH|tk tv IHk IHv|t IH|ts IH|n] using ty_ind'; intros v e W; cbn [load].
  - apply from_leaf, (scalars_leaf sc v).
  - apply from_leaf, (scalars_leaf sc v).
  - apply from_leaf, (scalars_leaf sc v).
  - apply from_leaf, (scalars_leaf sc v).
  - apply from_leaf, (scalars_leaf true v).
  - discriminate.
  - apply from_leaf, lit_leaf.
  - (* iterable *)
    destruct (iter_view sc v) as [l| |] eqn:V; try (apply from_leaf, leaf_is).
    pose proof (wf_view sc v l W V) as Wl.
    assert (STEP : forall j x, nth_error l j = Some x -> step_into sc v (Idx j) = Some x) by (intros; simpl; now rewrite V).
    destruct md; [contradiction| |].
    + destruct (map_first (load U First sc t) 0 l) as [r|e'|x] eqn:M; try discriminate. intro H; inversion H; subst.
      destruct (map_first_err _ _ _ _ M) as (j & x & e0 & N & F & ->). cbn [Nat.add].
      eapply localised_push; [discriminate | apply STEP; exact N | eapply IH; [eapply wf_all_nth; eauto | exact F]].
    + destruct (map_all (load U All sc t) 0 l) as [[vs es] u] eqn:M. destruct u; try discriminate.
      destruct es as [|e1 es]; try discriminate. intro H; inversion H; subst. apply localised_group.
      pose proof (map_all_errs _ _ _ _ _ _ M) as E. eapply Forall_impl; [|exact E].
      intros e' (j & x & e0 & N & F & ->). cbn [Nat.add].
      eapply localised_push; [discriminate | apply STEP; exact N | eapply IH; [eapply wf_all_nth; eauto | exact F]].
  - (* fixed tuple *)
    destruct (iter_view sc v) as [l| |] eqn:V; try (apply from_leaf, leaf_is).
    pose proof (wf_view sc v l W V) as Wl.
    assert (STEP : forall j x, nth_error l j = Some x -> step_into sc v (Idx j) = Some x) by (intros; simpl; now rewrite V).
    destruct (List.length ts <? List.length l)%nat; [intro H; inversion H; now apply localised_leaf_copy|].
    destruct (List.length l <? List.length ts)%nat; [intro H; inversion H; now apply localised_leaf_copy|].
    assert (FS : forall j g x e0, nth_error (map (fun t1 => load U md sc t1) ts) j = Some g -> nth_error l j = Some x ->
                                  g x = Err e0 -> localised sc x e0).
    { intros j g x e0 G N F. rewrite nth_error_map in G. destruct (nth_error ts j) as [t1|] eqn:T; try discriminate.
      inversion G; subst. rewrite Forall_forall in IH. eapply (IH t1); [eapply nth_error_In; eauto | eapply wf_all_nth; eauto | exact F]. }
    destruct md; [contradiction| |].
    + destruct (zip_first 0 (map (fun t1 => load U First sc t1) ts) l) as [r|e'|x] eqn:M; try discriminate.
      intro H; inversion H; subst. destruct (zip_first_err _ _ _ _ M) as (j & x & g & e0 & N & G & F & ->). cbn [Nat.add].
      eapply localised_push; [discriminate | apply STEP; exact N | eapply FS; eauto].
    + destruct (zip_all 0 (map (fun t1 => load U All sc t1) ts) l) as [[vs es] u] eqn:M. destruct u; try discriminate.
      destruct es as [|e1 es]; try discriminate. intro H; inversion H; subst. apply localised_group.
      pose proof (zip_all_errs _ _ _ _ _ _ M) as E. eapply Forall_impl; [|exact E].
      intros e' (j & x & g & e0 & N & G & F & ->). cbn [Nat.add].
      eapply localised_push; [discriminate | apply STEP; exact N | eapply FS; eauto].
  - (* dict *)
    destruct v; try (apply from_leaf, leaf_is). cbn [wf] in W. destruct W as [KD WI]. fold (wf_items kvs) in WI.
    assert (ITEM : forall m e', m <> Disable -> from_item m (load U md sc tk) (load U md sc tv) kvs e' ->
                                localised sc (VDict kvs) e').
    { intros m e' Hm (k & x & e0 & I & D). destruct (wf_items_in _ _ _ WI I) as [Wk Wx]. destruct D as [[F ->]|[F ->]].
      - apply (localised_push sc m (VDict kvs) (ItemKey k) k e0 Hm).
        + cbn [step_into]. rewrite (key_present kvs k x I). reflexivity.
        + apply (IHk k e0 Wk F).
      - apply (localised_push sc m (VDict kvs) (Key k) x e0 Hm).
        + cbn [step_into]. apply keys_distinct_assoc; assumption.
        + apply (IHv x e0 Wx F). }
    destruct md; [contradiction| |].
    + destruct (dict_first (load U First sc tk) (load U First sc tv) [] kvs) as [r|e'|x] eqn:M; try discriminate.
      intro H; inversion H; subst. apply (ITEM First); [discriminate | eapply dict_first_err; eauto].
    + destruct (dict_all (load U All sc tk) (load U All sc tv) [] kvs) as [[r es] u] eqn:M. destruct u; try discriminate.
      destruct es as [|e1 es]; try discriminate. intro H; inversion H; subst. apply localised_group.
      pose proof (dict_all_errs _ _ _ _ _ _ _ M) as E. eapply Forall_impl; [|exact E].
      intros e' F. apply (ITEM All); [discriminate | exact F].
  - (* optional *)
    destruct v; try discriminate;
      match goal with |- context[load U md sc t ?x] =>
        destruct (load U md sc t x) as [a|e0|y] eqn:L; try discriminate;
        destruct md; [contradiction| |]; intro H; inversion H; subst; apply localised_group;
        (constructor; [apply localised_leaf | constructor; [eapply IH; eauto | constructor]])
      end.
  - (* union *)
    assert (CASES : forall es, Forall (fun e' => In (Err e') (map (fun t1 => load U md sc t1 v) ts)) es ->
                               Forall (localised sc v) es).
    { intros es F. eapply Forall_impl; [|exact F]. intros e' I. apply in_map_iff in I. destruct I as (t1 & L & I1).
      rewrite Forall_forall in IH. eapply (IH t1); eauto. }
    destruct md; [contradiction| |]; intro H.
    + destruct (union_first_errs _ _ _ H) as (es & -> & F). apply localised_group. simpl. now apply CASES.
    + destruct (union_all_errs _ _ _ H) as (es & -> & F). apply localised_group. simpl. now apply CASES.
  - apply U_local.
Qed.
End Exact.

(* ---------------- DISABLE: no trail anywhere ---------------- *)
Fixpoint no_trail (e : err) : Prop :=
  match e with LE _ tr _ subs => tr = [] /\ (fix all (l : list err) : Prop := match l with [] => True | x :: r => no_trail x /\ all r end) subs end.

Lemma map_stop_err f l e : map_stop f l = A1Err e -> exists x, In x l /\ f x = Err e.
Proof.
  induction l as [|x r IH]; simpl; [discriminate|]. destruct (f x) as [a|e0|k] eqn:F; try discriminate.
  - destruct (map_stop f r) as [b|e'|k] eqn:M; try discriminate. intro H; inversion H; subst.
    destruct (IH eq_refl) as (y & I & Fy). exists y. auto.
  - intro H; inversion H; subst. exists x. auto.
Qed.
Lemma zip_stop_err fs l e : zip_stop fs l = A1Err e -> exists g x, In g fs /\ g x = Err e.
Proof.
  revert l. induction fs as [|g fr IH]; intros [|x r]; simpl; try discriminate.
  destruct (g x) as [a|e0|k] eqn:F; try discriminate.
  - destruct (zip_stop fr r) as [b|e'|k] eqn:M; try discriminate. intro H; inversion H; subst.
    destruct (IH _ M) as (g' & y & I & Fy). exists g', y. auto.
  - intro H; inversion H; subst. exists g, x. auto.
Qed.

Section Disable.
Variable U : nat -> pv -> res.
Variable sc : bool.
Hypothesis U_plain : forall n v e, U n v = Err e -> no_trail e.

Lemma leaf_no_trail v r e : leaf_at v r -> r = Err e -> no_trail e.
Proof. intros L H. destruct (L e H) as [c ->]. simpl. auto. Qed.

Theorem disable_no_trail : forall t v e, load U Disable sc t v = Err e -> no_trail e.
Proof.
  induction t as [| | | | | |ls|k t IH|ts IH|tk tv IHk IHv|t IH|ts IH|n] using ty_ind'; intros v e; cbn [load].
  - apply leaf_no_trail with (v := v), (scalars_leaf sc v).
  - apply leaf_no_trail with (v := v), (scalars_leaf sc v).
  - apply leaf_no_trail with (v := v), (scalars_leaf sc v).
  - apply leaf_no_trail with (v := v), (scalars_leaf sc v).
  - apply leaf_no_trail with (v := v), (scalars_leaf true v).
  - discriminate.
  - apply leaf_no_trail with (v := v), lit_leaf.
  - destruct (iter_view sc v) as [l| |]; try (apply leaf_no_trail with (v := v), leaf_is).
    destruct (map_stop (load U Disable sc t) l) as [r|e'|x] eqn:M; try discriminate. intro H; inversion H; subst.
    destruct (map_stop_err _ _ _ M) as (x & _ & F). eapply IH; eauto.
  - destruct (iter_view sc v) as [l| |]; try (apply leaf_no_trail with (v := v), leaf_is).
    destruct (List.length ts <? List.length l)%nat; [intro H; inversion H; simpl; auto|].
    destruct (List.length l <? List.length ts)%nat; [intro H; inversion H; simpl; auto|].
    destruct (zip_stop (map (fun t1 => load U Disable sc t1) ts) l) as [r|e'|x] eqn:M; try discriminate.
    intro H; inversion H; subst. destruct (zip_stop_err _ _ _ M) as (g & x & I & F).
    apply in_map_iff in I. destruct I as (t1 & <- & I1). rewrite Forall_forall in IH. eapply (IH t1); eauto.
  - destruct v; try (apply leaf_no_trail with (v := v), leaf_is); try (intro H; inversion H; simpl; auto; fail).
    destruct (dict_stop (load U Disable sc tk) (load U Disable sc tv) [] kvs) as [r|e'|x] eqn:M; try discriminate.
    intro H; inversion H; subst. destruct (dict_stop_err _ _ _ _ _ M) as (k & x & _ & [F|F]); [eapply IHk | eapply IHv]; eauto.
  - destruct v; try discriminate;
      match goal with |- context[load U Disable sc t ?x] =>
        destruct (load U Disable sc t x) as [a|e0|y] eqn:L; try discriminate; intro H; inversion H; subst; eapply IH; eauto
      end.
  - generalize (map (fun t1 => load U Disable sc t1 v) ts). intro rs. induction rs as [|r rs IHr]; simpl.
    + intro H; inversion H. simpl. auto.
    + destruct r; try discriminate; auto.
  - apply U_plain.
Qed.
End Disable.

Lemma Forall2_weaken {A B} (P Q : A -> B -> Prop) l1 l2 :
  (forall a b, P a b -> Q a b) -> Forall2 P l1 l2 -> Forall2 Q l1 l2.
Proof. intros H F. induction F; constructor; auto. Qed.

(* ---------------- ALL is complete, FIRST reports the first: element loops ---------------- *)
Section Complete.
Variable f : pv -> res.
Hypothesis f_noexn : forall x, no_exn (f x).

Fixpoint failing (i : nat) (l : list pv) : list nat :=
  match l with [] => [] | x :: r => match f x with Err _ => i :: failing (S i) r | _ => failing (S i) r end end.

(* one error per failing element, in order, each carrying that element's index: none lost, none duplicated *)
Lemma map_all_complete l : forall i vs es u, map_all f i l = (vs, es, u) ->
  Forall2 (fun e j => exists x e0, nth_error l (j - i) = Some x /\ f x = Err e0 /\ e = push All (Idx j) e0 /\ i <= j)
          es (failing i l).
Proof.
  induction l as [|x r IH]; intros i vs es u; simpl.
  - intro H; inversion H; constructor.
  - destruct (map_all f (S i) r) as [[vs' es'] u'] eqn:M. specialize (IH _ _ _ _ M).
    assert (SH : Forall2 (fun e j => exists y e0, nth_error (x :: r) (j - i) = Some y /\ f y = Err e0 /\
                                                  e = push All (Idx j) e0 /\ i <= j) es' (failing (S i) r)).
    { eapply Forall2_weaken; [|exact IH]. intros e j (y & e0 & N & F & E & L). exists y, e0.
      replace (j - i) with (S (j - S i)) by lia. repeat split; auto. lia. }
    pose proof (f_noexn x) as NX. destruct (f x) as [a|e0|k] eqn:F; simpl in NX; try contradiction;
      intro H; inversion H; subst; auto.
    constructor; auto. exists x, e0. rewrite Nat.sub_diag. repeat split; auto.
Qed.

Lemma map_first_is_first l : forall i e, map_first f i l = A1Err e ->
  exists j rest x e0, failing i l = j :: rest /\ nth_error l (j - i) = Some x /\ f x = Err e0 /\
                      e = push First (Idx j) e0 /\ i <= j.
Proof.
  induction l as [|x r IH]; intros i e; simpl; [discriminate|].
  pose proof (f_noexn x) as NX. destruct (f x) as [a|e0|k] eqn:F; simpl in NX; try contradiction.
  - destruct (map_first f (S i) r) as [b|e'|k] eqn:M; try discriminate. intro H; inversion H; subst.
    destruct (IH _ _ M) as (j & rest & y & e0 & Fl & N & Fy & E & L). exists j, rest, y, e0.
    replace (j - i) with (S (j - S i)) by lia. repeat split; auto. lia.
  - intro H; inversion H; subst. exists i, (failing (S i) r), x, e0. rewrite Nat.sub_diag. repeat split; auto.
Qed.
End Complete.
