From Coq Require Import List Arith NArith ZArith Bool String Ascii Lia Permutation Sorted.
From AV Require Import Model.Repr Model.Harness Model.Norm.
Import ListNotations.

(* ---------------- lexicographic order on keys ---------------- *)
Definition kle (a b : key) : Prop := lex_ltb b a = false.

Lemma lex_ltb_irrefl a : lex_ltb a a = false.
Proof. induction a as [|x a IH]; simpl; auto. now rewrite N.ltb_irrefl. Qed.

Lemma lex_ltb_asym a : forall b, lex_ltb a b = true -> lex_ltb b a = false.
Proof.
  induction a as [|x a IH]; intros [|y b]; simpl; auto; try discriminate.
  destruct (N.ltb x y) eqn:E1, (N.ltb y x) eqn:E2; auto; try discriminate.
  apply N.ltb_lt in E1, E2. lia.
Qed.

Lemma lex_total a b : lex_ltb a b = true \/ a = b \/ lex_ltb b a = true.
Proof.
  revert b. induction a as [|x a IH]; intros [|y b]; simpl; auto.
  destruct (N.ltb x y) eqn:E1; auto. destruct (N.ltb y x) eqn:E2; auto.
  apply N.ltb_ge in E1, E2. assert (x = y) by lia. subst.
  destruct (IH b) as [H|[H|H]]; auto. subst; auto.
Qed.

Lemma lex_ltb_trans a : forall b c, lex_ltb a b = true -> lex_ltb b c = true -> lex_ltb a c = true.
Proof.
  induction a as [|x a IH]; intros [|y b] [|z c]; simpl; auto; try discriminate.
  destruct (N.ltb x y) eqn:E1.
  - apply N.ltb_lt in E1. destruct (N.ltb y z) eqn:E2.
    + apply N.ltb_lt in E2. intros _ _. assert (H : N.ltb x z = true) by (apply N.ltb_lt; lia). now rewrite H.
    + destruct (N.ltb z y) eqn:E3; [discriminate|]. apply N.ltb_ge in E2, E3. assert (y = z) by lia. subst.
      intros _ _. assert (H : N.ltb x z = true) by (apply N.ltb_lt; lia). now rewrite H.
  - destruct (N.ltb y x) eqn:E1'; [discriminate|]. apply N.ltb_ge in E1, E1'. assert (x = y) by lia. subst.
    destruct (N.ltb y z) eqn:E2; auto. destruct (N.ltb z y) eqn:E3; [discriminate|]. apply IH.
Qed.

Lemma kle_total a b : kle a b \/ kle b a.
Proof.
  unfold kle. destruct (lex_total a b) as [H|[H|H]].
  - left. now apply lex_ltb_asym.
  - subst. left. apply lex_ltb_irrefl.
  - right. now apply lex_ltb_asym.
Qed.
Lemma kle_antisym a b : kle a b -> kle b a -> a = b.
Proof. unfold kle. intros H1 H2. destruct (lex_total a b) as [H|[H|H]]; congruence. Qed.
Lemma kle_trans a b c : kle a b -> kle b c -> kle a c.
Proof.
  unfold kle. intros H1 H2. destruct (lex_ltb c a) eqn:E; auto.
  destruct (lex_total a b) as [H|[H|H]]; [|subst; congruence|congruence].
  destruct (lex_total b c) as [H'|[H'|H']]; [|subst; congruence|congruence].
  pose proof (lex_ltb_trans _ _ _ H H') as T. apply lex_ltb_asym in T. congruence.
Qed.
Lemma not_lt_kle a b : lex_ltb a b = false -> kle b a.
Proof. auto. Qed.
Lemma lt_kle a b : lex_ltb a b = true -> kle a b.
Proof. apply lex_ltb_asym. Qed.

(* ---------------- stable insertion sort: permutation, sortedness, uniqueness ---------------- *)
Section Sort.
Variable A : Type.
Variable kf : A -> key.
Definition sle (x y : A) := kle (kf x) (kf y).

Lemma insert_perm x l : Permutation (x :: l) (insert kf x l).
Proof.
  induction l as [|y r IH]; simpl; auto. destruct (lex_ltb (kf x) (kf y)); auto.
  eapply perm_trans; [apply perm_swap|]. auto.
Qed.
Lemma isort_perm l : Permutation l (isort kf l).
Proof. induction l as [|x r IH]; simpl; auto. eapply perm_trans; [|apply insert_perm]. auto. Qed.

Lemma insert_sorted x l : StronglySorted sle l -> StronglySorted sle (insert kf x l).
Proof.
  induction 1 as [|y r Hs IH Hall]; simpl; [repeat constructor|].
  destruct (lex_ltb (kf x) (kf y)) eqn:E.
  - apply lt_kle in E. constructor; [constructor; auto|]. constructor; [exact E|].
    eapply Forall_impl; [|exact Hall]. intros a Ha. unfold sle in *. eapply kle_trans; eauto.
  - apply not_lt_kle in E. constructor; auto.
    eapply Permutation_Forall; [apply insert_perm|]. constructor; auto.
Qed.
Lemma isort_sorted l : StronglySorted sle (isort kf l).
Proof. induction l; simpl; [constructor|]. now apply insert_sorted. Qed.

Lemma sorted_perm_unique : forall l l',
  StronglySorted sle l -> StronglySorted sle l' -> Permutation l l' -> NoDup (map kf l) -> l = l'.
Proof.
  induction l as [|x r IH]; intros l' Hs Hs' HP ND.
  - now apply Permutation_nil in HP.
  - destruct l' as [|y r']; [apply Permutation_sym, Permutation_nil in HP; discriminate|].
    inversion Hs as [|? ? Hsr Hall]; inversion Hs' as [|? ? Hsr' Hall']; subst.
    inversion ND as [|? ? Hnin ND']; subst.
    assert (x = y).
    { assert (Ix : In x (y :: r')) by (eapply Permutation_in; [exact HP|left; auto]).
      assert (Iy : In y (x :: r)) by (eapply Permutation_in; [apply Permutation_sym; exact HP|left; auto]).
      destruct Ix as [->|Ix]; auto. destruct Iy as [->|Iy]; auto.
      rewrite Forall_forall in Hall, Hall'. specialize (Hall _ Iy). specialize (Hall' _ Ix). unfold sle in *.
      exfalso. apply Hnin. rewrite (kle_antisym _ _ Hall Hall'). now apply in_map. }
    subst. f_equal. apply IH; auto. now apply Permutation_cons_inv in HP.
Qed.

Theorem isort_perm_invariant l l' : Permutation l l' -> NoDup (map kf l) -> isort kf l = isort kf l'.
Proof.
  intros HP ND. apply sorted_perm_unique; try apply isort_sorted.
  - eapply perm_trans; [apply Permutation_sym, isort_perm|]. eapply perm_trans; [exact HP|apply isort_perm].
  - eapply Permutation_NoDup; [|exact ND]. apply Permutation_map, isort_perm.
Qed.

Lemma isort_in x l : In x (isort kf l) <-> In x l.
Proof. split; apply Permutation_in; [apply Permutation_sym|]; apply isort_perm. Qed.
End Sort.

(* ---------------- de-duplication ---------------- *)
Section Dedup.
Variable A : Type.
Variable eqb : A -> A -> bool.
Hypothesis eqb_spec : forall x y, reflect (x = y) (eqb x y).

Lemma dedup_in x l : In x (dedup eqb l) <-> In x l.
Proof.
  induction l as [|y r IH]; simpl; [tauto|]. rewrite filter_In, IH. split.
  - intros [->|[H _]]; auto.
  - intros [->|H]; auto. destruct (eqb_spec y x); [left; auto | right; split; auto].
Qed.
Lemma dedup_nodup l : NoDup (dedup eqb l).
Proof.
  induction l as [|y r IH]; simpl; constructor.
  - rewrite filter_In. intros [_ H]. destruct (eqb_spec y y); [discriminate | congruence].
  - now apply NoDup_filter.
Qed.
Lemma dedup_same_members l l' :
  (forall x, In x l <-> In x l') -> Permutation (dedup eqb l) (dedup eqb l').
Proof. intro H. apply NoDup_Permutation; try apply dedup_nodup. intro x. rewrite !dedup_in. apply H. Qed.
End Dedup.

Lemma keys_nodup {A} (kf : A -> key) (l : list A) :
  NoDup l -> (forall x y, In x l -> In y l -> kf x = kf y -> x = y) -> NoDup (map kf l).
Proof.
  induction l as [|a r IH]; simpl; intros ND Hinj; constructor.
  - inversion ND as [|? ? Hn _]; subst. rewrite in_map_iff. intros (b & Hk & Hb).
    apply Hn. rewrite (Hinj a b); auto.
  - inversion ND; subst. apply IH; auto.
Qed.

(* ---------------- decidable equalities of the model are real equalities ---------------- *)
Lemma lit_eqb_spec a b : reflect (a = b) (lit_eqb a b).
Proof.
  destruct a, b; simpl; try (constructor; congruence).
  - destruct (Z.eqb_spec z z0); constructor; congruence.
  - destruct (Bool.eqb_spec b0 b); constructor; congruence.
  - destruct (String.eqb_spec s s0); constructor; congruence.
  - destruct (String.eqb_spec s s0); constructor; congruence.
  - destruct (Nat.eqb_spec cls cls0), (Nat.eqb_spec idx idx0); simpl; constructor; congruence.
Qed.

Section NormInd.
Variable P : norm -> Prop.
Hypothesis HNone_ : P NNone.
Hypothesis HAny_ : P NAny.
Hypothesis HCls_ : forall c, P (NCls c).
Hypothesis HNew_ : forall c, P (NNewType c).
Hypothesis HGen_ : forall g args, Forall P args -> P (NGen g args).
Hypothesis HTF_ : forall ns, Forall P ns -> P (NTupleFix ns).
Hypothesis HTV_ : forall x, P x -> P (NTupleVar x).
Hypothesis HLit_ : forall ls, P (NLit ls).
Hypothesis HUn_ : forall ns, Forall P ns -> P (NUnion ns).
Hypothesis HAnn_ : forall x ms, P x -> P (NAnn x ms).
Fixpoint norm_ind' (n : norm) : P n :=
  let fix all (l : list norm) : Forall P l :=
      match l with [] => Forall_nil P | x :: r => Forall_cons x (norm_ind' x) (all r) end in
  match n with
  | NNone => HNone_ | NAny => HAny_ | NCls c => HCls_ c | NNewType c => HNew_ c
  | NGen g args => HGen_ g args (all args)
  | NTupleFix ns => HTF_ ns (all ns)
  | NTupleVar x => HTV_ x (norm_ind' x)
  | NLit ls => HLit_ ls
  | NUnion ns => HUn_ ns (all ns)
  | NAnn x ms => HAnn_ x ms (norm_ind' x)
  end.
End NormInd.

Fixpoint nlist_eqb (l1 l2 : list norm) : bool :=
  match l1, l2 with [], [] => true | x :: r1, y :: r2 => norm_eqb x y && nlist_eqb r1 r2 | _, _ => false end.
Fixpoint llist_eqb (l1 l2 : list lit) : bool :=
  match l1, l2 with [], [] => true | x :: r1, y :: r2 => lit_eqb x y && llist_eqb r1 r2 | _, _ => false end.

Lemma llist_eqb_spec l1 : forall l2, reflect (l1 = l2) (llist_eqb l1 l2).
Proof.
  induction l1 as [|x r IH]; intros [|y r2]; simpl; try (constructor; congruence).
  destruct (lit_eqb_spec x y); simpl; [|constructor; congruence].
  destruct (IH r2); constructor; congruence.
Qed.

Lemma nlist_eqb_iff l1 : Forall (fun a => forall b, norm_eqb a b = true <-> a = b) l1 ->
  forall l2, nlist_eqb l1 l2 = true <-> l1 = l2.
Proof.
  induction 1 as [|x r Hx _ IH]; intros [|y r2]; simpl; try (split; congruence).
  rewrite andb_true_iff, Hx, IH. split; [intros [-> ->]; reflexivity | intro E; inversion E; auto].
Qed.

Lemma llist_eqb_iff l1 l2 : llist_eqb l1 l2 = true <-> l1 = l2.
Proof. destruct (llist_eqb_spec l1 l2); split; congruence. Qed.

Lemma norm_eqb_iff : forall a b, norm_eqb a b = true <-> a = b.
Proof.
  induction a using norm_ind'; intros b; destruct b; try (simpl; split; congruence).
  - simpl. rewrite Nat.eqb_eq. split; congruence.
  - simpl. rewrite Nat.eqb_eq. split; congruence.
  - cbn [norm_eqb]. fold (nlist_eqb args args0).
    rewrite andb_true_iff, Nat.eqb_eq, (nlist_eqb_iff args H). split; [intros [-> ->]; reflexivity|intro E; inversion E; auto].
  - cbn [norm_eqb]. fold (nlist_eqb ns ns0). rewrite (nlist_eqb_iff ns H). split; congruence.
  - cbn [norm_eqb]. rewrite IHa. split; congruence.
  - cbn [norm_eqb]. fold (llist_eqb ls ls0). rewrite llist_eqb_iff. split; congruence.
  - cbn [norm_eqb]. fold (nlist_eqb ns ns0). rewrite (nlist_eqb_iff ns H). split; congruence.
  - cbn [norm_eqb]. rewrite andb_true_iff, IHa.
    destruct (list_eq_dec Nat.eq_dec ms metas) as [E|E].
    + subst. split; [intros [-> _]; reflexivity | intro E; inversion E; auto].
    + split; [intros [_ F]; discriminate | intro E'; inversion E'; contradiction].
Qed.

Lemma norm_eqb_spec a b : reflect (a = b) (norm_eqb a b).
Proof. apply iff_reflect. symmetry. apply norm_eqb_iff. Qed.

(* ---------------- small list facts ---------------- *)
Lemma existsb_iff {A} (f : A -> bool) l : existsb f l = true <-> exists x, In x l /\ f x = true.
Proof. apply existsb_exists. Qed.

Lemma bool_eq_iff (a b : bool) : (a = true <-> b = true) -> a = b.
Proof. destruct a, b; intros [H1 H2]; auto; try (symmetry; apply H1; reflexivity); try (apply H2; reflexivity). Qed.

Lemma in_flatten x ns : In x (flatten ns) <->
  exists n, In n ns /\ match n with NUnion l => In x l | _ => x = n end.
Proof.
  unfold flatten. rewrite in_flat_map. split; intros (n & Hn & H); exists n; split; auto;
    destruct n; simpl in *; intuition.
Qed.

Lemma in_lits_of v ns : In v (lits_of ns) <-> exists ls, In (NLit ls) ns /\ In v ls.
Proof.
  unfold lits_of. rewrite in_flat_map. split.
  - intros (n & Hn & H). destruct n; simpl in H; try contradiction. eauto.
  - intros (ls & Hn & H). exists (NLit ls). auto.
Qed.

Lemma nodup_snoc {A} (l : list A) z : NoDup l -> ~ In z l -> NoDup (l ++ [z]).
Proof.
  induction l as [|a r IH]; intros ND Hz; simpl.
  - constructor; [simpl; tauto | constructor].
  - inversion ND as [|? ? Ha ND']; subst. constructor.
    + rewrite in_app_iff. simpl. intros [I|[I|[]]]; [auto | subst; apply Hz; left; reflexivity].
    + apply IH; auto. intro I. apply Hz. right. exact I.
Qed.

(* ---------------- the union construction is canonical ---------------- *)
Section Union.
Variable w : world.

(* two member lists denote the same union: same non-literal members, same literal values
   (in any order, with any multiplicity, nested or not, literals merged or split) *)
Definition equiv (ns ns' : list norm) : Prop :=
  (forall x, is_lit x = false -> (In x (flatten ns) <-> In x (flatten ns'))) /\
  (forall v, In v (lits_of (flatten ns)) <-> In v (lits_of (flatten ns'))).

Definition lit_keys_separate (ls : list lit) : Prop :=
  forall a b, In a ls -> In b ls -> lit_repr_key w a = lit_repr_key w b -> a = b.
Definition keys_separate (ms : list norm) : Prop :=
  forall x y, In x ms -> In y ms -> norm_key w x = norm_key w y -> x = y.

Let dd (ns : list norm) := dedup norm_eqb (flatten ns).
Let nonlit (ns : list norm) := filter (fun n => negb (is_lit n)) (dd ns).

Lemma in_dd x ns : In x (dd ns) <-> In x (flatten ns).
Proof. apply dedup_in, norm_eqb_spec. Qed.

Lemma in_nonlit x ns : In x (nonlit ns) <-> In x (flatten ns) /\ is_lit x = false.
Proof. unfold nonlit. rewrite filter_In, in_dd, negb_true_iff. tauto. Qed.

Lemma nonlit_nodup ns : NoDup (nonlit ns).
Proof. apply NoDup_filter, dedup_nodup, norm_eqb_spec. Qed.

Lemma in_lits_dd v ns : In v (lits_of (dd ns)) <-> In v (lits_of (flatten ns)).
Proof. rewrite !in_lits_of. split; intros (ls & H & Hv); exists ls; split; auto; apply in_dd; auto. Qed.

Lemma nonlit_perm ns ns' : equiv ns ns' -> Permutation (nonlit ns) (nonlit ns').
Proof.
  intros [H _]. apply NoDup_Permutation; try apply nonlit_nodup.
  intro x. rewrite !in_nonlit. split; intros [I L]; split; auto; apply (H x L); auto.
Qed.

Lemma canon_lits ls ls' :
  (forall v, In v ls <-> In v ls') -> lit_keys_separate ls ->
  isort (lit_repr_key w) (dedup lit_eqb ls) = isort (lit_repr_key w) (dedup lit_eqb ls').
Proof.
  intros H Hinj. apply isort_perm_invariant.
  - apply dedup_same_members; [apply lit_eqb_spec | exact H].
  - apply keys_nodup; [apply dedup_nodup, lit_eqb_spec|].
    intros x y Hx Hy. apply Hinj; eapply dedup_in; eauto using lit_eqb_spec.
Qed.

Lemma merged_perm ns ns' :
  equiv ns ns' -> lit_keys_separate (lits_of (flatten ns)) ->
  Permutation (merged_members w true ns) (merged_members w true ns').
Proof.
  intros E Hinj. unfold merged_members. fold (dd ns) (dd ns') (nonlit ns) (nonlit ns').
  apply Permutation_app; [now apply nonlit_perm|].
  destruct E as [_ EL].
  assert (M : forall v, In v (lits_of (dd ns)) <-> In v (lits_of (dd ns'))).
  { intro v. rewrite !in_lits_dd. apply EL. }
  assert (Hinj' : lit_keys_separate (lits_of (dd ns))).
  { intros a b Ha Hb. apply Hinj; apply in_lits_dd; auto. }
  destruct (lits_of (dd ns)) as [|a r] eqn:E1; destruct (lits_of (dd ns')) as [|a' r'] eqn:E2.
  - apply Permutation_refl.
  - exfalso. apply (M a'). left; reflexivity.
  - exfalso. apply (M a). left; reflexivity.
  - unfold mk_lit, lit_dedup. rewrite (canon_lits (a :: r) (a' :: r') M Hinj'). apply Permutation_refl.
Qed.

Lemma merged_nodup ns : NoDup (merged_members w true ns).
Proof.
  unfold merged_members. fold (dd ns) (nonlit ns).
  destruct (lits_of (dd ns)); [rewrite app_nil_r; apply nonlit_nodup|].
  assert (Hn : ~ In (mk_lit w (lit_dedup true (l :: l0))) (nonlit ns)).
  { intro I. apply in_nonlit in I. destruct I as [_ L]. discriminate. }
  apply nodup_snoc; [apply nonlit_nodup | exact Hn].
Qed.

Theorem mk_union_canonical ns ns' :
  equiv ns ns' ->
  lit_keys_separate (lits_of (flatten ns)) ->
  keys_separate (merged_members w true ns) ->
  mk_union w true ns = mk_union w true ns'.
Proof.
  intros E HL HK. pose proof (merged_perm ns ns' E HL) as P. unfold mk_union.
  destruct (merged_members w true ns) as [|x [|y r]] eqn:E1.
  - apply Permutation_nil in P. now rewrite P.
  - apply Permutation_length_1_inv in P. now rewrite P.
  - assert (Len : List.length (merged_members w true ns') = S (S (List.length r)))
      by (rewrite <- (Permutation_length P); reflexivity).
    destruct (merged_members w true ns') as [|x' [|y' r']] eqn:E2; try discriminate. f_equal.
    apply isort_perm_invariant; [exact P|].
    apply keys_nodup; [rewrite <- E1; apply merged_nodup | exact HK].
Qed.

End Union.

(* ---------------- corollaries: the rewrites named in the property ---------------- *)
Section Rewrites.
Variable w : world.

Lemma equiv_refl ns : equiv ns ns.
Proof. split; intros; tauto. Qed.

Lemma flatten_app a b : flatten (a ++ b) = flatten a ++ flatten b.
Proof. unfold flatten. apply flat_map_app. Qed.

Lemma equiv_perm ns ns' : Permutation ns ns' -> equiv ns ns'.
Proof.
  intro P. assert (PF : Permutation (flatten ns) (flatten ns')) by (apply Permutation_flat_map; exact P).
  split.
  - intros x _. split; apply Permutation_in; [|apply Permutation_sym]; exact PF.
  - intro v. assert (PL : Permutation (lits_of (flatten ns)) (lits_of (flatten ns')))
      by (apply Permutation_flat_map; exact PF).
    split; apply Permutation_in; [|apply Permutation_sym]; exact PL.
Qed.

Lemma equiv_dup n ns : In n ns -> equiv (n :: ns) ns.
Proof.
  intro I. split.
  - intros x _. change (n :: ns) with ([n] ++ ns). rewrite flatten_app, in_app_iff. split; [|auto].
    intros [H|H]; auto. apply in_flatten. apply in_flatten in H. destruct H as (m & [<-|[]] & Hm). eauto.
  - intro v. change (n :: ns) with ([n] ++ ns). rewrite flatten_app. unfold lits_of at 1. rewrite flat_map_app, in_app_iff.
    split; [|auto]. intros [H|H]; auto.
    apply in_lits_of in H. destruct H as (ls & Hl & Hv). apply in_lits_of. exists ls. split; auto.
    apply in_flatten in Hl. destruct Hl as (m & [<-|[]] & Hm). apply in_flatten. eauto.
Qed.

(* nesting: a union written inside a union *)
Lemma equiv_nest a b : equiv (NUnion a :: b) (a ++ b) -> True.
Proof. trivial. Qed.

Lemma flatten_nest a b : Forall (fun n => match n with NUnion _ => False | _ => True end) a ->
  flatten (NUnion a :: b) = flatten (a ++ b).
Proof.
  intro F. rewrite flatten_app. change (NUnion a :: b) with ([NUnion a] ++ b). rewrite flatten_app. f_equal.
  unfold flatten at 1. simpl. rewrite app_nil_r.
  induction F as [|x r Hx _ IH]; simpl; auto. destruct x; try contradiction; simpl; now f_equal.
Qed.

Theorem union_perm ns ns' :
  Permutation ns ns' -> lit_keys_separate w (lits_of (flatten ns)) -> keys_separate w (merged_members w true ns) ->
  mk_union w true ns = mk_union w true ns'.
Proof. intro P. apply mk_union_canonical. now apply equiv_perm. Qed.

Theorem union_dup n ns :
  In n ns -> lit_keys_separate w (lits_of (flatten (n :: ns))) -> keys_separate w (merged_members w true (n :: ns)) ->
  mk_union w true (n :: ns) = mk_union w true ns.
Proof. intro I. apply mk_union_canonical. now apply equiv_dup. Qed.

Theorem union_nest a b :
  Forall (fun n => match n with NUnion _ => False | _ => True end) a ->
  lit_keys_separate w (lits_of (flatten (NUnion a :: b))) -> keys_separate w (merged_members w true (NUnion a :: b)) ->
  mk_union w true (NUnion a :: b) = mk_union w true (a ++ b).
Proof.
  intros F. apply mk_union_canonical. unfold equiv. rewrite (flatten_nest a b F). split; intros; tauto.
Qed.

(* literals merged or split *)
Theorem union_literal_split l1 l2 rest :
  lit_keys_separate w (lits_of (flatten (NLit (l1 ++ l2) :: rest))) ->
  keys_separate w (merged_members w true (NLit (l1 ++ l2) :: rest)) ->
  mk_union w true (NLit (l1 ++ l2) :: rest) = mk_union w true (NLit l1 :: NLit l2 :: rest).
Proof.
  apply mk_union_canonical. split.
  - intros x L. rewrite !in_flatten. split; intros (n & Hn & Hx).
    + destruct Hn as [<-|Hn]; [subst x; cbn in L; discriminate|]. exists n. split; [right; right; auto|auto].
    + destruct Hn as [<-|[<-|Hn]]; try (subst x; cbn in L; discriminate). exists n. split; [right; auto|auto].
  - intro v.
    change (NLit (l1 ++ l2) :: rest) with ([NLit (l1 ++ l2)] ++ rest).
    change (NLit l1 :: NLit l2 :: rest) with ([NLit l1; NLit l2] ++ rest).
    rewrite !flatten_app. unfold lits_of. rewrite !flat_map_app, !in_app_iff. simpl. rewrite !app_nil_r, !in_app_iff. tauto.
Qed.

(* Optional[X] is Union[X, None]; Literal[None] is None; bare generic = generic with its implicit parameters *)
Theorem optional_is_union typed h : normalize w typed (HOpt h) = normalize w typed (HUnion [h; HNone]).
Proof. reflexivity. Qed.

Theorem literal_none_is_none typed : normalize w typed (HLit [None]) = normalize w typed HNone.
Proof. reflexivity. Qed.

Definition implicit_hint (tv : tvspec) : hint :=
  match tv with TVAny => HAny | TVBound c => HCls c | TVConstr cs => HUnion (map HCls cs) end.

Theorem bare_is_implicit typed g tvs :
  assoc g (w_params w) = Some tvs ->
  normalize w typed (HBare g) = normalize w typed (HGen g (map implicit_hint tvs)).
Proof.
  intro E. cbn [normalize]. unfold implicit_params. rewrite E, map_map. f_equal.
  apply map_ext. intros [| |cs]; cbn [implicit_hint implicit_param normalize]; auto.
  now rewrite map_map.
Qed.

Theorem bare_tuple_is_any typed : normalize w typed HTupleBare = normalize w typed (HTupleVar HAny).
Proof. reflexivity. Qed.

(* different meanings never collapse: with type-aware literal handling the union admits exactly the values its
   members admit *)
Lemma den_mk_lit ls v :
  den (mk_lit w (lit_dedup true ls)) v = den (NLit ls) v.
Proof.
  destruct v; try reflexivity. unfold lit_dedup. cbn [den mk_lit]. apply bool_eq_iff. rewrite !existsb_iff.
  split; intros (x & Hx & E); exists x; split; auto.
  - apply isort_in in Hx. destruct (dedup_in lit lit_eqb lit_eqb_spec x ls) as [D1 _]. auto.
  - apply isort_in. destruct (dedup_in lit lit_eqb lit_eqb_spec x ls) as [_ D2]. auto.
Qed.

Lemma den_union_members ns v : den (NUnion ns) v = existsb (fun m => den m v) ns.
Proof. reflexivity. Qed.

Lemma existsb_flatten ns v :
  existsb (fun m => den m v) (flatten ns) = existsb (fun m => den m v) ns.
Proof.
  induction ns as [|n r IH]; simpl; auto. unfold flatten in *. simpl. rewrite existsb_app, IH. f_equal.
  destruct n; simpl; rewrite ?orb_false_r; reflexivity.
Qed.

Lemma den_merged ns v :
  existsb (fun m => den m v) (merged_members w true ns) = existsb (fun m => den m v) ns.
Proof.
  rewrite <- (existsb_flatten ns v). apply bool_eq_iff. rewrite !existsb_iff. unfold merged_members.
  set (d := dedup norm_eqb (flatten ns)).
  assert (D : forall x, In x d <-> In x (flatten ns)) by (intro; apply dedup_in, norm_eqb_spec).
  split.
  - intros (x & Hx & E). apply in_app_iff in Hx. destruct Hx as [Hx|Hx].
    + apply filter_In in Hx. exists x. split; [apply D; tauto | auto].
    + destruct (lits_of d) as [|a r] eqn:EL; [contradiction|]. destruct Hx as [<-|[]].
      rewrite den_mk_lit in E. destruct v; try discriminate. cbn [den] in E. apply existsb_iff in E.
      destruct E as (y & Hy & E). rewrite <- EL in Hy. apply in_lits_of in Hy. destruct Hy as (ls & Hl & Hy).
      exists (NLit ls). split; [apply D; auto|]. cbn [den]. apply existsb_iff. eauto.
  - intros (x & Hx & E). apply D in Hx. destruct (is_lit x) eqn:L.
    + destruct x; try discriminate. destruct v; try discriminate. cbn [den] in E. apply existsb_iff in E.
      destruct E as (y & Hy & E).
      assert (IL : In y (lits_of d)) by (apply in_lits_of; eauto).
      destruct (lits_of d) as [|a r] eqn:EL; [contradiction|].
      exists (mk_lit w (lit_dedup true (a :: r))). split; [apply in_app_iff; right; left; reflexivity|].
      rewrite den_mk_lit. cbn [den]. apply existsb_iff. eauto.
    + exists x. split; auto. apply in_app_iff. left. apply filter_In. rewrite L. auto.
Qed.

Theorem mk_union_meaning ns v :
  den (mk_union w true ns) v = existsb (fun m => den m v) ns.
Proof.
  rewrite <- den_merged. unfold mk_union.
  destruct (merged_members w true ns) as [|x [|y r]] eqn:E.
  - reflexivity.
  - simpl. now rewrite orb_false_r.
  - rewrite den_union_members. apply bool_eq_iff. rewrite !existsb_iff.
    split; intros (z & Hz & Ez); exists z; split; auto; [apply isort_in in Hz | apply isort_in]; auto.
Qed.

(* Literal[0] and Literal[False] stay apart *)
Theorem typed_literals_do_not_collapse :
  mk_union w true [NLit [LInt 0]; NLit [LBool false]] <> mk_union w true [NLit [LInt 0]]
  /\ den (mk_union w true [NLit [LInt 0]; NLit [LBool false]]) (VLitV (LBool false)) = true.
Proof.
  split; [|rewrite mk_union_meaning; reflexivity].
  intro E. assert (D : den (mk_union w true [NLit [LInt 0]; NLit [LBool false]]) (VLitV (LBool false))
                       = den (mk_union w true [NLit [LInt 0]]) (VLitV (LBool false))) by (now rewrite E).
  rewrite !mk_union_meaning in D. discriminate.
Qed.
End Rewrites.

(* the pinned tree's ==-based literal de-duplication loses a member: refuted by computation *)
Theorem as_coded_literal_dedup_refuted :
  exists w ns v, den (mk_union w false ns) v <> existsb (fun m => den m v) ns.
Proof.
  exists (World [] [] [] [] []), [NLit [LInt 0]; NLit [LBool false]], (VLitV (LBool false)).
  vm_compute. discriminate.
Qed.

(* the hypothesis on keys is needed: with a tie, the order of appearance leaks into the form *)
Theorem key_tie_refuted :
  exists w ns ns', Permutation ns ns' /\ mk_union w true ns <> mk_union w true ns'.
Proof.
  exists (World [(1, "<class 'm.Same'>"%string); (2, "<class 'm.Same'>"%string)] [] [] [] []),
         [NCls 1; NCls 2], [NCls 2; NCls 1].
  split; [apply perm_swap|]. vm_compute. discriminate.
Qed.

Example nonvacuous_union :
  let w := World [(0, "<class 'int'>"%string); (1, "<class 'str'>"%string); (1005, "None"%string);
                  (1002, "typing.Literal"%string)] [] [] [] [] in
  normalize w true (HUnion [HOpt (HCls 1); HLit [Some (LBool true); Some (LInt 1)]; HCls 0; HCls 1])
  = NUnion [NCls 0; NCls 1; NNone; NLit [LInt 1; LBool true]]
  /\ lit_keys_separate w [LBool true; LInt 1].
Proof.
  split; [vm_compute; reflexivity|].
  intros a b [<-|[<-|[]]] [<-|[<-|[]]]; vm_compute; congruence.
Qed.

(* ---------------- idempotence of the union construction ---------------- *)
Section Idem.
Variable w : world.
Definition nonunion (n : norm) : Prop := match n with NUnion _ => False | _ => True end.
Definition members_of (n : norm) : list norm := match n with NUnion l => l | x => [x] end.

Lemma flatten_id l : Forall nonunion l -> flatten l = l.
Proof.
  induction 1 as [|x r Hx _ IH]; [reflexivity|]. unfold flatten in *. simpl. rewrite IH.
  destruct x; try contradiction; reflexivity.
Qed.

Lemma in_merged x ns :
  In x (merged_members w true ns) <->
  (In x (flatten ns) /\ is_lit x = false) \/
  (lits_of (dedup norm_eqb (flatten ns)) <> [] /\
   x = mk_lit w (lit_dedup true (lits_of (dedup norm_eqb (flatten ns))))).
Proof.
  unfold merged_members. rewrite in_app_iff, filter_In, negb_true_iff.
  rewrite (dedup_in norm norm_eqb norm_eqb_spec).
  destruct (lits_of (dedup norm_eqb (flatten ns))) as [|a r]; simpl.
  - split; [intros [H|[]]; auto | intros [H|[H _]]; [auto | congruence]].
  - split.
    + intros [H|[H|[]]]; [left; auto | right; split; [discriminate | auto]].
    + intros [H|[_ H]]; [left; auto | right; left; auto].
Qed.

Lemma merged_nonunion ns : Forall nonunion (flatten ns) -> Forall nonunion (merged_members w true ns).
Proof.
  intro F. apply Forall_forall. intros x Hx. apply in_merged in Hx. destruct Hx as [[H _]|[_ ->]].
  - rewrite Forall_forall in F. auto.
  - exact I.
Qed.

Lemma members_perm ns : Forall nonunion (flatten ns) ->
  Permutation (members_of (mk_union w true ns)) (merged_members w true ns).
Proof.
  intro F. pose proof (merged_nonunion ns F) as NU. unfold mk_union.
  destruct (merged_members w true ns) as [|x [|y r]] eqn:E.
  - apply Permutation_refl.
  - inversion NU as [|? ? Hx _]; subst. destruct x; try contradiction; apply Permutation_refl.
  - cbn [members_of]. apply Permutation_sym, isort_perm.
Qed.

Theorem mk_union_idempotent ns :
  Forall nonunion (flatten ns) ->
  lit_keys_separate w (lits_of (flatten ns)) ->
  keys_separate w (merged_members w true ns) ->
  mk_union w true (members_of (mk_union w true ns)) = mk_union w true ns.
Proof.
  intros F HL HK. symmetry. apply mk_union_canonical; auto.
  pose proof (members_perm ns F) as P.
  assert (FM : flatten (members_of (mk_union w true ns)) = members_of (mk_union w true ns)).
  { apply flatten_id. eapply Permutation_Forall; [apply Permutation_sym; exact P|]. now apply merged_nonunion. }
  assert (IN : forall x, In x (members_of (mk_union w true ns)) <-> In x (merged_members w true ns))
    by (intro x; split; apply Permutation_in; [|apply Permutation_sym]; exact P).
  set (L := lits_of (dedup norm_eqb (flatten ns))) in *.
  assert (LD : forall v, In v L <-> In v (lits_of (flatten ns))).
  { intro v. unfold L. rewrite !in_lits_of.
    split; intros (ls & H & Hv); exists ls; (split; [|exact Hv]);
      destruct (dedup_in norm norm_eqb norm_eqb_spec (NLit ls) (flatten ns)) as [D1 D2]; auto. }
  split.
  - intros x Lx. rewrite FM, IN, in_merged. split.
    + intro H. left. auto.
    + intros [[H _]|[_ ->]]; [auto | discriminate].
  - intro v. rewrite FM, <- LD. rewrite (in_lits_of v (members_of (mk_union w true ns))). split.
    + intro Hv. exists (isort (lit_repr_key w) (lit_dedup true L)). split.
      * apply IN, in_merged. right. split; [intro E; fold L in E; rewrite E in Hv; contradiction | reflexivity].
      * unfold lit_dedup. apply isort_in. destruct (dedup_in lit lit_eqb lit_eqb_spec v L) as [_ D]. auto.
    + intros (ls & Hl & Hv). apply IN, in_merged in Hl. destruct Hl as [[H Lf]|[_ E]]; [discriminate|].
      unfold mk_lit, lit_dedup in E. inversion E; subst ls. apply isort_in in Hv.
      destruct (dedup_in lit lit_eqb lit_eqb_spec v L) as [D _]. auto.
Qed.
End Idem.
