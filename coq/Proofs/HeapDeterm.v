(* C20, "repeating a call with equal arguments gives equal results": executing a plan twice on the same argument - from
   whatever allocation counters, i.e. at whatever moments of the program - gives results that are equal as values (they
   differ only in the identities of the containers built, which C20_result_fresh shows to be new each time), and the two
   executions fail together. *)
From Coq Require Import List Arith Bool.
From AV Require Import Model.Heap Proofs.HeapProofs.
Import ListNotations.

(* values without identities *)
Inductive ev :=
| EAtom (a : nat) | ETuple (l : list ev) | EList (l : list ev) | ESet (l : list ev)
| EDict (kv : list (ev * ev)) | EObj (cls : nat) (fs : list (nat * ev)).

Fixpoint erase (v : hv) : ev :=
  match v with
  | HAtom a => EAtom a
  | HTuple l => ETuple (map erase l)
  | HList _ l => EList (map erase l)
  | HSet _ l => ESet (map erase l)
  | HDict _ kv => EDict (map (fun e => match e with (a, b) => (erase a, erase b) end) kv)
  | HObj _ cls fs => EObj cls (map (fun e => match e with (i, x) => (i, erase x) end) fs)
  end.

Definition eres (r : option res) : option ev := option_map (fun r => erase (fst (fst r))) r.

Section MapStep.
Variables A B EB : Type.
Variable step : A -> nat -> option (B * list nat * nat).
Variable eb : B -> EB.
Definition estep (r : option (B * list nat * nat)) : option EB := option_map (fun r => eb (fst (fst r))) r.
Definition emap (r : option (list B * list nat * nat)) : option (list EB) := option_map (fun r => map eb (fst (fst r))) r.

Lemma map_step_determ : forall l, (forall a, In a l -> forall n m, estep (step a n) = estep (step a m)) ->
  forall n m, emap (map_step step l n) = emap (map_step step l m).
Proof.
  induction l as [|a r IH]; intros H n m; cbn [map_step]; [reflexivity|].
  pose proof (H a (or_introl eq_refl) n m) as Ha.
  destruct (step a n) as [[[x b1] n1]|], (step a m) as [[[y b2] m1]|]; cbn in Ha; try discriminate; [|reflexivity].
  injection Ha as Ha.
  assert (Hr : forall a0, In a0 r -> forall n0 m0, estep (step a0 n0) = estep (step a0 m0)) by (intros a0 Hin; apply H; now right).
  specialize (IH Hr n1 m1).
  destruct (map_step step r n1) as [[[t b3] n2]|], (map_step step r m1) as [[[u b4] m2]|]; cbn in IH; try discriminate; [|reflexivity].
  injection IH as IH. cbn. now rewrite Ha, IH.
Qed.
End MapStep.
Arguments map_step_determ {A B EB} step eb l.
Arguments estep {B EB} eb r.
Arguments emap {B EB} eb r.

Definition determ (p : plan) : Prop := forall v n m, eres (exec p v n) = eres (exec p v m).

Lemma estep_tag {K} (k : K) r1 r2 : eres r1 = eres r2 ->
  estep (fun e : K * hv => (fst e, erase (snd e))) (tag k r1) = estep (fun e : K * hv => (fst e, erase (snd e))) (tag k r2).
Proof.
  destruct r1 as [[[x b] n]|], r2 as [[[y b'] n']|]; cbn; intro H; try discriminate; [|reflexivity]. injection H as H. now rewrite H.
Qed.

Lemma map_pair_erase (l : list (nat * hv)) :
  map (fun e : nat * hv => match e with (i, x) => (i, erase x) end) l = map (fun e : nat * hv => (fst e, erase (snd e))) l.
Proof. apply map_ext. now intros [i x]. Qed.

Theorem exec_determ : forall p, determ p.
Proof.
  induction p using plan_ind'; unfold determ; intros v n m; cbn [exec].
  - reflexivity.
  - destruct v; reflexivity.
  - (* list *)
    destruct (elements v) as [l|]; [|reflexivity].
    pose proof (map_step_determ (exec p) erase l (fun a _ n0 m0 => IHp a n0 m0) (S n) (S m)) as M.
    destruct (map_step (exec p) l (S n)) as [[[l1 b1] n1]|], (map_step (exec p) l (S m)) as [[[l2 b2] m1]|]; cbn in M; try discriminate; [|reflexivity].
    injection M as M. cbn. now rewrite M.
  - (* tuple *)
    destruct (elements v) as [l|]; [|reflexivity].
    pose proof (map_step_determ (exec p) erase l (fun a _ n0 m0 => IHp a n0 m0) n m) as M.
    destruct (map_step (exec p) l n) as [[[l1 b1] n1]|], (map_step (exec p) l m) as [[[l2 b2] m1]|]; cbn in M; try discriminate; [|reflexivity].
    injection M as M. cbn. now rewrite M.
  - (* set *)
    destruct (elements v) as [l|]; [|reflexivity].
    pose proof (map_step_determ (exec p) erase l (fun a _ n0 m0 => IHp a n0 m0) (S n) (S m)) as M.
    destruct (map_step (exec p) l (S n)) as [[[l1 b1] n1]|], (map_step (exec p) l (S m)) as [[[l2 b2] m1]|]; cbn in M; try discriminate; [|reflexivity].
    injection M as M. cbn. now rewrite M.
  - (* dict *)
    destruct v as [| | | |id kv|]; try reflexivity.
    assert (Hitem : forall e, In e kv -> forall n0 m0,
              estep (fun e : hv * hv => (erase (fst e), erase (snd e))) (item_step (exec p1) (exec p2) e n0) =
              estep (fun e : hv * hv => (erase (fst e), erase (snd e))) (item_step (exec p1) (exec p2) e m0)).
    { intros e _ n0 m0. unfold item_step. pose proof (IHp1 (fst e) n0 m0) as K.
      destruct (exec p1 (fst e) n0) as [[[k1 b1] n1]|], (exec p1 (fst e) m0) as [[[k2 b2] m1]|]; cbn in K; try discriminate; [|reflexivity].
      injection K as K. pose proof (IHp2 (snd e) n1 m1) as V.
      destruct (exec p2 (snd e) n1) as [[[x1 b3] n2]|], (exec p2 (snd e) m1) as [[[x2 b4] m2]|]; cbn in V; try discriminate; [|reflexivity].
      injection V as V. cbn. now rewrite K, V. }
    pose proof (map_step_determ _ _ kv Hitem (S n) (S m)) as M.
    destruct (map_step (item_step (exec p1) (exec p2)) kv (S n)) as [[[kv1 b1] n1]|],
             (map_step (item_step (exec p1) (exec p2)) kv (S m)) as [[[kv2 b2] m1]|]; cbn in M; try discriminate; [|reflexivity].
    injection M as M. cbn. f_equal. f_equal.
    transitivity (map (fun e : hv * hv => (erase (fst e), erase (snd e))) kv1); [apply map_ext; now intros [a b]|].
    rewrite M. apply map_ext. now intros [a b].
  - (* optional *)
    destruct v as [[|a]| | | | |]; try reflexivity; apply IHp.
  - (* mapping -> model *)
    destruct v as [| | | |id kv|]; try reflexivity.
    set (stepf := fun (f : nat * nat * plan * dflt) (m0 : nat) => match f with (i, key, q, d) =>
                    tag i (match lookup_key key kv with Some x => exec q x m0 | None => default_value d m0 end) end).
    assert (Hf : forall f, In f fields -> forall n0 m0,
              estep (fun e : nat * hv => (fst e, erase (snd e))) (stepf f n0) = estep (fun e : nat * hv => (fst e, erase (snd e))) (stepf f m0)).
    { intros [[[i key] q] d] Hin n0 m0. unfold stepf. apply estep_tag.
      destruct (lookup_key key kv) as [x|].
      - rewrite Forall_forall in H. exact (H (i, key, q, d) Hin x n0 m0).
      - destruct d as [|kind|c]; [reflexivity| |reflexivity]. cbn. unfold fresh_container. destruct kind as [|[|k]]; reflexivity. }
    pose proof (map_step_determ stepf _ fields Hf (S n) (S m)) as M. fold stepf.
    destruct (map_step stepf fields (S n)) as [[[fs1 b1] n1]|], (map_step stepf fields (S m)) as [[[fs2 b2] m1]|]; cbn in M; try discriminate; [|reflexivity].
    injection M as M. destruct extra as [fi|]; cbn.
    + f_equal. f_equal. rewrite !map_app. cbn [map]. rewrite !map_pair_erase. now rewrite M.
    + f_equal. f_equal. rewrite !map_pair_erase. exact M.
  - (* model -> mapping *)
    destruct v as [| | | | |id cls fs]; try reflexivity.
    set (stepf := fun (f : nat * nat * plan) (m0 : nat) => match f with (i, key, q) =>
                    tag (HAtom key) (match lookup_field i fs with Some x => exec q x m0 | None => None end) end).
    assert (Hf : forall f, In f fields -> forall n0 m0,
              estep (fun e : hv * hv => (fst e, erase (snd e))) (stepf f n0) = estep (fun e : hv * hv => (fst e, erase (snd e))) (stepf f m0)).
    { intros [[i key] q] Hin n0 m0. unfold stepf. apply estep_tag.
      destruct (lookup_field i fs) as [x|]; [|reflexivity].
      rewrite Forall_forall in H. exact (H (i, key, q) Hin x n0 m0). }
    pose proof (map_step_determ stepf _ fields Hf (S n) (S m)) as M. fold stepf.
    destruct (map_step stepf fields (S n)) as [[[kv1 b1] n1]|], (map_step stepf fields (S m)) as [[[kv2 b2] m1]|]; cbn in M; try discriminate; [|reflexivity].
    injection M as M. destruct (unpacked fs extra) as [more|]; [|reflexivity]. cbn. f_equal. f_equal. rewrite !map_app. f_equal.
    transitivity (map (fun e : hv * hv => (erase (fst e), erase (snd e))) (map (fun e : hv * hv => (fst e, snd e)) kv1)).
    { rewrite map_map. apply map_ext. now intros [a b]. }
    assert (Hk : forall l : list (hv * hv), (forall e, In e l -> exists k, fst e = HAtom k) ->
                 map (fun e : hv * hv => match e with (a, b) => (erase a, erase b) end) l =
                 map (fun e : hv * hv => (erase (fst e), erase (snd e))) l) by (intros l _; apply map_ext; now intros [a b]).
    rewrite map_map. cbn [fst snd].
    transitivity (map (fun e : hv * hv => (erase (fst e), erase (snd e))) kv2); [|apply map_ext; now intros [a b]].
    (* the keys are the atoms written in the plan: equal on both sides *)
    clear Hk.
    assert (Hkeys : map (fun e : hv * hv => (erase (fst e), erase (snd e))) kv1 = map (fun e : hv * hv => (erase (fst e), erase (snd e))) kv2).
    { revert M. generalize kv1 kv2. clear. intros l1. induction l1 as [|[a x] r IH]; intros [|[b y] s] M; cbn in M; try discriminate; [reflexivity|].
      injection M as Ha Hx Hr. cbn. rewrite Ha, Hx. f_equal. now apply IH. }
    transitivity (map (fun e : hv * hv => (erase (fst e), erase (snd e))) kv1); [apply map_ext; now intros [a b]|exact Hkeys].
  - (* model -> model *)
    destruct v as [| | | | |id cls0 fs]; try reflexivity.
    set (stepf := fun (f : nat * nat * plan) (m0 : nat) => match f with (dst, src, q) =>
                    tag dst (match lookup_field src fs with Some x => exec q x m0 | None => None end) end).
    assert (Hf : forall f, In f fields -> forall n0 m0,
              estep (fun e : nat * hv => (fst e, erase (snd e))) (stepf f n0) = estep (fun e : nat * hv => (fst e, erase (snd e))) (stepf f m0)).
    { intros [[dst src] q] Hin n0 m0. unfold stepf. apply estep_tag.
      destruct (lookup_field src fs) as [x|]; [|reflexivity].
      rewrite Forall_forall in H. exact (H (dst, src, q) Hin x n0 m0). }
    pose proof (map_step_determ stepf _ fields Hf (S n) (S m)) as M. fold stepf.
    destruct (map_step stepf fields (S n)) as [[[fs1 b1] n1]|], (map_step stepf fields (S m)) as [[[fs2 b2] m1]|]; cbn in M; try discriminate; [|reflexivity].
    injection M as M. cbn. f_equal. f_equal. rewrite !map_pair_erase. exact M.
Qed.

(* in the words of the property *)
Theorem repeated_call_gives_equal_result : forall p v n m r1 b1 n1,
  exec p v n = Some (r1, b1, n1) -> exists r2 b2 m1, exec p v m = Some (r2, b2, m1) /\ erase r2 = erase r1.
Proof.
  intros p v n m r1 b1 n1 H. pose proof (exec_determ p v n m) as D. rewrite H in D. cbn in D.
  destruct (exec p v m) as [[[r2 b2] m1]|]; cbn in D; [|discriminate]. injection D as D. exists r2, b2, m1. split; [reflexivity|now symmetry].
Qed.
