(* C12 - the reviewed text of the code that touches state shared between threads.  What the review established:
   - the recursion resolver (the table location -> stub) is created per request bus, i.e. per top-level request
     (_create_mediator builds the buses, _create_request_bus asks _create_recursion_resolver for a NEW resolver): stubs are
     created and set by the thread that runs the request - Conc.step S_new_stub / S_bind are owner-only;
   - track_response sets the stub before the request returns - S_finish's premise;
   - routers, error representors and the call cache are built eagerly in _calculate_derived, before the retort is shared;
   - get_loader / get_dumper publish into the loader cache only what _facade_provide returned - S_lc_put after S_finish;
   - the shared call cache is BuiltinMediator.cached_call (reviewed under C11: one lookup, one store, whole-key equality). *)
From Coq Require Import List String Bool.
From AV Require Import Generated.ConcFacts.
Import ListNotations.
Local Open Scope string_scope.

Definition reviewed_shared_state_code : list (string * list string) :=
  [("resolver.track_request", ["last_loc = request.last_loc"; "if sum((loc == last_loc for loc in request.loc_stack)) == 1: return None"; "if last_loc in self._loc_to_stub: return self._loc_to_stub[last_loc]"; "stub = FuncWrapper(last_loc)"; "self._loc_to_stub[last_loc] = stub"; "return stub"]); ("resolver.track_response", ["last_loc = request.last_loc"; "if last_loc in self._loc_to_stub: self._loc_to_stub.pop(last_loc).set_func(response)"]); ("resolver.__init__", ["self._loc_to_stub: dict[AnyLoc, FuncWrapper] = {}"]); ("OperatingRetort._create_recursion_resolver", ["if issubclass(request_cls, (LoaderRequest, DumperRequest)): return LocatedRequestCallableRecursionResolver()"; "return None"]); ("SearchingRetort._calculate_derived", ["super()._calculate_derived()"; "self._request_cls_to_router = self._create_request_cls_to_router(self._full_recipe)"; "self._request_cls_to_error_representor = {request_cls: self._create_error_representor(request_cls) for request_cls in self._request_cls_to_router}"; "self._call_cache: dict[Any, Any] = {}"]); ("SearchingRetort._create_mediator", ["request_buses: Mapping[type[Request], RequestBus]"; "no_request_bus_error_maker = self._create_no_request_bus_error_maker()"; "call_cache = self._call_cache"; "def mediator_factory(request, search_offset): return BuiltinMediator(request_buses=request_buses, request=request, search_offset=search_offset, no_request_bus_error_maker=no_request_bus_error_maker, call_cache=call_cache)"; "request_buses = {request_cls: self._create_request_bus(request_cls, router, mediator_factory) for request_cls, router in self._request_cls_to_router.items()}"; "return mediator_factory(init_request, 0)"]); ("SearchingRetort._create_request_bus", ["error_representor = self._request_cls_to_error_representor[request_cls]"; "recursion_resolver = self._create_recursion_resolver(request_cls)"; "if recursion_resolver is not None: return RecursiveRequestBus(router=router, error_representor=error_representor, mediator_factory=mediator_factory, recursion_resolver=recursion_resolver)"; "return BasicRequestBus(router=router, error_representor=error_representor, mediator_factory=mediator_factory)"]); ("AdornedRetort.get_loader", ["try: return self._loader_cache[tp] except KeyError: pass"; "loader_ = self._make_loader(tp)"; "self._loader_cache[tp] = loader_"; "return loader_"]); ("AdornedRetort.get_dumper", ["try: return self._dumper_cache[tp] except KeyError: pass"; "dumper_ = self._make_dumper(tp)"; "self._dumper_cache[tp] = dumper_"; "return dumper_"])].

Theorem shared_state_code_is_the_reviewed_one : shared_state_code = reviewed_shared_state_code.
Proof. vm_compute. reflexivity. Qed.

(* recursion stubs are compared by identity: FuncWrapper defines neither __eq__ nor __hash__ *)
Theorem stubs_compare_by_identity : stub_eq_by_identity = true.
Proof. vm_compute. reflexivity. Qed.

(* the type normaliser behind normalize_type: ONE module-level instance serves every thread, and the lru_cache in front of
   it does not serialise concurrent misses.  What the review established: outside __init__ no method of a class of
   normalize_type.py stores into an attribute of self (the list of such statements, regenerated from the source, is
   empty); evaluating forward references switches the namespace on a COPY of the normaliser (_with_namespace). *)
Theorem normalizer_is_never_mutated_after_construction : normalizer_self_writes = [].
Proof. vm_compute. reflexivity. Qed.

Definition reviewed_normalizer_namespace_code : list (string * list string) :=
  [("TypeNormalizer._with_namespace", ["self_copy = copy(self)"; "self_copy._namespace = namespace"; "return self_copy"]); ("TypeNormalizer._with_module_namespace", ["try: module = sys.modules[module_name] except KeyError: return self"; "return self._with_namespace(vars(module))"])].

Theorem normalizer_namespace_code_is_the_reviewed_one : normalizer_namespace_code = reviewed_normalizer_namespace_code.
Proof. vm_compute. reflexivity. Qed.
