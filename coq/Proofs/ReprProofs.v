From Coq Require Import List Arith NArith Bool Lia.
Import ListNotations.
From AV Require Import Model.Repr.
Local Open Scope N_scope.

Lemma unhex_hexdig d : d < 16 -> unhex (hexdig d) = Some d.
Proof.
  intro H. unfold unhex, hexdig. destruct (d <? 10) eqn:E.
  - apply N.ltb_lt in E. replace ((48 <=? 48 + d) && (48 + d <=? 57)) with true.
    + f_equal; lia.
    + symmetry. apply andb_true_iff. split; apply N.leb_le; lia.
  - apply N.ltb_ge in E.
    replace ((48 <=? 87 + d) && (87 + d <=? 57)) with false
      by (symmetry; apply andb_false_iff; right; apply N.leb_gt; lia).
    replace ((97 <=? 87 + d) && (87 + d <=? 102)) with true
      by (symmetry; apply andb_true_iff; split; apply N.leb_le; lia).
    f_equal; lia.
Qed.

Lemma of_hex_app acc a b : of_hex_acc acc (a ++ b) =
  match of_hex_acc acc a with Some v => of_hex_acc v b | None => None end.
Proof. revert acc; induction a as [|c a IH]; intro acc; simpl; auto. destruct (unhex c); auto. Qed.

Lemma pow16_pos k : 0 < pow16 k. Proof. induction k; cbn [pow16]; lia. Qed.
Lemma of_to_hex k : forall n acc, n < pow16 k -> of_hex_acc acc (to_hex k n) = Some (acc * pow16 k + n).
Proof.
  induction k as [|k IH]; intros n acc H.
  - cbn [to_hex pow16 of_hex_acc] in *. f_equal. lia.
  - cbn [to_hex pow16] in *. rewrite of_hex_app.
    assert (Hd: n / 16 < pow16 k) by (apply N.div_lt_upper_bound; lia).
    rewrite (IH _ acc Hd). cbn [of_hex_acc]. rewrite unhex_hexdig by (apply N.mod_lt; lia).
    f_equal. pose proof (N.div_mod n 16 ltac:(lia)). lia.
Qed.
Lemma to_hex_len k n : length (to_hex k n) = k.
Proof. revert n; induction k; intro n; simpl; auto. rewrite app_length, IHk. simpl. lia. Qed.

Section Thm.
Variable printable : cp -> bool.
Notation esc := (esc printable). Notation repr := (repr printable).

Lemma firstn_exact {A} (a b:list A) : firstn (length a) (a ++ b) = a.
Proof. induction a; simpl; congruence. Qed.
Lemma skipn_exact {A} (a b:list A) : skipn (length a) (a ++ b) = b.
Proof. induction a; simpl; congruence. Qed.

Lemma take_hex_to_hex k n tl : n < pow16 k -> take_hex k (to_hex k n ++ tl) = Some (n, tl).
Proof.
  intro H. unfold take_hex.
  assert (L: length (to_hex k n) = k) by apply to_hex_len.
  assert (F: firstn k (to_hex k n ++ tl) = to_hex k n) by (rewrite <- L at 1; apply firstn_exact).
  assert (S: skipn k (to_hex k n ++ tl) = tl) by (rewrite <- L at 1; apply skipn_exact).
  assert (Le: Nat.leb k (length (to_hex k n ++ tl)) = true) by (apply Nat.leb_le; rewrite app_length; lia).
  rewrite Le, F, S, (of_to_hex k n 0 H). repeat f_equal; lia.
Qed.

Definition isq (q:cp) := q = SQ \/ q = DQ.

(* one source character = one lexer step *)
Lemma lex_esc q c f acc X : isq q -> c < 1114112 ->
  lex_body (S f) q acc (esc q c ++ X) = lex_body f q (c::acc) X.
Proof.
  intros Hq Hc. unfold Repr.esc.
  assert (P2: c < 256 -> c < pow16 2) by (cbn [pow16]; lia).
  assert (P4: c < 65536 -> c < pow16 4) by (cbn [pow16]; lia).
  assert (P8: c < pow16 8) by (cbn [pow16]; lia).
  destruct ((c =? q) || (c =? BS)) eqn:E1.
  { (* quote or backslash: \c *)
    cbn [app lex_body].
    assert (BS =? q = false) as -> by (destruct Hq; subst; reflexivity).
    change (BS =? NL) with false. change (BS =? BS) with true. cbn [orb].
    apply orb_true_iff in E1. destruct E1 as [E|E]; apply N.eqb_eq in E; subst c.
    - destruct Hq; subst; reflexivity.
    - reflexivity. }
  apply orb_false_iff in E1. destruct E1 as [Eq Eb]. apply N.eqb_neq in Eq, Eb.
  assert (Hbs: BS =? q = false) by (destruct Hq; subst; reflexivity).
  destruct (c =? TAB) eqn:E2; [apply N.eqb_eq in E2; subst; cbn [app lex_body]; rewrite Hbs; reflexivity|].
  destruct (c =? NL) eqn:E3; [apply N.eqb_eq in E3; subst; cbn [app lex_body]; rewrite Hbs; reflexivity|].
  destruct (c =? CR) eqn:E4; [apply N.eqb_eq in E4; subst; cbn [app lex_body]; rewrite Hbs; reflexivity|].
  apply N.eqb_neq in E2, E3, E4.
  assert (Hex: forall k e, (e = c_x \/ e = c_u \/ e = c_U) -> c < pow16 k ->
            (e = c_x -> k = 2%nat) -> (e = c_u -> k = 4%nat) -> (e = c_U -> k = 8%nat) ->
            lex_body (S f) q acc ((BS :: e :: to_hex k c) ++ X) = lex_body f q (c :: acc) X).
  { intros k e He Hk K2 K4 K8. cbn [app lex_body]. rewrite Hbs.
    change (BS =? NL) with false. change (BS =? BS) with true.
    destruct He as [ -> | [ -> | -> ] ]; cbn -[take_hex lex_body to_hex];
      [rewrite (K2 eq_refl) in * | rewrite (K4 eq_refl) in * | rewrite (K8 eq_refl) in *];
      rewrite take_hex_to_hex by assumption; reflexivity. }
  destruct ((c <? 32) || (c =? 127)) eqn:E5.
  { apply (Hex 2%nat c_x); auto; try discriminate. apply P2.
    apply orb_true_iff in E5. destruct E5 as [E|E]; [apply N.ltb_lt in E | apply N.eqb_eq in E]; lia. }
  apply orb_false_iff in E5. destruct E5 as [E5 E6]. apply N.ltb_ge in E5. apply N.eqb_neq in E6.
  assert (Raw: lex_body (S f) q acc ([c] ++ X) = lex_body f q (c :: acc) X).
  { cbn [app lex_body].
    replace (c =? q) with false by (symmetry; apply N.eqb_neq; auto).
    replace (c =? NL) with false by (symmetry; apply N.eqb_neq; auto).
    replace (c =? BS) with false by (symmetry; apply N.eqb_neq; auto). reflexivity. }
  destruct (c <? 127) eqn:E7; [exact Raw|].
  destruct (printable c); [exact Raw|].
  destruct (c <=? 255) eqn:E8; [apply (Hex 2%nat c_x); auto; try discriminate; apply P2; apply N.leb_le in E8; lia|].
  destruct (c <=? 65535) eqn:E9; [apply (Hex 4%nat c_u); auto; try discriminate; apply P4; apply N.leb_le in E9; lia|].
  apply (Hex 8%nat c_U); auto; discriminate.
Qed.

Lemma lex_all q s : isq q -> Forall (fun c => c < 1114112) s ->
  forall fuel acc tl, (length s < fuel)%nat ->
  lex_body fuel q acc (flat_map (esc q) s ++ q :: tl) = Some (rev acc ++ s, tl).
Proof.
  intros Hq. induction 1 as [|c s Hc _ IH]; intros fuel acc tl Hf.
  - destruct fuel; [simpl in Hf; lia|]. cbn [flat_map app lex_body]. rewrite N.eqb_refl. now rewrite app_nil_r.
  - destruct fuel; [simpl in Hf; lia|]. cbn [flat_map]. rewrite <- app_assoc.
    rewrite lex_esc by assumption. rewrite IH by (simpl in Hf; lia). cbn [rev]. now rewrite <- app_assoc.
Qed.

Lemma esc_nonempty q c : (1 <= length (esc q c))%nat.
Proof.
  unfold Repr.esc.
  repeat match goal with |- context[if ?b then _ else _] => destruct b end; cbn [length]; lia.
Qed.
Lemma flat_len q s : (length s <= length (flat_map (esc q) s))%nat.
Proof. induction s as [|c s IH]; simpl; auto. rewrite app_length. pose proof (esc_nonempty q c). lia. Qed.

Theorem repr_is_one_token s rest : Forall (fun c => c < 1114112) s ->
  lex_string (repr s ++ rest) = Some (s, rest).
Proof.
  intro Hs. unfold repr, lex_string. set (q := quote_for s).
  assert (Hq: isq q) by (unfold q, quote_for; destruct (has SQ s && negb (has DQ s)); [right|left]; reflexivity).
  cbn [app].
  replace ((q =? SQ) || (q =? DQ)) with true by (destruct Hq as [->| ->]; reflexivity).
  rewrite <- app_assoc. cbn [app].
  rewrite lex_all; auto.
  rewrite app_length. pose proof (flat_len q s). cbn [length]. unfold cp, str in *. lia.
Qed.
End Thm.
