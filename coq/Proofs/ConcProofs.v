(* C12 - proofs about Model/Conc.v: with stubs compared by identity, no finished request ever reaches an unset stub,
   whatever the number of threads and the interleaving; with stubs compared by location (the code as it was) a witness
   schedule reaches one; the executable replay is sound for the transition relation. *)
From Coq Require Import List Arith Bool Lia.
From AV Require Import Model.Conc.
Import ListNotations.

Section Inv.
Variable owner : sid -> tid.
Definition okstub (st:state) (t:tid) (s:sid) := owner s = t \/ In (owner s) (fin st).
Definition J (st:state) := forall t a s, holds st t a -> In s (areach a) -> okstub st t s.
Definition K (st:state) := forall k c s, In (k,c) (cc st) -> In s (sreach c) ->
   In (owner s) (fin st) \/ In s (lreach (snd k)).
Definition L (st:state) := forall s c s', In (s,c) (bound st) -> In s' (sreach c) ->
   owner s' = owner s \/ In (owner s') (fin st).
Definition Lc (st:state) := forall c s, lc st = Some c -> In s (sreach c) -> In (owner s) (fin st).
Definition Inv st := J st /\ K st /\ L st /\ Lc st.
End Inv.


(* ================= proofs for identity equality ================= *)
Section Proofs.
Variable loc : sid -> nat.
Variable owner : sid -> tid.
Notation step := (step true loc owner).
Notation reachable := (reachable true loc owner).
Notation J := (J owner). Notation K := (K owner). Notation L := (L owner). Notation Lc := (Lc owner).
Notation okstub := (okstub owner).

Lemma match_id_eq l m : Forall2 (arg_match true loc) l m -> l = m.
Proof. induction 1 as [|a b l m Hab _ IH]; auto. subst. f_equal. inversion Hab; subst; auto. Qed.

Lemma okstub_mono st st' t s : (forall u, In u (fin st) -> In u (fin st')) -> okstub st t s -> okstub st' t s.
Proof. intros H [E|F]; [left|right]; auto. Qed.

Lemma lreach_in s args : In s (lreach args) -> exists a, In a args /\ In s (areach a).
Proof. unfold lreach. rewrite in_flat_map. auto. Qed.

Lemma held_args_ok st t args s :
  J st -> Forall (fun a => match a with AConst _ => True | _ => holds st t a end) args ->
  In s (lreach args) -> okstub st t s.
Proof.
  intros HJ HF Hs. apply lreach_in in Hs as (a & Ha & Hsa).
  rewrite Forall_forall in HF. specialize (HF a Ha).
  destruct a as [n|s0|c]; simpl in Hsa; try contradiction; eapply HJ; eauto.
Qed.

Theorem inv_step st st' : Inv owner st -> step st st' -> Inv owner st'.
Proof.
  intros (HJ & HK & HL & HLc) Hstep.
  inversion Hstep; subst; clear Hstep; unfold Inv, ConcProofs.J, ConcProofs.K, ConcProofs.L, ConcProofs.Lc, holds in *; simpl.
  - (* new stub *)
    repeat split; auto.
    intros t' a s' [E|H'] Hs; [inversion E; subst; simpl in Hs; destruct Hs as [<-|[]]; left; reflexivity | eapply HJ; eauto].
  - (* hit *)
    repeat split; auto.
    intros t' a s' [E|H'] Hs; [|eapply HJ; eauto].
    inversion E; subst; simpl in Hs.
    destruct H0 as (k' & Hin & (Hfn & Hargs)). apply match_id_eq in Hargs. simpl in *.
    destruct (HK k' c s' Hin Hs) as [F|R]; [right; exact F|].
    rewrite <- Hargs in R. exact (held_args_ok st t' args s' HJ H R).
  - (* miss: new closure over held args *)
    repeat split; auto.
    intros t' a s' [E|H'] Hs; [|eapply HJ; eauto].
    inversion E; subst. unfold areach in Hs. rewrite sreach_clo in Hs. exact (held_args_ok st t' args s' HJ H Hs).
  - (* put *)
    repeat split; auto.
    intros k c0 s' [E|H'] Hs; [|eapply HK; eauto].
    inversion E; subst. right. simpl. match goal with H: _ = Clo _ _ _ |- _ => rewrite H in Hs end. rewrite sreach_clo in Hs. exact Hs.
  - (* bind *)
    repeat split; auto.
    intros s0 c0 s' [E|H'] Hs; [|eapply HL; eauto].
    inversion E; subst. match goal with H: In (_, AClo c0) (hold st) |- _ => destruct (HJ _ _ s' H Hs) as [E'|F] end; [left; congruence | right; exact F].
  - (* finish *)
    assert (Mono: forall u, In u (fin st) -> In u (t :: fin st)) by (intros; right; auto).
    repeat split.
    + intros t' a s' H' Hs. eapply okstub_mono; [exact Mono|]. eapply HJ; eauto.
    + intros k c s' H' Hs. destruct (HK k c s' H' Hs); [left; right; auto | right; auto].
    + intros s0 c0 s' H' Hs. destruct (HL s0 c0 s' H' Hs); [left; auto | right; right; auto].
    + intros c s' H' Hs. right. eapply HLc; eauto.
  - (* lc_put by a finished thread *)
    repeat split; auto.
    intros c0 s' E Hs. inversion E; subst.
    match goal with H: In (_, AClo c0) (hold st) |- _ => destruct (HJ _ _ s' H Hs) as [E'|F] end; [rewrite E'; assumption | exact F].
  - (* lc_get *)
    repeat split; auto.
    intros t' a s' [E|H'] Hs; [|eapply HJ; eauto].
    inversion E; subst. right. eapply HLc; eauto.
Qed.

Theorem inv_reachable st : reachable st -> Inv owner st.
Proof.
  induction 1 as [|st st' _ IH Hs]; [|eapply inv_step; eauto].
  unfold Inv, ConcProofs.J, ConcProofs.K, ConcProofs.L, ConcProofs.Lc, holds, init; simpl.
  repeat split; intros; try contradiction; try discriminate.
Qed.

(* ---- second layer: everything comes from somebody's holdings; finished threads' stubs are set ---- *)
Definition N (st:state) := forall t a s, holds st t a -> In s (areach a) -> holds st (owner s) (AStub s).
Definition Kh (st:state) := forall k c, In (k,c) (cc st) -> exists t, holds st t (AClo c).
Definition Lh (st:state) := forall s c, In (s,c) (bound st) -> exists t, holds st t (AClo c).
Definition Lch (st:state) := forall c, lc st = Some c -> exists t, holds st t (AClo c).
Definition M (st:state) := forall s, In (owner s) (fin st) -> holds st (owner s) (AStub s) -> is_bound st s.
Definition Inv2 st := N st /\ Kh st /\ Lh st /\ Lch st /\ M st.

Lemma N_args st t args s : N st ->
  Forall (fun a => match a with AConst _ => True | _ => holds st t a end) args ->
  In s (lreach args) -> holds st (owner s) (AStub s).
Proof.
  intros HN HF Hs. apply lreach_in in Hs as (a & Ha & Hsa).
  rewrite Forall_forall in HF. specialize (HF a Ha).
  destruct a as [n|s0|c]; simpl in Hsa; try contradiction; eapply HN; eauto.
Qed.

Theorem inv2_step st st' : Inv2 st -> step st st' -> Inv2 st'.
Proof.
  intros (HN & HKh & HLh & HLch & HM) Hstep.
  inversion Hstep; subst; clear Hstep; unfold Inv2, N, Kh, Lh, Lch, M, holds, is_bound in *; simpl.
  - (* new stub *)
    repeat split.
    + intros t' a s' [E|H'] Hs; [inversion E; subst; simpl in Hs; destruct Hs as [<-|[]]; left; reflexivity | right; eapply HN; eauto].
    + intros k c H'. destruct (HKh k c H') as [u Hu]. exists u. right; auto.
    + intros s0 c H'. destruct (HLh s0 c H') as [u Hu]. exists u. right; auto.
    + intros c H'. destruct (HLch c H') as [u Hu]. exists u. right; auto.
    + intros s0 Hf [E|H']; [inversion E; subst; contradiction | auto].
  - (* hit *)
    repeat split.
    + intros t' a s' [E|H'] Hs; [|right; eapply HN; eauto].
      inversion E; subst. simpl in Hs.
      match goal with H: exists k', _ |- _ => destruct H as (k' & Hin & _) end.
      destruct (HKh k' c Hin) as [u Hu]. right. eapply HN; eauto.
    + intros k c0 H'. destruct (HKh k c0 H') as [u Hu]. exists u. right; auto.
    + intros s0 c0 H'. destruct (HLh s0 c0 H') as [u Hu]. exists u. right; auto.
    + intros c0 H'. destruct (HLch c0 H') as [u Hu]. exists u. right; auto.
    + intros s0 Hf [E|H']; [inversion E | auto].
  - (* miss *)
    repeat split.
    + intros t' a s' [E|H'] Hs; [|right; eapply HN; eauto].
      inversion E; subst. unfold areach in Hs. rewrite sreach_clo in Hs. right.
      match goal with H: Forall _ args |- _ => exact (N_args st t' args s' HN H Hs) end.
    + intros k c0 H'. destruct (HKh k c0 H') as [u Hu]. exists u. right; auto.
    + intros s0 c0 H'. destruct (HLh s0 c0 H') as [u Hu]. exists u. right; auto.
    + intros c0 H'. destruct (HLch c0 H') as [u Hu]. exists u. right; auto.
    + intros s0 Hf [E|H']; [inversion E | auto].
  - (* put *)
    repeat split; auto.
    intros k c0 [E|H']; [inversion E; subst; eauto | eauto].
  - (* bind *)
    repeat split; auto.
    + intros s0 c0 [E|H']; [inversion E; subst; eauto | eauto].
    + intros s0 Hf Hh. destruct (HM s0 Hf Hh) as [c' Hc']. exists c'. right; auto.
  - (* finish *)
    repeat split; auto.
    intros s0 [E|Hf] Hh; [|auto].
    match goal with H: forall s, In (t, AStub s) _ -> _ -> exists c, _ |- _ => apply H end; [rewrite E; exact Hh | auto].
  - (* lc_put *)
    repeat split; auto.
    intros c0 E. inversion E; subst. eauto.
  - (* lc_get *)
    repeat split.
    + intros t' a s' [E|H'] Hs; [|right; eapply HN; eauto].
      inversion E; subst. simpl in Hs.
      match goal with H: lc st = Some _ |- _ => destruct (HLch _ H) as [u Hu] end. right. eapply HN; eauto.
    + intros k c0 H'. destruct (HKh k c0 H') as [u Hu]. exists u. right; auto.
    + intros s0 c0 H'. destruct (HLh s0 c0 H') as [u Hu]. exists u. right; auto.
    + intros c0 H'. destruct (HLch c0 H') as [u Hu]. exists u. right; auto.
    + intros s0 Hf [E|H']; [inversion E | auto].
Qed.

Theorem inv2_reachable st : reachable st -> Inv2 st.
Proof.
  induction 1 as [|st st' _ IH Hs]; [|eapply inv2_step; eauto].
  unfold Inv2, N, Kh, Lh, Lch, M, holds, is_bound, init; simpl.
  repeat split; intros; try contradiction; try discriminate.
Qed.

(* ---- what invoking a closure touches: structure, then through set stubs ---- *)
Inductive calls (st:state) (c:clo) : sid -> Prop :=
| C_direct s : In s (sreach c) -> calls st c s
| C_through s0 c' s : calls st c s0 -> In (s0,c') (bound st) -> In s (sreach c') -> calls st c s.

Theorem conc_safe st t c s :
  reachable st -> In t (fin st) -> holds st t (AClo c) -> calls st c s -> is_bound st s.
Proof.
  intros HR Hfin Hh Hc.
  destruct (inv_reachable st HR) as (HJ & HK & HL & HLc).
  destruct (inv2_reachable st HR) as (HN & HKh & HLh & HLch & HM).
  assert (Hown: In (owner s) (fin st) /\ holds st (owner s) (AStub s)).
  { induction Hc as [s Hs | s0 c' s Hc0 IH Hb Hs].
    - split.
      + destruct (HJ t (AClo c) s Hh Hs) as [E|F]; [rewrite E; exact Hfin | exact F].
      + eapply HN; eauto.
    - destruct IH as [IHf IHh]. split.
      + destruct (HL s0 c' s Hb Hs) as [E|F]; [rewrite E; exact IHf | exact F].
      + destruct (HLh s0 c' Hb) as [u Hu]. eapply HN; eauto. }
  destruct Hown. apply HM; assumption.
Qed.
End Proofs.

(* ================= the code as it is: stubs equal by location ================= *)
Section Refuted.
Let owner (s:sid) : tid := s.          (* stub 0 made by thread 0 (A), stub 1 by thread 1 (B) *)
Let loc (s:sid) : nat := 0.            (* both stand for the same location *)
Notation stepL := (step false loc owner).

Definition c1 := Clo 0 7 [AStub 0].
Definition c2 := Clo 1 8 [AClo c1].

Definition mk cc_ lc_ bound_ hold_ fin_ next_ : state :=
  {| cc := cc_; lc := lc_; bound := bound_; hold := hold_; fin := fin_; next := next_ |}.
Definition h1 := [(0, AStub 0)].
Definition h2 := (0, AClo c1) :: h1.
Definition h4 := (1, AStub 1) :: h2.
Definition h5 := (1, AClo c1) :: h4.
Definition h6 := (1, AClo c2) :: h5.
Definition k1 : key := (7, [AStub 0]).
Definition s0 := init.
Definition s1 := mk [] None [] h1 [] 0.                       (* A: new stub 0 *)
Definition s2 := mk [] None [] h2 [] 1.                       (* A: miss -> c1 *)
Definition s3 := mk [(k1, c1)] None [] h2 [] 1.               (* A: put c1 *)
Definition s4 := mk [(k1, c1)] None [] h4 [] 1.               (* B: new stub 1 *)
Definition s5 := mk [(k1, c1)] None [] h5 [] 1.               (* B: HIT on A's entry (stubs equal by location) *)
Definition s6 := mk [(k1, c1)] None [] h6 [] 2.               (* B: miss -> c2 over c1 *)
Definition s7 := mk [(k1, c1)] None [(1, c2)] h6 [] 2.        (* B: bind its own stub *)
Definition s8 := mk [(k1, c1)] None [(1, c2)] h6 [1] 2.       (* B: finish *)

Lemma st1 : stepL s0 s1. Proof. apply (S_new_stub false loc owner init 0 0); [reflexivity | simpl; tauto]. Qed.
Lemma st2 : stepL s1 s2. Proof. apply (S_miss false loc owner s1 0 7 [AStub 0]). repeat constructor. Qed.
Lemma st3 : stepL s2 s3. Proof. apply (S_put false loc owner s2 0 7 [AStub 0] c1); [left; reflexivity | reflexivity]. Qed.
Lemma st4 : stepL s3 s4. Proof. apply (S_new_stub false loc owner s3 1 1); [reflexivity | simpl; tauto]. Qed.
Lemma st5 : stepL s4 s5.
Proof.
  apply (S_hit false loc owner s4 1 7 [AStub 1] c1).
  - repeat constructor.
  - exists k1. split; [left; reflexivity|]. split; [reflexivity|]. repeat constructor.
Qed.
Lemma st6 : stepL s5 s6. Proof. apply (S_miss false loc owner s5 1 8 [AClo c1]). repeat constructor. Qed.
Lemma st7 : stepL s6 s7.
Proof. apply (S_bind false loc owner s6 1 1 c2); [reflexivity | right; right; left; reflexivity | left; reflexivity | simpl; tauto]. Qed.
Lemma st8 : stepL s7 s8.
Proof.
  apply (S_finish false loc owner s7 1).
  - intros s Hh Ho. exists c2. left. unfold owner in Ho. subst. reflexivity.
  - intros s Ho. unfold owner in Ho. subst. left. right; right; left; reflexivity.
Qed.

Example C12_refuted :
  exists st, Conc.reachable false loc owner st /\ In 1 (fin st) /\ holds st 1 (AClo c2)
             /\ calls st c2 0 /\ ~ is_bound st 0.
Proof.
  exists s8. split.
  { eapply RS; [|exact st8]. eapply RS; [|exact st7]. eapply RS; [|exact st6]. eapply RS; [|exact st5].
    eapply RS; [|exact st4]. eapply RS; [|exact st3]. eapply RS; [|exact st2]. eapply RS; [|exact st1]. apply R0. }
  split; [left; reflexivity|]. split; [left; reflexivity|]. split.
  - apply C_direct. left. reflexivity.
  - intros [c [E|[]]]. inversion E.
Qed.
End Refuted.

(* ================= the executable replay is sound ================= *)
Section CloInd.
Variable P : clo -> Prop.
Variable Q : carg -> Prop.
Hypothesis HC : forall i f refs, Forall Q refs -> P (Clo i f refs).
Hypothesis HK : forall n, Q (AConst n).
Hypothesis HS : forall s, Q (AStub s).
Hypothesis HA : forall c, P c -> Q (AClo c).
Fixpoint clo_ind2 (c : clo) : P c :=
  match c with
  | Clo i f refs => HC i f refs ((fix go (l : list carg) : Forall Q l :=
        match l with [] => Forall_nil _ | a :: r => Forall_cons a (carg_ind2 a) (go r) end) refs)
  end
with carg_ind2 (a : carg) : Q a :=
  match a with AConst n => HK n | AStub s => HS s | AClo c => HA c (clo_ind2 c) end.
End CloInd.

Lemma clo_eqb_unfold i f ra j g rb :
  clo_eqb (Clo i f ra) (Clo j g rb) = Nat.eqb i j && Nat.eqb f g && list_eqb ra rb.
Proof. reflexivity. Qed.

Lemma clo_eqb_eq : forall a b, clo_eqb a b = true -> a = b.
Proof.
  apply (clo_ind2 (fun a => forall b, clo_eqb a b = true -> a = b) (fun x => forall y, carg_eqb x y = true -> x = y)).
  - intros i f refs IH [j g rb] H. rewrite clo_eqb_unfold in H.
    apply andb_true_iff in H. destruct H as [H H3]. apply andb_true_iff in H. destruct H as [H1 H2].
    apply Nat.eqb_eq in H1. apply Nat.eqb_eq in H2. subst. f_equal.
    revert rb H3. induction IH as [|p x Hp _ IHx]; intros [|q y] H3; cbn [list_eqb] in H3; try discriminate; [reflexivity|].
    apply andb_true_iff in H3. destruct H3 as [Ha Hb]. f_equal; [exact (Hp q Ha)|exact (IHx y Hb)].
  - intros n [m| |] H; cbn in H; try discriminate. apply Nat.eqb_eq in H. now subst.
  - intros s0 [|s1|] H; cbn in H; try discriminate. apply Nat.eqb_eq in H. now subst.
  - intros c IH [| |c'] H; cbn [carg_eqb] in H; try discriminate. f_equal. exact (IH c' H).
Qed.

Lemma carg_eqb_eq a b : carg_eqb a b = true -> a = b.
Proof.
  destruct a as [n|s0|c], b as [m|s1|c']; cbn [carg_eqb]; try discriminate; intro H.
  - apply Nat.eqb_eq in H. now subst.
  - apply Nat.eqb_eq in H. now subst.
  - f_equal. exact (clo_eqb_eq c c' H).
Qed.

Section ReplaySound.
Variable by_identity : bool.
Variable loc : sid -> nat.
Variable owner : sid -> tid.
Notation step := (step by_identity loc owner).
Notation apply := (apply by_identity loc owner).

Lemma in_held_by st t a : In a (held_by st t) -> holds st t a.
Proof.
  unfold held_by, holds. intro H. apply in_flat_map in H. destruct H as [[t' a'] [Hin H]]. cbn [fst snd] in H.
  destruct (Nat.eqb t' t) eqn:E; [|destruct H]. apply Nat.eqb_eq in E. subst. destruct H as [<-|[]]. exact Hin.
Qed.

Lemma holds_b_sound st t a : holds_b st t a = true -> holds st t a.
Proof.
  unfold holds_b. intro H. apply existsb_exists in H. destruct H as [x [Hin Hx]]. apply carg_eqb_eq in Hx. subst.
  exact (in_held_by st t x Hin).
Qed.

Lemma find_clo_sound st t id c : find_clo st t id = Some c -> holds st t (AClo c) /\ cid_of c = id.
Proof.
  unfold find_clo. destruct (find _ (held_by st t)) as [[n|s0|c']|] eqn:E; try discriminate. intros [= <-].
  apply find_some in E. destruct E as [Hin Hid]. split; [exact (in_held_by st t _ Hin)|now apply Nat.eqb_eq].
Qed.

Lemma resolve_sound st t ea a : resolve st t ea = Some a -> match a with AConst _ => True | _ => holds st t a end.
Proof.
  destruct ea as [n|s0|id]; cbn [resolve].
  - intros [= <-]. exact I.
  - destruct (holds_b st t (AStub s0)) eqn:E; [|discriminate]. intros [= <-]. exact (holds_b_sound st t _ E).
  - destruct (find_clo st t id) as [c|] eqn:E; [|discriminate]. intros [= <-]. exact (proj1 (find_clo_sound st t id c E)).
Qed.

Lemma resolve_all_sound st t : forall l args, resolve_all st t l = Some args ->
  Forall (fun a => match a with AConst _ => True | _ => holds st t a end) args.
Proof.
  induction l as [|ea r IH]; intros args E; cbn [resolve_all] in E.
  - injection E as <-. constructor.
  - destruct (resolve st t ea) as [x|] eqn:Ex; [|discriminate]. destruct (resolve_all st t r) as [xs|] eqn:Er; [|discriminate].
    injection E as <-. constructor; [exact (resolve_sound st t ea x Ex)|exact (IH xs eq_refl)].
Qed.

Lemma arg_match_b_sound a b : arg_match_b by_identity loc a b = true -> arg_match by_identity loc a b.
Proof.
  destruct a as [n|s0|c], b as [m|s1|c']; cbn [arg_match_b]; try discriminate; intro H.
  - apply Nat.eqb_eq in H. subst. constructor.
  - constructor. destruct by_identity; now apply Nat.eqb_eq.
  - apply clo_eqb_eq in H. subst. constructor.
Qed.

Lemma args_match_b_sound : forall x y, args_match_b by_identity loc x y = true -> Forall2 (arg_match by_identity loc) x y.
Proof.
  induction x as [|p x IH]; intros [|q y] H; cbn [args_match_b] in H; try discriminate; [constructor|].
  apply andb_true_iff in H. destruct H as [H1 H2]. constructor; [exact (arg_match_b_sound p q H1)|exact (IH y H2)].
Qed.

Lemma in_fin_false st t : in_fin st t = false -> ~ In t (fin st).
Proof.
  unfold in_fin. intros H Hin. assert (existsb (Nat.eqb t) (fin st) = true) by (apply existsb_exists; exists t; split; [exact Hin|apply Nat.eqb_refl]).
  congruence.
Qed.
Lemma in_fin_true st t : in_fin st t = true -> In t (fin st).
Proof. unfold in_fin. intro H. apply existsb_exists in H. destruct H as [x [Hin Hx]]. apply Nat.eqb_eq in Hx. now subst. Qed.

Lemma is_bound_b_sound st s : is_bound_b st s = true -> is_bound st s.
Proof.
  unfold is_bound_b, is_bound. intro H. apply existsb_exists in H. destruct H as [[s' c] [Hin Hx]]. cbn [fst] in Hx.
  apply Nat.eqb_eq in Hx. subst. exists c. exact Hin.
Qed.

Lemma held_reach st t a s : holds st t a -> In s (areach a) -> In s (lreach (held_by st t)).
Proof.
  unfold holds, held_by, lreach. intros Hh Hs. apply in_flat_map. exists a. split; [|exact Hs].
  apply in_flat_map. exists (t, a). split; [exact Hh|]. cbn [fst snd]. rewrite Nat.eqb_refl. left. reflexivity.
Qed.

Theorem apply_sound : forall st e st', apply st e = Some st' -> step st st'.
Proof.
  intros st e st' H. destruct e as [t s|t fn eargs id|t fn eargs|t fn eargs id|t s id|t|t id|t]; cbn [Conc.apply] in H.
  - destruct (Nat.eqb (owner s) t && negb (in_fin st t)) eqn:E; [|discriminate]. injection H as <-.
    apply andb_true_iff in E. destruct E as [E1 E2]. apply Nat.eqb_eq in E1. apply negb_true_iff in E2.
    apply S_new_stub; [exact E1|exact (in_fin_false st t E2)].
  - destruct (resolve_all st t eargs) as [args|] eqn:Er; [|discriminate].
    destruct (find _ (cc st)) as [[k' c]|] eqn:Ef; [|discriminate]. injection H as <-.
    apply find_some in Ef. destruct Ef as [Hin Hm]. cbn [fst snd] in Hm. apply andb_true_iff in Hm. destruct Hm as [Hm _].
    unfold key_match_b in Hm. apply andb_true_iff in Hm. destruct Hm as [Hf Ha]. cbn [fst snd] in *. apply Nat.eqb_eq in Hf.
    apply (S_hit by_identity loc owner st t fn args c); [exact (resolve_all_sound st t eargs args Er)|].
    exists k'. split; [exact Hin|]. split; [exact Hf|exact (args_match_b_sound _ _ Ha)].
  - destruct (resolve_all st t eargs) as [args|] eqn:Er; [|discriminate]. injection H as <-.
    apply S_miss. exact (resolve_all_sound st t eargs args Er).
  - destruct (resolve_all st t eargs) as [args|] eqn:Er; [|discriminate].
    destruct (find_clo st t id) as [c|] eqn:Ec; [|discriminate].
    destruct (clo_eqb c (Clo (cid_of c) fn args)) eqn:Ee; [|discriminate]. injection H as <-.
    apply clo_eqb_eq in Ee. apply (S_put by_identity loc owner st t fn args c); [exact (proj1 (find_clo_sound st t id c Ec))|exact Ee].
  - destruct (find_clo st t id) as [c|] eqn:Ec; [|discriminate].
    destruct (Nat.eqb (owner s) t && holds_b st t (AStub s) && negb (in_fin st t)) eqn:E; [|discriminate]. injection H as <-.
    apply andb_true_iff in E. destruct E as [E E3]. apply andb_true_iff in E. destruct E as [E1 E2].
    apply Nat.eqb_eq in E1. apply negb_true_iff in E3.
    apply (S_bind by_identity loc owner st t s c); [exact E1|exact (holds_b_sound st t _ E2)|exact (proj1 (find_clo_sound st t id c Ec))|exact (in_fin_false st t E3)].
  - match type of H with (if ?b then _ else _) = _ => destruct b eqn:E; [|discriminate] end. injection H as <-.
    rewrite forallb_forall in E. apply S_finish.
    + intros s Hh Ho. assert (Hin : In s (filter (fun s0 => Nat.eqb (owner s0) t) (lreach (held_by st t)))).
      { apply filter_In. split; [exact (held_reach st t (AStub s) s Hh (or_introl eq_refl))|now apply Nat.eqb_eq]. }
      specialize (E s Hin). apply andb_true_iff in E. exact (is_bound_b_sound st s (proj2 E)).
    + intros s Ho. destruct (in_dec Nat.eq_dec s (lreach (held_by st t))) as [Hin|Hn].
      * left. assert (Hf : In s (filter (fun s0 => Nat.eqb (owner s0) t) (lreach (held_by st t)))) by (apply filter_In; split; [exact Hin|now apply Nat.eqb_eq]).
        specialize (E s Hf). apply andb_true_iff in E. exact (holds_b_sound st t _ (proj1 E)).
      * right. intros [a [Ha Hs]]. apply Hn. exact (held_reach st t a s Ha Hs).
  - destruct (find_clo st t id) as [c|] eqn:Ec; [|discriminate]. destruct (in_fin st t) eqn:Ef; [|discriminate]. injection H as <-.
    apply (S_lc_put by_identity loc owner st t c); [exact (in_fin_true st t Ef)|exact (proj1 (find_clo_sound st t id c Ec))].
  - destruct (lc st) as [c|] eqn:El; [|discriminate]. injection H as <-. apply (S_lc_get by_identity loc owner st t c El).
Qed.

(* every prefix of a trace the replay accepts is a path of the transition relation *)
Theorem replay_reachable : forall evs st, reachable by_identity loc owner st ->
  reachable by_identity loc owner (snd (replay by_identity loc owner st evs)).
Proof.
  induction evs as [|e r IH]; intros st Hr; cbn [replay]; [exact Hr|].
  destruct (apply st e) as [st'|] eqn:E; [|exact Hr].
  specialize (IH st' (RS by_identity loc owner st st' Hr (apply_sound st e st' E))).
  destruct (replay by_identity loc owner st' r). exact IH.
Qed.
End ReplaySound.
