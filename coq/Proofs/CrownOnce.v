(* C05, "reported exactly once", for generated model loaders (Model/CrownSem.v): in a crown whose mapping nodes have
   pairwise distinct keys, the errors DebugTrail.ALL collects are pairwise different (class with its key set / length,
   and trail) - so, with CrownTrails.model_all_complete, every offence is reported once and only once. *)
From Coq Require Import List Arith Bool String Lia.
From AV Require Import Model.Layout Model.CrownSem Proofs.CrownProofs Proofs.CrownModes Proofs.CrownTrails.
Import ListNotations.
Local Open Scope list_scope.

Definition rel := (ecls * path)%type.                      (* an error with its trail relative to the node *)
Definition abs (p : path) (r : rel) : err := E (fst r) (p ++ snd r).
Definition under_key (k : key) (r : rel) : rel := (fst r, k :: snd r).

Lemma abs_under p k r : abs (p ++ [k]) r = abs p (under_key k r).
Proof. unfold abs, under_key. cbn [fst snd]. now rewrite <- app_assoc. Qed.
Lemma map_abs_under p k rs : map (abs (p ++ [k])) rs = map (abs p) (map (under_key k) rs).
Proof. rewrite map_map. apply map_ext. intro r. apply abs_under. Qed.

Lemma abs_nil p cl : abs p (cl, []) = E cl p.
Proof. unfold abs. cbn [fst snd]. now rewrite app_nil_r. Qed.

Lemma abs_inj p r1 r2 : abs p r1 = abs p r2 -> r1 = r2.
Proof.
  destruct r1 as [c1 q1], r2 as [c2 q2]. unfold abs. cbn [fst snd]. intro H. injection H as Hc Hq.
  apply app_inv_head in Hq. now subst.
Qed.
Lemma under_key_inj k r1 r2 : under_key k r1 = under_key k r2 -> r1 = r2.
Proof. destruct r1, r2. unfold under_key. cbn [fst snd]. intro H. now injection H as -> ->. Qed.

Lemma NoDup_map_inj {A B} (f : A -> B) l : (forall a b, f a = f b -> a = b) -> NoDup l -> NoDup (map f l).
Proof.
  intros Hf H. induction H as [|a l Hn _ IH]; cbn [map]; constructor; auto.
  intro Hin. apply in_map_iff in Hin. destruct Hin as [b [Hb Hin]]. apply Hf in Hb. subst. contradiction.
Qed.

Lemma NoDup_app_disjoint {A} (l1 l2 : list A) : NoDup l1 -> NoDup l2 -> (forall a, In a l1 -> ~ In a l2) -> NoDup (l1 ++ l2).
Proof.
  intros H1 H2 Hd. induction H1 as [|a l Hn _ IH]; cbn [app]; [exact H2|]. constructor.
  - intro Hin. apply in_app_or in Hin. destruct Hin as [Hin|Hin]; [contradiction|]. exact (Hd a (or_introl eq_refl) Hin).
  - apply IH. intros b Hb. apply Hd. now right.
Qed.

Section Once.
Variable info : finfos.
Variable pol : policy.
Notation allc := (all info pol).

Definition all_once (c : crown) : Prop := forall p d s s' x, allc c p d s = GoA s' x ->
  exists rs, errs s' = errs s ++ map (abs p) rs /\ NoDup rs.

(* where the relative errors of the remaining entries of a mapping node can sit *)
Definition dict_place (m : list (string * crown)) (d : pv) (nf : bool) (rest : list (string * crown)) (r : rel) : Prop :=
  (r = (NoReqFields (missing_required info m d), []) /\ nf = false) \/
  (exists k q, snd r = KS k :: q /\ In k (map fst rest)).

Lemma dict_place_tail m d nf nf' k sub rest r : (nf = true -> nf' = true) -> dict_place m d nf' rest r -> dict_place m d nf ((k, sub) :: rest) r.
Proof.
  intros Hnf [[-> Hf]|[k0 [q [Hs Hin]]]].
  - left. split; [reflexivity|]. destruct nf; [now rewrite Hnf in Hf|reflexivity].
  - right. exists k0, q. split; [exact Hs|]. cbn [map fst]. now right.
Qed.

Lemma dict_all_once m p d : forall rest, NoDup (map fst rest) -> Forall (fun kc => all_once (snd kc)) rest ->
  forall s x nf s' x', dict_all info allc m p d rest s x nf = GoA s' x' ->
  exists rs, errs s' = errs s ++ map (abs p) rs /\ NoDup rs /\ forall r, In r rs -> dict_place m d nf rest r.
Proof.
  induction rest as [|[k sub] r IH]; intros Hnd Hall s x nf s' x' H; cbn [dict_all] in H.
  - injection H as <- _. exists []. split; [now rewrite app_nil_r|]. split; [constructor|]. intros r1 Hr1. destruct Hr1.
  - cbn [map fst] in Hnd. inversion Hnd as [|a b Hk Hnd']; subst a b.
    inversion Hall as [|a b Hsub Hr]; subst a b. cbn [snd] in Hsub.
    (* the entry contributes the relative errors rs0, all of them under key k, then the loop goes on *)
    assert (Hgen : forall s1 x1 nf1 rs0,
      dict_all info allc m p d r s1 x1 nf1 = GoA s' x' ->
      errs s1 = errs s ++ map (abs p) rs0 -> NoDup rs0 ->
      (forall r0, In r0 rs0 -> (exists q, snd r0 = KS k :: q) \/ (r0 = (NoReqFields (missing_required info m d), []) /\ nf = false /\ nf1 = true)) ->
      (nf = true -> nf1 = true) ->
      exists rs, errs s' = errs s ++ map (abs p) rs /\ NoDup rs /\ forall r0, In r0 rs -> dict_place m d nf ((k, sub) :: r) r0).
    { intros s1 x1 nf1 rs0 Hloop He0 Hn0 Hp0 Hnf.
      destruct (IH Hnd' Hr s1 x1 nf1 s' x' Hloop) as [rs1 [He1 [Hn1 Hp1]]].
      exists (rs0 ++ rs1). repeat split.
      - rewrite He1, He0, map_app. now rewrite <- app_assoc.
      - apply NoDup_app_disjoint; auto. intros r0 Hin0 Hin1.
        destruct (Hp0 r0 Hin0) as [[q Hq]|[Hr0' [_ Hnf1]]]; destruct (Hp1 r0 Hin1) as [[Hr0 Hf]|[k1 [q1 [Hs1 Hin]]]].
        + rewrite Hr0 in Hq. discriminate.
        + rewrite Hq in Hs1. injection Hs1 as <- _. contradiction.
        + rewrite Hnf1 in Hf. discriminate.
        + rewrite Hr0' in Hs1. discriminate.
      - intros r0 Hin. apply in_app_or in Hin. destruct Hin as [Hin|Hin].
        + destruct (Hp0 r0 Hin) as [[q Hq]|[-> [Hf _]]].
          * right. exists k, q. split; [exact Hq|now left].
          * left. split; [reflexivity|exact Hf].
        + eapply dict_place_tail; [exact Hnf|]. now apply Hp1. }
    assert (Hone : forall e, e = (TypeLE, [KS k]) -> forall r0, In r0 [e] ->
              (exists q, snd r0 = KS k :: q) \/ (r0 = (NoReqFields (missing_required info m d), []) /\ nf = false /\ false = true)).
    { intros e -> r0 [<-|[]]. left. now exists []. }
    destruct (dget d k) as [v| |] eqn:Eg.
    + destruct sub as [i| |m'|m'].
      * destruct v as [|n|str|l|kvs'];
          try (eapply (Hgen _ _ nf [(TypeLE, [KS k])] H);
               [cbn [add_err errs map abs fst snd]; reflexivity|repeat constructor; intros []
               |intros r0 [<-|[]]; left; now exists []|trivial]).
        eapply (Hgen _ _ nf [] H); [cbn [add_field errs map]; now rewrite app_nil_r|constructor|intros r0 []|trivial].
      * eapply (Hgen _ _ nf [] H); [cbn [map]; now rewrite app_nil_r|constructor|intros r0 []|trivial].
      * destruct (allc (CDict m') (p ++ [KS k]) v s) as [s1 sx|] eqn:Ea.
        -- destruct (Hsub _ _ _ _ _ Ea) as [rs1 [He1 Hn1]].
           eapply (Hgen _ _ nf (map (under_key (KS k)) rs1) H).
           ++ rewrite He1. now rewrite map_abs_under.
           ++ apply NoDup_map_inj; [apply under_key_inj|exact Hn1].
           ++ intros r0 Hin. apply in_map_iff in Hin. destruct Hin as [r1 [<- _]]. left. now exists (snd r1).
           ++ trivial.
        -- eapply (Hgen _ _ nf [(TypeLE, [KS k])] H);
             [cbn [add_err errs map abs fst snd]; reflexivity|repeat constructor; intros []
             |intros r0 [<-|[]]; left; now exists []|trivial].
      * destruct (allc (CList m') (p ++ [KS k]) v s) as [s1 sx|] eqn:Ea.
        -- destruct (Hsub _ _ _ _ _ Ea) as [rs1 [He1 Hn1]].
           eapply (Hgen _ _ nf (map (under_key (KS k)) rs1) H).
           ++ rewrite He1. now rewrite map_abs_under.
           ++ apply NoDup_map_inj; [apply under_key_inj|exact Hn1].
           ++ intros r0 Hin. apply in_map_iff in Hin. destruct Hin as [r1 [<- _]]. left. now exists (snd r1).
           ++ trivial.
        -- eapply (Hgen _ _ nf [(TypeLE, [KS k])] H);
             [cbn [add_err errs map abs fst snd]; reflexivity|repeat constructor; intros []
             |intros r0 [<-|[]]; left; now exists []|trivial].
    + assert (Hreq : dict_all info allc m p d r
                       (if nf then s else add_err (E (NoReqFields (missing_required info m d)) p) s) x true = GoA s' x' ->
        exists rs, errs s' = errs s ++ map (abs p) rs /\ NoDup rs /\ forall r0, In r0 rs -> dict_place m d nf ((k, sub) :: r) r0).
      { intro H'. destruct nf.
        - eapply (Hgen _ _ true [] H'); [cbn [map]; now rewrite app_nil_r|constructor|intros r0 []|trivial].
        - eapply (Hgen _ _ true [(NoReqFields (missing_required info m d), [])] H').
          + unfold abs. cbn [add_err errs map fst snd]. now rewrite app_nil_r.
          + repeat constructor. intros [].
          + intros r0 [<-|[]]. right. repeat split.
          + discriminate. }
      destruct sub as [i| |m'|m']; try (apply Hreq; exact H).
      destruct (fi_required (info i)); [apply Hreq; exact H|].
      eapply (Hgen _ _ nf [] H); [cbn [add_field errs map]; now rewrite app_nil_r|constructor|intros r0 []|trivial].
    + discriminate.
Qed.

Lemma list_all_once p d : forall rest i, Forall all_once rest ->
  forall s s' x', list_all allc p d rest i s = GoA s' x' ->
  exists rs, errs s' = errs s ++ map (abs p) rs /\ NoDup rs /\ forall r, In r rs -> exists j q, snd r = KI j :: q /\ i <= j.
Proof.
  induction rest as [|sub r IH]; intros i Hall s s' x' H; cbn [list_all] in H.
  - injection H as <- _. exists []. split; [now rewrite app_nil_r|]. split; [constructor|]. intros r1 Hr1. destruct Hr1.
  - inversion Hall as [|a b Hsub Hr]; subst a b.
    assert (Hgen : forall s1 rs0,
      list_all allc p d r (Datatypes.S i) s1 = GoA s' x' ->
      errs s1 = errs s ++ map (abs p) rs0 -> NoDup rs0 -> (forall r0, In r0 rs0 -> exists q, snd r0 = KI i :: q) ->
      exists rs, errs s' = errs s ++ map (abs p) rs /\ NoDup rs /\ forall r0, In r0 rs -> exists j q, snd r0 = KI j :: q /\ i <= j).
    { intros s1 rs0 Hloop He0 Hn0 Hp0.
      destruct (IH (Datatypes.S i) Hr s1 s' x' Hloop) as [rs1 [He1 [Hn1 Hp1]]].
      exists (rs0 ++ rs1). repeat split.
      - rewrite He1, He0, map_app. now rewrite <- app_assoc.
      - apply NoDup_app_disjoint; auto. intros r0 Hin0 Hin1.
        destruct (Hp0 r0 Hin0) as [q Hq]. destruct (Hp1 r0 Hin1) as [j [q1 [Hs1 Hj]]].
        rewrite Hq in Hs1. injection Hs1 as -> _. lia.
      - intros r0 Hin. apply in_app_or in Hin. destruct Hin as [Hin|Hin].
        + destruct (Hp0 r0 Hin) as [q Hq]. exists i, q. split; [exact Hq|lia].
        + destruct (Hp1 r0 Hin) as [j [q [Hq Hj]]]. exists j, q. split; [exact Hq|lia]. }
    destruct sub as [id| |m'|m'].
    + destruct (lget d i) as [v| |] eqn:Eg; [| |discriminate].
      * destruct v as [|n|str|l|kvs'];
          try (eapply (Hgen _ [(TypeLE, [KI i])] H);
               [cbn [add_err errs map abs fst snd]; reflexivity|repeat constructor; intros []|intros r0 [<-|[]]; now exists []]).
        eapply (Hgen _ [] H); [cbn [add_field errs map]; now rewrite app_nil_r|constructor|intros r0 []].
      * eapply (Hgen _ [] H); [cbn [map]; now rewrite app_nil_r|constructor|intros r0 []].
    + eapply (Hgen _ [] H); [cbn [map]; now rewrite app_nil_r|constructor|intros r0 []].
    + destruct (lget d i) as [v| |] eqn:Eg; [| |discriminate].
      * destruct (allc (CDict m') (p ++ [KI i]) v s) as [s1 sx|] eqn:Ea.
        -- destruct (Hsub _ _ _ _ _ Ea) as [rs1 [He1 Hn1]].
           eapply (Hgen _ (map (under_key (KI i)) rs1) H).
           ++ rewrite He1. now rewrite map_abs_under.
           ++ apply NoDup_map_inj; [apply under_key_inj|exact Hn1].
           ++ intros r0 Hin. apply in_map_iff in Hin. destruct Hin as [r1 [<- _]]. now exists (snd r1).
        -- eapply (Hgen _ [(TypeLE, [KI i])] H);
             [cbn [add_err errs map abs fst snd]; reflexivity|repeat constructor; intros []|intros r0 [<-|[]]; now exists []].
      * eapply (Hgen _ [] H); [cbn [map]; now rewrite app_nil_r|constructor|intros r0 []].
    + destruct (lget d i) as [v| |] eqn:Eg; [| |discriminate].
      * destruct (allc (CList m') (p ++ [KI i]) v s) as [s1 sx|] eqn:Ea.
        -- destruct (Hsub _ _ _ _ _ Ea) as [rs1 [He1 Hn1]].
           eapply (Hgen _ (map (under_key (KI i)) rs1) H).
           ++ rewrite He1. now rewrite map_abs_under.
           ++ apply NoDup_map_inj; [apply under_key_inj|exact Hn1].
           ++ intros r0 Hin. apply in_map_iff in Hin. destruct Hin as [r1 [<- _]]. now exists (snd r1).
        -- eapply (Hgen _ [(TypeLE, [KI i])] H);
             [cbn [add_err errs map abs fst snd]; reflexivity|repeat constructor; intros []|intros r0 [<-|[]]; now exists []].
      * eapply (Hgen _ [] H); [cbn [map]; now rewrite app_nil_r|constructor|intros r0 []].
Qed.

Lemma snoc_once (rs : list rel) (r : rel) : NoDup rs -> ~ In r rs -> NoDup (rs ++ [r]).
Proof.
  intros Hn Hni. apply NoDup_app_disjoint; [exact Hn|repeat constructor; intros []|].
  intros a Ha [<-|[]]. contradiction.
Qed.

Theorem all_reports_once : forall c, wf c -> all_once c.
Proof.
  induction c as [i| |m IH|m IH] using crown_ind'; intros Hwf; unfold all_once; intros p d s s' x H; cbn [all] in H.
  - injection H as <- _. exists []. split; [now rewrite app_nil_r|constructor].
  - injection H as <- _. exists []. split; [now rewrite app_nil_r|constructor].
  - (* mapping node *)
    assert (Hch : Forall (fun kc => all_once (snd kc)) m).
    { pose proof (wf_children m Hwf) as Hw. clear -IH Hw. induction m as [|kc r IHm]; [constructor|].
      inversion IH; subst. inversion Hw; subst. constructor; auto. }
    destruct Hwf as [Hnd _].
    destruct (match m with [] => (match d with VDict _ => GoA s [] | _ => BadA end) | _ => dict_all info allc m p d m s [] false end)
      as [s1 x1|] eqn:Ei; [|discriminate].
    assert (Hinner : exists rs, errs s1 = errs s ++ map (abs p) rs /\ NoDup rs /\ forall r, In r rs -> dict_place m d false m r).
    { destruct m as [|kc r].
      - destruct d; try discriminate. injection Ei as <- _. exists []. split; [now rewrite app_nil_r|]. split; [constructor|]. intros r1 Hr1. destruct Hr1.
      - exact (dict_all_once (kc :: r) p d (kc :: r) Hnd Hch s [] false s1 x1 Ei). }
    destruct Hinner as [rs [He [Hn Hp]]].
    destruct pol.
    + injection H as <- _. exists rs. split; assumption.
    + destruct (unknown_keys m d) as [|k0 ks] eqn:Eu.
      * injection H as <- _. exists rs. split; assumption.
      * injection H as <- _. exists (rs ++ [(ExtraFields (k0 :: ks), [])]). split.
        -- cbn [add_err errs]. rewrite He, map_app. cbn [map]. rewrite abs_nil. now rewrite <- app_assoc.
        -- apply snoc_once; [exact Hn|]. intro Hin. destruct (Hp _ Hin) as [[Hr _]|[k1 [q [Hs _]]]]; discriminate.
    + injection H as <- _. exists rs. split; assumption.
  - (* list node *)
    destruct d; try discriminate.
    assert (Hch : Forall all_once m).
    { pose proof (wf_items m Hwf) as Hw. clear -IH Hw. induction m as [|c r IHm]; [constructor|].
      inversion IH; subst. inversion Hw; subst. constructor; auto. }
    destruct (list_all allc p (VList l) m 0 s) as [s1 x1|] eqn:Ei; [|discriminate].
    destruct (list_all_once p (VList l) m 0 Hch s s1 x1 Ei) as [rs [He [Hn Hp]]].
    assert (Hadd : forall cl, exists rs', errs (add_err (E cl p) s1) = errs s ++ map (abs p) rs' /\ NoDup rs').
    { intro cl. exists (rs ++ [(cl, [])]). split.
      - cbn [add_err errs]. rewrite He, map_app. cbn [map]. rewrite abs_nil. now rewrite <- app_assoc.
      - apply snoc_once; [exact Hn|]. intro Hin. destruct (Hp _ Hin) as [j [q [Hs _]]]. discriminate. }
    destruct (Nat.ltb (data_len (VList l)) (List.length m)).
    + injection H as <- _. apply Hadd.
    + destruct (is_forbid pol && Nat.ltb (List.length m) (data_len (VList l))).
      * injection H as <- _. apply Hadd.
      * injection H as <- _. exists rs. split; assumption.
Qed.

(* in terms of [load] *)
Theorem model_all_errors_are_distinct c d es : wf c -> load info pol All c d = Group es -> NoDup es.
Proof.
  intros Hwf. cbn [load]. destruct (all info pol c [] d {| fields := []; errs := [] |}) as [s' x|] eqn:Ea.
  - destruct (all_reports_once c Hwf _ _ _ _ _ Ea) as [rs [He Hn]]. cbn [errs app] in He. rewrite He.
    destruct (map (abs []) rs) eqn:Em; [discriminate|]. intro H. injection H as <-. rewrite <- Em.
    apply NoDup_map_inj; [apply abs_inj|exact Hn].
  - intro H. injection H as <-. repeat constructor. intros [].
Qed.
End Once.
