(* C13 - proofs about Model/Conv.v: the search for the source of a destination field *)
From Coq Require Import List Arith Bool String.
From AV Require Import Model.Conv.
Import ListNotations.
Local Open Scope string_scope.
Local Open Scope list_scope.

(* ---- linking by name: a same-named extra parameter wins over the source field - for top-level fields only ---- *)
Theorem param_beats_field_at_top_level : forall fields params dst,
  mem dst params = true -> default_link true fields params dst = Some (LField (SrcParam dst) None).
Proof. intros fields params dst H. unfold default_link. cbn. now rewrite H. Qed.

Theorem nested_fields_ignore_parameters : forall fields params dst,
  default_link false fields params dst = if mem dst fields then Some (LField (SrcField dst) None) else None.
Proof. reflexivity. Qed.

Theorem field_by_name_otherwise : forall top fields params dst,
  (top && mem dst params) = false -> mem dst fields = true ->
  default_link top fields params dst = Some (LField (SrcField dst) None).
Proof. intros top fields params dst H1 H2. unfold default_link. now rewrite H1, H2. Qed.

(* the rightmost parameter of a name is the one that is read *)
Theorem rightmost_parameter_is_read : forall data ctx name v later,
  ~ In name (map fst later) -> fetch (SrcParam name) data (ctx ++ (name, v) :: later) = Some v.
Proof.
  intros data ctx name v later Hn. cbn [fetch]. rewrite rev_app_distr. cbn [rev]. rewrite <- app_assoc. cbn [app].
  assert (H : forall l, ~ In name (map fst l) -> forall rest, lookup name (rev l ++ rest) = lookup name rest).
  { induction l as [|[k x] r IH]; intros Hl rest; [reflexivity|]. cbn [rev]. rewrite <- app_assoc. cbn [app].
    rewrite IH; [|intro Hc; apply Hl; right; exact Hc]. cbn [lookup].
    destruct (String.eqb name k) eqn:E; [|reflexivity]. apply String.eqb_eq in E. subst. exfalso. apply Hl. left. reflexivity. }
  rewrite (H later Hn). cbn [lookup]. now rewrite String.eqb_refl.
Qed.

(* ---- the recipe is searched in order; the first provider that provides decides ---- *)
Definition provides (p : lprov) (fields params : list string) (dst : string) : option linking :=
  match p with
  | PLink sp d c => if String.eqb d dst then option_map (fun s => LField s c) (match_source sp fields params) else None
  | PConst d v => if String.eqb d dst then Some (LConst v) else None
  | PFunc fn d kw pos =>
      if String.eqb d dst
      then Some (if forallb (fun k => mem k fields) kw && forallb (fun k => mem k params) pos then LFunc fn kw pos else LError)
      else None
  | PAllowUnlinked _ => None
  end.

Theorem first_matching_provider_decides : forall p rest top fields params dst,
  find_link (p :: rest) top fields params dst =
    match provides p fields params dst with Some l => Some l | None => find_link rest top fields params dst end.
Proof.
  intros p rest top fields params dst. destruct p as [sp d c|d v|fn d kw pos|d]; cbn [find_link provides].
  - destruct (String.eqb d dst); [|reflexivity]. destruct (match_source sp fields params); reflexivity.
  - destruct (String.eqb d dst); reflexivity.
  - destruct (String.eqb d dst); [|reflexivity]. destruct (forallb _ kw && forallb _ pos); reflexivity.
  - reflexivity.
Qed.

Corollary earlier_link_overrides_later : forall sp d c rest top fields params s,
  match_source sp fields params = Some s ->
  find_link (PLink sp d c :: rest) top fields params d = Some (LField s c).
Proof. intros. rewrite first_matching_provider_decides. cbn. rewrite String.eqb_refl, H. reflexivity. Qed.

Corollary no_provider_means_by_name : forall top fields params dst,
  find_link [] top fields params dst = default_link top fields params dst.
Proof. reflexivity. Qed.

(* from_param reaches any level: the search does not look at the nesting depth *)
Theorem from_param_reaches_any_level : forall n d c rest top fields params,
  mem n params = true -> find_link (PLink (SParam n) d c :: rest) top fields params d = Some (LField (SrcParam n) c).
Proof. intros. apply earlier_link_overrides_later. cbn. now rewrite H. Qed.

(* a source named by a plain string is looked for among the fields first, then among the parameters *)
Theorem name_prefers_field_over_parameter : forall s fields params,
  mem s fields = true -> match_source (SName s) fields params = Some (SrcField s).
Proof. intros s fields params H. cbn. now rewrite H. Qed.

(* ---- extra source fields are ignored ---- *)
Definition mentions (p : lprov) (x : string) : bool :=
  match p with
  | PLink (SName s) _ _ => String.eqb s x
  | PFunc _ _ kw _ => mem x kw
  | _ => false
  end.

Lemma mem_app_single s l x : mem s (l ++ [x]) = mem s l || String.eqb s x.
Proof. unfold mem. rewrite existsb_app. cbn. now rewrite orb_false_r. Qed.

Lemma forallb_mem_extra kw l x : mem x kw = false -> forallb (fun k => mem k (l ++ [x])) kw = forallb (fun k => mem k l) kw.
Proof.
  induction kw as [|k r IH]; intro H; [reflexivity|]. cbn [mem existsb] in H. apply orb_false_iff in H. destruct H as [H1 H2].
  cbn [forallb]. rewrite mem_app_single. rewrite (IH H2).
  assert (String.eqb k x = false) as -> by (rewrite String.eqb_sym; exact H1). now rewrite orb_false_r.
Qed.

Theorem extra_source_field_is_ignored : forall recipe top fields params dst x,
  existsb (fun p => mentions p x) recipe = false -> String.eqb dst x = false ->
  find_link recipe top (fields ++ [x]) params dst = find_link recipe top fields params dst.
Proof.
  induction recipe as [|p rest IH]; intros top fields params dst x Hm Hd.
  - cbn [find_link]. unfold default_link. rewrite mem_app_single, Hd, orb_false_r. reflexivity.
  - cbn [existsb] in Hm. apply orb_false_iff in Hm. destruct Hm as [Hp Hr].
    destruct p as [[s|s] d c|d v|fn d kw pos|d]; cbn [find_link]; try rewrite (IH top fields params dst x Hr Hd); try reflexivity.
    + cbn [mentions] in Hp. cbn [match_source]. rewrite mem_app_single, Hp, orb_false_r. reflexivity.
    + cbn [mentions] in Hp. rewrite (forallb_mem_extra kw fields x Hp). reflexivity.
Qed.

(* ---- the converter gives every destination field exactly one value, in the order of the destination ---- *)
Lemma all_some_length {A} (l : list (option A)) t : all_some l = Some t -> List.length t = List.length l.
Proof.
  revert t. induction l as [|[x|] r IH]; intros t E; cbn [all_some] in E; [injection E as <-; reflexivity| |discriminate].
  destruct (all_some r) as [t'|]; [|discriminate]. injection E as <-. cbn. f_equal. exact (IH t' eq_refl).
Qed.

Theorem every_destination_field_gets_one_value : forall recipe ctx fuel top data scls sfs cls dfs r,
  convert recipe ctx (S fuel) top data (TyModel scls sfs) (TyModel cls dfs) = Some r ->
  exists vals, r = CObj cls vals /\ map fst vals = map (fun f => fst (fst (fst f))) dfs.
Proof.
  intros recipe ctx fuel top data scls sfs cls dfs r E. cbn [convert] in E.
  match type of E with
  | match all_some (map ?one dfs) with _ => _ end = _ => set (one_ := one) in E
  end.
  destruct (all_some (map one_ dfs)) as [sts|] eqn:Ea; [|discriminate]. injection E as <-.
  eexists. split; [reflexivity|].
  (* every status is Some (name, _) with the name of its field *)
  assert (G : forall l sts', all_some (map one_ l) = Some sts' ->
              map fst (flat_map (fun s : option (string * cval) => match s with Some kv => [kv] | None => [] end) sts') =
              map (fun f : string * cty * bool * nat => fst (fst (fst f))) l).
  { induction l as [|[[[name ty] req] dflt] l' IH]; intros sts' Es; cbn [map all_some] in Es.
    - injection Es as <-. reflexivity.
    - destruct (one_ (name, ty, req, dflt)) as [st|] eqn:Eo; [|discriminate].
      destruct (all_some (map one_ l')) as [t|] eqn:Et; [|discriminate]. injection Es as <-.
      cbn [flat_map map fst]. rewrite map_app, (IH t eq_refl).
      assert (Hst : exists v, st = Some (name, v)).
      { unfold one_ in Eo.
        repeat match type of Eo with
               | match ?X with _ => _ end = _ => destruct X; try discriminate
               end.
        all: injection Eo as <-; eexists; reflexivity. }
      destruct Hst as [v ->]. reflexivity. }
  exact (G dfs sts Ea).
Qed.
