From Coq Require Import List Arith Bool Lia.
From AV Require Import Model.Coerce.
Import ListNotations.

Section Ind.
Variable P : ty -> Prop.
Hypothesis H1 : P TAny. Hypothesis H2 : P TNone. Hypothesis H3 : forall c, P (TCls c).
Hypothesis H4 : forall k t, P t -> P (TList k t). Hypothesis H5 : forall k v, P k -> P v -> P (TDict k v).
Hypothesis H6 : forall t, P t -> P (TOpt t). Hypothesis H7 : forall ts, Forall P ts -> P (TUnion ts).
Fixpoint ty_ind' (t:ty) : P t :=
  match t with
  | TAny => H1 | TNone => H2 | TCls c => H3 c | TList k t => H4 k _ (ty_ind' t)
  | TDict k v => H5 _ _ (ty_ind' k) (ty_ind' v) | TOpt t => H6 _ (ty_ind' t)
  | TUnion ts => H7 _ ((fix go (l:list ty) : Forall P l := match l with [] => Forall_nil _ | x::r => Forall_cons _ (ty_ind' x) (go r) end) ts)
  end.
End Ind.

Lemma ty_eqb_eq : forall a b, ty_eqb a b = true -> a = b.
Proof.
  induction a as [| |c|kk t IH|k v IHk IHv|t IH|ts IH] using ty_ind'; destruct b; simpl; try discriminate; auto.
  - intro H. apply Nat.eqb_eq in H. now subst.
  - intro H. apply andb_true_iff in H. destruct H as [H1 H2]. apply Nat.eqb_eq in H1. subst. f_equal; auto.
  - intro H. apply andb_true_iff in H. destruct H. f_equal; auto.
  - intro H. f_equal; auto.
  - intro H. f_equal. revert ts0 H. induction IH as [|x r Hx _ IHr]; destruct ts0; try discriminate; auto.
    intro H. apply andb_true_iff in H. destruct H. f_equal; auto.
Qed.


(* the pinned tree: List[int] is passed unchanged into Optional[List[str]] *)
Theorem as_coded_refuted :
  let subc := Nat.eqb in let INT := TCls 0 in let STR := TCls 1 in
  exists v, coercible subc true (TList 0 INT) (TOpt (TList 0 STR)) = Some AsIs
         /\ has_type subc (TList 0 INT) v = true
         /\ has_type subc (TOpt (TList 0 STR)) (apply AsIs v) = false.
Proof. exists (VList [VObj 0]). vm_compute. auto. Qed.

Section Sound.
Variable subc : nat -> nat -> bool.
Hypothesis subc_trans : forall a b c, subc a b = true -> subc b c = true -> subc a c = true.
Notation has_type := (has_type subc). Notation as_is := (as_is subc false). Notation coercible := (coercible subc false).

Lemma mem_in t ts : mem t ts = true -> In t ts.
Proof. unfold mem. rewrite existsb_exists. intros (x & Hx & E). apply ty_eqb_eq in E. now subst. Qed.

(* a value of a union-like type is a value of one of its cases, and conversely *)
Lemma cases_sound t cs v : cases_of t = Some cs -> (has_type t v = true <-> exists c, In c cs /\ has_type c v = true).
Proof.
  destruct t; simpl; try discriminate; intro H; inversion H; subst; clear H.
  - split.
    + destruct v; intro Hv; try (exists t; split; [left; auto | exact Hv]). exists TNone. split; [right; left; auto|reflexivity].
    + intros (c & [<-|[<-|[]]] & Hc); destruct v; simpl in *; auto; discriminate.
  - rewrite existsb_exists. tauto.
Qed.

Lemma as_is_sound s d v : as_is s d = true -> has_type s v = true -> has_type d v = true.
Proof.
  unfold Coerce.as_is. intros H Hv.
  apply orb_true_iff in H. destruct H as [H|H]; [apply orb_true_iff in H; destruct H as [H|H]; [apply orb_true_iff in H; destruct H as [H|H]|]|].
  - apply ty_eqb_eq in H. now subst.
  - destruct d; try discriminate. reflexivity.
  - destruct (cases_of d) as [ds|] eqn:Ed; [|discriminate]. apply (cases_sound d ds v Ed).
    destruct (cases_of s) as [ss|] eqn:Es.
    + apply (cases_sound s ss v Es) in Hv. destruct Hv as (c & Hc & Hcv).
      rewrite forallb_forall in H. specialize (H c Hc). apply mem_in in H. eauto.
    + apply mem_in in H. eauto.
  - destruct s, d; try discriminate. simpl in *. destruct v; try discriminate. eapply subc_trans; eauto.
Qed.

Theorem coercer_sound : forall s d c v, coercible s d = Some c -> has_type s v = true -> has_type d (apply c v) = true.
Proof.
  induction s as [| |n|kk s IH|sk sv IHk IHv|s IH|ss IH] using ty_ind'; intros d c v Hc Hv;
    destruct d; cbn [Coerce.coercible] in Hc;
    try (match type of Hc with (if ?b then _ else _) = _ => destruct b eqn:Ea; [|discriminate] end;
         inversion Hc; subst; simpl apply; eapply as_is_sound; eauto; fail).
  - (* list -> list *)
    destruct (coercible s d) as [c'|] eqn:E; [|discriminate]. inversion Hc; subst. simpl in Hv.
    destruct v; try discriminate. simpl. rewrite forallb_forall in *. intros y Hy.
    apply in_map_iff in Hy. destruct Hy as (x & <- & Hx). eapply IH; eauto.
  - (* dict -> dict *)
    destruct (coercible sk d1) as [a|] eqn:E1; [|discriminate]. destruct (coercible sv d2) as [b|] eqn:E2; [|discriminate].
    inversion Hc; subst. simpl in Hv. destruct v; try discriminate. simpl. rewrite forallb_forall in *. intros y Hy.
    apply in_map_iff in Hy. destruct Hy as ([k w] & <- & Hx). specialize (Hv _ Hx). simpl in *.
    apply andb_true_iff in Hv. destruct Hv. apply andb_true_iff. split; [eapply IHk | eapply IHv]; eauto.
  - (* optional -> optional *)
    destruct (coercible s d) as [c'|] eqn:E; [|discriminate]. inversion Hc; subst.
    destruct v; simpl in *; auto;
      match goal with |- context[apply c' ?x] => specialize (IH d c' x E Hv); destruct (apply c' x); auto end.
Qed.
End Sound.

(* the documented relation: the tutorial's list of implicit coercions *)
Section Doc.
Variable subc : nat -> nat -> bool.
Inductive DocRel : ty -> ty -> Prop :=
| DSame t : DocRel t t
| DAny s : DocRel s TAny
| DSub a b : subc a b = true -> DocRel (TCls a) (TCls b)
| DUnion s d ds ss : cases_of d = Some ds -> cases_of s = Some ss -> (forall x, In x ss -> In x ds) -> DocRel s d
| DCase s d ds : cases_of d = Some ds -> cases_of s = None -> In s ds -> DocRel s d
| DList k k' s d : DocRel s d -> DocRel (TList k s) (TList k' d)
| DDict sk sv dk dv : DocRel sk dk -> DocRel sv dv -> DocRel (TDict sk sv) (TDict dk dv)
| DOpt s d : DocRel s d -> DocRel (TOpt s) (TOpt d).

Lemma mem_in' t ts : mem t ts = true -> In t ts.
Proof. unfold mem. rewrite existsb_exists. intros (x & Hx & E). apply ty_eqb_eq in E. now subst. Qed.

Lemma as_is_documented s d : as_is subc false s d = true -> DocRel s d.
Proof.
  unfold as_is. intro H.
  apply orb_true_iff in H. destruct H as [H|H]; [apply orb_true_iff in H; destruct H as [H|H]; [apply orb_true_iff in H; destruct H as [H|H]|]|].
  - apply ty_eqb_eq in H. subst. constructor.
  - destruct d; try discriminate. constructor.
  - destruct (cases_of d) as [ds|] eqn:Ed; [|discriminate]. destruct (cases_of s) as [ss|] eqn:Es.
    + eapply DUnion; eauto. intros x Hx. rewrite forallb_forall in H. apply mem_in'. auto.
    + eapply DCase; eauto. now apply mem_in'.
  - destruct s, d; try discriminate. now constructor.
Qed.

Theorem coercer_documented : forall s d c, coercible subc false s d = Some c -> DocRel s d.
Proof.
  induction s as [| |n|kk s IH|sk sv IHk IHv|s IH|ss IH] using ty_ind'; intros d c Hc;
    destruct d; cbn [coercible] in Hc;
    try (match type of Hc with (if ?b then _ else _) = _ => destruct b eqn:Ea; [|discriminate] end;
         now apply as_is_documented).
  - destruct (coercible subc false s d) eqn:E; [|discriminate]. constructor. eapply IH; eauto.
  - destruct (coercible subc false sk d1) eqn:E1; [|discriminate]. destruct (coercible subc false sv d2) eqn:E2; [|discriminate].
    constructor; [eapply IHk | eapply IHv]; eauto.
  - destruct (coercible subc false s d) eqn:E; [|discriminate]. constructor. eapply IH; eauto.
Qed.
End Doc.
