(* C20, "repeating a call with EQUAL arguments gives equal results": two arguments that are equal as values (they may be
   different objects: `erase` forgets identities) give, from whatever allocation counters, results equal as values, and
   the two executions fail together.  Generalises Proofs/HeapDeterm.v (same argument). *)
From Coq Require Import List Arith Bool.
From AV Require Import Model.Heap Proofs.HeapProofs Proofs.HeapDeterm.
Import ListNotations.

Lemma map_eq_forall2 {A B} (f : A -> B) : forall l1 l2, map f l1 = map f l2 -> Forall2 (fun a b => f a = f b) l1 l2.
Proof.
  induction l1 as [|a r IH]; intros [|b s] H; cbn in H; try discriminate; [constructor|].
  injection H as Ha Hr. constructor; [exact Ha|now apply IH].
Qed.

Section MapStep2.
Variables A B EB : Type.
Variable R : A -> A -> Prop.
Variables step1 step2 : A -> nat -> option (B * list nat * nat).
Variable eb : B -> EB.

Lemma map_step_determ2 : forall l1 l2, Forall2 R l1 l2 ->
  (forall a b, R a b -> forall n m, estep eb (step1 a n) = estep eb (step2 b m)) ->
  forall n m, emap eb (map_step step1 l1 n) = emap eb (map_step step2 l2 m).
Proof.
  intros l1 l2 HF H. induction HF as [|a b r s Hab _ IH]; intros n m; cbn [map_step]; [reflexivity|].
  pose proof (H a b Hab n m) as Ha.
  destruct (step1 a n) as [[[x b1] n1]|], (step2 b m) as [[[y b2] m1]|]; cbn in Ha; try discriminate; [|reflexivity].
  injection Ha as Ha. specialize (IH n1 m1).
  destruct (map_step step1 r n1) as [[[t b3] n2]|], (map_step step2 s m1) as [[[u b4] m2]|]; cbn in IH; try discriminate; [|reflexivity].
  injection IH as IH. cbn. now rewrite Ha, IH.
Qed.
End MapStep2.
Arguments map_step_determ2 {A B EB} R step1 step2 eb l1 l2.

Definition determ2 (p : plan) : Prop := forall v1 v2 n m, erase v1 = erase v2 -> eres (exec p v1 n) = eres (exec p v2 m).

Definition eqv (a b : hv) : Prop := erase a = erase b.
Definition eqkv (a b : hv * hv) : Prop := erase (fst a) = erase (fst b) /\ erase (snd a) = erase (snd b).
Definition eqf (a b : nat * hv) : Prop := fst a = fst b /\ erase (snd a) = erase (snd b).

Lemma elements_erase v1 v2 : erase v1 = erase v2 ->
  match elements v1, elements v2 with
  | Some l1, Some l2 => Forall2 eqv l1 l2
  | None, None => True
  | _, _ => False
  end.
Proof.
  destruct v1, v2; cbn; intro H; try discriminate; try exact I; injection H as H; now apply map_eq_forall2.
Qed.

Lemma dict_erase id1 kv1 id2 kv2 : erase (HDict id1 kv1) = erase (HDict id2 kv2) -> Forall2 eqkv kv1 kv2.
Proof.
  cbn. intro H. injection H as H. revert kv2 H. induction kv1 as [|[a x] r IH]; intros [|[b y] s] H; cbn in H; try discriminate; [constructor|].
  injection H as Ha Hx Hr. constructor; [split; assumption|now apply IH].
Qed.
Lemma obj_erase id1 c1 fs1 id2 c2 fs2 : erase (HObj id1 c1 fs1) = erase (HObj id2 c2 fs2) -> c1 = c2 /\ Forall2 eqf fs1 fs2.
Proof.
  cbn. intro H. injection H as Hc H. split; [exact Hc|]. revert fs2 H.
  induction fs1 as [|[i x] r IH]; intros [|[j y] s] H; cbn in H; try discriminate; [constructor|].
  injection H as Hi Hx Hr. constructor; [split; assumption|now apply IH].
Qed.

Lemma atom_eqb_erase a b k : erase a = erase b -> hv_eqb_atom a k = hv_eqb_atom b k.
Proof. destruct a, b; cbn; intro H; try discriminate; try reflexivity. now injection H as ->. Qed.

Lemma lookup_key_erase k kv1 kv2 : Forall2 eqkv kv1 kv2 ->
  match lookup_key k kv1, lookup_key k kv2 with
  | Some x, Some y => erase x = erase y
  | None, None => True
  | _, _ => False
  end.
Proof.
  induction 1 as [|[a x] [b y] r s [Ha Hx] _ IH]; cbn [lookup_key]; [exact I|]. cbn [fst snd] in Ha, Hx.
  rewrite (atom_eqb_erase a b k Ha). destruct (hv_eqb_atom b k); [exact Hx|exact IH].
Qed.
Lemma lookup_field_erase i fs1 fs2 : Forall2 eqf fs1 fs2 ->
  match lookup_field i fs1, lookup_field i fs2 with
  | Some x, Some y => erase x = erase y
  | None, None => True
  | _, _ => False
  end.
Proof.
  induction 1 as [|[j x] [j' y] r s [Hj Hx] _ IH]; cbn [lookup_field]; [exact I|]. cbn [fst snd] in Hj, Hx. subst j'.
  destruct (Nat.eqb i j); [exact Hx|exact IH].
Qed.

Definition ekv (e : hv * hv) : ev * ev := (erase (fst e), erase (snd e)).
Lemma forall2_eqkv_map kv1 kv2 : Forall2 eqkv kv1 kv2 -> map ekv kv1 = map ekv kv2.
Proof. induction 1 as [|a b r s [H1 H2] _ IH]; cbn; [reflexivity|]. unfold ekv at 1 3. now rewrite H1, H2, IH. Qed.

Lemma unknown_erase fields kv1 kv2 : Forall2 eqkv kv1 kv2 ->
  map ekv (filter (fun e => negb (known_key fields (fst e))) kv1) = map ekv (filter (fun e => negb (known_key fields (fst e))) kv2).
Proof.
  induction 1 as [|a b r s [H1 H2] _ IH]; cbn [filter]; [reflexivity|].
  assert (Hk : known_key fields (fst a) = known_key fields (fst b)).
  { clear -H1. unfold known_key. induction fields as [|f fr IHf]; cbn [existsb]; [reflexivity|].
    rewrite (atom_eqb_erase (fst a) (fst b) _ H1). f_equal. exact IHf. }
  rewrite Hk. destruct (negb (known_key fields (fst b))); cbn [map]; [|exact IH]. unfold ekv at 1 3. now rewrite H1, H2, IH.
Qed.

Lemma unpacked_erase fs1 fs2 : Forall2 eqf fs1 fs2 -> forall extra,
  match unpacked fs1 extra, unpacked fs2 extra with
  | Some a, Some b => map ekv a = map ekv b
  | None, None => True
  | _, _ => False
  end.
Proof.
  intros HF. induction extra as [|fi r IH]; cbn [unpacked]; [reflexivity|].
  pose proof (lookup_field_erase fi fs1 fs2 HF) as L.
  destruct (lookup_field fi fs1) as [x|], (lookup_field fi fs2) as [y|]; try contradiction; [|exact I].
  destruct x, y; cbn in L; try discriminate; try exact I.
  injection L as L.
  destruct (unpacked fs1 r) as [a|], (unpacked fs2 r) as [b|]; try contradiction; [|exact I].
  rewrite !map_app. f_equal; [|exact IH].
  transitivity (map (fun e : hv * hv => match e with (a0, b0) => (erase a0, erase b0) end) kv); [apply map_ext; now intros [? ?]|].
  rewrite L. apply map_ext. now intros [? ?].
Qed.

Lemma erase_dict_ekv id kv : erase (HDict id kv) = EDict (map ekv kv).
Proof. cbn. f_equal. apply map_ext. now intros [? ?]. Qed.
Lemma erase_obj_pairs id cls fs : erase (HObj id cls fs) = EObj cls (map (fun e : nat * hv => (fst e, erase (snd e))) fs).
Proof. cbn. f_equal. apply map_ext. now intros [? ?]. Qed.

Lemma forall2_self_in {A} (l : list A) : Forall2 (fun a b => a = b /\ In a l) l l.
Proof.
  assert (H : forall l0, incl l0 l -> Forall2 (fun a b => a = b /\ In a l) l0 l0).
  { induction l0 as [|a r IH]; intro Hi; constructor; [split; [reflexivity|apply Hi; now left]|]. apply IH. intros x Hx. apply Hi. now right. }
  apply H. apply incl_refl.
Qed.

Theorem exec_determ2 : forall p, determ2 p.
Proof.
  induction p using plan_ind'; unfold determ2; intros v1 v2 n m He; cbn [exec].
  - cbn. now rewrite He.
  - destruct v1, v2; cbn in He |- *; try discriminate; try reflexivity. now rewrite He.
  - (* list *)
    pose proof (elements_erase v1 v2 He) as El.
    destruct (elements v1) as [l1|], (elements v2) as [l2|]; try contradiction; [|reflexivity].
    pose proof (map_step_determ2 eqv (exec p) (exec p) erase l1 l2 El (fun a b Hab n0 m0 => IHp a b n0 m0 Hab) (S n) (S m)) as M.
    destruct (map_step (exec p) l1 (S n)) as [[[r1 b1] n1]|], (map_step (exec p) l2 (S m)) as [[[r2 b2] m1]|]; cbn in M; try discriminate; [|reflexivity].
    injection M as M. cbn. now rewrite M.
  - (* tuple *)
    pose proof (elements_erase v1 v2 He) as El.
    destruct (elements v1) as [l1|], (elements v2) as [l2|]; try contradiction; [|reflexivity].
    pose proof (map_step_determ2 eqv (exec p) (exec p) erase l1 l2 El (fun a b Hab n0 m0 => IHp a b n0 m0 Hab) n m) as M.
    destruct (map_step (exec p) l1 n) as [[[r1 b1] n1]|], (map_step (exec p) l2 m) as [[[r2 b2] m1]|]; cbn in M; try discriminate; [|reflexivity].
    injection M as M. cbn. now rewrite M.
  - (* set *)
    pose proof (elements_erase v1 v2 He) as El.
    destruct (elements v1) as [l1|], (elements v2) as [l2|]; try contradiction; [|reflexivity].
    pose proof (map_step_determ2 eqv (exec p) (exec p) erase l1 l2 El (fun a b Hab n0 m0 => IHp a b n0 m0 Hab) (S n) (S m)) as M.
    destruct (map_step (exec p) l1 (S n)) as [[[r1 b1] n1]|], (map_step (exec p) l2 (S m)) as [[[r2 b2] m1]|]; cbn in M; try discriminate; [|reflexivity].
    injection M as M. cbn. now rewrite M.
  - (* dict *)
    destruct v1 as [| | | |id1 kv1|], v2 as [| | | |id2 kv2|]; cbn in He; try discriminate; try reflexivity.
    pose proof (dict_erase id1 kv1 id2 kv2 He) as Hkv.
    assert (Hitem : forall a b, eqkv a b -> forall n0 m0,
              estep ekv (item_step (exec p1) (exec p2) a n0) = estep ekv (item_step (exec p1) (exec p2) b m0)).
    { intros a b [Hk Hx] n0 m0. unfold item_step. pose proof (IHp1 (fst a) (fst b) n0 m0 Hk) as K.
      destruct (exec p1 (fst a) n0) as [[[k1 b1] n1]|], (exec p1 (fst b) m0) as [[[k2 b2] m1]|]; cbn in K; try discriminate; [|reflexivity].
      injection K as K. pose proof (IHp2 (snd a) (snd b) n1 m1 Hx) as V.
      destruct (exec p2 (snd a) n1) as [[[x1 b3] n2]|], (exec p2 (snd b) m1) as [[[x2 b4] m2]|]; cbn in V; try discriminate; [|reflexivity].
      injection V as V. cbn. unfold ekv. cbn [fst snd]. now rewrite K, V. }
    pose proof (map_step_determ2 eqkv _ _ ekv kv1 kv2 Hkv Hitem (S n) (S m)) as M.
    destruct (map_step (item_step (exec p1) (exec p2)) kv1 (S n)) as [[[r1 b1] n1]|],
             (map_step (item_step (exec p1) (exec p2)) kv2 (S m)) as [[[r2 b2] m1]|]; cbn in M; try discriminate; [|reflexivity].
    injection M as M. unfold eres. cbn [option_map fst]. rewrite !erase_dict_ekv. now rewrite M.
  - (* optional *)
    destruct v1 as [[|a]| | | | |], v2 as [[|b]| | | | |]; cbn in He; try discriminate; try reflexivity;
      try (apply IHp; cbn; exact He).
  - (* mapping -> model *)
    destruct v1 as [| | | |id1 kv1|], v2 as [| | | |id2 kv2|]; cbn in He; try discriminate; try reflexivity.
    pose proof (dict_erase id1 kv1 id2 kv2 He) as Hkv.
    set (step1 := fun (f : nat * nat * plan * dflt) (m0 : nat) => match f with (i, key, q, d) =>
                    tag i (match lookup_key key kv1 with Some x => exec q x m0 | None => default_value d m0 end) end).
    set (step2 := fun (f : nat * nat * plan * dflt) (m0 : nat) => match f with (i, key, q, d) =>
                    tag i (match lookup_key key kv2 with Some x => exec q x m0 | None => default_value d m0 end) end).
    pose proof (forall2_self_in fields) as Hf.
    assert (Hs : forall a b, a = b /\ In a fields -> forall n0 m0,
              estep (fun e : nat * hv => (fst e, erase (snd e))) (step1 a n0) = estep (fun e : nat * hv => (fst e, erase (snd e))) (step2 b m0)).
    { intros [[[i key] q] d] b [<- Hin] n0 m0. unfold step1, step2. apply estep_tag.
      pose proof (lookup_key_erase key kv1 kv2 Hkv) as L.
      destruct (lookup_key key kv1) as [x|], (lookup_key key kv2) as [y|]; try contradiction.
      - rewrite Forall_forall in H. exact (H (i, key, q, d) Hin x y n0 m0 L).
      - destruct d as [|kind|c]; [reflexivity| |reflexivity]. cbn. unfold fresh_container. destruct kind as [|[|k]]; reflexivity. }
    pose proof (map_step_determ2 _ step1 step2 _ fields fields Hf Hs (S n) (S m)) as M. fold step1 step2.
    destruct (map_step step1 fields (S n)) as [[[fs1 b1] n1]|], (map_step step2 fields (S m)) as [[[fs2 b2] m1]|]; cbn in M; try discriminate; [|reflexivity].
    injection M as M. destruct extra as [fi|]; unfold eres; cbn [option_map fst]; rewrite !erase_obj_pairs.
    + rewrite !map_app. cbn [map fst snd]. rewrite !erase_dict_ekv. now rewrite M, (unknown_erase fields kv1 kv2 Hkv).
    + now rewrite M.
  - (* model -> mapping *)
    destruct v1 as [| | | | |id1 c1 fs1], v2 as [| | | | |id2 c2 fs2]; cbn in He; try discriminate; try reflexivity.
    destruct (obj_erase id1 c1 fs1 id2 c2 fs2 He) as [_ Hfs].
    set (step1 := fun (f : nat * nat * plan) (m0 : nat) => match f with (i, key, q) =>
                    tag (HAtom key) (match lookup_field i fs1 with Some x => exec q x m0 | None => None end) end).
    set (step2 := fun (f : nat * nat * plan) (m0 : nat) => match f with (i, key, q) =>
                    tag (HAtom key) (match lookup_field i fs2 with Some x => exec q x m0 | None => None end) end).
    pose proof (forall2_self_in fields) as Hf.
    assert (Hs : forall a b, a = b /\ In a fields -> forall n0 m0,
              estep (fun e : hv * hv => (fst e, erase (snd e))) (step1 a n0) = estep (fun e : hv * hv => (fst e, erase (snd e))) (step2 b m0)).
    { intros [[i key] q] b [<- Hin] n0 m0. unfold step1, step2. apply estep_tag.
      pose proof (lookup_field_erase i fs1 fs2 Hfs) as L.
      destruct (lookup_field i fs1) as [x|], (lookup_field i fs2) as [y|]; try contradiction; [|reflexivity].
      rewrite Forall_forall in H. exact (H (i, key, q) Hin x y n0 m0 L). }
    pose proof (map_step_determ2 _ step1 step2 _ fields fields Hf Hs (S n) (S m)) as M. fold step1 step2.
    destruct (map_step step1 fields (S n)) as [[[r1 b1] n1]|], (map_step step2 fields (S m)) as [[[r2 b2] m1]|]; cbn in M; try discriminate; [|reflexivity].
    injection M as M. pose proof (unpacked_erase fs1 fs2 Hfs extra) as U.
    destruct (unpacked fs1 extra) as [a|], (unpacked fs2 extra) as [b|]; try contradiction; [|reflexivity].
    unfold eres. cbn [option_map fst]. rewrite !erase_dict_ekv, !map_app. rewrite U. f_equal. f_equal. f_equal.
    (* the keys are the atoms of the plan, the values agree by M *)
    revert M. generalize r1 r2. clear. intro l1. induction l1 as [|[a x] r IH]; intros [|[b y] s] M; cbn in M; try discriminate; [reflexivity|].
    injection M as Ha Hx Hr. cbn. unfold ekv at 1 3. cbn [fst snd]. rewrite Ha, Hx. f_equal. now apply IH.
  - (* model -> model *)
    destruct v1 as [| | | | |id1 c1 fs1], v2 as [| | | | |id2 c2 fs2]; cbn in He; try discriminate; try reflexivity.
    destruct (obj_erase id1 c1 fs1 id2 c2 fs2 He) as [_ Hfs].
    set (step1 := fun (f : nat * nat * plan) (m0 : nat) => match f with (dst, src, q) =>
                    tag dst (match lookup_field src fs1 with Some x => exec q x m0 | None => None end) end).
    set (step2 := fun (f : nat * nat * plan) (m0 : nat) => match f with (dst, src, q) =>
                    tag dst (match lookup_field src fs2 with Some x => exec q x m0 | None => None end) end).
    pose proof (forall2_self_in fields) as Hf.
    assert (Hs : forall a b, a = b /\ In a fields -> forall n0 m0,
              estep (fun e : nat * hv => (fst e, erase (snd e))) (step1 a n0) = estep (fun e : nat * hv => (fst e, erase (snd e))) (step2 b m0)).
    { intros [[dst src] q] b [<- Hin] n0 m0. unfold step1, step2. apply estep_tag.
      pose proof (lookup_field_erase src fs1 fs2 Hfs) as L.
      destruct (lookup_field src fs1) as [x|], (lookup_field src fs2) as [y|]; try contradiction; [|reflexivity].
      rewrite Forall_forall in H. exact (H (dst, src, q) Hin x y n0 m0 L). }
    pose proof (map_step_determ2 _ step1 step2 _ fields fields Hf Hs (S n) (S m)) as M. fold step1 step2.
    destruct (map_step step1 fields (S n)) as [[[r1 b1] n1]|], (map_step step2 fields (S m)) as [[[r2 b2] m1]|]; cbn in M; try discriminate; [|reflexivity].
    injection M as M. unfold eres. cbn [option_map fst]. rewrite !erase_obj_pairs. now rewrite M.
Qed.

Theorem equal_arguments_give_equal_results : forall p v1 v2 n m r1 b1 n1,
  erase v1 = erase v2 -> exec p v1 n = Some (r1, b1, n1) ->
  exists r2 b2 m1, exec p v2 m = Some (r2, b2, m1) /\ erase r2 = erase r1.
Proof.
  intros p v1 v2 n m r1 b1 n1 He H. pose proof (exec_determ2 p v1 v2 n m He) as D. rewrite H in D. cbn in D.
  destruct (exec p v2 m) as [[[r2 b2] m1]|]; cbn in D; [|discriminate]. injection D as D. exists r2, b2, m1. split; [reflexivity|now symmetry].
Qed.
