From Coq Require Import List Arith Bool Lia.
Import ListNotations.
From AV Require Import Model.Generic.

(* ---------------- proofs ---------------- *)
Section TInd.
Variable P : tyx -> Prop.
Hypothesis HV : forall v, P (TV v).
Hypothesis HC : forall c args, Forall P args -> P (TC c args).
Fixpoint tyx_ind' (t:tyx) : P t :=
  match t with TV v => HV v
  | TC c args => HC c args ((fix go (l:list tyx) : Forall P l :=
      match l with [] => Forall_nil _ | x::r => Forall_cons _ (tyx_ind' x) (go r) end) args) end.
End TInd.

Lemma subst_closed s t : closed t = true -> subst s t = t.
Proof.
  induction t as [v|c args IH] using tyx_ind'; simpl; intro H; [discriminate|].
  f_equal. induction IH as [|x r Hx _ IHr]; simpl in *; auto.
  apply andb_true_iff in H. destruct H. f_equal; auto.
Qed.

Lemma assoc_combine_map (s:sub_t) ps : forall (az:list tyx) v, length az = length ps ->
  assoc v (combine ps (map (subst s) az)) = option_map (subst s) (assoc v (combine ps az)).
Proof.
  induction ps as [|p ps IH]; intros az v Hl; [reflexivity|].
  destruct az as [|a az]; [discriminate|]. simpl. destruct (Nat.eqb v p); [reflexivity|]. apply IH. simpl in Hl; lia.
Qed.
Lemma assoc_combine_in ps : forall (az:list tyx) v, length az = length ps ->
  existsb (Nat.eqb v) ps = true -> exists u, assoc v (combine ps az) = Some u.
Proof.
  induction ps as [|p ps IH]; intros az v Hl H; [discriminate|].
  destruct az as [|a az]; [discriminate|]. simpl in *. destruct (Nat.eqb v p); [eauto|]. apply IH; auto.
Qed.

(* substituting after binding = binding the substituted arguments, when the term only mentions the parameters *)
Lemma subst_bind s ps az t : length az = length ps -> vars_in ps t = true ->
  subst s (subst (combine ps az) t) = subst (combine ps (map (subst s) az)) t.
Proof.
  intros Hl. induction t as [v|c args IH] using tyx_ind'; simpl; intro H.
  - rewrite assoc_combine_map by auto. destruct (assoc_combine_in ps az v Hl H) as [u Hu]. rewrite !Hu. reflexivity.
  - f_equal. rewrite map_map. induction IH as [|x r Hx _ IHr]; simpl in *; auto.
    apply andb_true_iff in H. destruct H. f_equal; auto.
Qed.

Lemma first_some_map_opt {A B} (g:A -> option B) (h:B -> B) l :
  first_some (map (fun a => option_map h (g a)) l) = option_map h (first_some (map g l)).
Proof. induction l as [|a r IH]; simpl; auto. destruct (g a); simpl; auto. Qed.
Lemma first_some_ext {A B} (g g':A -> option B) l : (forall a, In a l -> g a = g' a) ->
  first_some (map g l) = first_some (map g' l).
Proof. induction l as [|a r IH]; simpl; intro H; auto. rewrite (H a) by auto. destruct (g' a); auto. Qed.

Section Main.
Variable table : cname -> cls.
Notation raw := (raw table). Notation by_parents := (by_parents table).
Notation resolve := (resolve table). Notation spec := (spec table). Notation bind := (bind table).

Definition wf_cls (C:cname) : Prop :=
  (forall f t, In (f,t) (own (table C)) -> vars_in (params (table C)) t = true) /\
  (forall B bargs, In (B,bargs) (bases (table C)) ->
     length bargs = length (params (table B)) /\ Forall (fun a => vars_in (params (table C)) a = true) bargs).
Hypothesis WF : forall C, wf_cls C.

Lemma assoc_in {A} k (l:list (nat*A)) v : assoc k l = Some v -> In (k,v) l.
Proof. induction l as [|[k' v'] r IH]; simpl; [discriminate|]. destruct (Nat.eqb_spec k k'); [intro E; inversion E; subst; auto | auto]. Qed.

(* the specification commutes with substituting into the arguments *)
Lemma spec_subst s : forall fuel C args f, length args = length (params (table C)) ->
  option_map (subst s) (spec fuel C args f) = spec fuel C (map (subst s) args) f.
Proof.
  induction fuel as [|n IH]; intros C args f Hl; [reflexivity|]. cbn [Model.Generic.spec].
  destruct (assoc f (own (table C))) as [t|] eqn:Eo.
  - simpl. f_equal. unfold Model.Generic.bind. apply subst_bind; auto. eapply (proj1 (WF C)). eapply assoc_in; eauto.
  - rewrite <- first_some_map_opt. apply first_some_ext. intros [B bargs] Hin. simpl.
    destruct (proj2 (WF C) B bargs Hin) as [Hlen Hvars].
    rewrite IH by (rewrite map_length; auto). f_equal. rewrite map_map.
    unfold Model.Generic.bind. clear -Hvars Hl. induction Hvars as [|a r Ha _ IHr]; simpl; auto.
    f_equal; auto. apply subst_bind; auto.
Qed.

Definition is_some {A} (o:option A) := match o with Some _ => true | None => false end.

(* the specification is defined exactly where the introspector sees the field *)
Lemma spec_def_raw : forall fuel C args f, is_some (spec fuel C args f) = is_some (raw fuel C f).
Proof.
  induction fuel as [|n IH]; intros C args f; [reflexivity|]. cbn [Model.Generic.raw Model.Generic.spec].
  destruct (assoc f (own (table C))); [reflexivity|].
  induction (bases (table C)) as [|[B ba] bs IHb]; simpl; [reflexivity|].
  specialize (IH B (map (subst (bind C args)) ba) f).
  destruct (spec n B (map (subst (bind C args)) ba) f), (raw n B f); simpl in *; try discriminate; auto.
Qed.

Lemma raw_closed_spec : forall fuel C args f r, raw fuel C f = Some r -> closed r = true -> spec fuel C args f = Some r.
Proof.
  induction fuel as [|n IH]; intros C args f r Hr Hc; [discriminate|]. cbn [Model.Generic.raw Model.Generic.spec] in *.
  destruct (assoc f (own (table C))) as [t|].
  - inversion Hr; subst. now rewrite subst_closed.
  - revert Hr. induction (bases (table C)) as [|[B ba] bs IHb]; simpl; [discriminate|].
    pose proof (spec_def_raw n B (map (subst (bind C args)) ba) f) as D.
    destruct (raw n B f) as [r'|] eqn:Er.
    + intro E; inversion E; subst. now rewrite (IH B _ f r Er Hc).
    + destruct (spec n B (map (subst (bind C args)) ba) f); [discriminate|]. exact IHb.
Qed.

Lemma by_parents_def_raw : forall fuel C f, is_some (by_parents fuel C f) = is_some (raw fuel C f).
Proof.
  destruct fuel as [|n]; intros C f; [reflexivity|]. cbn [Model.Generic.by_parents].
  destruct (raw (S n) C f) as [r|]; [|reflexivity]. simpl.
  destruct (closed r); [reflexivity|]. destruct (assoc f (own (table C))); [reflexivity|].
  destruct (first_some _); reflexivity.
Qed.

(* ---- the theorem ---- *)
Theorem resolver_is_substitution : forall fuel C args f, length args = length (params (table C)) ->
  resolve fuel C args f = spec fuel C args f.
Proof.
  induction fuel as [|n IH]; intros C args f Hl; [reflexivity|].
  unfold Model.Generic.resolve. cbn [Model.Generic.by_parents].
  destruct (raw (S n) C f) as [r|] eqn:Er.
  2:{ pose proof (spec_def_raw (S n) C args f) as D. rewrite Er in D.
      destruct (Model.Generic.spec table (S n) C args f) eqn:Es; [discriminate D | reflexivity]. }
  destruct (closed r) eqn:Ec.
  { cbn [option_map]. rewrite subst_closed by auto. symmetry. apply raw_closed_spec; auto. }
  cbn [Model.Generic.raw Model.Generic.spec] in *.
  destruct (assoc f (own (table C))) as [t|] eqn:Eo.
  { inversion Er; subst. reflexivity. }
  (* inherited and generic: take it from the first base that has it, resolved with that base's arguments *)
  assert (Hb: forall b, In b (bases (table C)) ->
            option_map (subst (bind (fst b) (snd b))) (by_parents n (fst b) f) = spec n (fst b) (snd b) f).
  { intros [B ba] Hin. apply (IH B ba f). apply (proj2 (WF C) B ba Hin). }
  rewrite (first_some_ext _ _ _ Hb).
  assert (Hs: forall b, In b (bases (table C)) ->
            spec n (fst b) (map (subst (bind C args)) (snd b)) f
            = option_map (subst (bind C args)) (spec n (fst b) (snd b) f)).
  { intros [B ba] Hin. symmetry. apply spec_subst. apply (proj2 (WF C) B ba Hin). }
  rewrite (first_some_ext _ _ _ Hs), first_some_map_opt.
  destruct (first_some (map (fun b => spec n (fst b) (snd b) f) (bases (table C)))) as [u|] eqn:Ef; [reflexivity|].
  (* impossible: the raw hint came from some base, and spec is defined wherever raw is *)
  exfalso. clear -Er Ef. revert Er Ef. induction (bases (table C)) as [|[B ba] bs IHb]; simpl; [discriminate|].
  pose proof (spec_def_raw n B ba f) as D.
  destruct (raw n B f), (spec n B ba f); simpl in D; try discriminate; auto.
Qed.
End Main.


(* non-vacuity: Base[T,U]{a:T,b:U}; Mid[U](Base[U,int]){c:List[U]}; Sh[T](Base[int,T]){a:T} *)
Definition INT := TC 100 []. Definition STR := TC 101 []. Definition LIST t := TC 102 [t].
Definition tbl (c:nat) : cls :=
  match c with
  | 0 => {| params := [0;1]; bases := []; own := [(0, TV 0); (1, TV 1)] |}
  | 1 => {| params := [1]; bases := [(0, [TV 1; INT])]; own := [(2, LIST (TV 1))] |}
  | 2 => {| params := [0]; bases := [(0, [INT; TV 0])]; own := [(0, TV 0)] |}
  | _ => {| params := []; bases := []; own := [] |} end.
Example resolver_example :
  map (resolve tbl 5 1 [STR]) [0;1;2] = [Some STR; Some INT; Some (LIST STR)] /\
  map (resolve tbl 5 2 [STR]) [0;1] = [Some STR; Some STR].
Proof. split; vm_compute; reflexivity. Qed.
