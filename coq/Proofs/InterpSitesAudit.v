(* C19 - the reviewed classification of every interpolation site of the code generators.
   Classes:
   R  repr-quoted user data ({x!r}): one string / number token whatever the text (repr_is_one_token)
   I  identifier validated by the library (field id, parameter name, attribute name checked with isidentifier), used
      behind a generator prefix, as an attribute or as a parameter name
   V  variable name made by the generator: basis + numeric path suffix, or prefix + field id (v_* functions)
   E  expression or statement text assembled by the generator itself from parts classified here
   N  number
   S  output of the name sanitiser, possibly mangled with a numeric suffix (sanitize_identifier)
   L  literal text from get_literal_expr / get_literal_from_factory (C08_literal_is_the_value)
   C  text of a comment line: an identifier or the repr of a list - always a single line
   M  message of an exception or name of the generated file: never compiled
   K  keyword of the internal ast template (a constant of the library)
   T  string.Template over text made of identifiers only ($ can not occur in it)
   X  raw text supplied by the user reaches the source - not allowed *)
From Coq Require Import List String Bool.
From AV Require Import Generated.InterpSites.
Import ListNotations.
Local Open Scope string_scope.

Definition audited_interp_sites : list (string * string * string * string) :=
  [
   ("ast_templater.py", "key", "", "K");
   ("basic_gen.py", "closure_name", "", "S");
   ("basic_gen.py", "f_name", "!r", "R");
   ("basic_gen.py", "global_name", "", "V");
   ("basic_gen.py", "name", "", "V");
   ("basic_gen.py", "uid", "", "M");
   ("basic_gen.py", "value_literal", "", "L");
   ("cascade_namespace.py", "name", "", "M");
   ("code_generator.py", "base", "", "S");
   ("code_generator.py", "closure_name", "", "S");
   ("code_generator.py", "closure_name", "!r", "R");
   ("code_generator.py", "element.accessor.attr_name", "", "I");
   ("code_generator.py", "element.accessor.attr_name", "!r", "R");
   ("code_generator.py", "element.accessor.key", "!r", "R");
   ("code_generator.py", "i", "", "N");
   ("code_generator.py", "name", "", "S");
   ("code_generator.py", "no_types_signature", "", "E");
   ("code_generator.py", "number", "", "N");
   ("code_generator.py", "prefix", "", "S");
   ("compiler.py", "base_id", "", "M");
   ("compiler.py", "idx", "", "M");
   ("converter_provider.py", "base", "", "S");
   ("converter_provider.py", "closure_name", "", "S");
   ("converter_provider.py", "coercer_var", "", "V");
   ("converter_provider.py", "ctx_passing", "", "I");
   ("converter_provider.py", "dst", "", "S");
   ("converter_provider.py", "function_name", "!r", "R");
   ("converter_provider.py", "i", "", "N");
   ("converter_provider.py", "no_types_signature", "", "E");
   ("converter_provider.py", "param.name", "", "S");
   ("converter_provider.py", "parameters[0].name", "", "I");
   ("converter_provider.py", "src", "", "S");
   ("dumper_gen.py", "<Template> 'return {**$var_self, **extra}'", "", "T");
   ("dumper_gen.py", "<Template> on_access_ok", "", "T");
   ("dumper_gen.py", "<substitute> expr=f'{dumper}({raw_access_expr})'", "", "E");
   ("dumper_gen.py", "<substitute> expr=f'{dumper}({v_raw_field})'", "", "E");
   ("dumper_gen.py", "<substitute> expr=raw_access_expr", "", "E");
   ("dumper_gen.py", "<substitute> expr=v_raw_field", "", "E");
   ("dumper_gen.py", "<substitute> var_self=state.v_crown", "", "E");
   ("dumper_gen.py", "access_error_expr", "", "E");
   ("dumper_gen.py", "accessor.attr_name", "", "I");
   ("dumper_gen.py", "accessor.attr_name", "!r", "R");
   ("dumper_gen.py", "accessor.key", "!r", "R");
   ("dumper_gen.py", "accessor_getter", "", "V");
   ("dumper_gen.py", "closure_name", "", "S");
   ("dumper_gen.py", "condition", "", "E");
   ("dumper_gen.py", "dumper", "", "V");
   ("dumper_gen.py", "element_expr.expr", "", "E");
   ("dumper_gen.py", "f_name", "", "C");
   ("dumper_gen.py", "field.id", "", "I");
   ("dumper_gen.py", "field.id", "!r", "R");
   ("dumper_gen.py", "input_expr", "", "E");
   ("dumper_gen.py", "key", "!r", "R");
   ("dumper_gen.py", "list(path)", "", "C");
   ("dumper_gen.py", "literal_expr", "", "L");
   ("dumper_gen.py", "on_access_error", "", "E");
   ("dumper_gen.py", "on_access_ok_stmt", "", "E");
   ("dumper_gen.py", "path_element_expr", "", "E");
   ("dumper_gen.py", "raw_access_expr", "", "E");
   ("dumper_gen.py", "self._get_element_expr(state, key, crown.map[key]).expr", "", "E");
   ("dumper_gen.py", "self._v_field(field)", "", "V");
   ("dumper_gen.py", "state.v_crown", "", "V");
   ("dumper_gen.py", "sub_crown.id", "!r", "R");
   ("dumper_gen.py", "suffix", "", "N");
   ("dumper_gen.py", "v_default", "", "V");
   ("dumper_gen.py", "v_element_expr", "", "V");
   ("dumper_gen.py", "v_raw_field", "", "V");
   ("dumper_gen.py", "v_sieve", "", "V");
   ("loader_gen.py", "assign_to", "", "E");
   ("loader_gen.py", "bad_type_error", "", "E");
   ("loader_gen.py", "closure_name", "", "S");
   ("loader_gen.py", "error_expr", "", "E");
   ("loader_gen.py", "expected_len", "", "N");
   ("loader_gen.py", "f_name", "", "C");
   ("loader_gen.py", "field.id", "", "I");
   ("loader_gen.py", "field_id", "", "I");
   ("loader_gen.py", "field_loader", "", "V");
   ("loader_gen.py", "last_path_el", "!r", "R");
   ("loader_gen.py", "len(state.parent_crown.map)", "", "N");
   ("loader_gen.py", "list(path)", "", "C");
   ("loader_gen.py", "list_literal", "!r", "R");
   ("loader_gen.py", "loader_arg", "", "E");
   ("loader_gen.py", "lookup_error", "", "E");
   ("loader_gen.py", "namer.with_trail(bad_type_load_error)", "", "E");
   ("loader_gen.py", "on_lookup_error", "", "E");
   ("loader_gen.py", "param.name", "", "I");
   ("loader_gen.py", "param.name", "!r", "R");
   ("loader_gen.py", "param_name", "!r", "R");
   ("loader_gen.py", "processing_expr", "", "E");
   ("loader_gen.py", "self._get_default_clause_expr(state, field)", "", "L");
   ("loader_gen.py", "self._path", "!r", "R");
   ("loader_gen.py", "self._path[0]", "!r", "R");
   ("loader_gen.py", "self.with_trail(error_expr)", "", "E");
   ("loader_gen.py", "state.emit_error('e')", "", "E");
   ("loader_gen.py", "state.emit_error(f'ExtraFieldsLoadError({state.v_extra}_set, {state.v_data})')", "", "E");
   ("loader_gen.py", "state.emit_error(f'ExtraItemsLoadError({expected_len}, {state.v_data})')", "", "E");
   ("loader_gen.py", "state.emit_error(f'NoRequiredItemsLoadError({expected_len}, {state.v_data})')", "", "E");
   ("loader_gen.py", "state.parent.v_data", "", "V");
   ("loader_gen.py", "state.parent.v_extra", "", "V");
   ("loader_gen.py", "state.parent.v_has_not_found_error", "", "V");
   ("loader_gen.py", "state.parent.v_required_keys", "", "V");
   ("loader_gen.py", "state.parent.with_trail(not_found_error)", "", "E");
   ("loader_gen.py", "state.path[-1]", "!r", "R");
   ("loader_gen.py", "state.v_data", "", "V");
   ("loader_gen.py", "state.v_extra", "", "V");
   ("loader_gen.py", "state.v_field(field)", "", "V");
   ("loader_gen.py", "state.v_has_not_found_error", "", "V");
   ("loader_gen.py", "state.v_known_keys", "", "V");
   ("loader_gen.py", "state.with_trail('e')", "", "E");
   ("loader_gen.py", "suffix", "", "N");
   ("loader_gen.py", "value", "", "V");
   ("model_coercer_provider.py", "dst", "", "S");
   ("model_coercer_provider.py", "exception_and_type_list[0][1].__name__", "", "M");
   ("model_coercer_provider.py", "src", "", "S");
   ("utils.py", "_provide_lit_expr(key)", "", "L");
   ("utils.py", "_provide_lit_expr(value)", "", "L")
  ].

Theorem all_interp_sites_audited : map (fun s => (fst (fst (fst s)), snd (fst (fst s)), snd (fst s))) audited_interp_sites = interp_sites.
Proof. vm_compute. reflexivity. Qed.

Definition safe_class (c : string) : bool :=
  existsb (String.eqb c) ["R"; "I"; "V"; "E"; "N"; "S"; "L"; "C"; "M"; "K"; "T"].
Theorem no_raw_site : forallb (fun s => safe_class (snd s)) audited_interp_sites = true.
Proof. vm_compute. reflexivity. Qed.

(* every !r site is classified R and every R site is a !r conversion: the mechanical part of the review *)
Theorem repr_sites_are_exactly_R :
  forallb (fun s => Bool.eqb (String.eqb (snd (fst s)) "!r") (String.eqb (snd s) "R")) audited_interp_sites = true.
Proof. vm_compute. reflexivity. Qed.
