(* C19 - proofs about Model/Names.v *)
From Coq Require Import List Arith NArith Bool String Ascii Lia FinFun.
From AV Require Import Model.Names.
Import ListNotations.

(* ---- the sanitiser always yields an ASCII identifier (or nothing for the empty string) ---- *)
Lemma filter_word_all l : forallb is_word_ascii (filter is_word_ascii l) = true.
Proof.
  induction l as [|c r IH]; [reflexivity|]. cbn [filter]. destruct (is_word_ascii c) eqn:E; [|exact IH].
  cbn [forallb]. now rewrite E, IH.
Qed.

Theorem sanitize_identifier s : s <> [] -> is_ascii_identifier (sanitize s) = true.
Proof.
  destruct s as [|c r]; [congruence|]. intros _. cbn [sanitize is_ascii_identifier].
  rewrite filter_word_all, andb_true_r. destruct (is_ascii_letter c) eqn:E.
  - now rewrite E.
  - rewrite orb_true_r. reflexivity.
Qed.

Theorem sanitize_empty : sanitize [] = [].
Proof. reflexivity. Qed.

Lemma sanitize_word_all s : forallb is_word_ascii (sanitize s) = true.
Proof.
  destruct s as [|c r]; [reflexivity|]. cbn [sanitize forallb]. rewrite filter_word_all, andb_true_r.
  destruct (is_ascii_letter c) eqn:E; unfold is_word_ascii; [now rewrite E|]. rewrite orb_true_r. reflexivity.
Qed.

(* "model_loader_" ++ sanitize name, "convert_" ++ ..., and the like *)
Theorem prefixed_sanitize_identifier p s :
  is_ascii_identifier p = true -> is_ascii_identifier (p ++ sanitize s) = true.
Proof.
  destruct p as [|c r]; [discriminate|]. cbn [is_ascii_identifier app]. intro H. apply andb_true_iff in H.
  destruct H as [H1 H2]. rewrite H1. cbn [andb]. rewrite forallb_app, H2, sanitize_word_all. reflexivity.
Qed.

(* ---- mangling terminates and returns a name the namespace accepts ---- *)
Section Mangle.
Variable render : nat -> name.
Hypothesis render_inj : forall i j, render i = render j -> i = j.       (* decimal rendering is injective *)
Variable taken : name -> bool.
Variable L : list name.
Hypothesis taken_finite : forall n, taken n = true -> In n L.           (* the namespace holds finitely many names *)

Lemma first_free_some base : forall fuel i,
  (exists j, i <= j < i + fuel /\ taken (base ++ render j) = false) ->
  exists n, first_free render taken fuel base i = Some n /\ taken n = false.
Proof.
  induction fuel as [|f IH]; intros i [j [Hj Hf]]; [lia|]. cbn [first_free].
  destruct (taken (base ++ render i)) eqn:E.
  - apply IH. exists j. split; [|exact Hf]. assert (j <> i) by (intro; subst; congruence). lia.
  - eexists. split; [reflexivity|exact E].
Qed.

Lemma all_or_free base : forall k i,
  (forall j, i <= j < i + k -> taken (base ++ render j) = true) \/
  (exists j, i <= j < i + k /\ taken (base ++ render j) = false).
Proof.
  induction k as [|k IH]; intro i; [left; intros; lia|].
  destruct (taken (base ++ render i)) eqn:E.
  - destruct (IH (S i)) as [H|[j [Hj Hf]]].
    + left. intros j Hj. destruct (Nat.eq_dec j i) as [->|]; [exact E|]. apply H. lia.
    + right. exists j. split; [lia|exact Hf].
  - right. exists i. split; [lia|exact E].
Qed.

Theorem mangle_terminates_and_fresh base :
  exists n, register_mangled render taken (S (List.length L)) base = Some n /\ taken n = false.
Proof.
  unfold register_mangled. destruct (taken base) eqn:Eb; [|eexists; split; [reflexivity|exact Eb]].
  apply first_free_some. destruct (all_or_free base (S (List.length L)) 1) as [Hall|Hex]; [|exact Hex].
  exfalso.
  set (cand := map (fun j => base ++ render j) (seq 1 (S (List.length L)))).
  assert (Hnd : NoDup cand).
  { unfold cand. apply Injective_map_NoDup; [|apply seq_NoDup].
    intros a b Hab. apply app_inv_head in Hab. apply render_inj. exact Hab. }
  assert (Hincl : incl cand L).
  { intros n Hn. unfold cand in Hn. apply in_map_iff in Hn. destruct Hn as [j [<- Hj]]. apply in_seq in Hj.
    apply taken_finite. apply Hall. lia. }
  pose proof (NoDup_incl_length Hnd Hincl) as Hlen. unfold cand in Hlen. rewrite map_length, seq_length in Hlen.
  clear - Hlen. apply Nat.nle_succ_diag_l in Hlen. exact Hlen.
Qed.
End Mangle.

(* ---- prefixed variable names ---- *)
Local Open Scope string_scope.

Lemma starts_with_app p x : starts_with p (p ++ x) = true.
Proof. induction p as [|a p IH]; [reflexivity|]. cbn. now rewrite Ascii.eqb_refl, IH. Qed.

Lemma starts_with_app_l p b y : starts_with p b = true -> starts_with p (b ++ y) = true.
Proof.
  revert b. induction p as [|a p IH]; intros b H; [reflexivity|]. destruct b as [|c b]; [discriminate|].
  cbn in *. apply andb_true_iff in H. destruct H as [H1 H2]. now rewrite H1, (IH b H2).
Qed.

Lemma not_prefix_neq p w x : starts_with p w = false -> p ++ x <> w.
Proof. intros H E. rewrite <- E, starts_with_app in H. discriminate. Qed.

(* if p ++ x = b ++ y then one of p, b is a prefix of the other *)
Lemma app_eq_comparable : forall p b x y, p ++ x = b ++ y -> starts_with p b = true \/ starts_with b p = true.
Proof.
  induction p as [|a p IH]; intros b x y E; [left; reflexivity|].
  destruct b as [|c b]; [right; reflexivity|]. cbn in E. injection E as -> E. cbn. rewrite Ascii.eqb_refl. cbn.
  exact (IH b x y E).
Qed.

Lemma incomparable_neq p b x y : incomparable p b = true -> p ++ x <> b ++ y.
Proof.
  unfold incomparable. intros H E. apply andb_true_iff in H. destruct H as [H1 H2].
  apply negb_true_iff in H1. apply negb_true_iff in H2.
  destruct (app_eq_comparable p b x y E) as [H|H]; congruence.
Qed.

Lemma app_inv_head_s : forall p x y, p ++ x = p ++ y -> x = y.
Proof. induction p as [|a p IH]; intros x y E; [exact E|]. cbn in E. injection E as E. exact (IH x y E). Qed.

Theorem prefixes_ok_sound prefixes bases fixed :
  prefixes_ok prefixes bases fixed = true ->
  forall p x, In p prefixes ->
    (forall w, In w fixed -> p ++ x <> w) /\
    (forall b y, In b bases -> p ++ x <> b ++ y) /\
    (forall p' y, In p' prefixes -> p ++ x = p' ++ y -> p = p' /\ x = y).
Proof.
  unfold prefixes_ok. intros H p x Hp. rewrite forallb_forall in H. specialize (H p Hp).
  apply andb_true_iff in H. destruct H as [H H3]. apply andb_true_iff in H. destruct H as [H1 H2].
  rewrite forallb_forall in H1, H2, H3. split; [|split].
  - intros w Hw. apply not_prefix_neq. apply negb_true_iff. exact (H1 w Hw).
  - intros b y Hb. apply incomparable_neq. exact (H2 b Hb).
  - intros p' y Hp' E. specialize (H3 p' Hp'). apply orb_true_iff in H3. destruct H3 as [H3|H3].
    + apply String.eqb_eq in H3. subst p'. split; [reflexivity|]. exact (app_inv_head_s p x y E).
    + exfalso. exact (incomparable_neq p p' x y H3 E).
Qed.
