(* C06, third sentence: the single error raised under DebugTrail.FIRST corresponds - same error class, same offending
   input value - to errors collected under DebugTrail.ALL.  Over Model/Load.v, for every type of the fragment. *)
From Coq Require Import List ZArith Bool String Lia.
From AV Require Import Model.Val Model.Load Proofs.LoadProofs.
Import ListNotations.

(* the leaves of an error tree: (class, offending input); trails are where the modes legitimately differ *)
Fixpoint eleaves (e : err) : list (ecls * option pv) :=
  match e with
  | LE c _ inp subs =>
      match subs with
      | [] => [(c, inp)]
      | _ => (fix go (l : list err) : list (ecls * option pv) :=
                match l with [] => [] | x :: r => eleaves x ++ go r end) subs
      end
  end.

Definition leaves_of (l : list err) : list (ecls * option pv) := flat_map eleaves l.

Lemma eleaves_node c tr inp subs : subs <> [] -> eleaves (LE c tr inp subs) = leaves_of subs.
Proof.
  intro H. destruct subs as [|x r]; [congruence|]. cbn [eleaves]. unfold leaves_of. cbn [flat_map]. f_equal.
Qed.

Lemma eleaves_push m t e : eleaves (push m t e) = eleaves e.
Proof. destruct m, e; reflexivity. Qed.

Lemma incl_leaves_in (e : err) (es : list err) : In e es -> incl (eleaves e) (leaves_of es).
Proof. intros H x Hx. unfold leaves_of. apply in_flat_map. exists e. auto. Qed.

(* ---------------- the element loops ---------------- *)
Section Loops.
Variables f1 f2 : pv -> res.                     (* the element loader under FIRST and under ALL *)
Hypothesis ok12 : forall x a, f1 x = Ok a -> exists a', f2 x = Ok a'.
Hypothesis err12 : forall x e1, f1 x = Err e1 -> exists e2, f2 x = Err e2 /\ incl (eleaves e1) (eleaves e2).
Hypothesis noexn2 : forall x, no_exn (f2 x).

Lemma map_all_no_exn : forall l i, snd (map_all f2 i l) = None.
Proof.
  induction l as [|x r IH]; intro i; [reflexivity|]. cbn [map_all]. specialize (IH (S i)).
  destruct (map_all f2 (S i) r) as [[vs es] u]. cbn [snd] in IH. subst u. pose proof (noexn2 x) as Hn.
  destruct (f2 x); try reflexivity. destruct Hn.
Qed.

Lemma map_first_in_all : forall l i e, map_first f1 i l = A1Err e ->
  exists e', In e' (snd (fst (map_all f2 i l))) /\ incl (eleaves e) (eleaves e').
Proof.
  induction l as [|x r IH]; intros i e H; cbn [map_first] in H; [discriminate|]. cbn [map_all].
  destruct (f1 x) as [a|e0|k] eqn:E1.
  - destruct (ok12 x a E1) as [a' E2]. destruct (map_first f1 (S i) r) as [b|e1|k] eqn:Er; try discriminate.
    injection H as <-. destruct (IH (S i) e1 Er) as [e' [Hin Hincl]].
    destruct (map_all f2 (S i) r) as [[vs es] u]. rewrite E2. cbn [fst snd] in *. exists e'. auto.
  - injection H as <-. destruct (err12 x e0 E1) as [e2 [E2 Hincl]].
    destruct (map_all f2 (S i) r) as [[vs es] u]. rewrite E2. cbn [fst snd]. exists (push All (Idx i) e2).
    split; [left; reflexivity|]. destruct e0; rewrite ?eleaves_push; exact Hincl.
  - discriminate.
Qed.
End Loops.

Section ZipLoops.
Variable noexn_any : forall (f : pv -> res), True.

Lemma zip_all_no_exn : forall fs2 l i, Forall (fun f => forall x, no_exn (f x)) fs2 -> snd (zip_all i fs2 l) = None.
Proof.
  induction fs2 as [|f fr IH]; intros l i H; [destruct l; reflexivity|]. destruct l as [|x r]; [reflexivity|].
  cbn [zip_all]. inversion H as [|a b Hf Hr]; subst. specialize (IH r (S i) Hr).
  destruct (zip_all (S i) fr r) as [[vs es] u]. cbn [snd] in IH. subst u. pose proof (Hf x) as Hn.
  destruct (f x); try reflexivity. destruct Hn.
Qed.

Lemma zip_first_in_all : forall fs1 fs2, Forall2 (fun f1 f2 =>
     (forall x a, f1 x = Ok a -> exists a', f2 x = Ok a') /\
     (forall x e1, f1 x = Err e1 -> exists e2, f2 x = Err e2 /\ incl (eleaves e1) (eleaves e2))) fs1 fs2 ->
  forall l i e, zip_first i fs1 l = A1Err e ->
  exists e', In e' (snd (fst (zip_all i fs2 l))) /\ incl (eleaves e) (eleaves e').
Proof.
  induction 1 as [|f1 f2 fr1 fr2 [Hok Herr] _ IH]; intros l i e H; [destruct l; discriminate|].
  destruct l as [|x r]; [discriminate|]. cbn [zip_first] in H. cbn [zip_all].
  destruct (f1 x) as [a|e0|k] eqn:E1.
  - destruct (Hok x a E1) as [a' E2]. destruct (zip_first (S i) fr1 r) as [b|e1|k] eqn:Er; try discriminate.
    injection H as <-. destruct (IH r (S i) e1 Er) as [e' [Hin Hincl]].
    destruct (zip_all (S i) fr2 r) as [[vs es] u]. rewrite E2. cbn [fst snd] in *. exists e'. auto.
  - injection H as <-. destruct (Herr x e0 E1) as [e2 [E2 Hincl]].
    destruct (zip_all (S i) fr2 r) as [[vs es] u]. rewrite E2. cbn [fst snd]. exists (push All (Idx i) e2).
    split; [left; reflexivity|]. destruct e0; rewrite ?eleaves_push; exact Hincl.
  - discriminate.
Qed.
End ZipLoops.

Section DictLoops.
Variables k1 k2 v1 v2 : pv -> res.
Hypothesis kok : forall x a, k1 x = Ok a -> exists a', k2 x = Ok a'.
Hypothesis kerr : forall x e1, k1 x = Err e1 -> exists e2, k2 x = Err e2 /\ incl (eleaves e1) (eleaves e2).
Hypothesis vok : forall x a, v1 x = Ok a -> exists a', v2 x = Ok a'.
Hypothesis verr : forall x e1, v1 x = Err e1 -> exists e2, v2 x = Err e2 /\ incl (eleaves e1) (eleaves e2).
Hypothesis knoexn : forall x, no_exn (k2 x).
Hypothesis vnoexn : forall x, no_exn (v2 x).

Lemma dict_all_no_exn : forall l acc, snd (dict_all k2 v2 acc l) = None.
Proof.
  induction l as [|[k v] r IH]; intro acc; [reflexivity|]. cbn [dict_all].
  pose proof (knoexn k) as Hk. pose proof (vnoexn v) as Hv.
  destruct (k2 k) as [a|e|x]; try destruct Hk; destruct (v2 v) as [b|e'|x]; try destruct Hv;
    match goal with |- context[dict_all k2 v2 ?A r] => specialize (IH A); destruct (dict_all k2 v2 A r) as [[res es] u] end;
    cbn [snd] in *; subst; reflexivity.
Qed.

Lemma dict_first_in_all : forall l acc1 acc2 e, dict_first k1 v1 acc1 l = ADErr e ->
  exists e', In e' (snd (fst (dict_all k2 v2 acc2 l))) /\ incl (eleaves e) (eleaves e').
Proof.
  induction l as [|[k v] r IH]; intros acc1 acc2 e H; cbn [dict_first] in H; [discriminate|]. cbn [dict_all].
  destruct (k1 k) as [a|e0|x] eqn:Ek1.
  - destruct (kok k a Ek1) as [a' Ek2]. destruct (v1 v) as [b|e0|x] eqn:Ev1.
    + destruct (vok v b Ev1) as [b' Ev2]. rewrite Ek2, Ev2.
      destruct (IH (dict_set acc1 a b) (dict_set acc2 a' b') e H) as [e' [Hin Hincl]].
      destruct (dict_all k2 v2 (dict_set acc2 a' b') r) as [[res es] u]. cbn [fst snd app] in *. exists e'. auto.
    + injection H as <-. destruct (verr v e0 Ev1) as [e2 [Ev2 Hincl]]. rewrite Ek2, Ev2.
      destruct (dict_all k2 v2 acc2 r) as [[res es] u]. cbn [fst snd app]. exists (push All (Key k) e2).
      split; [left; reflexivity|]. destruct e0; rewrite ?eleaves_push; exact Hincl.
    + discriminate.
  - injection H as <-. destruct (kerr k e0 Ek1) as [e2 [Ek2 Hincl]]. rewrite Ek2.
    destruct (v2 v) as [b|ev|x]; destruct (dict_all k2 v2 acc2 r) as [[res es] u]; cbn [fst snd app];
      exists (push All (ItemKey k) e2); (split; [left; reflexivity|destruct e0; rewrite ?eleaves_push; exact Hincl]).
  - discriminate.
Qed.
End DictLoops.

(* ---------------- unions ---------------- *)
Lemma in_leaves_rev l x : In x (leaves_of (rev l)) <-> In x (leaves_of l).
Proof.
  unfold leaves_of. rewrite !in_flat_map. split; intros [e [He Hx]]; exists e; (split; [|exact Hx]);
    [apply in_rev; exact He|apply in_rev in He; exact He].
Qed.

Definition rel (r1 r2 : res) : Prop := forall e, r1 = Err e -> exists e', r2 = Err e' /\ incl (eleaves e) (eleaves e').

Lemma union_first_in_all : forall rs1 rs2, Forall2 rel rs1 rs2 ->
  forall acc1 acc2 e1, List.length acc1 = List.length acc2 -> incl (leaves_of acc1) (leaves_of acc2) ->
  union_first acc1 rs1 = Err e1 ->
  exists e2, union_all acc2 None rs2 = Err e2 /\ incl (eleaves e1) (eleaves e2).
Proof.
  induction 1 as [|r1 r2 t1 t2 Hr _ IH]; intros acc1 acc2 e1 Hlen Hincl H; cbn [union_first union_all] in *.
  - injection H as <-. eexists. split; [reflexivity|].
    destruct acc1 as [|a1 t]; destruct acc2 as [|a2 t']; try discriminate.
    + apply incl_refl.
    + rewrite !eleaves_node by (cbn [rev]; intro Hc; apply app_eq_nil in Hc; destruct Hc; discriminate).
      intros x Hx. apply in_leaves_rev. apply Hincl. apply in_leaves_rev. exact Hx.
  - destruct r1 as [a|e|x]; [discriminate| |discriminate].
    destruct (Hr e eq_refl) as [e' [-> Hi]].
    apply (IH (e :: acc1) (e' :: acc2) e1); [cbn; congruence| |exact H].
    unfold leaves_of. cbn [flat_map]. apply incl_app_app; [exact Hi|exact Hincl].
Qed.

(* ---------------- the theorem ---------------- *)
Section WithUser.
Variable U : nat -> pv -> res.
Hypothesis U_ok : forall n v, no_exn (U n v).
Variable sc : bool.

Notation lf := (load U First sc).
Notation la := (load U All sc).

Lemma ok_both t v a : lf t v = Ok a -> exists a', la t v = Ok a'.
Proof.
  intro H. pose proof (modes_agree U U_ok sc t v First All) as M. rewrite H in M. cbn [okval] in M.
  destruct (la t v) as [a'| |]; try discriminate. eexists; reflexivity.
Qed.

Lemma err_both t v e : lf t v = Err e -> exists e', la t v = Err e'.
Proof.
  intro H. pose proof (modes_agree U U_ok sc t v First All) as M. rewrite H in M. cbn [okval] in M.
  pose proof (load_raises_only_load_error U U_ok All sc t v) as N.
  destruct (la t v) as [a'|e'|x]; [discriminate|eexists; reflexivity|destruct N].
Qed.

Definition P (t : ty) : Prop := forall v e1, lf t v = Err e1 -> exists e2, la t v = Err e2 /\ incl (eleaves e1) (eleaves e2).

Ltac same_error := intros v e1 H; exists e1; split; [exact H|apply incl_refl].

Theorem first_error_is_among_all_errors : forall t, P t.
Proof.
  induction t as [| | | | | |ls|k t IH|ts IH|tk tv IHk IHv|t IH|ts IH|n] using ty_ind'; unfold P; try same_error.
  - (* iterable *)
    intros v e1 H. cbn [load] in H |- *. destruct (iter_view sc v) as [l| |]; try (exists e1; split; [exact H|apply incl_refl]).
    destruct (map_first (load U First sc t) 0 l) as [r|e|x] eqn:Ef; try discriminate. injection H as <-.
    destruct (map_first_in_all (load U First sc t) (load U All sc t) (ok_both t) IH l 0 e Ef) as [e' [Hin Hincl]].
    pose proof (map_all_no_exn (load U All sc t) (load_raises_only_load_error U U_ok All sc t) l 0) as Hu.
    destruct (map_all (load U All sc t) 0 l) as [[vs es] u]. cbn [fst snd] in *. subst u.
    destruct es as [|e0 es']; [destruct Hin|]. eexists. split; [reflexivity|].
    unfold agg. rewrite eleaves_node by discriminate. intros x Hx. apply (incl_leaves_in e' _ Hin). apply Hincl. exact Hx.
  - (* fixed tuple *)
    intros v e1 H. cbn [load] in H |- *. destruct (iter_view sc v) as [l| |]; try (exists e1; split; [exact H|apply incl_refl]).
    destruct (List.length ts <? List.length l)%nat; [exists e1; split; [exact H|apply incl_refl]|].
    destruct (List.length l <? List.length ts)%nat; [exists e1; split; [exact H|apply incl_refl]|].
    destruct (zip_first 0 (map (fun t1 => load U First sc t1) ts) l) as [r|e|x] eqn:Ef; try discriminate. injection H as <-.
    assert (HF : Forall2 (fun f1 f2 : pv -> res =>
                   (forall x a, f1 x = Ok a -> exists a', f2 x = Ok a') /\
                   (forall x e1, f1 x = Err e1 -> exists e2, f2 x = Err e2 /\ incl (eleaves e1) (eleaves e2)))
                  (map (fun t1 => load U First sc t1) ts) (map (fun t1 => load U All sc t1) ts)).
    { clear Ef. induction IH as [|t1 r' Ht _ IH']; cbn [map]; [constructor|]. constructor; [|exact IH']. split; [exact (ok_both t1)|exact Ht]. }
    destruct (zip_first_in_all _ _ HF l 0 e Ef) as [e' [Hin Hincl]].
    assert (Hn : Forall (fun f : pv -> res => forall x, no_exn (f x)) (map (fun t1 => load U All sc t1) ts)).
    { apply Forall_forall. intros f Hf. apply in_map_iff in Hf. destruct Hf as [t1 [<- _]]. intro x.
      exact (load_raises_only_load_error U U_ok All sc t1 x). }
    pose proof (zip_all_no_exn _ l 0 Hn) as Hu.
    destruct (zip_all 0 (map (fun t1 => load U All sc t1) ts) l) as [[vs es] u]. cbn [fst snd] in *. subst u.
    destruct es as [|e0 es']; [destruct Hin|]. eexists. split; [reflexivity|].
    unfold agg. rewrite eleaves_node by discriminate. intros x Hx. apply (incl_leaves_in e' _ Hin). apply Hincl. exact Hx.
  - (* dict *)
    intros v e1 H. cbn [load] in H |- *. destruct v; try (exists e1; split; [exact H|apply incl_refl]).
    destruct (dict_first (load U First sc tk) (load U First sc tv) [] kvs) as [r|e|x] eqn:Ef; try discriminate. injection H as <-.
    destruct (dict_first_in_all _ (load U All sc tk) _ (load U All sc tv) (ok_both tk) IHk (ok_both tv) IHv kvs [] [] e Ef)
      as [e' [Hin Hincl]].
    pose proof (dict_all_no_exn (load U All sc tk) (load U All sc tv) (load_raises_only_load_error U U_ok All sc tk)
                  (load_raises_only_load_error U U_ok All sc tv) kvs []) as Hu.
    destruct (dict_all (load U All sc tk) (load U All sc tv) [] kvs) as [[res es] u]. cbn [fst snd] in *. subst u.
    destruct es as [|e0 es']; [destruct Hin|]. eexists. split; [reflexivity|].
    unfold agg. rewrite eleaves_node by discriminate. intros x Hx. apply (incl_leaves_in e' _ Hin). apply Hincl. exact Hx.
  - (* optional *)
    intros v e1 H. cbn [load] in H |- *.
    destruct v; try discriminate;
      (destruct (load U First sc t _) as [a|e|x] eqn:Ef; try discriminate; injection H as <-;
       destruct (IH _ e Ef) as [e2 [-> Hi]]; eexists; (split; [reflexivity|]);
       rewrite !eleaves_node by discriminate; unfold leaves_of; cbn [flat_map];
       apply incl_app_app; [apply incl_refl|apply incl_app_app; [exact Hi|apply incl_refl]]).
  - (* union *)
    intros v e1 H. cbn [load] in H |- *.
    apply (union_first_in_all (map (fun t1 => load U First sc t1 v) ts) (map (fun t1 => load U All sc t1 v) ts)) with (acc1 := []) (e1 := e1);
      [|reflexivity|apply incl_refl|exact H].
    clear H. induction IH as [|t1 r Ht _ IH']; cbn [map]; [constructor|]. constructor; [|exact IH']. intros e He. exact (Ht v e He).
Qed.
End WithUser.

(* ---------------- the same for DebugTrail.DISABLE (no trails; in a dict the value loader runs before the key loader);
   stated for types without unions: under DISABLE a failing union raises a plain LoadError that stands for the union as
   a whole ---------------- *)
Section StopLoops.
Variables f1 f2 : pv -> res.
Hypothesis ok12 : forall x a, f1 x = Ok a -> exists a', f2 x = Ok a'.
Hypothesis err12 : forall x e1, f1 x = Err e1 -> exists e2, f2 x = Err e2 /\ incl (eleaves e1) (eleaves e2).

Lemma map_stop_in_all : forall l i e, map_stop f1 l = A1Err e ->
  exists e', In e' (snd (fst (map_all f2 i l))) /\ incl (eleaves e) (eleaves e').
Proof.
  induction l as [|x r IH]; intros i e H; cbn [map_stop] in H; [discriminate|]. cbn [map_all].
  destruct (f1 x) as [a|e0|k] eqn:E1.
  - destruct (ok12 x a E1) as [a' E2]. destruct (map_stop f1 r) as [b|e1|k] eqn:Er; try discriminate.
    injection H as <-. destruct (IH (S i) e1 eq_refl) as [e' [Hin Hincl]].
    destruct (map_all f2 (S i) r) as [[vs es] u]. rewrite E2. cbn [fst snd] in *. exists e'. auto.
  - injection H as <-. destruct (err12 x e0 E1) as [e2 [E2 Hincl]].
    destruct (map_all f2 (S i) r) as [[vs es] u]. rewrite E2. cbn [fst snd]. exists (push All (Idx i) e2).
    split; [left; reflexivity|]. rewrite eleaves_push. exact Hincl.
  - discriminate.
Qed.
End StopLoops.

Lemma zip_stop_in_all : forall fs1 fs2, Forall2 (fun f1 f2 : pv -> res =>
     (forall x a, f1 x = Ok a -> exists a', f2 x = Ok a') /\
     (forall x e1, f1 x = Err e1 -> exists e2, f2 x = Err e2 /\ incl (eleaves e1) (eleaves e2))) fs1 fs2 ->
  forall l i e, zip_stop fs1 l = A1Err e ->
  exists e', In e' (snd (fst (zip_all i fs2 l))) /\ incl (eleaves e) (eleaves e').
Proof.
  induction 1 as [|f1 f2 fr1 fr2 [Hok Herr] _ IH]; intros l i e H; [destruct l; discriminate|].
  destruct l as [|x r]; [discriminate|]. cbn [zip_stop] in H. cbn [zip_all].
  destruct (f1 x) as [a|e0|k] eqn:E1.
  - destruct (Hok x a E1) as [a' E2]. destruct (zip_stop fr1 r) as [b|e1|k] eqn:Er; try discriminate.
    injection H as <-. destruct (IH r (S i) e1 Er) as [e' [Hin Hincl]].
    destruct (zip_all (S i) fr2 r) as [[vs es] u]. rewrite E2. cbn [fst snd] in *. exists e'. auto.
  - injection H as <-. destruct (Herr x e0 E1) as [e2 [E2 Hincl]].
    destruct (zip_all (S i) fr2 r) as [[vs es] u]. rewrite E2. cbn [fst snd]. exists (push All (Idx i) e2).
    split; [left; reflexivity|]. rewrite eleaves_push. exact Hincl.
  - discriminate.
Qed.

Section DictStop.
Variables k1 k2 v1 v2 : pv -> res.
Hypothesis kok : forall x a, k1 x = Ok a -> exists a', k2 x = Ok a'.
Hypothesis kerr : forall x e1, k1 x = Err e1 -> exists e2, k2 x = Err e2 /\ incl (eleaves e1) (eleaves e2).
Hypothesis vok : forall x a, v1 x = Ok a -> exists a', v2 x = Ok a'.
Hypothesis verr : forall x e1, v1 x = Err e1 -> exists e2, v2 x = Err e2 /\ incl (eleaves e1) (eleaves e2).

Lemma dict_stop_in_all : forall l acc1 acc2 e, dict_stop k1 v1 acc1 l = ADErr e ->
  exists e', In e' (snd (fst (dict_all k2 v2 acc2 l))) /\ incl (eleaves e) (eleaves e').
Proof.
  induction l as [|[k v] r IH]; intros acc1 acc2 e H; cbn [dict_stop] in H; [discriminate|]. cbn [dict_all].
  destruct (v1 v) as [b|e0|x] eqn:Ev1.
  - destruct (vok v b Ev1) as [b' Ev2]. destruct (k1 k) as [a|e0|x] eqn:Ek1.
    + destruct (kok k a Ek1) as [a' Ek2]. rewrite Ek2, Ev2.
      destruct (IH (dict_set acc1 a b) (dict_set acc2 a' b') e H) as [e' [Hin Hincl]].
      destruct (dict_all k2 v2 (dict_set acc2 a' b') r) as [[res es] u]. cbn [fst snd app] in *. exists e'. auto.
    + injection H as <-. destruct (kerr k e0 Ek1) as [e2 [Ek2 Hincl]]. rewrite Ek2, Ev2.
      destruct (dict_all k2 v2 acc2 r) as [[res es] u]. cbn [fst snd app]. exists (push All (ItemKey k) e2).
      split; [left; reflexivity|]. rewrite eleaves_push. exact Hincl.
    + discriminate.
  - injection H as <-. destruct (verr v e0 Ev1) as [e2 [Ev2 Hincl]]. rewrite Ev2.
    destruct (k2 k) as [a|ek|x]; destruct (dict_all k2 v2 acc2 r) as [[res es] u]; cbn [fst snd app].
    + exists (push All (Key k) e2). split; [left; reflexivity|rewrite eleaves_push; exact Hincl].
    + exists (push All (Key k) e2). split; [right; left; reflexivity|rewrite eleaves_push; exact Hincl].
    + exists (push All (Key k) e2). split; [left; reflexivity|rewrite eleaves_push; exact Hincl].
  - discriminate.
Qed.
End DictStop.

Section WithUserDisable.
Variable U : nat -> pv -> res.
Hypothesis U_ok : forall n v, no_exn (U n v).
Variable sc : bool.

Notation ld := (load U Disable sc).
Notation la := (load U All sc).

Lemma ok_both_d t v a : ld t v = Ok a -> exists a', la t v = Ok a'.
Proof.
  intro H. pose proof (modes_agree U U_ok sc t v Disable All) as M. rewrite H in M. cbn [okval] in M.
  destruct (la t v) as [a'| |]; try discriminate. eexists; reflexivity.
Qed.

Definition PD (t : ty) : Prop := union_free t ->
  forall v e1, ld t v = Err e1 -> exists e2, la t v = Err e2 /\ incl (eleaves e1) (eleaves e2).

Lemma union_free_items ts : union_free (TTuple ts) -> Forall union_free ts.
Proof. cbn. induction ts as [|t r IH]; intro H; constructor; [exact (proj1 H)|exact (IH (proj2 H))]. Qed.

Theorem disable_error_is_among_all_errors : forall t, PD t.
Proof.
  induction t as [| | | | | |ls|k t IH|ts IH|tk tv IHk IHv|t IH|ts IH|n] using ty_ind'; unfold PD; intro Huf;
    try (intros v e1 H; exists e1; split; [exact H|apply incl_refl]).
  - intros v e1 H. cbn [load] in H |- *. destruct (iter_view sc v) as [l| |]; try (exists e1; split; [exact H|apply incl_refl]).
    destruct (map_stop (load U Disable sc t) l) as [r|e|x] eqn:Ef; try discriminate. injection H as <-.
    destruct (map_stop_in_all (load U Disable sc t) (load U All sc t) (ok_both_d t) (IH Huf) l 0 e Ef) as [e' [Hin Hincl]].
    pose proof (map_all_no_exn (load U All sc t) (load_raises_only_load_error U U_ok All sc t) l 0) as Hu.
    destruct (map_all (load U All sc t) 0 l) as [[vs es] u]. cbn [fst snd] in *. subst u.
    destruct es as [|e0 es']; [destruct Hin|]. eexists. split; [reflexivity|].
    unfold agg. rewrite eleaves_node by discriminate. intros x Hx. apply (incl_leaves_in e' _ Hin). apply Hincl. exact Hx.
  - intros v e1 H. cbn [load] in H |- *. destruct (iter_view sc v) as [l| |]; try (exists e1; split; [exact H|apply incl_refl]).
    destruct (List.length ts <? List.length l)%nat; [exists e1; split; [exact H|apply incl_refl]|].
    destruct (List.length l <? List.length ts)%nat; [exists e1; split; [exact H|apply incl_refl]|].
    destruct (zip_stop (map (fun t1 => load U Disable sc t1) ts) l) as [r|e|x] eqn:Ef; try discriminate. injection H as <-.
    assert (HF : Forall2 (fun f1 f2 : pv -> res =>
                   (forall x a, f1 x = Ok a -> exists a', f2 x = Ok a') /\
                   (forall x e1, f1 x = Err e1 -> exists e2, f2 x = Err e2 /\ incl (eleaves e1) (eleaves e2)))
                  (map (fun t1 => load U Disable sc t1) ts) (map (fun t1 => load U All sc t1) ts)).
    { clear Ef. pose proof (union_free_items ts Huf) as Hufs. clear Huf.
      induction IH as [|t1 r' Ht _ IH']; cbn [map]; [constructor|]. inversion Hufs as [|a b Hu1 Hur]; subst.
      constructor; [|exact (IH' Hur)]. split; [exact (ok_both_d t1)|exact (Ht Hu1)]. }
    destruct (zip_stop_in_all _ _ HF l 0 e Ef) as [e' [Hin Hincl]].
    assert (Hn : Forall (fun f : pv -> res => forall x, no_exn (f x)) (map (fun t1 => load U All sc t1) ts)).
    { apply Forall_forall. intros f Hf. apply in_map_iff in Hf. destruct Hf as [t1 [<- _]]. intro x.
      exact (load_raises_only_load_error U U_ok All sc t1 x). }
    pose proof (zip_all_no_exn _ l 0 Hn) as Hu.
    destruct (zip_all 0 (map (fun t1 => load U All sc t1) ts) l) as [[vs es] u]. cbn [fst snd] in *. subst u.
    destruct es as [|e0 es']; [destruct Hin|]. eexists. split; [reflexivity|].
    unfold agg. rewrite eleaves_node by discriminate. intros x Hx. apply (incl_leaves_in e' _ Hin). apply Hincl. exact Hx.
  - intros v e1 H. cbn [load] in H |- *. destruct v; try (exists e1; split; [exact H|apply incl_refl]).
    destruct Huf as [Hk Hv].
    destruct (dict_stop (load U Disable sc tk) (load U Disable sc tv) [] kvs) as [r|e|x] eqn:Ef; try discriminate. injection H as <-.
    destruct (dict_stop_in_all _ (load U All sc tk) _ (load U All sc tv) (ok_both_d tk) (IHk Hk) (ok_both_d tv) (IHv Hv) kvs [] [] e Ef)
      as [e' [Hin Hincl]].
    pose proof (dict_all_no_exn (load U All sc tk) (load U All sc tv) (load_raises_only_load_error U U_ok All sc tk)
                  (load_raises_only_load_error U U_ok All sc tv) kvs []) as Hu.
    destruct (dict_all (load U All sc tk) (load U All sc tv) [] kvs) as [[res es] u]. cbn [fst snd] in *. subst u.
    destruct es as [|e0 es']; [destruct Hin|]. eexists. split; [reflexivity|].
    unfold agg. rewrite eleaves_node by discriminate. intros x Hx. apply (incl_leaves_in e' _ Hin). apply Hincl. exact Hx.
  - intros v e1 H. cbn [load] in H |- *.
    destruct v; try discriminate;
      (destruct (load U Disable sc t _) as [a|e|x] eqn:Ef; try discriminate; injection H as <-;
       destruct (IH Huf _ e Ef) as [e2 [-> Hi]]; eexists; (split; [reflexivity|]);
       rewrite eleaves_node by discriminate; unfold leaves_of; cbn [flat_map];
       apply incl_appr; apply incl_appl; exact Hi).
  - destruct Huf.
Qed.
End WithUserDisable.
