(* Lemmas about the tables regenerated from /repo's source and documentation on every run (coq/Generated). *)
From Coq Require Import List String Bool ZArith.
From AV Require Import Model.Val Model.Load Proofs.LoadProofs.
From AV Require Import Generated.ScalarLoaders Generated.DocTables Generated.AbcToImpl.
Import ListNotations.
Local Open Scope string_scope.

Fixpoint lookup (k : string) (l : list (string * list string)) : list string :=
  match l with [] => [] | (k', v) :: r => if String.eqb k k' then v else lookup k r end.
Definition mem (s : string) (l : list string) : bool := existsb (String.eqb s) l.

(* the exact-type tests found in the *_strict_coercion_loader functions are the documented "allowed strict origins" *)
Theorem strict_origins_match_docs : code_strict_origins = doc_strict_origins.
Proof. vm_compute. reflexivity. Qed.

(* ... and they are what the model's strict scalar loaders accept *)
Definition tag (v : pv) : string :=
  match v with
  | VNone => "NoneType" | VBool _ => "bool" | VInt _ => "int" | VFloat _ => "float" | VStr _ => "str"
  | VBytes _ => "bytes" | VList _ => "list" | VTuple _ => "tuple" | VSet _ => "set" | VFrozenSet _ => "frozenset"
  | VDict _ => "dict" | VIter _ => "iterator" | VObj _ => "object"
  end.
Definition in_float_range (v : pv) : bool := match v with VInt z => (Z.abs z <? FLOAT_MAX)%Z | _ => true end.

Theorem model_strict_scalars_follow_table : forall v,
  (match load_int true v with Ok _ => true | _ => false end = mem (tag v) (lookup "int" code_strict_origins)) /\
  (match load_str true v with Ok _ => true | _ => false end = mem (tag v) (lookup "str" code_strict_origins)) /\
  (match load_bool true v with Ok _ => true | _ => false end = mem (tag v) (lookup "bool" code_strict_origins)) /\
  (in_float_range v = true ->
   match load_float true v with Ok _ => true | _ => false end = mem (tag v) (lookup "float" code_strict_origins)).
Proof.
  intro v. repeat split; destruct v; try reflexivity.
  intro H. simpl in H. unfold load_float, float_of_int. rewrite H. reflexivity.
Qed.

(* abstract collections are loaded as the minimal concrete type: immutable unless the ABC is a mutable one,
   a set type exactly for the set ABCs *)
Definition abc_is_mutable (a : string) : bool := mem a ["MutableSequence"; "MutableSet"; "MutableMapping"].
Definition abc_is_set (a : string) : bool := mem a ["Set"; "MutableSet"].
Definition impl_is_mutable (i : string) : bool := mem i ["list"; "set"; "dict"].
Definition impl_is_set (i : string) : bool := mem i ["set"; "frozenset"].

Theorem abc_impl_minimal :
  forallb (fun p => Bool.eqb (abc_is_mutable (fst p)) (impl_is_mutable (snd p)) &&
                    Bool.eqb (abc_is_set (fst p)) (impl_is_set (snd p))) abc_to_impl = true.
Proof. vm_compute. reflexivity. Qed.

Theorem abc_table_covers_the_iterable_abcs :
  forallb (fun a => existsb (fun p => String.eqb a (fst p)) abc_to_impl)
          ["Iterable"; "Reversible"; "Collection"; "Sequence"; "MutableSequence"; "Set"; "MutableSet"] = true.
Proof. vm_compute. reflexivity. Qed.

Theorem mapping_abcs_are_loaded_as_dict :
  lookup "Mapping" (map (fun p => (fst p, [snd p])) abc_proxies) = ["dict"] /\
  lookup "MutableMapping" (map (fun p => (fst p, [snd p])) abc_proxies) = ["dict"].
Proof. vm_compute. split; reflexivity. Qed.

Theorem iterable_dumper_outer_form : iterable_dumper_factory = "list-subclasses-keep-their-class-else-tuple".
Proof. reflexivity. Qed.

(* C04: every stdlib exception a builtin scalar loader's constructor is documented to raise for bad input is
   translated: the handler table of each loader, as found in the source, contains the classes below *)
Definition handlers_of (name : string) : list string :=
  (fix go (l : list (string * list (string * list string))) : list string :=
     match l with [] => [] | (k, hs) :: r => if String.eqb k name then map fst hs else go r end) loader_handlers.
Definition required_handlers : list (string * list string) :=
  [("int_lax_coercion_loader", ["ValueError"; "TypeError"; "OverflowError"]);
   ("float_strict_coercion_loader", ["OverflowError"]);
   ("float_lax_coercion_loader", ["ValueError"; "TypeError"; "OverflowError"]);
   ("decimal_strict_coercion_loader", ["InvalidOperation"]);
   ("decimal_lax_coercion_loader", ["InvalidOperation"; "TypeError"; "ValueError"]);
   ("fraction_strict_coercion_loader", ["ValueError"; "ZeroDivisionError"]);
   ("fraction_lax_coercion_loader", ["TypeError"; "ValueError"; "ZeroDivisionError"; "OverflowError"]);
   ("complex_strict_coercion_loader", ["ValueError"]);
   ("complex_lax_coercion_loader", ["TypeError"; "ValueError"; "OverflowError"]);
   ("isoformat_loader", ["TypeError"; "ValueError"])].
Theorem scalar_loaders_translate_constructor_errors :
  forallb (fun p => forallb (fun e => mem e (handlers_of (fst p))) (snd p)) required_handlers = true.
Proof. vm_compute. reflexivity. Qed.
