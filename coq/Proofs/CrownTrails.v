(* C05 (and the third sentence of C06) for generated model loaders (Model/CrownSem.v).
   - every error the collect-all interpreter reports carries a trail that, followed from the datum through mapping
     keys and list indices, reaches a sub-value that offends the crown node found along the same trail, in the way the
     error class says (wrong kind, missing required keys = exactly those, unknown keys = exactly those, too short /
     too long a list);
   - completeness: every field whose datum is reachable and is not an int, every mapping node with a missing required
     key or (policy forbid) an unknown key, every list node that is too short or too long is reported;
   - the single error of DISABLE / FIRST is the FIRST error ALL collects (FIRST with the same trail, DISABLE with none).
   For every crown (any nesting of mapping and list nodes), extra policy and datum. *)
From Coq Require Import List Arith Bool String Lia.
From AV Require Import Model.Layout Model.CrownSem Proofs.CrownProofs Proofs.CrownModes.
Import ListNotations.
Local Open Scope list_scope.

(* the crown node a trail leads to *)
Inductive at_path : crown -> path -> crown -> Prop :=
| at_here c : at_path c [] c
| at_key m k sub q n : In (k, sub) m -> at_path sub q n -> at_path (CDict m) (KS k :: q) n
| at_idx m i sub q n : nth_error m i = Some sub -> at_path sub q n -> at_path (CList m) (KI i :: q) n.

Definition wrong_kind (node : crown) (v : pv) : Prop :=
  match node with
  | CField _ => forall n, v <> VInt n
  | CDict _ => forall kvs, v <> VDict kvs
  | CList _ => forall l, v <> VList l
  | CNone => False
  end.

Section Trails.
Variable info : finfos.
Variable pol : policy.

(* what each error class says about the node and the sub-value its trail leads to *)
Definition offends (node : crown) (v : pv) (cl : ecls) : Prop :=
  match cl with
  | TypeLE => wrong_kind node v
  | NoReqFields ks => exists m kvs, node = CDict m /\ v = VDict kvs /\ ks = missing_required info m v /\ ks <> []
  | ExtraFields ks => exists m, node = CDict m /\ pol = Forbid /\ ks = unknown_keys m v /\ ks <> []
  | NoReqItems n => exists m l, node = CList m /\ v = VList l /\ n = List.length m /\ List.length l < n
  | ExtraItems n => exists m l, node = CList m /\ v = VList l /\ pol = Forbid /\ n = List.length m /\ n < List.length l
  end.

(* an error reported while loading datum d (found at absolute trail p) with crown c is exact *)
Definition exact (c : crown) (d : pv) (p : path) (e : err) : Prop :=
  match e with
  | E cl t => exists q node v, t = p ++ q /\ at_path c q node /\ get_data d q = Some v /\ offends node v cl
  end.

Notation allc := (all info pol).

Definition all_exact (c : crown) : Prop := forall p d s,
  match allc c p d s with
  | GoA s' _ => exists es, errs s' = errs s ++ es /\ Forall (exact c d p) es
  | BadA => wrong_kind c d
  end.

Lemma dget_found d k v : dget d k = Found v -> exists kvs, d = VDict kvs /\ lookup (KS k) kvs = Some v.
Proof. unfold dget. destruct d; try discriminate. destruct (lookup (KS k) kvs) eqn:E; [|discriminate]. intro H; injection H as <-. eauto. Qed.
Lemma dget_missing d k : dget d k = Missing -> exists kvs, d = VDict kvs /\ lookup (KS k) kvs = None.
Proof. unfold dget. destruct d; try discriminate. destruct (lookup (KS k) kvs) eqn:E; [discriminate|]. eauto. Qed.
Lemma dget_badkind d k : dget d k = BadKind -> forall kvs, d <> VDict kvs.
Proof. unfold dget. destruct d; try discriminate. destruct (lookup (KS k) kvs); discriminate. Qed.
Lemma lget_found d i v : lget d i = Found v -> exists l, d = VList l /\ nth_error l i = Some v.
Proof. unfold lget. destruct d; try discriminate. destruct (nth_error l i) eqn:E; [|discriminate]. intro H; injection H as <-. eauto. Qed.
Lemma lget_badkind d i : lget d i = BadKind -> forall l, d <> VList l.
Proof. unfold lget. destruct d; try discriminate. destruct (nth_error l i); discriminate. Qed.

Lemma lookup_none_has_key kvs k : lookup (KS k) kvs = None -> has_key (VDict kvs) k = false.
Proof.
  unfold has_key, keys_of. induction kvs as [|[k' v] r IH]; cbn [lookup map existsb fst]; [reflexivity|].
  destruct (key_eqb (KS k) k'); [discriminate|]. exact IH.
Qed.

Lemma missing_required_nonempty m kvs k sub : In (k, sub) m -> is_required info sub = true -> lookup (KS k) kvs = None ->
  missing_required info m (VDict kvs) <> [].
Proof.
  intros Hin Hreq Hl. unfold missing_required, required_keys.
  assert (In k (filter (fun k0 => negb (has_key (VDict kvs) k0)) (map fst (filter (fun kc => is_required info (snd kc)) m)))) as H.
  { apply filter_In. split.
    - apply in_map_iff. exists (k, sub). split; [reflexivity|]. apply filter_In. split; [exact Hin|exact Hreq].
    - now rewrite (lookup_none_has_key _ _ Hl). }
  intro E. rewrite E in H. exact H.
Qed.

(* an error that is exact for a child is exact for the mapping / list node around it *)
Lemma exact_under_key m k sub d v p e : In (k, sub) m -> dget d k = Found v ->
  exact sub v (p ++ [KS k]) e -> exact (CDict m) d p e.
Proof.
  intros Hin Hg. destruct e as [cl t]. intros [q [node [w [-> [Hat [Hget Hoff]]]]]].
  exists (KS k :: q), node, w. repeat split.
  - now rewrite <- app_assoc.
  - econstructor; eassumption.
  - destruct (dget_found _ _ _ Hg) as [kvs [-> Hl]]. cbn [get_data]. now rewrite Hl.
  - exact Hoff.
Qed.
Lemma exact_under_index m i sub d v p e : nth_error m i = Some sub -> lget d i = Found v ->
  exact sub v (p ++ [KI i]) e -> exact (CList m) d p e.
Proof.
  intros Hin Hg. destruct e as [cl t]. intros [q [node [w [-> [Hat [Hget Hoff]]]]]].
  exists (KI i :: q), node, w. repeat split.
  - now rewrite <- app_assoc.
  - econstructor; eassumption.
  - destruct (lget_found _ _ _ Hg) as [l [-> Hl]]. cbn [get_data]. now rewrite Hl.
  - exact Hoff.
Qed.

(* the wrong-kind report a node makes for a child *)
Lemma exact_child_kind_key m k sub d v p : In (k, sub) m -> dget d k = Found v -> wrong_kind sub v ->
  exact (CDict m) d p (E TypeLE (p ++ [KS k])).
Proof.
  intros Hin Hg Hw. exists [KS k], sub, v. repeat split.
  - econstructor; [eassumption|constructor].
  - destruct (dget_found _ _ _ Hg) as [kvs [-> Hl]]. cbn [get_data]. now rewrite Hl.
  - exact Hw.
Qed.
Lemma exact_child_kind_index m i sub d v p : nth_error m i = Some sub -> lget d i = Found v -> wrong_kind sub v ->
  exact (CList m) d p (E TypeLE (p ++ [KI i])).
Proof.
  intros Hin Hg Hw. exists [KI i], sub, v. repeat split.
  - econstructor; [eassumption|constructor].
  - destruct (lget_found _ _ _ Hg) as [l [-> Hl]]. cbn [get_data]. now rewrite Hl.
  - exact Hw.
Qed.

Lemma exact_here c d p cl : offends c d cl -> exact c d p (E cl p).
Proof. intro H. exists [], c, d. repeat split; [now rewrite app_nil_r|constructor|exact H]. Qed.

Ltac step_app IHres :=
  let es := fresh "es" in let He := fresh "He" in let Hf := fresh "Hf" in
  destruct IHres as [es [He Hf]]; rewrite He; cbn [add_err add_field errs fields].

Lemma dict_all_exact m p d : forall rest, incl rest m -> Forall (fun kc => all_exact (snd kc)) rest ->
  forall s x nf,
  match dict_all info allc m p d rest s x nf with
  | GoA s' _ => exists es, errs s' = errs s ++ es /\ Forall (exact (CDict m) d p) es
  | BadA => forall kvs, d <> VDict kvs
  end.
Proof.
  induction rest as [|[k sub] r IH]; intros Hincl Hall s x nf; cbn [dict_all].
  - exists []. split; [now rewrite app_nil_r|constructor].
  - assert (Hin : In (k, sub) m) by (apply Hincl; now left).
    assert (Hincl' : incl r m) by (intros a Ha; apply Hincl; now right).
    inversion Hall as [|a b Hsub Hr]; subst a b. cbn [snd] in Hsub.
    (* continuing after one more error e that is exact *)
    assert (Hcont : forall e x1 nf1, exact (CDict m) d p e ->
      match dict_all info allc m p d r (add_err e s) x1 nf1 with
      | GoA s' _ => exists es, errs s' = errs s ++ es /\ Forall (exact (CDict m) d p) es
      | BadA => forall kvs, d <> VDict kvs
      end).
    { intros e x1 nf1 He. specialize (IH Hincl' Hr (add_err e s) x1 nf1).
      destruct (dict_all info allc m p d r (add_err e s) x1 nf1) as [s' x'|]; [|exact IH].
      destruct IH as [es [Hes Hf]]. exists (e :: es). split.
      - rewrite Hes. cbn [add_err errs]. now rewrite <- app_assoc.
      - constructor; assumption. }
    assert (Hsame : forall f1 x1 nf1,
      match dict_all info allc m p d r {| fields := f1; errs := errs s |} x1 nf1 with
      | GoA s' _ => exists es, errs s' = errs s ++ es /\ Forall (exact (CDict m) d p) es
      | BadA => forall kvs, d <> VDict kvs
      end).
    { intros f1 x1 nf1. exact (IH Hincl' Hr {| fields := f1; errs := errs s |} x1 nf1). }
    destruct (dget d k) as [v| |] eqn:Eg.
    + destruct sub as [i| |m'|m'].
      * destruct v; try (apply Hcont; apply (exact_child_kind_key m k (CField i) d _ p Hin Eg); cbn; intros n0; discriminate).
        apply Hsame.
      * exact (IH Hincl' Hr s x nf).
      * specialize (Hsub (p ++ [KS k]) v s).
        destruct (allc (CDict m') (p ++ [KS k]) v s) as [s1 sx|].
        -- destruct Hsub as [es1 [He1 Hf1]].
           specialize (IH Hincl' Hr s1 (add_sub_extra (KS k) sx x) nf).
           destruct (dict_all info allc m p d r s1 (add_sub_extra (KS k) sx x) nf) as [s' x'|]; [|exact IH].
           destruct IH as [es [Hes Hf]]. exists (es1 ++ es). split.
           ++ rewrite Hes, He1. now rewrite <- app_assoc.
           ++ apply Forall_app. split; [|exact Hf].
              eapply Forall_impl; [|exact Hf1]. intros e He. eapply exact_under_key; eassumption.
        -- apply Hcont. eapply exact_child_kind_key; eassumption.
      * specialize (Hsub (p ++ [KS k]) v s).
        destruct (allc (CList m') (p ++ [KS k]) v s) as [s1 sx|].
        -- destruct Hsub as [es1 [He1 Hf1]].
           specialize (IH Hincl' Hr s1 (add_sub_extra (KS k) sx x) nf).
           destruct (dict_all info allc m p d r s1 (add_sub_extra (KS k) sx x) nf) as [s' x'|]; [|exact IH].
           destruct IH as [es [Hes Hf]]. exists (es1 ++ es). split.
           ++ rewrite Hes, He1. now rewrite <- app_assoc.
           ++ apply Forall_app. split; [|exact Hf].
              eapply Forall_impl; [|exact Hf1]. intros e He. eapply exact_under_key; eassumption.
        -- apply Hcont. eapply exact_child_kind_key; eassumption.
    + destruct (dget_missing _ _ Eg) as [kvs [-> Hl]].
      assert (Hrep : forall sub', In (k, sub') m -> is_required info sub' = true ->
                exact (CDict m) (VDict kvs) p (E (NoReqFields (missing_required info m (VDict kvs))) p)).
      { intros sub' Hin' Hreq. apply exact_here. cbn [offends]. exists m, kvs. repeat split.
        eapply missing_required_nonempty; eassumption. }
      assert (Hgo : forall sub', In (k, sub') m -> is_required info sub' = true ->
        match dict_all info allc m p (VDict kvs) r
                (if nf then s else add_err (E (NoReqFields (missing_required info m (VDict kvs))) p) s) x true with
        | GoA s' _ => exists es, errs s' = errs s ++ es /\ Forall (exact (CDict m) (VDict kvs) p) es
        | BadA => forall kvs0, VDict kvs <> VDict kvs0
        end).
      { intros sub' Hin' Hreq. destruct nf; [exact (IH Hincl' Hr s x true)|]. apply Hcont. eapply Hrep; eassumption. }
      destruct sub as [i| |m'|m'].
      * destruct (fi_required (info i)) eqn:Er.
        -- apply (Hgo (CField i) Hin). cbn [is_required]. exact Er.
        -- apply Hsame.
      * apply (Hgo CNone Hin). reflexivity.
      * apply (Hgo (CDict m') Hin). reflexivity.
      * apply (Hgo (CList m') Hin). reflexivity.
    + exact (dget_badkind _ _ Eg).
Qed.

Lemma list_all_exact m p d : forall rest i, (forall j sub, nth_error rest j = Some sub -> nth_error m (i + j) = Some sub) ->
  Forall all_exact rest -> forall s,
  match list_all allc p d rest i s with
  | GoA s' _ => exists es, errs s' = errs s ++ es /\ Forall (exact (CList m) d p) es
  | BadA => forall l, d <> VList l
  end.
Proof.
  induction rest as [|sub r IH]; intros i Hidx Hall s; cbn [list_all].
  - exists []. split; [now rewrite app_nil_r|constructor].
  - assert (Hin : nth_error m i = Some sub) by (rewrite <- (Nat.add_0_r i); apply Hidx; reflexivity).
    assert (Hidx' : forall j sub', nth_error r j = Some sub' -> nth_error m (Datatypes.S i + j) = Some sub').
    { intros j sub' Hj. replace (Datatypes.S i + j) with (i + Datatypes.S j) by lia. apply Hidx. exact Hj. }
    inversion Hall as [|a b Hsub Hr]; subst a b.
    assert (Hcont : forall e, exact (CList m) d p e ->
      match list_all allc p d r (Datatypes.S i) (add_err e s) with
      | GoA s' _ => exists es, errs s' = errs s ++ es /\ Forall (exact (CList m) d p) es
      | BadA => forall l, d <> VList l
      end).
    { intros e He. specialize (IH (Datatypes.S i) Hidx' Hr (add_err e s)).
      destruct (list_all allc p d r (Datatypes.S i) (add_err e s)) as [s' x'|]; [|exact IH].
      destruct IH as [es [Hes Hf]]. exists (e :: es). split.
      - rewrite Hes. cbn [add_err errs]. now rewrite <- app_assoc.
      - constructor; assumption. }
    assert (Hnode : forall v, lget d i = Found v -> all_exact sub ->
      match allc sub (p ++ [KI i]) v s with
      | GoA s' _ => list_all allc p d r (Datatypes.S i) s'
      | BadA => list_all allc p d r (Datatypes.S i) (add_err (E TypeLE (p ++ [KI i])) s)
      end = match allc sub (p ++ [KI i]) v s with
            | GoA s' _ => list_all allc p d r (Datatypes.S i) s'
            | BadA => list_all allc p d r (Datatypes.S i) (add_err (E TypeLE (p ++ [KI i])) s)
            end ->
      match (match allc sub (p ++ [KI i]) v s with
             | GoA s' _ => list_all allc p d r (Datatypes.S i) s'
             | BadA => list_all allc p d r (Datatypes.S i) (add_err (E TypeLE (p ++ [KI i])) s)
             end) with
      | GoA s' _ => exists es, errs s' = errs s ++ es /\ Forall (exact (CList m) d p) es
      | BadA => forall l, d <> VList l
      end).
    { intros v Eg Hs _. specialize (Hs (p ++ [KI i]) v s).
      destruct (allc sub (p ++ [KI i]) v s) as [s1 sx|].
      - destruct Hs as [es1 [He1 Hf1]].
        specialize (IH (Datatypes.S i) Hidx' Hr s1).
        destruct (list_all allc p d r (Datatypes.S i) s1) as [s' x'|]; [|exact IH].
        destruct IH as [es [Hes Hf]]. exists (es1 ++ es). split.
        + rewrite Hes, He1. now rewrite <- app_assoc.
        + apply Forall_app. split; [|exact Hf].
          eapply Forall_impl; [|exact Hf1]. intros e He. eapply exact_under_index; eassumption.
      - apply Hcont. eapply exact_child_kind_index; eassumption. }
    destruct sub as [id| |m'|m'].
    + destruct (lget d i) as [v| |] eqn:Eg.
      * destruct v; try (apply Hcont; apply (exact_child_kind_index m i (CField id) d _ p Hin Eg); cbn; intros n0; discriminate).
        exact (IH (Datatypes.S i) Hidx' Hr _).
      * exact (IH (Datatypes.S i) Hidx' Hr s).
      * exact (lget_badkind _ _ Eg).
    + exact (IH (Datatypes.S i) Hidx' Hr s).
    + destruct (lget d i) as [v| |] eqn:Eg.
      * exact (Hnode v eq_refl Hsub eq_refl).
      * exact (IH (Datatypes.S i) Hidx' Hr s).
      * exact (lget_badkind _ _ Eg).
    + destruct (lget d i) as [v| |] eqn:Eg.
      * exact (Hnode v eq_refl Hsub eq_refl).
      * exact (IH (Datatypes.S i) Hidx' Hr s).
      * exact (lget_badkind _ _ Eg).
Qed.

Lemma unknown_keys_nonempty_dict m d k ks : unknown_keys m d = k :: ks -> exists kvs, d = VDict kvs.
Proof. unfold unknown_keys, unknown_items. destruct d; try discriminate. eauto. Qed.

Theorem all_trails_exact : forall c, all_exact c.
Proof.
  induction c as [i| |m IH|m IH] using crown_ind'; unfold all_exact; intros p d s; cbn [all].
  - exists []. split; [now rewrite app_nil_r|constructor].
  - exists []. split; [now rewrite app_nil_r|constructor].
  - assert (Hinner :
      match (match m with [] => (match d with VDict _ => GoA s [] | _ => BadA end) | _ => dict_all info allc m p d m s [] false end) with
      | GoA s' _ => exists es, errs s' = errs s ++ es /\ Forall (exact (CDict m) d p) es
      | BadA => forall kvs, d <> VDict kvs
      end).
    { destruct m as [|kc r].
      - destruct d; try (intros kvs0; discriminate). exists []. split; [now rewrite app_nil_r|constructor].
      - exact (dict_all_exact (kc :: r) p d (kc :: r) (incl_refl _) IH s [] false). }
    destruct (match m with [] => (match d with VDict _ => GoA s [] | _ => BadA end) | _ => dict_all info allc m p d m s [] false end) as [s1 x1|].
    + destruct Hinner as [es [Hes Hf]].
      destruct pol eqn:Ep.
      * exists es. split; assumption.
      * destruct (unknown_keys m d) as [|k ks] eqn:Eu.
        -- exists es. split; assumption.
        -- exists (es ++ [E (ExtraFields (k :: ks)) p]). split.
           ++ cbn [add_err errs]. rewrite Hes. now rewrite <- app_assoc.
           ++ apply Forall_app. split; [exact Hf|]. constructor; [|constructor].
              apply exact_here. cbn [offends]. exists m. repeat split; try (now rewrite Eu); try discriminate; try exact Ep.
      * exists es. split; assumption.
    + cbn [wrong_kind]. exact Hinner.
  - destruct d; try (cbn [wrong_kind]; intros l0; discriminate).
    pose proof (list_all_exact m p (VList l) m 0 (fun j sub H => H) IH s) as Hinner.
    destruct (list_all allc p (VList l) m 0 s) as [s1 x1|].
    + destruct Hinner as [es [Hes Hf]].
      assert (Hadd : forall e, exact (CList m) (VList l) p e ->
                exists es0, errs (add_err e s1) = errs s ++ es0 /\ Forall (exact (CList m) (VList l) p) es0).
      { intros e He. exists (es ++ [e]). split.
        - cbn [add_err errs]. rewrite Hes. now rewrite <- app_assoc.
        - apply Forall_app. split; [exact Hf|]. constructor; [exact He|constructor]. }
      cbn [data_len].
      destruct (Nat.ltb (List.length l) (List.length m)) eqn:El.
      * apply Hadd. apply exact_here. cbn [offends]. exists m, l. apply Nat.ltb_lt in El. repeat split. exact El.
      * destruct (is_forbid pol && Nat.ltb (List.length m) (List.length l)) eqn:Ef.
        -- apply Hadd. apply exact_here. cbn [offends]. exists m, l.
           apply andb_true_iff in Ef. destruct Ef as [Ef1 Ef2]. apply Nat.ltb_lt in Ef2.
           unfold is_forbid in Ef1. repeat split; try exact Ef2. destruct pol; try discriminate. reflexivity.
        -- exists es. split; assumption.
    + exfalso. exact (Hinner l eq_refl).
Qed.
End Trails.

(* ------------------------------------------------------------------------------------------------------------------ *)
(* the error of the stop-at-first interpreter is the first error the collect-all interpreter reports *)
Definition retrail (md : mode) (e : err) : err := match e with E cl t => E cl (trail_of md t) end.

Section Head.
Variable info : finfos.
Variable pol : policy.
Variable md : mode.

Notation allc := (all info pol).
Notation firstc := (first info pol md).

Lemma dict_all_not_bad m p kvs : forall rest s x nf, dict_all info allc m p (VDict kvs) rest s x nf <> BadA.
Proof.
  induction rest as [|[k sub] r IH]; intros s x nf; cbn [dict_all]; [discriminate|].
  unfold dget. destruct (lookup (KS k) kvs) as [v|].
  - destruct sub as [i| |m'|m'].
    + destruct v; apply IH.
    + apply IH.
    + destruct (allc (CDict m') (p ++ [KS k]) v s); apply IH.
    + destruct (allc (CList m') (p ++ [KS k]) v s); apply IH.
  - destruct sub as [i| |m'|m']; try apply IH. destruct (fi_required (info i)); apply IH.
Qed.

Lemma list_all_not_bad p l : forall rest i s, list_all allc p (VList l) rest i s <> BadA.
Proof.
  induction rest as [|sub r IH]; intros i s; cbn [list_all]; [discriminate|].
  destruct sub as [id| |m'|m']; try apply IH; unfold lget; destruct (nth_error l i) as [v|]; try apply IH.
  - destruct v; apply IH.
  - destruct (allc (CDict m') (p ++ [KI i]) v s); apply IH.
  - destruct (allc (CList m') (p ++ [KI i]) v s); apply IH.
Qed.

(* once an error is recorded it stays the first one *)
Lemma dict_keeps_head m p kvs rest s x nf e es0 : errs s = e :: es0 ->
  exists s' x' es, dict_all info allc m p (VDict kvs) rest s x nf = GoA s' x' /\ errs s' = e :: es.
Proof.
  intro Hs. destruct (dict_all info allc m p (VDict kvs) rest s x nf) as [s' x'|] eqn:E.
  - destruct (dict_all_mono info pol _ _ _ _ _ _ _ _ _ E) as [es Hes]. exists s', x', (es0 ++ es). split; [reflexivity|].
    rewrite Hes, Hs. reflexivity.
  - exfalso. exact (dict_all_not_bad _ _ _ _ _ _ _ E).
Qed.
Lemma list_keeps_head p l rest i s e es0 : errs s = e :: es0 ->
  exists s' x' es, list_all allc p (VList l) rest i s = GoA s' x' /\ errs s' = e :: es.
Proof.
  intro Hs. destruct (list_all allc p (VList l) rest i s) as [s' x'|] eqn:E.
  - destruct (list_all_mono info pol _ _ _ _ _ _ _ E) as [es Hes]. exists s', x', (es0 ++ es). split; [reflexivity|].
    rewrite Hes, Hs. reflexivity.
  - exfalso. exact (list_all_not_bad _ _ _ _ _ E).
Qed.

Definition head_agree (c : crown) : Prop := forall p d s, errs s = [] ->
  match allc c p d s with
  | BadA => firstc c p d (fields s) = Stop (E TypeLE (trail_of md p))
  | GoA s' x => (errs s' = [] /\ firstc c p d (fields s) = Go1 (fields s') x) \/
                (exists e es, errs s' = e :: es /\ firstc c p d (fields s) = Stop (retrail md e))
  end.

Lemma dict_head m p d : forall rest, Forall (fun kc => head_agree (snd kc)) rest ->
  forall s x0, errs s = [] ->
  match dict_all info allc m p d rest s x0 false with
  | BadA => dict_first info md firstc m p d rest (fields s) x0 = Stop (E TypeLE (trail_of md p))
  | GoA s' x => (errs s' = [] /\ dict_first info md firstc m p d rest (fields s) x0 = Go1 (fields s') x) \/
                (exists e es, errs s' = e :: es /\ dict_first info md firstc m p d rest (fields s) x0 = Stop (retrail md e))
  end.
Proof.
  induction rest as [|[k sub] r IH]; intros Hall s x0 Hs; cbn [dict_all dict_first].
  - left. split; [exact Hs|reflexivity].
  - inversion Hall as [|a b Hsub Hr]; subst. cbn [snd] in Hsub.
    (* first stops here with (retrail e); all records e and goes on *)
    assert (Hstop : forall kvs e x1 nf1, d = VDict kvs ->
              match dict_all info allc m p d r (add_err e s) x1 nf1 with
              | BadA => @Stop (retrail md e) = Stop (E TypeLE (trail_of md p))
              | GoA s' x => (errs s' = [] /\ Stop (retrail md e) = Go1 (fields s') x) \/
                            (exists e' es, errs s' = e' :: es /\ @Stop (retrail md e) = Stop (retrail md e'))
              end).
    { intros kvs e x1 nf1 ->.
      assert (Hh : errs (add_err e s) = e :: []) by (cbn [add_err errs]; now rewrite Hs).
      destruct (dict_keeps_head m p kvs r (add_err e s) x1 nf1 e [] Hh) as [s' [x' [es [-> Hes]]]].
      right. exists e, es. split; [exact Hes|reflexivity]. }
    destruct (dget d k) as [v| |] eqn:Eg.
    + destruct (dget_found _ _ _ Eg) as [kvs [Hd _]].
      destruct sub as [i| |m'|m'].
      * destruct v; try exact (Hstop kvs (E TypeLE (p ++ [KS k])) _ _ Hd). cbn [add_field].
        exact (IH Hr {| fields := fields s ++ [(i, n)]; errs := errs s |} x0 Hs).
      * exact (IH Hr s x0 Hs).
      * specialize (Hsub (p ++ [KS k]) v s Hs).
        destruct (allc (CDict m') (p ++ [KS k]) v s) as [s1 sx|].
        -- destruct Hsub as [[Hs1 ->]|[e [es [Hs1 ->]]]].
           ++ exact (IH Hr s1 _ Hs1).
           ++ subst d. destruct (dict_keeps_head m p kvs r s1 (add_sub_extra (KS k) sx x0) false e es Hs1) as [s' [x' [es' [-> Hes]]]].
              right. exists e, es'. split; [exact Hes|reflexivity].
        -- rewrite Hsub. exact (Hstop kvs (E TypeLE (p ++ [KS k])) _ _ Hd).
      * specialize (Hsub (p ++ [KS k]) v s Hs).
        destruct (allc (CList m') (p ++ [KS k]) v s) as [s1 sx|].
        -- destruct Hsub as [[Hs1 ->]|[e [es [Hs1 ->]]]].
           ++ exact (IH Hr s1 _ Hs1).
           ++ subst d. destruct (dict_keeps_head m p kvs r s1 (add_sub_extra (KS k) sx x0) false e es Hs1) as [s' [x' [es' [-> Hes]]]].
              right. exists e, es'. split; [exact Hes|reflexivity].
        -- rewrite Hsub. exact (Hstop kvs (E TypeLE (p ++ [KS k])) _ _ Hd).
    + destruct (dget_missing _ _ Eg) as [kvs [Hd _]].
      destruct sub as [i| |m'|m']; try exact (Hstop kvs (E (NoReqFields (missing_required info m d)) p) _ _ Hd).
      destruct (fi_required (info i)); [exact (Hstop kvs (E (NoReqFields (missing_required info m d)) p) _ _ Hd)|].
      cbn [add_field]. exact (IH Hr {| fields := fields s ++ [(i, fi_default (info i))]; errs := errs s |} x0 Hs).
    + reflexivity.
Qed.

(* beyond the end of the data every remaining position is missing: nothing more is recorded *)
Lemma list_all_beyond p l : forall rest i s, List.length l <= i -> list_all allc p (VList l) rest i s = GoA s [].
Proof.
  induction rest as [|sub r IH]; intros i s Hi; cbn [list_all]; [reflexivity|].
  assert (Hm : lget (VList l) i = Missing).
  { unfold lget. destruct (nth_error l i) eqn:E; [|reflexivity]. apply nth_error_None in Hi. congruence. }
  destruct sub; rewrite ?Hm; apply IH; lia.
Qed.

Lemma list_head expected p l : forall rest, Forall head_agree rest ->
  forall i s, errs s = [] -> i + List.length rest = expected ->
  match list_all allc p (VList l) rest i s with
  | BadA => False
  | GoA s' _ => (errs s' = [] /\ list_first md firstc expected p (VList l) rest i (fields s) = Go1 (fields s') []) \/
                (exists e es, errs s' = e :: es /\ list_first md firstc expected p (VList l) rest i (fields s) = Stop (retrail md e)) \/
                (errs s' = [] /\ List.length l < expected /\
                 list_first md firstc expected p (VList l) rest i (fields s) = Stop (E (NoReqItems expected) (trail_of md p)))
  end.
Proof.
  induction rest as [|sub r IH]; intros Hall i s Hs Hlen; cbn [list_all list_first].
  - left. split; [exact Hs|reflexivity].
  - inversion Hall as [|a b Hsub Hr]; subst a b. cbn [List.length] in Hlen.
    assert (Hlen' : Datatypes.S i + List.length r = expected) by lia.
    assert (Hstop : forall e,
              match list_all allc p (VList l) r (Datatypes.S i) (add_err e s) with
              | BadA => False
              | GoA s' _ => (errs s' = [] /\ @Stop (retrail md e) = Go1 (fields s') []) \/
                            (exists e' es, errs s' = e' :: es /\ @Stop (retrail md e) = Stop (retrail md e')) \/
                            (errs s' = [] /\ List.length l < expected /\ @Stop (retrail md e) = Stop (E (NoReqItems expected) (trail_of md p)))
              end).
    { intros e.
      assert (Hh : errs (add_err e s) = e :: []) by (cbn [add_err errs]; now rewrite Hs).
      destruct (list_keeps_head p l r (Datatypes.S i) (add_err e s) e [] Hh) as [s' [x' [es [-> Hes]]]].
      right. left. exists e, es. split; [exact Hes|reflexivity]. }
    assert (Hmiss : lget (VList l) i = Missing ->
              match list_all allc p (VList l) r (Datatypes.S i) s with
              | BadA => False
              | GoA s' _ => (errs s' = [] /\ @Stop (E (NoReqItems expected) (trail_of md p)) = Go1 (fields s') []) \/
                            (exists e' es, errs s' = e' :: es /\ @Stop (E (NoReqItems expected) (trail_of md p)) = Stop (retrail md e')) \/
                            (errs s' = [] /\ List.length l < expected /\
                             @Stop (E (NoReqItems expected) (trail_of md p)) = Stop (E (NoReqItems expected) (trail_of md p)))
              end).
    { intro Eg. pose proof (lget_missing_short _ _ Eg) as Hshort. cbn [data_len] in Hshort.
      rewrite (list_all_beyond p l r (Datatypes.S i) s) by lia.
      right. right. repeat split; [exact Hs|lia]. }
    assert (Hnode : forall v sub', head_agree sub' ->
      match (match allc sub' (p ++ [KI i]) v s with
             | GoA s' _ => list_all allc p (VList l) r (Datatypes.S i) s'
             | BadA => list_all allc p (VList l) r (Datatypes.S i) (add_err (E TypeLE (p ++ [KI i])) s)
             end) with
      | BadA => False
      | GoA s' _ =>
         (errs s' = [] /\ match firstc sub' (p ++ [KI i]) v (fields s) with
                          | Go1 f' _ => list_first md firstc expected p (VList l) r (Datatypes.S i) f'
                          | Stop e => Stop e end = Go1 (fields s') []) \/
         (exists e es, errs s' = e :: es /\ match firstc sub' (p ++ [KI i]) v (fields s) with
                          | Go1 f' _ => list_first md firstc expected p (VList l) r (Datatypes.S i) f'
                          | Stop e => Stop e end = Stop (retrail md e)) \/
         (errs s' = [] /\ List.length l < expected /\ match firstc sub' (p ++ [KI i]) v (fields s) with
                          | Go1 f' _ => list_first md firstc expected p (VList l) r (Datatypes.S i) f'
                          | Stop e => Stop e end = Stop (E (NoReqItems expected) (trail_of md p)))
      end).
    { intros v sub' Hs'. specialize (Hs' (p ++ [KI i]) v s Hs).
      destruct (allc sub' (p ++ [KI i]) v s) as [s1 sx|].
      - destruct Hs' as [[Hs1 ->]|[e [es [Hs1 ->]]]].
        + exact (IH Hr (Datatypes.S i) s1 Hs1 Hlen').
        + destruct (list_keeps_head p l r (Datatypes.S i) s1 e es Hs1) as [s' [x' [es' [-> Hes]]]].
          right. left. exists e, es'. split; [exact Hes|reflexivity].
      - rewrite Hs'. exact (Hstop (E TypeLE (p ++ [KI i]))). }
    destruct sub as [id| |m'|m'].
    + destruct (lget (VList l) i) as [v| |] eqn:Eg.
      * destruct v; try exact (Hstop (E TypeLE (p ++ [KI i]))). cbn [add_field].
        exact (IH Hr (Datatypes.S i) {| fields := fields s ++ [(id, n)]; errs := errs s |} Hs Hlen').
      * exact (Hmiss eq_refl).
      * exfalso. unfold lget in Eg. destruct (nth_error l i); discriminate.
    + exact (IH Hr (Datatypes.S i) s Hs Hlen').
    + destruct (lget (VList l) i) as [v| |] eqn:Eg.
      * exact (Hnode v (CDict m') Hsub).
      * exact (Hmiss eq_refl).
      * exfalso. unfold lget in Eg. destruct (nth_error l i); discriminate.
    + destruct (lget (VList l) i) as [v| |] eqn:Eg.
      * exact (Hnode v (CList m') Hsub).
      * exact (Hmiss eq_refl).
      * exfalso. unfold lget in Eg. destruct (nth_error l i); discriminate.
Qed.

Theorem first_is_head_of_all : forall c, head_agree c.
Proof.
  induction c as [i| |m IH|m IH] using crown_ind'; unfold head_agree; intros p d s Hs; cbn [all first].
  - left. split; [exact Hs|reflexivity].
  - left. split; [exact Hs|reflexivity].
  - (* mapping node *)
    assert (Hinner :
      match (match m with [] => (match d with VDict _ => GoA s [] | _ => BadA end) | _ => dict_all info allc m p d m s [] false end) with
      | BadA => (match m with [] => (match d with VDict _ => Go1 (fields s) [] | _ => Stop (CrownSem.E TypeLE (trail_of md p)) end)
                            | _ => dict_first info md firstc m p d m (fields s) [] end) = Stop (E TypeLE (trail_of md p))
      | GoA s' x => (errs s' = [] /\ (match m with [] => (match d with VDict _ => Go1 (fields s) [] | _ => Stop (CrownSem.E TypeLE (trail_of md p)) end)
                                      | _ => dict_first info md firstc m p d m (fields s) [] end) = Go1 (fields s') x) \/
                    (exists e es, errs s' = e :: es /\ (match m with [] => (match d with VDict _ => Go1 (fields s) [] | _ => Stop (CrownSem.E TypeLE (trail_of md p)) end)
                                      | _ => dict_first info md firstc m p d m (fields s) [] end) = Stop (retrail md e))
      end).
    { destruct m as [|kc r].
      - destruct d; try reflexivity. left. split; [exact Hs|reflexivity].
      - exact (dict_head (kc :: r) p d (kc :: r) IH s [] Hs). }
    destruct (match m with [] => (match d with VDict _ => GoA s [] | _ => BadA end) | _ => dict_all info allc m p d m s [] false end) as [s1 x1|].
    + destruct Hinner as [[Hs1 ->]|[e [es [Hs1 ->]]]].
      * destruct pol.
        -- left. split; [exact Hs1|reflexivity].
        -- destruct (unknown_keys m d) as [|k ks].
           ++ left. split; [exact Hs1|reflexivity].
           ++ right. exists (E (ExtraFields (k :: ks)) p), []. split; [cbn [add_err errs]; now rewrite Hs1|reflexivity].
        -- left. split; [exact Hs1|reflexivity].
      * destruct pol.
        -- right. exists e, es. split; [exact Hs1|reflexivity].
        -- destruct (unknown_keys m d) as [|k ks].
           ++ right. exists e, es. split; [exact Hs1|reflexivity].
           ++ right. exists e, (es ++ [E (ExtraFields (k :: ks)) p]). split; [cbn [add_err errs]; now rewrite Hs1|reflexivity].
        -- right. exists e, es. split; [exact Hs1|reflexivity].
    + rewrite Hinner. reflexivity.
  - (* list node *)
    destruct d; try reflexivity.
    pose proof (list_head (List.length m) p l m IH 0 s Hs eq_refl) as Hinner.
    destruct (list_all allc p (VList l) m 0 s) as [s1 x1|]; [|contradiction].
    cbn [data_len].
    destruct Hinner as [[Hs1 ->]|[[e [es [Hs1 ->]]]|[Hs1 [Hshort ->]]]].
    + destruct (Nat.ltb (List.length l) (List.length m)).
      * right. exists (E (NoReqItems (List.length m)) p), []. split; [cbn [add_err errs]; now rewrite Hs1|reflexivity].
      * destruct (is_forbid pol && Nat.ltb (List.length m) (List.length l)).
        -- right. exists (E (ExtraItems (List.length m)) p), []. split; [cbn [add_err errs]; now rewrite Hs1|reflexivity].
        -- left. split; [exact Hs1|reflexivity].
    + destruct (Nat.ltb (List.length l) (List.length m)).
      * right. exists e, (es ++ [E (NoReqItems (List.length m)) p]). split; [cbn [add_err errs]; now rewrite Hs1|reflexivity].
      * destruct (is_forbid pol && Nat.ltb (List.length m) (List.length l)).
        -- right. exists e, (es ++ [E (ExtraItems (List.length m)) p]). split; [cbn [add_err errs]; now rewrite Hs1|reflexivity].
        -- right. exists e, es. split; [exact Hs1|reflexivity].
    + apply Nat.ltb_lt in Hshort. rewrite Hshort.
      right. exists (E (NoReqItems (List.length m)) p), []. split; [cbn [add_err errs]; now rewrite Hs1|reflexivity].
Qed.
End Head.

(* ------------------------------------------------------------------------------------------------------------------ *)
(* completeness of the collect-all interpreter: whatever offends, at whatever depth, is reported *)
Section Complete.
Variable info : finfos.
Variable pol : policy.
Notation allc := (all info pol).
Notation offends := (offends info pol).

(* every offence below (or, except for the kind of the node itself, which its parent reports, at) the node *)
Definition reported (c : crown) (d : pv) (p : path) (es : list err) : Prop :=
  forall q node w cl, at_path c q node -> get_data d q = Some w -> offends node w cl -> (q = [] -> cl <> TypeLE) ->
    In (E cl (p ++ q)) es.

Definition all_complete (c : crown) : Prop := forall p d s s' x, allc c p d s = GoA s' x -> reported c d p (errs s').

(* what the surrounding node owes for one child found at trail pk with datum v *)
Definition child_ok (sub : crown) (v : pv) (pk : path) (es : list err) : Prop :=
  (wrong_kind sub v -> In (E TypeLE pk) es) /\ reported sub v pk es.

Lemma child_ok_mono sub v pk es es' : incl es es' -> child_ok sub v pk es -> child_ok sub v pk es'.
Proof.
  intros Hi [H1 H2]. split; [intro Hw; apply Hi; auto|].
  intros q node w cl Ha Hg Ho Hq. apply Hi. eapply H2; eassumption.
Qed.

Lemma offends_leaf_only_kind node w cl : is_leaf node = true -> offends node w cl -> cl = TypeLE.
Proof.
  intros Hl Ho. destruct cl; [reflexivity| | | |]; cbn in Ho.
  - destruct Ho as [m [kvs [-> _]]]; discriminate.
  - destruct Ho as [m [-> _]]; discriminate.
  - destruct Ho as [m [l [-> _]]]; discriminate.
  - destruct Ho as [m [l [-> _]]]; discriminate.
Qed.

Lemma reported_leaf c v pk es : is_leaf c = true -> reported c v pk es.
Proof.
  intros Hl q node w cl Ha Hg Ho Hq. exfalso.
  inversion Ha; subst; try discriminate. apply (Hq eq_refl). eapply offends_leaf_only_kind; eassumption.
Qed.

Lemma child_field_int i n pk es : child_ok (CField i) (VInt n) pk es.
Proof. split; [intro Hw; exfalso; exact (Hw n eq_refl)|now apply reported_leaf]. Qed.
Lemma child_field_bad i v pk es : In (E TypeLE pk) es -> child_ok (CField i) v pk es.
Proof. intro Hin. split; [intros _; exact Hin|now apply reported_leaf]. Qed.
Lemma child_none v pk es : child_ok CNone v pk es.
Proof. split; [intros []|now apply reported_leaf]. Qed.

(* a node that went through was given data of its kind *)
Lemma goA_right_kind c p d s s' x : is_leaf c = false -> allc c p d s = GoA s' x -> ~ wrong_kind c d.
Proof.
  intros Hl H Hw. destruct c as [i| |m|m]; try discriminate; cbn [all] in H; cbn [wrong_kind] in Hw.
  - destruct m as [|[k sub] r].
    + destruct d; try discriminate. exact (Hw _ eq_refl).
    + cbn [dict_all] in H. destruct d; cbn [dget] in H; try discriminate. exact (Hw _ eq_refl).
  - destruct d; try discriminate. exact (Hw _ eq_refl).
Qed.

(* below data of the wrong kind nothing is reachable *)
Lemma unreachable_below c v q node k : is_leaf c = false -> wrong_kind c v -> at_path c (k :: q) node -> get_data v (k :: q) = None.
Proof.
  intros Hl Hw Ha. inversion Ha; subst; cbn [wrong_kind] in Hw; cbn [get_data].
  - destruct v; try reflexivity. exfalso. exact (Hw _ eq_refl).
  - destruct v; try reflexivity. exfalso. exact (Hw _ eq_refl).
Qed.

Lemma offends_here_not_wrong_kind c v cl : wrong_kind c v -> offends c v cl -> cl = TypeLE.
Proof.
  intros Hw Ho. destruct cl; [reflexivity| | | |]; cbn in Ho; exfalso.
  - destruct Ho as [m [kvs [-> [-> _]]]]. exact (Hw _ eq_refl).
  - destruct Ho as [m [-> [_ [-> Hne]]]]. cbn [wrong_kind] in Hw. unfold unknown_keys, unknown_items in Hne.
    destruct v; try (apply Hne; reflexivity). exact (Hw _ eq_refl).
  - destruct Ho as [m [l [-> [-> _]]]]. exact (Hw _ eq_refl).
  - destruct Ho as [m [l [-> [-> _]]]]. exact (Hw _ eq_refl).
Qed.

Lemma child_node_go sub pk v s s1 sx es : is_leaf sub = false -> all_complete sub ->
  allc sub pk v s = GoA s1 sx -> incl (errs s1) es -> child_ok sub v pk es.
Proof.
  intros Hl Hc Hgo Hi. split.
  - intro Hw. exfalso. exact (goA_right_kind _ _ _ _ _ _ Hl Hgo Hw).
  - intros q node w cl Ha Hg Ho Hq. apply Hi. eapply (Hc pk v s s1 sx Hgo); eassumption.
Qed.
Lemma child_node_bad sub pk v s es : is_leaf sub = false -> allc sub pk v s = BadA -> wrong_kind sub v ->
  In (E TypeLE pk) es -> child_ok sub v pk es.
Proof.
  intros Hl Hbad Hw Hin. split; [intros _; exact Hin|].
  intros q node w cl Ha Hg Ho Hq. exfalso. destruct q as [|k q].
  - inversion Ha; subst. cbn [get_data] in Hg. injection Hg as <-. apply (Hq eq_refl). eapply offends_here_not_wrong_kind; eassumption.
  - rewrite (unreachable_below _ _ _ _ _ Hl Hw Ha) in Hg. discriminate.
Qed.

Lemma in_add_err e s : In e (errs (add_err e s)).
Proof. cbn [add_err errs]. apply in_or_app. right. now left. Qed.
Lemma incl_add_err e s : incl (errs s) (errs (add_err e s)).
Proof. cbn [add_err errs]. apply incl_appl, incl_refl. Qed.

Lemma dict_all_incl m p d rest s x nf s' x' : dict_all info allc m p d rest s x nf = GoA s' x' -> incl (errs s) (errs s').
Proof. intro H. destruct (dict_all_mono info pol _ _ _ _ _ _ _ _ _ H) as [es ->]. apply incl_appl, incl_refl. Qed.
Lemma list_all_incl p d rest i s s' x' : list_all allc p d rest i s = GoA s' x' -> incl (errs s) (errs s').
Proof. intro H. destruct (list_all_mono info pol _ _ _ _ _ _ _ H) as [es ->]. apply incl_appl, incl_refl. Qed.
Lemma all_incl c p d s s' x' : allc c p d s = GoA s' x' -> incl (errs s) (errs s').
Proof. intro H. destruct (all_mono info pol _ _ _ _ _ _ H) as [es ->]. apply incl_appl, incl_refl. Qed.

Lemma dict_all_complete m p kvs : forall rest, Forall (fun kc => all_complete (snd kc)) rest ->
  forall s x nf s' x', dict_all info allc m p (VDict kvs) rest s x nf = GoA s' x' ->
  (forall k sub v, In (k, sub) rest -> lookup (KS k) kvs = Some v -> child_ok sub v (p ++ [KS k]) (errs s')) /\
  ((exists k sub, In (k, sub) rest /\ is_required info sub = true /\ lookup (KS k) kvs = None) ->
   (nf = true -> In (E (NoReqFields (missing_required info m (VDict kvs))) p) (errs s)) ->
   In (E (NoReqFields (missing_required info m (VDict kvs))) p) (errs s')).
Proof.
  induction rest as [|[k sub] r IH]; intros Hall s x nf s' x' H; cbn [dict_all] in H.
  - split; [intros k sub v []|intros [k [sub [[] _]]]].
  - inversion Hall as [|a b Hsub Hr]; subst a b. cbn [snd] in Hsub.
    (* the shape of every branch: the loop continues from s1 (which holds what this child owes) *)
    assert (Hgen : forall s1 x1 nf1,
      dict_all info allc m p (VDict kvs) r s1 x1 nf1 = GoA s' x' -> incl (errs s) (errs s1) ->
      (forall v, lookup (KS k) kvs = Some v -> child_ok sub v (p ++ [KS k]) (errs s1)) ->
      ((is_required info sub = true /\ lookup (KS k) kvs = None) -> In (E (NoReqFields (missing_required info m (VDict kvs))) p) (errs s1)) ->
      (nf = true -> nf1 = true) -> (nf1 = true -> nf = false -> In (E (NoReqFields (missing_required info m (VDict kvs))) p) (errs s1)) ->
      (forall k0 sub0 v, In (k0, sub0) ((k, sub) :: r) -> lookup (KS k0) kvs = Some v -> child_ok sub0 v (p ++ [KS k0]) (errs s')) /\
      ((exists k0 sub0, In (k0, sub0) ((k, sub) :: r) /\ is_required info sub0 = true /\ lookup (KS k0) kvs = None) ->
       (nf = true -> In (E (NoReqFields (missing_required info m (VDict kvs))) p) (errs s)) ->
       In (E (NoReqFields (missing_required info m (VDict kvs))) p) (errs s'))).
    { intros s1 x1 nf1 Hloop Hinc Hchild Hmiss Hnf Hnf1.
      destruct (IH Hr s1 x1 nf1 s' x' Hloop) as [IHc IHm].
      pose proof (dict_all_incl _ _ _ _ _ _ _ _ _ Hloop) as Hinc'.
      split.
      - intros k0 sub0 v [Heq|Hin] Hl.
        + injection Heq as <- <-. eapply child_ok_mono; [exact Hinc'|]. now apply Hchild.
        + eapply IHc; eassumption.
      - intros [k0 [sub0 [[Heq|Hin] [Hreq Hl]]]] Hnfs.
        + injection Heq as <- <-. apply Hinc'. apply Hmiss. split; assumption.
        + destruct nf eqn:En.
          * apply Hinc', Hinc, Hnfs. reflexivity.
          * destruct nf1 eqn:En1.
            -- apply Hinc'. apply Hnf1; reflexivity.
            -- apply IHm; [exists k0, sub0; repeat split; assumption|discriminate]. }
    unfold dget in H. destruct (lookup (KS k) kvs) as [v|] eqn:El.
    + (* the key is present *)
      assert (Hno : (is_required info sub = true /\ @None pv = None) -> False -> True) by trivial.
      destruct sub as [i| |m'|m'].
      * destruct v as [|n|str|l|kvs'];
          try (eapply Hgen; [exact H|apply incl_add_err| | | |];
               [intros v0 Hv0; injection Hv0 as <-; apply child_field_bad, in_add_err
               |intros [_ Hx]; discriminate|trivial|intros Hx Hy; subst nf; discriminate]).
        eapply Hgen; [exact H|apply incl_refl| | | |];
          [intros v0 Hv0; injection Hv0 as <-; apply child_field_int|intros [_ Hx]; discriminate|trivial|intros Hx Hy; subst nf; discriminate].
      * eapply Hgen; [exact H|apply incl_refl| | | |];
          [intros v0 _; apply child_none|intros [_ Hx]; discriminate|trivial|intros Hx Hy; subst nf; discriminate].
      * destruct (allc (CDict m') (p ++ [KS k]) v s) as [s1 sx|] eqn:Ea.
        -- eapply Hgen; [exact H|eapply all_incl; exact Ea| | | |];
             [intros v0 Hv0; injection Hv0 as <-; eapply child_node_go; [reflexivity|exact Hsub|exact Ea|apply incl_refl]
             |intros [_ Hx]; discriminate|trivial|intros Hx Hy; subst nf; discriminate].
        -- pose proof (all_trails_exact info pol (CDict m') (p ++ [KS k]) v s) as Hk. rewrite Ea in Hk.
           eapply Hgen; [exact H|apply incl_add_err| | | |];
             [intros v0 Hv0; injection Hv0 as <-; eapply child_node_bad; [reflexivity|exact Ea|exact Hk|apply in_add_err]
             |intros [_ Hx]; discriminate|trivial|intros Hx Hy; subst nf; discriminate].
      * destruct (allc (CList m') (p ++ [KS k]) v s) as [s1 sx|] eqn:Ea.
        -- eapply Hgen; [exact H|eapply all_incl; exact Ea| | | |];
             [intros v0 Hv0; injection Hv0 as <-; eapply child_node_go; [reflexivity|exact Hsub|exact Ea|apply incl_refl]
             |intros [_ Hx]; discriminate|trivial|intros Hx Hy; subst nf; discriminate].
        -- pose proof (all_trails_exact info pol (CList m') (p ++ [KS k]) v s) as Hk. rewrite Ea in Hk.
           eapply Hgen; [exact H|apply incl_add_err| | | |];
             [intros v0 Hv0; injection Hv0 as <-; eapply child_node_bad; [reflexivity|exact Ea|exact Hk|apply in_add_err]
             |intros [_ Hx]; discriminate|trivial|intros Hx Hy; subst nf; discriminate].
    + (* the key is absent *)
      assert (Hreqcase : is_required info sub = true ->
        dict_all info allc m p (VDict kvs) r
          (if nf then s else add_err (E (NoReqFields (missing_required info m (VDict kvs))) p) s) x true = GoA s' x' ->
        (forall k0 sub0 v, In (k0, sub0) ((k, sub) :: r) -> lookup (KS k0) kvs = Some v -> child_ok sub0 v (p ++ [KS k0]) (errs s')) /\
        ((exists k0 sub0, In (k0, sub0) ((k, sub) :: r) /\ is_required info sub0 = true /\ lookup (KS k0) kvs = None) ->
         (nf = true -> In (E (NoReqFields (missing_required info m (VDict kvs))) p) (errs s)) ->
         In (E (NoReqFields (missing_required info m (VDict kvs))) p) (errs s'))).
      { intros Hreq H'.
        pose proof (dict_all_incl _ _ _ _ _ _ _ _ _ H') as Hinc'.
        destruct (IH Hr _ _ _ _ _ H') as [IHc _].
        split.
        - intros k0 sub0 v [Heq|Hin] Hl; [injection Heq as <- <-; congruence|eapply IHc; eassumption].
        - intros _ Hnfs. apply Hinc'. destruct nf; [apply Hnfs; reflexivity|apply in_add_err]. }
      destruct sub as [i| |m'|m']; try (apply Hreqcase; [reflexivity|exact H]).
      cbn [is_required] in Hreqcase. destruct (fi_required (info i)) eqn:Er; [apply Hreqcase; [reflexivity|exact H]|].
      eapply Hgen; [exact H|apply incl_refl| | | |];
        [intros v0 Hv0; discriminate|intros [Hx _]; cbn [is_required] in Hx; congruence|trivial|intros Hx Hy; subst nf; discriminate].
Qed.

Lemma list_all_complete p l : forall rest i, Forall all_complete rest ->
  forall s s' x', list_all allc p (VList l) rest i s = GoA s' x' ->
  forall j sub v, nth_error rest j = Some sub -> nth_error l (i + j) = Some v -> child_ok sub v (p ++ [KI (i + j)]) (errs s').
Proof.
  induction rest as [|sub r IH]; intros i Hall s s' x' H j sub0 v Hj Hv.
  - destruct j; discriminate.
  - inversion Hall as [|a b Hsub Hr]; subst a b. cbn [list_all] in H.
    assert (Hgen : forall s1, list_all allc p (VList l) r (Datatypes.S i) s1 = GoA s' x' ->
      (forall v0, nth_error l i = Some v0 -> child_ok sub v0 (p ++ [KI i]) (errs s1)) ->
      child_ok sub0 v (p ++ [KI (i + j)]) (errs s')).
    { intros s1 Hloop Hchild. destruct j as [|j].
      - cbn in Hj. injection Hj as <-. rewrite Nat.add_0_r in *.
        eapply child_ok_mono; [eapply list_all_incl; exact Hloop|]. now apply Hchild.
      - cbn in Hj. replace (i + Datatypes.S j) with (Datatypes.S i + j) in * by lia.
        eapply (IH (Datatypes.S i) Hr s1 s' x' Hloop); eassumption. }
    destruct sub as [id| |m'|m'].
    + unfold lget in H. destruct (nth_error l i) as [v0|] eqn:El.
      * destruct v0 as [|n|str|l0|kvs'];
          try (eapply Hgen; [exact H|]; intros v1 Hv1; injection Hv1 as <-; apply child_field_bad, in_add_err).
        eapply Hgen; [exact H|]. intros v1 Hv1; injection Hv1 as <-. apply child_field_int.
      * eapply Hgen; [exact H|]. intros v1 Hv1; discriminate.
    + eapply Hgen; [exact H|]. intros v1 _. apply child_none.
    + unfold lget in H. destruct (nth_error l i) as [v0|] eqn:El.
      * destruct (allc (CDict m') (p ++ [KI i]) v0 s) as [s1 sx|] eqn:Ea.
        -- eapply Hgen; [exact H|]. intros v1 Hv1; injection Hv1 as <-.
           eapply child_node_go; [reflexivity|exact Hsub|exact Ea|apply incl_refl].
        -- pose proof (all_trails_exact info pol (CDict m') (p ++ [KI i]) v0 s) as Hk. rewrite Ea in Hk.
           eapply Hgen; [exact H|]. intros v1 Hv1; injection Hv1 as <-.
           eapply child_node_bad; [reflexivity|exact Ea|exact Hk|apply in_add_err].
      * eapply Hgen; [exact H|]. intros v1 Hv1; discriminate.
    + unfold lget in H. destruct (nth_error l i) as [v0|] eqn:El.
      * destruct (allc (CList m') (p ++ [KI i]) v0 s) as [s1 sx|] eqn:Ea.
        -- eapply Hgen; [exact H|]. intros v1 Hv1; injection Hv1 as <-.
           eapply child_node_go; [reflexivity|exact Hsub|exact Ea|apply incl_refl].
        -- pose proof (all_trails_exact info pol (CList m') (p ++ [KI i]) v0 s) as Hk. rewrite Ea in Hk.
           eapply Hgen; [exact H|]. intros v1 Hv1; injection Hv1 as <-.
           eapply child_node_bad; [reflexivity|exact Ea|exact Hk|apply in_add_err].
      * eapply Hgen; [exact H|]. intros v1 Hv1; discriminate.
Qed.

Lemma missing_required_witness m kvs : missing_required info m (VDict kvs) <> [] ->
  exists k sub, In (k, sub) m /\ is_required info sub = true /\ lookup (KS k) kvs = None.
Proof.
  unfold missing_required, required_keys. intro Hne.
  destruct (filter (fun k => negb (has_key (VDict kvs) k)) (map fst (filter (fun kc => is_required info (snd kc)) m))) as [|k ks] eqn:E;
    [contradiction|].
  assert (Hin : In k (k :: ks)) by now left. rewrite <- E in Hin. apply filter_In in Hin. destruct Hin as [Hin Hk].
  apply in_map_iff in Hin. destruct Hin as [[k0 sub] [Hfst Hin]]. cbn [fst] in Hfst. subst k0.
  apply filter_In in Hin. destruct Hin as [Hin Hreq]. cbn [snd] in Hreq.
  exists k, sub. repeat split; try assumption.
  destruct (lookup (KS k) kvs) eqn:El; [|reflexivity]. exfalso.
  apply negb_true_iff in Hk. unfold has_key, keys_of in Hk.
  assert (existsb (key_eqb (KS k)) (map fst kvs) = true) as Hc.
  { clear -El. induction kvs as [|[k' v'] r IH]; cbn [lookup] in El; [discriminate|]. cbn [map existsb fst].
    destruct (key_eqb (KS k) k'); [reflexivity|]. now apply IH. }
  congruence.
Qed.

Lemma at_path_nil_inv c node : at_path c [] node -> node = c.
Proof. intro H. inversion H; reflexivity. Qed.
Lemma at_path_dict_inv m k0 q node : at_path (CDict m) (k0 :: q) node -> exists k sub, k0 = KS k /\ In (k, sub) m /\ at_path sub q node.
Proof. intro H. inversion H; subst. eauto. Qed.
Lemma at_path_list_inv m k0 q node : at_path (CList m) (k0 :: q) node -> exists i sub, k0 = KI i /\ nth_error m i = Some sub /\ at_path sub q node.
Proof. intro H. inversion H; subst. eauto. Qed.

Theorem all_reports_everything : forall c, all_complete c.
Proof.
  induction c as [i| |m IH|m IH] using crown_ind'; unfold all_complete; intros p d s s' x H.
  - now apply reported_leaf.
  - now apply reported_leaf.
  - (* mapping node *)
    pose proof (goA_right_kind (CDict m) p d s s' x eq_refl H) as Hk.
    destruct d as [| | | |kvs]; try (exfalso; apply Hk; cbn; intros kvs0; discriminate). clear Hk.
    cbn [all] in H.
    set (inner := match m with [] => GoA s [] | _ => dict_all info allc m p (VDict kvs) m s [] false end) in H.
    destruct inner as [s1 x1|] eqn:Ei; [|discriminate].
    assert (Hchildren : forall k sub v, In (k, sub) m -> lookup (KS k) kvs = Some v -> child_ok sub v (p ++ [KS k]) (errs s1)).
    { destruct m as [|kc r]; [intros k sub v []|]. subst inner.
      exact (proj1 (dict_all_complete (kc :: r) p kvs (kc :: r) IH s [] false s1 x1 Ei)). }
    assert (Hmissing : missing_required info m (VDict kvs) <> [] -> In (E (NoReqFields (missing_required info m (VDict kvs))) p) (errs s1)).
    { intro Hne. destruct m as [|kc r]; [exfalso; apply Hne; reflexivity|]. subst inner.
      apply (proj2 (dict_all_complete (kc :: r) p kvs (kc :: r) IH s [] false s1 x1 Ei)); [|discriminate].
      now apply missing_required_witness. }
    assert (Hinc : incl (errs s1) (errs s')).
    { destruct pol; try (injection H as <- _; apply incl_refl).
      destruct (unknown_keys m (VDict kvs)); injection H as <- _; [apply incl_refl|apply incl_add_err]. }
    assert (Hextra : forall ks, pol = Forbid -> ks = unknown_keys m (VDict kvs) -> ks <> [] -> In (E (ExtraFields ks) p) (errs s')).
    { intros ks Hp -> Hne. rewrite Hp in H. destruct (unknown_keys m (VDict kvs)) as [|k0 ks0]; [contradiction|].
      injection H as <- _. apply in_add_err. }
    intros q node w cl Ha Hg Ho Hq. destruct q as [|k0 q0].
    + (* at the node itself *)
      apply at_path_nil_inv in Ha. subst node.
      rewrite app_nil_r. cbn [get_data] in Hg. injection Hg as <-.
      destruct cl; cbn in Ho.
      * exfalso. now apply Hq.
      * destruct Ho as [m0 [kvs0 [Hm [_ [-> Hne]]]]]. injection Hm as <-. apply Hinc. now apply Hmissing.
      * destruct Ho as [m0 [Hm [Hp [Hks Hne]]]]. injection Hm as <-. now apply Hextra.
      * destruct Ho as [m0 [l [Hm _]]]; discriminate.
      * destruct Ho as [m0 [l [Hm _]]]; discriminate.
    + (* below a child *)
      apply at_path_dict_inv in Ha. destruct Ha as [k [sub [-> [H2 H4]]]].
      cbn [get_data] in Hg. destruct (lookup (KS k) kvs) as [v|] eqn:El; [|discriminate].
      destruct (Hchildren k sub v H2 El) as [Hkind Hrep].
      apply Hinc. destruct q0 as [|k1 q1].
      * apply at_path_nil_inv in H4. subst node. cbn [get_data] in Hg. injection Hg as <-.
        destruct cl; try (replace (p ++ [KS k]) with ((p ++ [KS k]) ++ []) by apply app_nil_r;
                          eapply Hrep; [constructor|reflexivity|exact Ho|discriminate]).
        cbn in Ho. now apply Hkind.
      * replace (p ++ KS k :: k1 :: q1) with ((p ++ [KS k]) ++ k1 :: q1) by now rewrite <- app_assoc.
        eapply Hrep; [exact H4|exact Hg|exact Ho|discriminate].
  - (* list node *)
    pose proof (goA_right_kind (CList m) p d s s' x eq_refl H) as Hk.
    destruct d as [| | |l|]; try (exfalso; apply Hk; cbn; intros l0; discriminate). clear Hk.
    cbn [all] in H.
    destruct (list_all allc p (VList l) m 0 s) as [s1 x1|] eqn:Ei; [|discriminate].
    pose proof (list_all_complete p l m 0 IH s s1 x1 Ei) as Hchildren. cbn [data_len] in H.
    assert (Hinc : incl (errs s1) (errs s')).
    { destruct (Nat.ltb (List.length l) (List.length m)); [injection H as <- _; apply incl_add_err|].
      destruct (is_forbid pol && Nat.ltb (List.length m) (List.length l)); injection H as <- _; [apply incl_add_err|apply incl_refl]. }
    intros q node w cl Ha Hg Ho Hq. destruct q as [|k0 q0].
    + apply at_path_nil_inv in Ha. subst node.
      rewrite app_nil_r. cbn [get_data] in Hg. injection Hg as <-.
      destruct cl; cbn in Ho.
      * exfalso. now apply Hq.
      * destruct Ho as [m0 [kvs0 [Hm _]]]; discriminate.
      * destruct Ho as [m0 [Hm _]]; discriminate.
      * destruct Ho as [m0 [l0 [Hm [Hl [-> Hlt]]]]]. injection Hm as <-. injection Hl as <-.
        apply Nat.ltb_lt in Hlt. rewrite Hlt in H. injection H as <- _. apply in_add_err.
      * destruct Ho as [m0 [l0 [Hm [Hl [Hp [-> Hlt]]]]]]. injection Hm as <-. injection Hl as <-.
        assert (Nat.ltb (List.length l) (List.length m) = false) as E1 by (apply Nat.ltb_ge; lia).
        rewrite E1 in H. apply Nat.ltb_lt in Hlt. rewrite Hlt, Hp in H. cbn in H. injection H as <- _. apply in_add_err.
    + apply at_path_list_inv in Ha. destruct Ha as [i [sub [-> [H2 H4]]]].
      cbn [get_data] in Hg. destruct (nth_error l i) as [v|] eqn:El; [|discriminate].
      destruct (Hchildren i sub v H2 El) as [Hkind Hrep]. cbn [Nat.add] in Hkind, Hrep.
      apply Hinc. destruct q0 as [|k1 q1].
      * apply at_path_nil_inv in H4. subst node. cbn [get_data] in Hg. injection Hg as <-.
        destruct cl; try (replace (p ++ [KI i]) with ((p ++ [KI i]) ++ []) by apply app_nil_r;
                          eapply Hrep; [constructor|reflexivity|exact Ho|discriminate]).
        cbn in Ho. now apply Hkind.
      * replace (p ++ KI i :: k1 :: q1) with ((p ++ [KI i]) ++ k1 :: q1) by now rewrite <- app_assoc.
        eapply Hrep; [exact H4|exact Hg|exact Ho|discriminate].
Qed.
End Complete.

(* ------------------------------------------------------------------------------------------------------------------ *)
(* in terms of [load] *)
Section LoadLevel.
Variable info : finfos.
Variable pol : policy.
Notation exact := (exact info pol).
Notation offends := (offends info pol).

Definition st0 : st := {| fields := []; errs := [] |}.

Theorem model_all_trails_exact c d es : load info pol All c d = Group es -> Forall (exact c d []) es.
Proof.
  cbn [load]. pose proof (all_trails_exact info pol c [] d st0) as H. fold st0.
  destruct (all info pol c [] d st0) as [s' x|].
  - destruct H as [es0 [He Hf]]. cbn [st0 errs app] in He. rewrite He.
    destruct es0; [discriminate|]. intro Hg; injection Hg as <-. exact Hf.
  - intro Hg; injection Hg as <-. constructor; [|constructor]. now apply exact_here.
Qed.

Theorem model_all_complete c d : is_leaf c = false ->
  forall q node w cl, at_path c q node -> get_data d q = Some w -> offends node w cl ->
    exists es, load info pol All c d = Group es /\ In (E cl q) es.
Proof.
  intros Hl q node w cl Ha Hg Ho. cbn [load]. fold st0.
  destruct (all info pol c [] d st0) as [s' x|] eqn:Ea.
  - assert (Hin : In (E cl q) (errs s')).
    { apply (all_reports_everything info pol c [] d st0 s' x Ea q node w cl Ha Hg Ho).
      intros -> ->. apply at_path_nil_inv in Ha. subst node. cbn [get_data] in Hg. injection Hg as <-.
      exact (goA_right_kind info pol _ _ _ _ _ _ Hl Ea Ho). }
    destruct (errs s') as [|e es]; [contradiction|]. eexists. split; [reflexivity|exact Hin].
  - pose proof (all_trails_exact info pol c [] d st0) as Hk. rewrite Ea in Hk.
    exists [E TypeLE []]. split; [reflexivity|]. left.
    destruct q as [|k q].
    + apply at_path_nil_inv in Ha. subst node. cbn [get_data] in Hg. injection Hg as <-.
      now rewrite (offends_here_not_wrong_kind info pol _ _ _ Hk Ho).
    + rewrite (unreachable_below _ _ _ _ _ Hl Hk Ha) in Hg. discriminate.
Qed.

Lemma load_not_all md c d : md <> All ->
  load info pol md c d = match first info pol md c [] d [] with Stop e => Single e | Go1 f x => Loaded f x end.
Proof. destruct md; try reflexivity; contradiction. Qed.

(* the one error of DISABLE / FIRST is the first error ALL collects (DISABLE drops the trail), and conversely *)
Theorem model_first_is_first_of_all md c d : md <> All ->
  (forall e, load info pol md c d = Single e ->
     exists e0 es, load info pol All c d = Group (e0 :: es) /\ e = retrail md e0) /\
  (forall e0 es, load info pol All c d = Group (e0 :: es) -> load info pol md c d = Single (retrail md e0)).
Proof.
  intro Hm. rewrite (load_not_all md c d Hm). cbn [load]. fold st0.
  pose proof (first_is_head_of_all info pol md c [] d st0 eq_refl) as H. cbn [st0 fields] in H. fold st0 in H.
  destruct (all info pol c [] d st0) as [s' x|].
  - destruct H as [[Hs ->]|[e0 [es [Hs ->]]]]; rewrite Hs.
    + split; [intros e He; discriminate|intros e0 es He; discriminate].
    + split.
      * intros e He. injection He as <-. eauto.
      * intros e1 es1 He. injection He as <- <-. reflexivity.
  - rewrite H. split.
    + intros e He. injection He as <-. exists (E TypeLE []), []. split; [reflexivity|].
      cbn [retrail]. now destruct md.
    + intros e1 es1 He. injection He as <- <-. cbn [retrail]. now destruct md.
Qed.

Theorem model_first_trail_exact c d e : load info pol First c d = Single e -> exact c d [] e.
Proof.
  intro H. destruct (proj1 (model_first_is_first_of_all First c d ltac:(discriminate)) e H) as [e0 [es [Ha ->]]].
  pose proof (model_all_trails_exact c d _ Ha) as Hf. inversion Hf; subst.
  destruct e0 as [cl t]. cbn [retrail trail_of]. assumption.
Qed.

Theorem model_disable_no_trail c d cl t : load info pol Disable c d = Single (E cl t) -> t = [].
Proof.
  intro H. destruct (proj1 (model_first_is_first_of_all Disable c d ltac:(discriminate)) _ H) as [[cl0 t0] [es [_ He]]].
  cbn [retrail trail_of] in He. now injection He as _ ->.
Qed.
End LoadLevel.

(* non-vacuity: a flattened layout with a list node; three independent faults, three reports with their trails *)
Example trails_example :
  let info := fun i => {| fi_required := true; fi_default := 0 |} in
  let c := CDict [("a", CField 0); ("p", CDict [("q", CField 1); ("r", CField 2)]); ("l", CList [CField 3; CField 4])]%string in
  let d := VDict [(KS "a", VStr "x"); (KS "p", VDict [(KS "q", VInt 1)]); (KS "l", VList [VInt 3; VNone]); (KS "zz", VNone)]%string in
  load info Forbid All c d =
    Group [E TypeLE [KS "a"]; E (NoReqFields ["r"]) [KS "p"]; E TypeLE [KS "l"; KI 1]; E (ExtraFields [KS "zz"]) []]%string /\
  load info Forbid First c d = Single (E TypeLE [KS "a"]%string) /\
  load info Forbid Disable c d = Single (E TypeLE []).
Proof. vm_compute. repeat split. Qed.
