(* C05, completeness under DebugTrail.ALL, at every nesting depth: the leaves of the error raised for a container are
   EXACTLY the leaves of the errors of its failing children, each once, in order, with the child's position put in front
   of its trail.  Unfolding these equations down the type gives the whole set of reported leaves of any nested input:
   nothing independent is lost, nothing is reported twice. *)
From Coq Require Import List ZArith Bool String Ascii Lia.
From AV Require Import Model.Harness Model.Val Model.Load Proofs.LoadProofs Proofs.TrailProofs.
Import ListNotations.

Definition leafT := (list telem * ecls * option pv)%type.
Definition errl (r : res) : list leafT := match r with Err e => leaves e | _ => [] end.
Definition pre (t : telem) (ls : list leafT) : list leafT := map (fun l => (t :: fst (fst l), snd (fst l), snd l)) ls.

(* what the children of a container report, put together *)
Fixpoint elems_leaves (f : pv -> res) (i : nat) (l : list pv) : list leafT :=
  match l with [] => [] | x :: r => pre (Idx i) (errl (f x)) ++ elems_leaves f (S i) r end.
Fixpoint zip_leaves (i : nat) (fs : list (pv -> res)) (l : list pv) : list leafT :=
  match fs, l with f :: fr, x :: r => pre (Idx i) (errl (f x)) ++ zip_leaves (S i) fr r | _, _ => [] end.
Fixpoint items_leaves (fk fv : pv -> res) (l : list (pv * pv)) : list leafT :=
  match l with [] => [] | (k, v) :: r => pre (ItemKey k) (errl (fk k)) ++ pre (Key k) (errl (fv v)) ++ items_leaves fk fv r end.

Lemma all_ne : All <> Disable. Proof. discriminate. Qed.

Lemma leaves_agg es : es <> [] -> leaves (LE AggLE [] None es) = leaves_list es.
Proof.
  intro H. rewrite leaves_unfold. destruct es as [|e r]; [contradiction|].
  rewrite <- (map_id (leaves_list (e :: r))) at 2. apply map_ext. intros [[a b] c]. reflexivity.
Qed.
Lemma leaves_union es : es <> [] -> leaves (LE UnionLE [] None es) = leaves_list es.
Proof.
  intro H. rewrite leaves_unfold. destruct es as [|e r]; [contradiction|].
  rewrite <- (map_id (leaves_list (e :: r))) at 2. apply map_ext. intros [[a b] c]. reflexivity.
Qed.

Lemma map_all_leaves f l : forall i, leaves_list (snd (fst (map_all f i l))) = elems_leaves f i l.
Proof.
  induction l as [|x r IH]; intro i; [reflexivity|]. cbn [map_all elems_leaves]. specialize (IH (S i)).
  destruct (map_all f (S i) r) as [[vs es] u]. cbn [fst snd] in IH.
  destruct (f x) as [a|e|k]; cbn [fst snd errl pre map app]; try exact IH.
  unfold leaves_list in *. cbn [flat_map]. rewrite IH. f_equal. apply (leaves_push All (Idx i) e all_ne).
Qed.

Lemma zip_all_leaves fs : forall l i, leaves_list (snd (fst (zip_all i fs l))) = zip_leaves i fs l.
Proof.
  induction fs as [|f fr IH]; intros l i; [destruct l; reflexivity|]. destruct l as [|x r]; [reflexivity|].
  cbn [zip_all zip_leaves]. specialize (IH r (S i)).
  destruct (zip_all (S i) fr r) as [[vs es] u]. cbn [fst snd] in IH.
  destruct (f x) as [a|e|k]; cbn [fst snd errl pre map app]; try exact IH.
  unfold leaves_list in *. cbn [flat_map]. rewrite IH. f_equal. apply (leaves_push All (Idx i) e all_ne).
Qed.

Lemma dict_all_leaves fk fv l : forall acc, leaves_list (snd (fst (dict_all fk fv acc l))) = items_leaves fk fv l.
Proof.
  induction l as [|[k v] r IH]; intro acc; [reflexivity|]. cbn [dict_all items_leaves].
  match goal with |- context[dict_all fk fv ?a r] => specialize (IH a); destruct (dict_all fk fv a r) as [[res es] u] end.
  cbn [fst snd] in IH |- *. unfold leaves_list in *. rewrite !flat_map_app, IH. f_equal; [|f_equal].
  - destruct (fk k) as [a|e|x]; cbn [flat_map errl pre map app]; try reflexivity.
    rewrite app_nil_r. apply (leaves_push All (ItemKey k) e all_ne).
  - destruct (fv v) as [a|e|x]; cbn [flat_map errl pre map app]; try reflexivity.
    rewrite app_nil_r. apply (leaves_push All (Key k) e all_ne).
Qed.

Lemma union_all_leaves rs : forall acc e, union_all acc None rs = Err e -> acc <> [] \/ rs <> [] ->
  leaves e = leaves_list (rev acc) ++ flat_map errl rs.
Proof.
  assert (G : forall rs acc x e, union_all acc (Some x) rs <> Err e).
  { induction rs0 as [|r rs0 IH]; intros acc x e; simpl; [discriminate|]. destruct r; apply IH. }
  induction rs as [|r rs IH]; intros acc e H Hne.
  - cbn [union_all] in H. injection H as <-. cbn [flat_map]. rewrite app_nil_r. apply leaves_union.
    destruct Hne as [Hne|Hne]; try contradiction.
    intro E. apply Hne. destruct acc; [reflexivity|]. cbn in E. destruct (rev acc); discriminate.
  - cbn [union_all] in H. destruct r as [a|e0|x].
    + discriminate.
    + rewrite (IH (e0 :: acc) e H) by (left; discriminate). cbn [rev flat_map errl].
      unfold leaves_list. rewrite flat_map_app. cbn [flat_map]. rewrite app_nil_r, <- app_assoc. reflexivity.
    + exfalso. exact (G _ _ _ _ H).
Qed.

Section Complete.
Variable U : nat -> pv -> res.
Variable sc : bool.
Notation la := (load U All sc).

Theorem all_leaves_iter k t v l e : iter_view sc v = Items l -> la (TIter k t) v = Err e ->
  leaves e = elems_leaves (la t) 0 l.
Proof.
  intros Hv H. cbn [load] in H. rewrite Hv in H. pose proof (map_all_leaves (la t) l 0) as L.
  destruct (map_all (la t) 0 l) as [[vs es] u]. cbn [fst snd] in L. destruct u; [discriminate|].
  destruct es as [|e0 es']; [discriminate|]. unfold agg in H. injection H as <-. rewrite leaves_agg by discriminate. exact L.
Qed.

Theorem all_leaves_tuple ts v l e : iter_view sc v = Items l -> List.length l = List.length ts -> la (TTuple ts) v = Err e ->
  leaves e = zip_leaves 0 (map (fun t1 => la t1) ts) l.
Proof.
  intros Hv Hl H. cbn [load] in H. rewrite Hv, Hl, Nat.ltb_irrefl in H.
  pose proof (zip_all_leaves (map (fun t1 => la t1) ts) l 0) as L.
  destruct (zip_all 0 (map (fun t1 => la t1) ts) l) as [[vs es] u]. cbn [fst snd] in L. destruct u; [discriminate|].
  destruct es as [|e0 es']; [discriminate|]. unfold agg in H. injection H as <-. rewrite leaves_agg by discriminate. exact L.
Qed.

Theorem all_leaves_dict tk tv kvs e : la (TDict tk tv) (VDict kvs) = Err e ->
  leaves e = items_leaves (la tk) (la tv) kvs.
Proof.
  intro H. cbn [load] in H. pose proof (dict_all_leaves (la tk) (la tv) kvs []) as L.
  destruct (dict_all (la tk) (la tv) [] kvs) as [[r es] u]. cbn [fst snd] in L. destruct u; [discriminate|].
  destruct es as [|e0 es']; [discriminate|]. unfold agg in H. injection H as <-. rewrite leaves_agg by discriminate. exact L.
Qed.

Theorem all_leaves_optional t v e : la (TOpt t) v = Err e -> leaves e = ([], TypeLE, Some v) :: errl (la t v).
Proof.
  intro H. cbn [load] in H.
  destruct v; try discriminate; (destruct (la t _) as [a|e0|x]; try discriminate; injection H as <-;
    rewrite leaves_union by discriminate; unfold leaves_list; cbn [flat_map errl]; rewrite app_nil_r; reflexivity).
Qed.

Theorem all_leaves_union ts v e : ts <> [] -> la (TUnion ts) v = Err e ->
  leaves e = flat_map (fun t1 => errl (la t1 v)) ts.
Proof.
  intros Hne H. cbn [load] in H. rewrite (union_all_leaves _ [] e H).
  - cbn [rev]. unfold leaves_list. cbn [flat_map app]. rewrite flat_map_concat_map, map_map, <- flat_map_concat_map. reflexivity.
  - right. destruct ts; [contradiction|discriminate].
Qed.
End Complete.
