(* C14, second sentence: a destination field without a linked source - required, or optional while the policy forbids
   leaving it unlinked - makes the creation of the converter fail (Model/Conv.v: [convert] = None for every source object
   and at whatever depth the model sits), instead of yielding a function. *)
From Coq Require Import List Arith Bool String.
From AV Require Import Model.Conv.
Import ListNotations.
Local Open Scope list_scope.

Lemma all_some_none {A B} (f : A -> option B) (l : list A) x : In x l -> f x = None -> all_some (map f l) = None.
Proof.
  induction l as [|a r IH]; intros Hin Hf; [contradiction|]. cbn [map all_some]. destruct Hin as [->|Hin].
  - now rewrite Hf.
  - destruct (f a); [|reflexivity]. now rewrite (IH Hin Hf).
Qed.

Section Refuse.
Variable recipe : list lprov.
Variable ctx : list (string * cval).

Definition field_names (sfs : list (string * cty * bool * nat)) : list string := map (fun f => fst (fst (fst f))) sfs.

(* no provider of the recipe links the field, there is no same-named source field and (at top level) no such parameter *)
Definition unlinked (top : bool) (sfs : list (string * cty * bool * nat)) (name : string) : Prop :=
  find_link recipe top (field_names sfs) (map fst ctx) name = None.

Theorem unlinked_field_refused : forall fuel top data scls sfs cls dfs name ty required dflt,
  In (name, ty, required, dflt) dfs -> unlinked top sfs name ->
  required = true \/ allowed_unlinked recipe name = false ->
  convert recipe ctx (S fuel) top data (TyModel scls sfs) (TyModel cls dfs) = None.
Proof.
  intros fuel top data scls sfs cls dfs name ty required dflt Hin Hun Hpol. cbn [convert].
  match goal with |- match all_some (map ?f dfs) with _ => _ end = None =>
    rewrite (all_some_none f dfs (name, ty, required, dflt) Hin); [reflexivity|] end.
  cbn beta iota. unfold link_for. unfold unlinked, field_names in Hun. rewrite Hun.
  destruct Hpol as [->|Hal]; [reflexivity|]. rewrite Hal. now rewrite andb_false_r.
Qed.

(* and an optional field that the policy allows to stay unlinked is left to the destination's own default *)
Theorem allowed_unlinked_optional_keeps_default : forall top sfs name,
  unlinked top sfs name -> allowed_unlinked recipe name = true ->
  link_for recipe top (field_names sfs) (map fst ctx) name false = LUnlinked.
Proof. intros top sfs name Hun Hal. unfold link_for. unfold unlinked in Hun. rewrite Hun, Hal. reflexivity. Qed.
End Refuse.

(* non-vacuity: D(a, z) from S(a): z has no source; required -> refused; optional + allow_unlinked_optional -> default kept *)
Example refuse_example :
  let S := TyModel 0 [("a", TyInt, true, 0)]%string in
  let D req := TyModel 1 [("a", TyInt, true, 0); ("z", TyInt, req, 7)]%string in
  let obj := CObj 0 [("a", CInt 5)]%string in
  convert [] [] 3 true obj S (D true) = None /\
  convert [] [] 3 true obj S (D false) = None /\
  convert [PAllowUnlinked "z"] [] 3 true obj S (D false) = Some (CObj 1 [("a", CInt 5); ("z", CInt 7)])%string.
Proof. vm_compute. repeat split. Qed.
