(* C20 - proofs about Model/Heap.v: everything a plan builds is new *)
From Coq Require Import List Arith Bool Lia.
From AV Require Import Model.Heap.
Import ListNotations.

(* induction over plans, through their field lists *)
Section PlanInd.
Variable P : plan -> Prop.
Hypothesis Hasis : P PAsIs.
Hypothesis Hatom : P PAtom.
Hypothesis Hlist : forall q, P q -> P (PList q).
Hypothesis Htuple : forall q, P q -> P (PTuple q).
Hypothesis Hset : forall q, P q -> P (PSet q).
Hypothesis Hdict : forall k v, P k -> P v -> P (PDict k v).
Hypothesis Hopt : forall q, P q -> P (POpt q).
Hypothesis Htoobj : forall cls fields extra, Forall (fun f => P (snd (fst f))) fields -> P (PToObj cls fields extra).
Hypothesis Htodict : forall fields extra, Forall (fun f => P (snd f)) fields -> P (PToDict fields extra).
Hypothesis Hobjobj : forall cls fields, Forall (fun f => P (snd f)) fields -> P (PObjToObj cls fields).

Fixpoint plan_ind' (p : plan) : P p :=
  match p with
  | PAsIs => Hasis | PAtom => Hatom
  | PList q => Hlist q (plan_ind' q) | PTuple q => Htuple q (plan_ind' q) | PSet q => Hset q (plan_ind' q)
  | PDict k v => Hdict k v (plan_ind' k) (plan_ind' v)
  | POpt q => Hopt q (plan_ind' q)
  | PToObj cls fields extra =>
      Htoobj cls fields extra
        ((fix go (l : list (nat * nat * plan * dflt)) : Forall (fun f => P (snd (fst f))) l :=
            match l with [] => Forall_nil _ | f :: r => Forall_cons f (plan_ind' (snd (fst f))) (go r) end) fields)
  | PToDict fields extra =>
      Htodict fields extra
        ((fix go (l : list (nat * nat * plan)) : Forall (fun f => P (snd f)) l :=
            match l with [] => Forall_nil _ | f :: r => Forall_cons f (plan_ind' (snd f)) (go r) end) fields)
  | PObjToObj cls fields =>
      Hobjobj cls fields
        ((fix go (l : list (nat * nat * plan)) : Forall (fun f => P (snd f)) l :=
            match l with [] => Forall_nil _ | f :: r => Forall_cons f (plan_ind' (snd f)) (go r) end) fields)
  end.
End PlanInd.

Definition in_range (lo hi : nat) (l : list nat) := Forall (fun i => lo <= i < hi) l.

Lemma in_range_app lo hi a b : in_range lo hi a -> in_range lo hi b -> in_range lo hi (a ++ b).
Proof. unfold in_range. intros; apply Forall_app; auto. Qed.
Lemma in_range_widen lo hi lo' hi' l : lo' <= lo -> hi <= hi' -> in_range lo hi l -> in_range lo' hi' l.
Proof. unfold in_range. intros A B H. eapply Forall_impl; [|exact H]. cbn. intros; lia. Qed.

Lemma nodup_app {A} (a b : list A) : NoDup a -> NoDup b -> (forall x, In x a -> In x b -> False) -> NoDup (a ++ b).
Proof.
  induction 1 as [|x a Hx Ha IH]; cbn; intros Hb Hd; auto.
  constructor; [rewrite in_app_iff; intros [H|H]; [auto | eapply Hd; eauto; left; reflexivity]
               | apply IH; auto; intros y Hy; apply Hd; right; exact Hy].
Qed.

Lemma nodup_ranges lo mid hi a b :
  in_range lo mid a -> in_range mid hi b -> NoDup a -> NoDup b -> NoDup (a ++ b).
Proof.
  intros Ra Rb Na Nb. apply nodup_app; auto. intros x Ha Hb. unfold in_range in *. rewrite Forall_forall in Ra, Rb.
  specialize (Ra _ Ha). specialize (Rb _ Hb). lia.
Qed.

(* what one step of a loop guarantees: the counter grows, what it built lies in the window and is duplicate free,
   and every identity of its result is built here or allowed *)
Definition step_ok {B} (idsB : B -> list nat) (S : list nat) (r : option (B * list nat * nat)) (n : nat) : Prop :=
  match r with
  | None => True
  | Some (x, b, n') => n <= n' /\ in_range n n' b /\ NoDup b /\ (forall i, In i (idsB x) -> In i b \/ In i S)
  end.

Lemma map_step_ok {A B} (step : A -> nat -> option (B * list nat * nat)) (idsB : B -> list nat) (S : list nat) :
  forall l, (forall a, In a l -> forall n, step_ok idsB S (step a n) n) ->
  forall n, step_ok (flat_map idsB) S (map_step step l n) n.
Proof.
  induction l as [|a r IH]; intros H n; cbn [map_step].
  - cbn. repeat split; [lia|constructor|constructor|intros i []].
  - pose proof (H a (or_introl eq_refl) n) as Ha. destruct (step a n) as [[[x b1] n1]|]; [|exact I].
    assert (Hr : forall a', In a' r -> forall m, step_ok idsB S (step a' m) m) by (intros; apply H; right; assumption).
    pose proof (IH Hr n1) as Hrest. destruct (map_step step r n1) as [[[t b2] n2]|]; [|exact I].
    cbn in Ha, Hrest |- *. destruct Ha as (A1 & A2 & A3 & A4). destruct Hrest as (B1 & B2 & B3 & B4).
    split; [lia|]. split; [|split].
    + apply in_range_app; [apply (in_range_widen n n1)|apply (in_range_widen n1 n2)]; auto; lia.
    + apply (nodup_ranges n n1 n2); assumption.
    + intros i Hi. apply in_app_or in Hi. destruct Hi as [Hi|Hi].
      * destruct (A4 i Hi) as [Hb|Hs]; [left; apply in_or_app; left; exact Hb|right; exact Hs].
      * destruct (B4 i Hi) as [Hb|Hs]; [left; apply in_or_app; right; exact Hb|right; exact Hs].
Qed.

Lemma map_step_forall {A B} (step : A -> nat -> option (B * list nat * nat)) (Q : B -> Prop) :
  (forall a n r b n', step a n = Some (r, b, n') -> Q r) ->
  forall l n rs b n', map_step step l n = Some (rs, b, n') -> Forall Q rs.
Proof.
  intros Hs. induction l as [|a r IH]; intros n rs b n' E; cbn [map_step] in E.
  - injection E as <- _ _. constructor.
  - destruct (step a n) as [[[x b1] n1]|] eqn:Ea; [|discriminate].
    destruct (map_step step r n1) as [[[t b2] n2]|] eqn:Er; [|discriminate]. injection E as <- _ _.
    constructor; [exact (Hs _ _ _ _ _ Ea)|exact (IH _ _ _ _ Er)].
Qed.

Definition exec_ok (p : plan) : Prop :=
  forall v n (S : list nat), (forall i, In i (ids v) -> In i S) -> (forall i, In i (const_ids p) -> In i S) ->
    step_ok ids S (exec p v n) n.

Lemma elements_ids v l : elements v = Some l -> forall x, In x l -> forall i, In i (ids x) -> In i (ids v).
Proof.
  destruct v; cbn; try discriminate; intros [= <-] x Hx i Hi.
  - apply in_flat_map. exists x. auto.
  - right. apply in_flat_map. exists x. auto.
  - right. apply in_flat_map. exists x. auto.
Qed.

Lemma cons_fresh n n' b : S n <= n' -> in_range (S n) n' b -> NoDup b ->
  in_range n n' (n :: b) /\ NoDup (n :: b).
Proof.
  intros Hle Hr Hn. split.
  - constructor; [lia|]. apply (in_range_widen (S n) n'); auto.
  - constructor; [|exact Hn]. intro Hin. unfold in_range in Hr. rewrite Forall_forall in Hr. specialize (Hr _ Hin). lia.
Qed.

Lemma lookup_key_ids k kv x : lookup_key k kv = Some x -> forall i, In i (ids x) ->
  In i (flat_map (fun e => ids (fst e) ++ ids (snd e)) kv).
Proof.
  induction kv as [|[a y] r IH]; cbn; [discriminate|]. destruct (hv_eqb_atom a k).
  - intros [= ->] i Hi. apply in_or_app. left. apply in_or_app. right. exact Hi.
  - intros H i Hi. apply in_or_app. right. exact (IH H i Hi).
Qed.

Lemma lookup_field_ids k fs x : lookup_field k fs = Some x -> forall i, In i (ids x) ->
  In i (flat_map (fun e => ids (snd e)) fs).
Proof.
  induction fs as [|[j y] r IH]; cbn; [discriminate|]. destruct (Nat.eqb k j).
  - intros [= ->] i Hi. apply in_or_app. left. exact Hi.
  - intros H i Hi. apply in_or_app. right. exact (IH H i Hi).
Qed.

Lemma unpacked_ids fs : forall extra more, unpacked fs extra = Some more ->
  forall i, In i (flat_map (fun e : hv * hv => ids (fst e) ++ ids (snd e)) more) -> In i (flat_map (fun e => ids (snd e)) fs).
Proof.
  induction extra as [|fi r IH]; intros more E i Hi; cbn [unpacked] in E.
  - injection E as <-. destruct Hi.
  - destruct (lookup_field fi fs) as [[| | | |id' m|]|] eqn:Ef; try discriminate.
    destruct (unpacked fs r) as [rest|] eqn:Er; [|discriminate]. injection E as <-.
    rewrite flat_map_app in Hi. apply in_app_or in Hi. destruct Hi as [Hi|Hi].
    + apply (lookup_field_ids fi fs _ Ef). cbn [ids]. right. exact Hi.
    + exact (IH rest eq_refl i Hi).
Qed.

Lemma tag_ok {K} (k : K) r n S : step_ok ids S r n -> step_ok (fun e : K * hv => ids (snd e)) S (tag k r) n.
Proof. destruct r as [[[x b] n']|]; cbn; auto. Qed.

Theorem exec_all_ok : forall p, exec_ok p.
Proof.
  induction p using plan_ind'; unfold exec_ok; intros v n S Hv Hc; cbn [exec].
  - (* as is *) cbn. repeat split; [lia|constructor|constructor|]. intros i Hi. right. apply Hv. exact Hi.
  - destruct v; cbn; auto. repeat split; [lia|constructor|constructor|intros i []].
  - (* list *)
    destruct (elements v) as [l|] eqn:El; [|exact I].
    pose proof (map_step_ok (exec p) ids S l) as M.
    assert (Hl : forall a, In a l -> forall m, step_ok ids S (exec p a m) m).
    { intros a Ha m. apply IHp; [|exact Hc]. intros i Hi. apply Hv. exact (elements_ids v l El a Ha i Hi). }
    specialize (M Hl (Datatypes.S n)). destruct (map_step (exec p) l (Datatypes.S n)) as [[[l' b] n']|]; [|exact I].
    cbn in M |- *. destruct M as (M1 & M2 & M3 & M4). destruct (cons_fresh n n' b M1 M2 M3) as [R N].
    repeat split; [lia|exact R|exact N|]. intros i [<-|Hi]; [left; left; reflexivity|].
    destruct (M4 i Hi) as [H|H]; [left; right; exact H|right; exact H].
  - (* tuple *)
    destruct (elements v) as [l|] eqn:El; [|exact I].
    pose proof (map_step_ok (exec p) ids S l) as M.
    assert (Hl : forall a, In a l -> forall m, step_ok ids S (exec p a m) m).
    { intros a Ha m. apply IHp; [|exact Hc]. intros i Hi. apply Hv. exact (elements_ids v l El a Ha i Hi). }
    specialize (M Hl n). destruct (map_step (exec p) l n) as [[[l' b] n']|]; [|exact I].
    cbn in M |- *. exact M.
  - (* set *)
    destruct (elements v) as [l|] eqn:El; [|exact I].
    pose proof (map_step_ok (exec p) ids S l) as M.
    assert (Hl : forall a, In a l -> forall m, step_ok ids S (exec p a m) m).
    { intros a Ha m. apply IHp; [|exact Hc]. intros i Hi. apply Hv. exact (elements_ids v l El a Ha i Hi). }
    specialize (M Hl (Datatypes.S n)). destruct (map_step (exec p) l (Datatypes.S n)) as [[[l' b] n']|]; [|exact I].
    cbn in M |- *. destruct M as (M1 & M2 & M3 & M4). destruct (cons_fresh n n' b M1 M2 M3) as [R N].
    repeat split; [lia|exact R|exact N|]. intros i [<-|Hi]; [left; left; reflexivity|].
    destruct (M4 i Hi) as [H|H]; [left; right; exact H|right; exact H].
  - (* dict *)
    destruct v as [| | | |id kv|]; try exact I.
    pose proof (map_step_ok (item_step (exec p1) (exec p2)) (fun e => ids (fst e) ++ ids (snd e)) S kv) as M.
    assert (Hl : forall e, In e kv -> forall m, step_ok (fun e => ids (fst e) ++ ids (snd e)) S (item_step (exec p1) (exec p2) e m) m).
    { intros e He m. unfold item_step.
      assert (Hk : forall i, In i (ids (fst e)) -> In i S).
      { intros i Hi. apply Hv. cbn. right. apply in_flat_map. exists e. split; [exact He|]. apply in_or_app. left. exact Hi. }
      assert (Hx : forall i, In i (ids (snd e)) -> In i S).
      { intros i Hi. apply Hv. cbn. right. apply in_flat_map. exists e. split; [exact He|]. apply in_or_app. right. exact Hi. }
      assert (Hc1 : forall i, In i (const_ids p1) -> In i S) by (intros i Hi; apply Hc; cbn; apply in_or_app; left; exact Hi).
      assert (Hc2 : forall i, In i (const_ids p2) -> In i S) by (intros i Hi; apply Hc; cbn; apply in_or_app; right; exact Hi).
      pose proof (IHp1 (fst e) m S Hk Hc1) as K1. destruct (exec p1 (fst e) m) as [[[k' b1] m1]|]; [|exact I].
      pose proof (IHp2 (snd e) m1 S Hx Hc2) as K2. destruct (exec p2 (snd e) m1) as [[[x' b2] m2]|]; [|exact I].
      cbn in K1, K2 |- *. destruct K1 as (A1 & A2 & A3 & A4). destruct K2 as (B1 & B2 & B3 & B4).
      split; [lia|]. split; [|split].
      - apply in_range_app; [apply (in_range_widen m m1)|apply (in_range_widen m1 m2)]; auto; lia.
      - apply (nodup_ranges m m1 m2); assumption.
      - intros i Hi. apply in_app_or in Hi. destruct Hi as [Hi|Hi].
        + destruct (A4 i Hi) as [H|H]; [left; apply in_or_app; left; exact H|right; exact H].
        + destruct (B4 i Hi) as [H|H]; [left; apply in_or_app; right; exact H|right; exact H]. }
    specialize (M Hl (Datatypes.S n)).
    destruct (map_step (item_step (exec p1) (exec p2)) kv (Datatypes.S n)) as [[[kv' b] n']|]; [|exact I].
    cbn in M |- *. destruct M as (M1 & M2 & M3 & M4). destruct (cons_fresh n n' b M1 M2 M3) as [R N].
    repeat split; [lia|exact R|exact N|]. intros i [<-|Hi]; [left; left; reflexivity|].
    destruct (M4 i Hi) as [H|H]; [left; right; exact H|right; exact H].
  - (* optional *)
    destruct v as [[|a]| | | | |]; try (apply IHp; assumption).
    cbn. repeat split; [lia|constructor|constructor|intros i []].
  - (* mapping -> object *)
    destruct v as [| | | |id kv|]; try exact I.
    set (step := fun (f : nat * nat * plan * dflt) (m : nat) =>
                   match f with (i, key, q, d) =>
                     tag i (match lookup_key key kv with Some x => exec q x m | None => default_value d m end) end).
    pose proof (map_step_ok step (fun e : nat * hv => ids (snd e)) S fields) as M.
    assert (Hl : forall f, In f fields -> forall m, step_ok (fun e : nat * hv => ids (snd e)) S (step f m) m).
    { intros [[[i key] q] d] Hf m. unfold step. apply tag_ok.
      rewrite Forall_forall in H. pose proof (H _ Hf) as Hq. cbn [fst snd] in Hq.
      assert (Hcq : forall j, In j (const_ids q) -> In j S).
      { intros j Hj. apply Hc. cbn [const_ids]. apply in_flat_map. exists (i, key, q, d). split; [exact Hf|].
        apply in_or_app. left. exact Hj. }
      destruct (lookup_key key kv) as [x|] eqn:Ek.
      - apply Hq; [|exact Hcq]. intros j Hj. apply Hv. cbn [ids]. right. exact (lookup_key_ids key kv x Ek j Hj).
      - destruct d as [|kind|c]; cbn [default_value]; [exact I| |].
        + cbn. repeat split; [lia|constructor; [lia|constructor]|constructor; [intros []|constructor]|].
          intros j Hj. left. destruct kind as [|[|k]]; cbn in Hj; destruct Hj as [<-|[]]; left; reflexivity.
        + cbn. repeat split; [lia|constructor|constructor|]. intros j Hj. right. apply Hc. cbn [const_ids].
          apply in_flat_map. exists (i, key, q, DConst c). split; [exact Hf|]. apply in_or_app. right. exact Hj. }
    specialize (M Hl (Datatypes.S n)). fold step.
    destruct (map_step step fields (Datatypes.S n)) as [[[fs b] n1]|]; [|exact I].
    cbn in M. destruct M as (M1 & M2 & M3 & M4). destruct (cons_fresh n n1 b M1 M2 M3) as [R N].
    destruct extra as [fi|].
    + cbn. split; [lia|]. split; [|split].
      * constructor; [lia|]. apply in_range_app; [apply (in_range_widen (Datatypes.S n) n1); auto; lia|].
        constructor; [lia|constructor].
      * constructor.
        -- intro Hin. apply in_app_or in Hin. destruct Hin as [Hin|[Hin|[]]]; [|lia].
           unfold in_range in M2. rewrite Forall_forall in M2. specialize (M2 _ Hin). lia.
        -- apply (nodup_ranges (Datatypes.S n) n1 (Datatypes.S n1)); auto; [constructor; [lia|constructor]|].
           constructor; [intros []|constructor].
      * intros i [<-|Hi]; [left; left; reflexivity|]. rewrite flat_map_app in Hi. apply in_app_or in Hi.
        destruct Hi as [Hi|Hi].
        -- destruct (M4 i Hi) as [Hb|Hs]; [left; right; apply in_or_app; left; exact Hb|right; exact Hs].
        -- cbn in Hi. rewrite app_nil_r in Hi. destruct Hi as [<-|Hi]; [left; right; apply in_or_app; right; left; reflexivity|].
           right. apply Hv. cbn [ids]. right. apply in_flat_map in Hi. destruct Hi as [e [He Hi]].
           apply filter_In in He. destruct He as [He _]. apply in_flat_map. exists e. auto.
    + cbn. repeat split; [lia|exact R|exact N|]. intros i [<-|Hi]; [left; left; reflexivity|].
      destruct (M4 i Hi) as [Hb|Hs]; [left; right; exact Hb|right; exact Hs].
  - (* object -> mapping *)
    destruct v as [| | | | |id cls fs]; try exact I.
    set (step := fun (f : nat * nat * plan) (m : nat) =>
                   match f with (i, key, q) =>
                     tag (HAtom key) (match lookup_field i fs with Some x => exec q x m | None => None end) end).
    pose proof (map_step_ok step (fun e : hv * hv => ids (snd e)) S fields) as M.
    assert (Hl : forall f, In f fields -> forall m, step_ok (fun e : hv * hv => ids (snd e)) S (step f m) m).
    { intros [[i key] q] Hf m. unfold step. apply tag_ok.
      rewrite Forall_forall in H. pose proof (H _ Hf) as Hq. cbn [snd] in Hq.
      destruct (lookup_field i fs) as [x|] eqn:Ek; [|exact I].
      apply Hq.
      - intros j Hj. apply Hv. cbn [ids]. right. exact (lookup_field_ids i fs x Ek j Hj).
      - intros j Hj. apply Hc. cbn [const_ids]. apply in_flat_map. exists (i, key, q). auto. }
    specialize (M Hl (Datatypes.S n)). fold step.
    destruct (map_step step fields (Datatypes.S n)) as [[[kv b] n1]|] eqn:Eq; [|exact I].
    cbn in M. destruct M as (M1 & M2 & M3 & M4). destruct (cons_fresh n n1 b M1 M2 M3) as [R N].
    assert (Hkeys : Forall (fun e : hv * hv => ids (fst e) = []) kv).
    { apply (map_step_forall step (fun e : hv * hv => ids (fst e) = []) ) with (l := fields) (n := Datatypes.S n) (b := b) (n' := n1);
        [|exact Eq].
      intros [[i key] q] m r b' m' E. unfold step in E. destruct (lookup_field i fs) as [x|]; [|discriminate].
      destruct (exec q x m) as [[[x' b1] m1]|]; [|discriminate]. cbn [tag] in E. injection E as <- _ _. reflexivity. }
    assert (Hkv : forall i, In i (flat_map (fun e : hv * hv => ids (fst e) ++ ids (snd e)) kv) -> In i b \/ In i S).
    { intros i Hi. apply M4. apply in_flat_map in Hi. destruct Hi as [e [He Hi]]. apply in_flat_map. exists e.
      split; [exact He|]. rewrite Forall_forall in Hkeys. rewrite (Hkeys e He) in Hi. exact Hi. }
    destruct (unpacked fs extra) as [more|] eqn:Eu; [|exact I].
    cbn. repeat split; [lia|exact R|exact N|]. intros i [<-|Hi]; [left; left; reflexivity|].
    rewrite flat_map_app in Hi. apply in_app_or in Hi. destruct Hi as [Hi|Hi].
    + destruct (Hkv i Hi) as [Hb|Hs]; [left; right; exact Hb|right; exact Hs].
    + right. apply Hv. cbn [ids]. right. exact (unpacked_ids fs extra more Eu i Hi).
  - (* object -> object *)
    destruct v as [| | | | |id cls' fs]; try exact I.
    set (step := fun (f : nat * nat * plan) (m : nat) =>
                   match f with (dst, src, q) =>
                     tag dst (match lookup_field src fs with Some x => exec q x m | None => None end) end).
    pose proof (map_step_ok step (fun e : nat * hv => ids (snd e)) S fields) as M.
    assert (Hl : forall f, In f fields -> forall m, step_ok (fun e : nat * hv => ids (snd e)) S (step f m) m).
    { intros [[dst src] q] Hf m. unfold step. apply tag_ok.
      rewrite Forall_forall in H. pose proof (H _ Hf) as Hq. cbn [snd] in Hq.
      destruct (lookup_field src fs) as [x|] eqn:Ek; [|exact I].
      apply Hq.
      - intros j Hj. apply Hv. cbn [ids]. right. exact (lookup_field_ids src fs x Ek j Hj).
      - intros j Hj. apply Hc. cbn [const_ids]. apply in_flat_map. exists (dst, src, q). auto. }
    specialize (M Hl (Datatypes.S n)). fold step.
    destruct (map_step step fields (Datatypes.S n)) as [[[fs' b] n1]|]; [|exact I].
    cbn in M. destruct M as (M1 & M2 & M3 & M4). destruct (cons_fresh n n1 b M1 M2 M3) as [R N].
    cbn. repeat split; [lia|exact R|exact N|]. intros i [<-|Hi]; [left; left; reflexivity|].
    destruct (M4 i Hi) as [Hb|Hs]; [left; right; exact Hb|right; exact Hs].
Qed.

(* ------------------------------------------------------------------------------------------------------------------ *)
(* the statements used by Props/C20.v *)

Theorem result_fresh : forall p v n r b n', exec p v n = Some (r, b, n') ->
  n <= n' /\ in_range n n' b /\ NoDup b /\
  (forall i, In i (ids r) -> In i b \/ In i (ids v) \/ In i (const_ids p)).
Proof.
  intros p v n r b n' E.
  pose proof (exec_all_ok p v n (ids v ++ const_ids p)
                (fun i Hi => in_or_app _ _ i (or_introl Hi)) (fun i Hi => in_or_app _ _ i (or_intror Hi))) as H.
  rewrite E in H. cbn in H. destruct H as (H1 & H2 & H3 & H4). repeat split; auto.
  intros i Hi. destruct (H4 i Hi) as [Hb|Hs]; [left; exact Hb|]. right. apply in_app_or. exact Hs.
Qed.

(* two successive calls: whatever the second result shares with the first is a node of an argument or a captured
   constant - nothing either call built *)
Corollary no_sharing_between_calls : forall p v1 v2 n r1 b1 n1 r2 b2 n2,
  exec p v1 n = Some (r1, b1, n1) -> exec p v2 n1 = Some (r2, b2, n2) ->
  forall i, In i b1 -> ~ In i b2.
Proof.
  intros p v1 v2 n r1 b1 n1 r2 b2 n2 E1 E2 i H1 H2.
  destruct (result_fresh _ _ _ _ _ _ E1) as (_ & A & _). destruct (result_fresh _ _ _ _ _ _ E2) as (_ & B & _).
  unfold in_range in *. rewrite Forall_forall in A, B. specialize (A _ H1). specialize (B _ H2). lia.
Qed.

(* nothing built by a call is a node of its argument or of a captured constant, when those were allocated before *)
Corollary built_is_new : forall p v n r b n', exec p v n = Some (r, b, n') ->
  (forall i, In i (ids v) -> i < n) -> (forall i, In i (const_ids p) -> i < n) ->
  forall i, In i b -> ~ In i (ids v) /\ ~ In i (const_ids p).
Proof.
  intros p v n r b n' E Hv Hc i Hi. destruct (result_fresh _ _ _ _ _ _ E) as (_ & A & _).
  unfold in_range in A. rewrite Forall_forall in A. specialize (A _ Hi).
  split; intro H; [specialize (Hv _ H)|specialize (Hc _ H)]; lia.
Qed.

