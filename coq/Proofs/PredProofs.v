From Coq Require Import List Arith Bool String Ascii Lia.
From AV Require Import Model.Pred.
Import ListNotations.

(* ---------------- combinators are the pointwise boolean operations ---------------- *)
Lemma check_and w l st : check w (CAnd l) st = forallb (fun c => check w c st) l.
Proof. reflexivity. Qed.
Lemma check_or w l st : check w (COr l) st = existsb (fun c => check w c st) l.
Proof. reflexivity. Qed.
Lemma check_not w c st : check w (CNot c) st = negb (check w c st).
Proof. reflexivity. Qed.
Lemma check_and2 w a b st : check w (CAnd [a; b]) st = check w a st && check w b st.
Proof. cbn [check forallb]. now rewrite andb_true_r. Qed.
Lemma check_or2 w a b st : check w (COr [a; b]) st = check w a st || check w b st.
Proof. cbn [check existsb]. now rewrite orb_false_r. Qed.
Lemma check_xor2 w a b st : check w (CXor [a; b]) st = xorb (check w a st) (check w b st).
Proof. cbn [check map]. unfold xor_all. cbn [fold_left]. now rewrite xorb_false_l. Qed.

Lemma bin_chk_spec w op a b st :
  check w (bin_chk op a b) st =
  match op with
  | BOr => check w a st || check w b st
  | BAnd => check w a st && check w b st
  | BXor => xorb (check w a st) (check w b st)
  end.
Proof. destruct op; [apply check_or2 | apply check_and2 | apply check_xor2]. Qed.

(* ---------------- LocStackEndChecker = tail match ---------------- *)
Fixpoint end_loop (f : chk -> list loc -> bool) (st : list loc) (m : nat) (l : list chk) (j : nat) : bool :=
  match l with
  | [] => true
  | c :: r => f c (firstn (List.length st - (m - 1 - j)) st) && end_loop f st m r (S j)
  end.

Lemma end_go_is_end_loop w st m l j :
  (fix go (l' : list chk) (j : nat) {struct l'} : bool :=
     match l' with
     | [] => true
     | c' :: r => check w c' (firstn (List.length st - (m - 1 - j)) st) && go r (S j)
     end) l j = end_loop (check w) st m l j.
Proof.
  revert j. induction l as [|c r IH]; intro j; [reflexivity|].
  cbn [end_loop]. f_equal. apply IH.
Qed.

Lemma check_end_unfold w l st :
  check w (CEnd l) st = (List.length l <=? List.length st) && end_loop (check w) st (List.length l) l 0.
Proof. cbn [check]. f_equal. apply end_go_is_end_loop. Qed.

Lemma end_loop_spec f st m l j :
  end_loop f st m l j = true <->
  forall k, k < List.length l -> f (nth k l CAny) (firstn (List.length st - (m - 1 - (j + k))) st) = true.
Proof.
  revert j. induction l as [|c r IH]; intro j; cbn [end_loop List.length].
  - split; [intros _ k Hk; lia | reflexivity].
  - rewrite andb_true_iff, IH. split.
    + intros [H0 H] [|k] Hk; cbn [nth].
      * now rewrite Nat.add_0_r.
      * replace (j + S k) with (S j + k) by lia. apply H. lia.
    + intro H. split.
      * specialize (H 0). cbn [nth] in H. rewrite Nat.add_0_r in H. apply H. lia.
      * intros k Hk. specialize (H (S k)). cbn [nth] in H.
        replace (j + S k) with (S j + k) in H by lia. apply H. lia.
Qed.

(* The i-th element of the pattern (counted from its start) is asked about the stack cut just after the location
   that lines up with it, exactly as ImmutableStack.reversed_slice does. *)
Theorem end_checker_spec w cs st :
  check w (CEnd cs) st = true <->
  List.length cs <= List.length st /\
  forall k, k < List.length cs ->
    check w (nth k cs CAny) (firstn (List.length st - (List.length cs - 1 - k)) st) = true.
Proof.
  rewrite check_end_unfold, andb_true_iff, Nat.leb_le, end_loop_spec. reflexivity.
Qed.

(* The same statement in "prefix ++ tail" form. *)
Theorem end_checker_is_tail_match w cs st :
  check w (CEnd cs) st = true <->
  exists pre tl, st = pre ++ tl /\ List.length tl = List.length cs /\
    forall k, k < List.length cs -> check w (nth k cs CAny) (pre ++ firstn (S k) tl) = true.
Proof.
  rewrite end_checker_spec. split.
  - intros [Hlen H].
    exists (firstn (List.length st - List.length cs) st), (skipn (List.length st - List.length cs) st).
    split; [now rewrite firstn_skipn|]. split; [rewrite skipn_length; lia|].
    intros k Hk. specialize (H k Hk).
    replace (firstn (List.length st - List.length cs) st ++ firstn (S k) (skipn (List.length st - List.length cs) st))
      with (firstn (List.length st - (List.length cs - 1 - k)) st); [exact H|].
    set (n := List.length st - List.length cs).
    replace (List.length st - (List.length cs - 1 - k)) with (n + S k) by (unfold n; lia).
    rewrite <- (firstn_skipn n st) at 1.
    rewrite firstn_app, firstn_length, Nat.min_l by (unfold n; lia).
    replace (n + S k - n) with (S k) by lia.
    rewrite firstn_all2 with (n := n + S k); [reflexivity|]. rewrite firstn_length. lia.
  - intros (pre & tl & -> & Hl & H). rewrite app_length. split; [lia|].
    intros k Hk. specialize (H k Hk).
    replace (List.length pre + List.length tl - (List.length cs - 1 - k)) with (List.length pre + S k) by lia.
    rewrite firstn_app_2. exact H.
Qed.

(* ---------------- documented rules for class and string predicates ---------------- *)
Lemma last_loc_app pre l : last_loc (pre ++ [l]) = Some l.
Proof. unfold last_loc. now rewrite rev_app_distr. Qed.

Theorem class_pred_rule w c pre l :
  matches w (PCls c) (pre ++ [l]) =
  Some (if is_abs w c then subclass w (origin (ltype l)) c else Nat.eqb (origin (ltype l)) c).
Proof.
  unfold matches. cbn [create]. unfold by_origin.
  destruct (is_abs w c); cbn [check]; unfold on_last; now rewrite last_loc_app.
Qed.

Theorem string_pred_rule w s pre l :
  matches w (PStr s) (pre ++ [l]) =
  Some (castable_field (lkind l) &&
        (if is_identifier s then String.eqb s (lfid l) else fullmatch w s (lfid l))).
Proof.
  unfold matches. cbn [create].
  destruct (is_identifier s); cbn [check]; unfold on_last; now rewrite last_loc_app.
Qed.

Theorem regex_pred_rule w re pre l :
  matches w (PRe re) (pre ++ [l]) = Some (castable_field (lkind l) && fullmatch w re (lfid l)).
Proof. unfold matches. cbn [create check]. unfold on_last. now rewrite last_loc_app. Qed.

Theorem exact_type_pred_rule w t pre l :
  matches w (PTy t) (pre ++ [l]) = Some (ty_eqb (ltype l) t).
Proof. unfold matches. cbn [create check]. unfold on_last. now rewrite last_loc_app. Qed.

(* ---------------- the documented identities, as equalities of the produced checkers ---------------- *)
(* P['n'] == P.n  (for every pattern prefix e) *)
Theorem getitem_str_is_getattr w e n :
  is_dunder n = false -> stack_of w (EItem e (PStr n)) = stack_of w (EAttr e n).
Proof.
  intro H. cbn [stack_of is_pat create]. rewrite H.
  destruct (stack_of w e); reflexivity.
Qed.

(* P[A] == A *)
Theorem p_item_is_pred w p :
  is_pat p = false -> create w (PPat (EItem EP p)) = create w p.
Proof.
  intro H. cbn [create stack_of]. rewrite H. cbn [bind app].
  destruct (create w p); reflexivity.
Qed.

(* P[A] + P.n == P[A].n, and more generally e + P.n == e.n and e + P[q] == e[q] *)
Theorem add_attr w e n : stack_of w (EAdd e (EAttr EP n)) = stack_of w (EAttr e n).
Proof.
  cbn [stack_of]. destruct (is_dunder n); destruct (stack_of w e); reflexivity.
Qed.
Theorem add_item w e q : stack_of w (EAdd e (EItem EP q)) = stack_of w (EItem e q).
Proof.
  cbn [stack_of]. destruct (is_pat q); destruct (stack_of w e); cbn [bind app]; try reflexivity.
  destruct (create w q); reflexivity.
Qed.
Theorem add_assoc w a b c : stack_of w (EAdd (EAdd a b) c) = stack_of w (EAdd a (EAdd b c)).
Proof.
  cbn [stack_of]. destruct (stack_of w a), (stack_of w b), (stack_of w c); cbn [bind]; try reflexivity.
  now rewrite app_assoc.
Qed.

(* P[A, B] == P[A] | P[B] *)
Theorem tuple_is_or w a b :
  is_pat a = false -> is_pat b = false ->
  build w (ETuple EP [a; b]) = build w (EBin BOr (OPat (EItem EP a)) (OPat (EItem EP b))).
Proof.
  intros Ha Hb. unfold build. cbn [stack_of lsc_of]. rewrite Ha, Hb. cbn [bind app].
  destruct (create w a); cbn [bind]; [|reflexivity].
  destruct (create w b); reflexivity.
Qed.

Theorem tuple_matches_either w a b ca cb st :
  is_pat a = false -> is_pat b = false -> create w a = Some ca -> create w b = Some cb ->
  matches w (PPat (ETuple EP [a; b])) st = Some (check w ca st || check w cb st).
Proof.
  intros Ha Hb Ca Cb. unfold matches. cbn [create stack_of]. rewrite Ha, Hb, Ca, Cb. cbn [bind app build_stack].
  now rewrite check_or2.
Qed.

(* combinators on patterns are pointwise on what their operands match *)
Theorem pat_bin_pointwise w op a b ca cb st :
  lsc_of w a = Some ca -> lsc_of w b = Some cb ->
  matches w (PPat (EBin op a b)) st =
  Some (match op with
        | BOr => check w ca st || check w cb st
        | BAnd => check w ca st && check w cb st
        | BXor => xorb (check w ca st) (check w cb st)
        end).
Proof.
  intros A B. unfold matches. cbn [create stack_of]. rewrite A, B. cbn [bind build_stack].
  now rewrite bin_chk_spec.
Qed.

Theorem pat_invert_pointwise w e c st :
  build w e = Some c -> matches w (PPat (EInv e)) st = Some (negb (check w c st)).
Proof.
  unfold build, matches. intro B. cbn [create stack_of]. rewrite B. reflexivity.
Qed.

(* a chain P[p1][p2]...[pn] (n >= 2) is the end checker of its elements *)
Theorem chain_is_end w e p s c :
  is_pat p = false -> stack_of w e = Some s -> s <> [] -> create w p = Some c ->
  build w (EItem e p) = Some (CEnd (s ++ [c])).
Proof.
  intros Hp Hs Hne Hc. unfold build. cbn [stack_of]. rewrite Hp, Hs, Hc. cbn [bind].
  destruct s as [|x [|y r]]; [contradiction| reflexivity | reflexivity].
Qed.

(* bound(pred, provider): conjunction with the provider's own checker *)
Theorem bound_is_conjunction w outer inner st :
  check w (bound_checker outer inner) st =
  check w outer st && match inner with AlwaysTrue => true | Located c => check w c st end.
Proof.
  destruct inner; cbn [bound_checker]; [now rewrite andb_true_r | apply check_and2].
Qed.

(* ---------------- non-vacuity: a concrete world, pattern and stack ---------------- *)
Definition ex_world := World [2] [(0, [0]); (1, [1; 2]); (2, [2]); (3, [3; 0])] [("a.*"%string, ["ab"%string])].
Definition ex_stack := [Loc KType (Ty 0 []) "" 0; Loc KInField (Ty 1 []) "ab" 0; Loc KGeneric (Ty 3 [Ty 1 []]) "" 1].
Example ex_chain :
  matches ex_world (PPat (EGen (EItem (EItem EP (PCls 0)) (PStr "a.*")) 1 (PTy (Ty 3 [Ty 1 []])))) ex_stack = Some true
  /\ matches ex_world (PPat (EItem (EItem EP (PCls 0)) (PStr "ab"))) (firstn 2 ex_stack) = Some true
  /\ matches ex_world (PCls 2) (firstn 2 ex_stack) = Some true
  /\ matches ex_world (PCls 1) [Loc KType (Ty 2 []) "" 0] = Some false.
Proof. vm_compute. repeat split. Qed.
