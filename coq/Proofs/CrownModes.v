(* C06 for generated model loaders (Model/CrownSem.v): the interpreter of DebugTrail.ALL (`all`, which keeps going and
   collects) and the interpreter of DISABLE / FIRST (`first`, which stops at the first error) accept exactly the same
   data and, on success, deliver the same fields and the same extras - for every crown, policy and datum. *)
From Coq Require Import List Arith Bool String Lia.
From AV Require Import Model.Layout Model.CrownSem Proofs.CrownProofs.
Import ListNotations.
Local Open Scope list_scope.

Section Modes.
Variable info : finfos.
Variable pol : policy.
Variable md : mode.

Notation allc := (all info pol).
Notation firstc := (first info pol md).

(* errors only accumulate *)
Lemma all_mono c p d s s' x : allc c p d s = GoA s' x -> exists es, errs s' = errs s ++ es.
Proof.
  intro H. destruct (is_leaf c) eqn:El.
  - destruct c; try discriminate; cbn [all] in H; injection H as <- _; exists []; now rewrite app_nil_r.
  - destruct (loader_all_reads_exact_paths info pol c El _ _ _ _ _ H) as [es [He _]]. exists es. exact He.
Qed.

Lemma all_ok_all (l : list crown) : Forall (all_ok info pol) l.
Proof. apply Forall_forall. intros c _. apply loader_all_reads_exact_paths. Qed.
Lemma all_ok_all_kc (l : list (string * crown)) : Forall (fun kc => all_ok info pol (snd kc)) l.
Proof. apply Forall_forall. intros c _. apply loader_all_reads_exact_paths. Qed.

Lemma dict_all_mono m p d rest s x0 nf s' x : dict_all info allc m p d rest s x0 nf = GoA s' x -> exists es, errs s' = errs s ++ es.
Proof. intro H. destruct (dict_all_reads info pol m p d rest (all_ok_all_kc rest) _ _ _ _ _ H) as [es [He _]]. exists es. exact He. Qed.
Lemma list_all_mono p d rest i s s' x : list_all allc p d rest i s = GoA s' x -> exists es, errs s' = errs s ++ es.
Proof. intro H. destruct (list_all_reads info pol p d rest (all_ok_all rest) _ _ _ _ H) as [es [He _]]. exists es. exact He. Qed.

Lemma nonempty_app {A} (a b : list A) : a <> [] -> a ++ b <> [].
Proof. destruct a; [contradiction|discriminate]. Qed.

(* what it means for the two interpreters to agree on one node, started without errors *)
Definition agree (c : crown) : Prop := forall p d s, errs s = [] ->
  match allc c p d s with
  | BadA => exists e, firstc c p d (fields s) = Stop e
  | GoA s' x => (errs s' = [] /\ firstc c p d (fields s) = Go1 (fields s') x) \/
                (errs s' <> [] /\ exists e, firstc c p d (fields s) = Stop e)
  end.

(* once `first` has stopped, whatever `all` goes on to do ends with errors (or with a wrong-kind report) *)
Lemma dict_after_error m p d rest s x0 nf : errs s <> [] ->
  match dict_all info allc m p d rest s x0 nf with BadA => True | GoA s' _ => errs s' <> [] end.
Proof.
  intro Hs. destruct (dict_all info allc m p d rest s x0 nf) as [s' x|] eqn:E; [|exact I].
  destruct (dict_all_mono _ _ _ _ _ _ _ _ _ E) as [es ->]. now apply nonempty_app.
Qed.
Lemma list_after_error p d rest i s : errs s <> [] ->
  match list_all allc p d rest i s with BadA => True | GoA s' _ => errs s' <> [] end.
Proof.
  intro Hs. destruct (list_all allc p d rest i s) as [s' x|] eqn:E; [|exact I].
  destruct (list_all_mono _ _ _ _ _ _ _ E) as [es ->]. now apply nonempty_app.
Qed.

Lemma add_err_nonempty e s : errs (add_err e s) <> [].
Proof. cbn [add_err errs]. destruct (errs s); discriminate. Qed.

Lemma dict_agree m p d : forall rest, Forall (fun kc => agree (snd kc)) rest ->
  forall s x0, errs s = [] ->
  match dict_all info allc m p d rest s x0 false with
  | BadA => exists e, dict_first info md firstc m p d rest (fields s) x0 = Stop e
  | GoA s' x => (errs s' = [] /\ dict_first info md firstc m p d rest (fields s) x0 = Go1 (fields s') x) \/
                (errs s' <> [] /\ exists e, dict_first info md firstc m p d rest (fields s) x0 = Stop e)
  end.
Proof.
  induction rest as [|[k sub] r IH]; intros Hall s x0 Hs; cbn [dict_all dict_first].
  - left. split; [exact Hs|reflexivity].
  - inversion Hall as [|a b Hsub Hr]; subst. cbn [snd] in Hsub.
    (* the pattern "first stops here, all goes on with an error" *)
    assert (Hstop : forall e0 e x1 nf1,
              match dict_all info allc m p d r (add_err e s) x1 nf1 with
              | BadA => exists e', @Stop e0 = Stop e'
              | GoA s' x => (errs s' = [] /\ Stop e0 = Go1 (fields s') x) \/ (errs s' <> [] /\ exists e', @Stop e0 = Stop e')
              end).
    { intros e0 e x1 nf1. pose proof (dict_after_error m p d r (add_err e s) x1 nf1 (add_err_nonempty e s)) as Hn.
      destruct (dict_all info allc m p d r (add_err e s) x1 nf1); [right; split; [exact Hn|eexists; reflexivity]|eexists; reflexivity]. }
    destruct (dget d k) as [v| |] eqn:Eg.
    + destruct sub as [i| |m'|m'].
      * destruct v; try apply Hstop. cbn [add_field].
        exact (IH Hr {| fields := fields s ++ [(i, n)]; errs := errs s |} x0 Hs).
      * exact (IH Hr s x0 Hs).
      * specialize (Hsub (p ++ [KS k]) v s Hs).
        destruct (allc (CDict m') (p ++ [KS k]) v s) as [s1 sx|].
        -- destruct Hsub as [[Hs1 ->]|[Hs1 [e ->]]].
           ++ exact (IH Hr s1 _ Hs1).
           ++ pose proof (dict_after_error m p d r s1 (add_sub_extra (KS k) sx x0) false Hs1) as Hn.
              destruct (dict_all info allc m p d r s1 (add_sub_extra (KS k) sx x0) false);
                [right; split; [exact Hn|eexists; reflexivity]|eexists; reflexivity].
        -- destruct Hsub as [e ->]. apply Hstop.
      * specialize (Hsub (p ++ [KS k]) v s Hs).
        destruct (allc (CList m') (p ++ [KS k]) v s) as [s1 sx|].
        -- destruct Hsub as [[Hs1 ->]|[Hs1 [e ->]]].
           ++ exact (IH Hr s1 _ Hs1).
           ++ pose proof (dict_after_error m p d r s1 (add_sub_extra (KS k) sx x0) false Hs1) as Hn.
              destruct (dict_all info allc m p d r s1 (add_sub_extra (KS k) sx x0) false);
                [right; split; [exact Hn|eexists; reflexivity]|eexists; reflexivity].
        -- destruct Hsub as [e ->]. apply Hstop.
    + destruct sub as [i| |m'|m']; try apply Hstop.
      destruct (fi_required (info i)); [apply Hstop|]. cbn [add_field].
      exact (IH Hr {| fields := fields s ++ [(i, fi_default (info i))]; errs := errs s |} x0 Hs).
    + eexists; reflexivity.
Qed.

Lemma lget_missing_short d i : lget d i = Missing -> data_len d <= i.
Proof.
  unfold lget. destruct d; try discriminate. destruct (nth_error l i) eqn:E; [discriminate|]. intros _.
  cbn [data_len]. now apply nth_error_None.
Qed.

Lemma list_agree expected p d : forall rest, Forall agree rest ->
  forall i s, errs s = [] -> i + List.length rest = expected ->
  match list_all allc p d rest i s with
  | BadA => exists e, list_first md firstc expected p d rest i (fields s) = Stop e
  | GoA s' _ => (errs s' = [] /\ list_first md firstc expected p d rest i (fields s) = Go1 (fields s') []) \/
                ((errs s' <> [] \/ data_len d < expected) /\ exists e, list_first md firstc expected p d rest i (fields s) = Stop e)
  end.
Proof.
  induction rest as [|sub r IH]; intros Hall i s Hs Hlen; cbn [list_all list_first].
  - left. split; [exact Hs|reflexivity].
  - inversion Hall as [|a b Hsub Hr]; subst a b. cbn [List.length] in Hlen.
    assert (Hlen' : Datatypes.S i + List.length r = expected) by lia.
    assert (Hstop : forall e0 e,
              match list_all allc p d r (Datatypes.S i) (add_err e s) with
              | BadA => exists e', @Stop e0 = Stop e'
              | GoA s' _ => (errs s' = [] /\ Stop e0 = Go1 (fields s') []) \/
                            ((errs s' <> [] \/ data_len d < expected) /\ exists e', @Stop e0 = Stop e')
              end).
    { intros e0 e. pose proof (list_after_error p d r (Datatypes.S i) (add_err e s) (add_err_nonempty e s)) as Hn.
      destruct (list_all allc p d r (Datatypes.S i) (add_err e s));
        [right; split; [left; exact Hn|eexists; reflexivity]|eexists; reflexivity]. }
    destruct sub as [id| |m'|m'].
    + destruct (lget d i) as [v| |] eqn:Eg.
      * destruct v; try apply Hstop. cbn [add_field].
        exact (IH Hr (Datatypes.S i) {| fields := fields s ++ [(id, n)]; errs := errs s |} Hs Hlen').
      * pose proof (lget_missing_short d i Eg) as Hshort.
        destruct (list_all allc p d r (Datatypes.S i) s);
          [right; split; [right; lia|eexists; reflexivity]|eexists; reflexivity].
      * eexists; reflexivity.
    + exact (IH Hr (Datatypes.S i) s Hs Hlen').
    + destruct (lget d i) as [v| |] eqn:Eg.
      * specialize (Hsub (p ++ [KI i]) v s Hs).
        destruct (allc (CDict m') (p ++ [KI i]) v s) as [s1 sx|].
        -- destruct Hsub as [[Hs1 ->]|[Hs1 [e ->]]].
           ++ exact (IH Hr (Datatypes.S i) s1 Hs1 Hlen').
           ++ pose proof (list_after_error p d r (Datatypes.S i) s1 Hs1) as Hn.
              destruct (list_all allc p d r (Datatypes.S i) s1);
                [right; split; [left; exact Hn|eexists; reflexivity]|eexists; reflexivity].
        -- destruct Hsub as [e ->]. apply Hstop.
      * pose proof (lget_missing_short d i Eg) as Hshort.
        destruct (list_all allc p d r (Datatypes.S i) s);
          [right; split; [right; lia|eexists; reflexivity]|eexists; reflexivity].
      * eexists; reflexivity.
    + destruct (lget d i) as [v| |] eqn:Eg.
      * specialize (Hsub (p ++ [KI i]) v s Hs).
        destruct (allc (CList m') (p ++ [KI i]) v s) as [s1 sx|].
        -- destruct Hsub as [[Hs1 ->]|[Hs1 [e ->]]].
           ++ exact (IH Hr (Datatypes.S i) s1 Hs1 Hlen').
           ++ pose proof (list_after_error p d r (Datatypes.S i) s1 Hs1) as Hn.
              destruct (list_all allc p d r (Datatypes.S i) s1);
                [right; split; [left; exact Hn|eexists; reflexivity]|eexists; reflexivity].
        -- destruct Hsub as [e ->]. apply Hstop.
      * pose proof (lget_missing_short d i Eg) as Hshort.
        destruct (list_all allc p d r (Datatypes.S i) s);
          [right; split; [right; lia|eexists; reflexivity]|eexists; reflexivity].
      * eexists; reflexivity.
Qed.

Theorem interpreters_agree : forall c, agree c.
Proof.
  induction c as [i| |m IH|m IH] using crown_ind'; unfold agree; intros p d s Hs; cbn [all first].
  - left. split; [exact Hs|reflexivity].
  - left. split; [exact Hs|reflexivity].
  - (* mapping node *)
    assert (Hinner :
      match (match m with [] => (match d with VDict _ => GoA s [] | _ => BadA end) | _ => dict_all info allc m p d m s [] false end) with
      | BadA => exists e, (match m with [] => (match d with VDict _ => Go1 (fields s) [] | _ => Stop (CrownSem.E TypeLE (trail_of md p)) end)
                                      | _ => dict_first info md firstc m p d m (fields s) [] end) = Stop e
      | GoA s' x => (errs s' = [] /\ (match m with [] => (match d with VDict _ => Go1 (fields s) [] | _ => Stop (CrownSem.E TypeLE (trail_of md p)) end)
                                      | _ => dict_first info md firstc m p d m (fields s) [] end) = Go1 (fields s') x) \/
                    (errs s' <> [] /\ exists e, (match m with [] => (match d with VDict _ => Go1 (fields s) [] | _ => Stop (CrownSem.E TypeLE (trail_of md p)) end)
                                      | _ => dict_first info md firstc m p d m (fields s) [] end) = Stop e)
      end).
    { destruct m as [|kc r].
      - destruct d; try (eexists; reflexivity). left. split; [exact Hs|reflexivity].
      - exact (dict_agree (kc :: r) p d (kc :: r) IH s [] Hs). }
    destruct (match m with [] => (match d with VDict _ => GoA s [] | _ => BadA end) | _ => dict_all info allc m p d m s [] false end) as [s1 x1|].
    + destruct Hinner as [[Hs1 ->]|[Hs1 [e ->]]].
      * destruct pol.
        -- left. split; [exact Hs1|reflexivity].
        -- destruct (unknown_keys m d) as [|k ks].
           ++ left. split; [exact Hs1|reflexivity].
           ++ right. split; [apply add_err_nonempty|eexists; reflexivity].
        -- left. split; [exact Hs1|reflexivity].
      * destruct pol.
        -- right. split; [exact Hs1|eexists; reflexivity].
        -- destruct (unknown_keys m d) as [|k ks].
           ++ right. split; [exact Hs1|eexists; reflexivity].
           ++ right. split; [apply add_err_nonempty|eexists; reflexivity].
        -- right. split; [exact Hs1|eexists; reflexivity].
    + destruct Hinner as [e ->]. eexists; reflexivity.
  - (* list node *)
    destruct d; try (eexists; reflexivity).
    pose proof (list_agree (List.length m) p (VList l) m IH 0 s Hs eq_refl) as Hinner.
    destruct (list_all allc p (VList l) m 0 s) as [s1 x1|].
    + destruct Hinner as [[Hs1 ->]|[Hs1 [e ->]]].
      * destruct (Nat.ltb (data_len (VList l)) (List.length m)).
        -- right. split; [apply add_err_nonempty|eexists; reflexivity].
        -- destruct (is_forbid pol && Nat.ltb (List.length m) (data_len (VList l))).
           ++ right. split; [apply add_err_nonempty|eexists; reflexivity].
           ++ left. split; [exact Hs1|reflexivity].
      * destruct (Nat.ltb (data_len (VList l)) (List.length m)) eqn:El.
        -- right. split; [apply add_err_nonempty|eexists; reflexivity].
        -- apply Nat.ltb_ge in El. destruct Hs1 as [Hs1|Hs1]; [|lia].
           destruct (is_forbid pol && Nat.ltb (List.length m) (data_len (VList l))).
           ++ right. split; [apply add_err_nonempty|eexists; reflexivity].
           ++ right. split; [exact Hs1|eexists; reflexivity].
    + destruct Hinner as [e ->]. eexists; reflexivity.
Qed.
End Modes.

(* ---- in terms of [load]: what is accepted and what is returned does not depend on the debug mode ---- *)
Definition loaded (o : outcome) : option (list (nat * nat) * extras) :=
  match o with Loaded f x => Some (f, x) | _ => None end.

Lemma first_vs_all info pol md c d : md <> All -> loaded (load info pol md c d) = loaded (load info pol All c d).
Proof.
  intro Hm. pose proof (interpreters_agree info pol md c [] d {| fields := []; errs := [] |} eq_refl) as H.
  cbn [fields] in H.
  assert (Hl : load info pol md c d = match first info pol md c [] d [] with Stop e => Single e | Go1 f x => Loaded f x end)
    by (destruct md; try reflexivity; contradiction).
  rewrite Hl. cbn [load].
  destruct (all info pol c [] d {| fields := []; errs := [] |}) as [s' x|].
  - destruct H as [[Hs ->]|[Hs [e ->]]].
    + rewrite Hs. reflexivity.
    + destruct (errs s'); [contradiction|reflexivity].
  - destruct H as [e ->]. reflexivity.
Qed.

Theorem model_loader_modes_agree : forall info pol c d m1 m2,
  loaded (load info pol m1 c d) = loaded (load info pol m2 c d).
Proof.
  intros info pol c d m1 m2.
  assert (H : forall m, loaded (load info pol m c d) = loaded (load info pol All c d)).
  { intro m. destruct m; [apply first_vs_all; discriminate|apply first_vs_all; discriminate|reflexivity]. }
  now rewrite (H m1), (H m2).
Qed.
