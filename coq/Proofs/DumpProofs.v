(* Proofs about Model/Dump.v: the class dispatcher picks the nearest ancestor in the MRO (C02), and
   load (dump x) = x for every admissible type of the fragment and every value of that type (C01). *)
From Coq Require Import List ZArith Bool String Ascii Lia.
From AV Require Import Model.Harness Model.Val Model.Load Model.Dump Proofs.LoadProofs.
Import ListNotations.

(* ---------------- ClassDispatcher.dispatch ---------------- *)
Theorem dispatch_nearest_ancestor classes tbl t :
  dispatch classes tbl = Some t <->
  exists pre c post, classes = pre ++ c :: post /\ assoc_case c tbl = Some t /\
                     Forall (fun a => assoc_case a tbl = None) pre.
Proof.
  induction classes as [|a r IH]; simpl.
  - split; [discriminate|]. intros (pre & c & post & E & _). destruct pre; discriminate.
  - destruct (assoc_case a tbl) as [ta|] eqn:A.
    + split.
      * intro H; inversion H; subst. exists [], a, r. repeat split; auto.
      * intros (pre & c & post & E & Hc & Hp). destruct pre as [|p pre]; simpl in E; inversion E; subst.
        -- congruence.
        -- inversion Hp; congruence.
    + rewrite IH. split.
      * intros (pre & c & post & -> & Hc & Hp). exists (a :: pre), c, post. repeat split; auto.
      * intros (pre & c & post & E & Hc & Hp). destruct pre as [|p pre]; simpl in E; inversion E; subst.
        -- congruence.
        -- inversion Hp; subst. exists pre, c, post. auto.
Qed.

Theorem dispatch_none classes tbl :
  dispatch classes tbl = None <-> Forall (fun a => assoc_case a tbl = None) classes.
Proof.
  induction classes as [|a r IH]; simpl; [split; auto|].
  destruct (assoc_case a tbl) eqn:A.
  - split; [discriminate | intro H; inversion H; congruence].
  - rewrite IH. split; [intro H; constructor; auto | intro H; inversion H; auto].
Qed.

(* ---------------- typing of values and admissible types ---------------- *)
Section RT.
Variable UM : nat -> list nat.
Variable U : nat -> pv -> res.

Definition key_type (t : ty) : bool := match t with TInt | TStr | TBool => true | _ => false end.

(* the keys of a dict value are pairwise different under Python == (what a real dict guarantees) *)
Fixpoint keys_fresh (acc : list (pv * pv)) (kvs : list (pv * pv)) : bool :=
  match kvs with
  | [] => true
  | (k, x) :: r => negb (existsb (fun kv => pyeq k (fst kv)) acc) && keys_fresh (acc ++ [(k, x)]) r
  end.

Fixpoint has_type (t : ty) (v : pv) {struct t} : bool :=
  match t with
  | TInt => match v with VInt _ => true | _ => false end
  | TFloat => match v with VFloat _ => true | _ => false end
  | TBool => match v with VBool _ => true | _ => false end
  | TStr => match v with VStr _ => true | _ => false end
  | TNone => match v with VNone => true | _ => false end
  | TLit ls => existsb (fun l => veq (lit_val l) v) ls
  | TIter KList t' => match v with VList l => forallb (has_type t') l | _ => false end
  | TIter KTuple t' => match v with VTuple l => forallb (has_type t') l | _ => false end
  | TTuple ts =>
      match v with
      | VTuple l =>
          (fix go (ts : list ty) (l : list pv) {struct ts} : bool :=
             match ts, l with
             | [], [] => true
             | t1 :: tr, x :: r => has_type t1 x && go tr r
             | _, _ => false
             end) ts l
      | _ => false
      end
  | TDict tk tv =>
      match v with
      | VDict kvs => key_type tk && keys_fresh [] kvs &&
                     forallb (fun kv => has_type tk (fst kv) && has_type tv (snd kv)) kvs
      | _ => false
      end
  | TOpt t' => match v with VNone => true | _ => has_type t' v end
  | TUnion ts => existsb (fun t' => match case_class t' with
                                    | Some c => Nat.eqb c (class_of v) && has_type t' v
                                    | None => false
                                    end) ts
  | _ => false                         (* Any, sets, user types: outside the theorem *)
  end.

(* the documented side conditions, stated semantically:
   Optional: the inner type never dumps a value to None;
   Union: cases are classes with pairwise different classes (no Literal case), and what a case dumps is rejected by
   every case tried before it *)
Fixpoint admissible (t : ty) : Prop :=
  match t with
  | TIter _ t' => admissible t'
  | TTuple ts => (fix all (l : list ty) : Prop := match l with [] => True | x :: r => admissible x /\ all r end) ts
  | TDict tk tv => admissible tk /\ admissible tv
  | TOpt t' => admissible t' /\ (forall v d, has_type t' v = true -> dump UM t' v = Some d -> d <> VNone)
  | TUnion ts =>
      (fix all (l : list ty) : Prop := match l with [] => True | x :: r => admissible x /\ all r end) ts
      /\ literal_case ts = None
      /\ (forall pre t' post, ts = pre ++ t' :: post ->
            exists c, case_class t' = Some c /\ Nat.ltb c 100 = true /\ c <> C_BOOL /\
                      Forall (fun e => case_class e <> Some c) pre)
      /\ (forall pre t' post v d, ts = pre ++ t' :: post -> has_type t' v = true ->
            dump UM t' v = Some d -> Forall (fun e => spec_ok U true e d = None) pre)
  | _ => True
  end.

(* ---------------- helper lemmas ---------------- *)
Lemma veq_refl' v : veq v v = true.
Proof.
  revert v. fix IH 1. intro v. destruct v; simpl; auto using Bool.eqb_reflx, Z.eqb_refl, String.eqb_refl, Nat.eqb_refl.
  1-4,6: (induction l as [|x l IHl]; simpl; auto; rewrite IH; simpl; exact IHl).
  induction kvs as [|[a b] l IHl]; simpl; auto. rewrite !IH. simpl. exact IHl.
Qed.

Lemma all_roundtrip (f g : pv -> option pv) (P : pv -> bool) l :
  (forall x, In x l -> P x = true -> exists d, f x = Some d /\ g d = Some x) ->
  forallb P l = true -> exists ds, all_some f l = Some ds /\ all_ok g ds = Some l.
Proof.
  induction l as [|x r IH]; intros H Hp; simpl in *; [eauto|].
  apply andb_true_iff in Hp. destruct Hp as [Hx Hr].
  destruct (H x (or_introl eq_refl) Hx) as (d & Hd & Hg).
  destruct IH as (ds & Hds & Hgs); auto. rewrite Hd, Hds. exists (d :: ds). simpl. now rewrite Hg, Hgs.
Qed.

Lemma dict_set_fresh acc k x : existsb (fun kv => pyeq k (fst kv)) acc = false -> dict_set acc k x = acc ++ [(k, x)].
Proof.
  induction acc as [|[k' x'] r IH]; simpl; auto. intro H. apply orb_false_iff in H. destruct H as [H1 H2].
  rewrite H1. now rewrite IH.
Qed.

Lemma scalar_key_roundtrip tk k : key_type tk = true -> has_type tk k = true ->
  dump UM tk k = Some k /\ spec_ok U true tk k = Some k.
Proof. destruct tk; simpl; try discriminate; destruct k; simpl; try discriminate; auto. Qed.

(* ---------------- the round trip ---------------- *)
Theorem roundtrip : forall t v, admissible t -> has_type t v = true ->
  exists d, dump UM t v = Some d /\ spec_ok U true t d = Some v.
Proof.
  induction t as [| | | | | |ls|k t IH|ts IH|tk tv IHk IHv|t IH|ts IH|n] using ty_ind'; intros v Ha Hv.
  - destruct v; try discriminate. eexists; split; reflexivity.
  - destruct v; try discriminate. eexists; split; reflexivity.
  - destruct v; try discriminate. eexists; split; reflexivity.
  - destruct v; try discriminate. eexists; split; reflexivity.
  - destruct v; try discriminate. eexists; split; reflexivity.
  - discriminate.
  - (* literal *)
    exists v. split; [reflexivity|]. cbn [spec_ok has_type] in *. unfold load_lit. cbn [andb].
    destruct (existsb boolish ls).
    + rewrite Hv. reflexivity.
    + assert (P : existsb (fun l => pyeq (lit_val l) v) ls = true).
      { apply existsb_exists in Hv. destruct Hv as (l & Il & El). apply existsb_exists. exists l. split; auto.
        now apply veq_pyeq_lit. }
      rewrite P. reflexivity.
  - (* iterable: list / tuple *)
    destruct k; try discriminate; destruct v; try discriminate; cbn [has_type admissible] in *;
      (destruct (all_roundtrip (dump UM t) (spec_ok U true t) (has_type t) l) as (ds & Hd & Hl);
       [intros; apply IH; auto | exact Hv |]);
      eexists; (split; [cbn [dump elems_of]; rewrite Hd; reflexivity|]);
      cbn [spec_ok iter_view]; rewrite Hl; reflexivity.
  - (* fixed tuple *)
    destruct v; try discriminate. cbn [has_type admissible] in *.
    assert (G : forall ts l, Forall (fun t => forall v, admissible t -> has_type t v = true ->
                                            exists d, dump UM t v = Some d /\ spec_ok U true t d = Some v) ts ->
              (fix all (l : list ty) : Prop := match l with [] => True | x :: r => admissible x /\ all r end) ts ->
              (fix go (ts : list ty) (l : list pv) {struct ts} : bool :=
                 match ts, l with [], [] => true | t1 :: tr, x :: r => has_type t1 x && go tr r | _, _ => false end) ts l = true ->
              List.length l = List.length ts /\
              exists ds, (fix go (ts : list ty) (l : list pv) {struct ts} : option (list pv) :=
                            match ts, l with
                            | t1 :: tr, x :: r => match dump UM t1 x, go tr r with Some a, Some b => Some (a :: b) | _, _ => None end
                            | _, _ => Some []
                            end) ts l = Some ds /\
                         List.length ds = List.length ts /\
                         all_ok2 (map (fun t1 => spec_ok U true t1) ts) ds = Some l).
    { clear. induction ts as [|t1 tr IHt]; intros [|x r] F A H; try discriminate.
      - split; auto. exists []. auto.
      - inversion F as [|? ? F1 Fr]; subst. destruct A as [A1 Ar]. apply andb_true_iff in H. destruct H as [H1 Hr].
        destruct (F1 x A1 H1) as (d & Hd & Hl). destruct (IHt r Fr Ar Hr) as (Len & ds & Hds & Lds & Hok).
        split; [simpl; lia|]. exists (d :: ds). rewrite Hd, Hds. repeat split; auto; [simpl; lia|].
        simpl. now rewrite Hl, Hok. }
    destruct (G ts l IH Ha Hv) as (Len & ds & Hds & Lds & Hok).
    exists (VTuple ds). split.
    + cbn [dump]. apply Nat.eqb_eq in Len. rewrite Len. rewrite Hds. reflexivity.
    + cbn [spec_ok iter_view]. apply Nat.eqb_eq in Lds. rewrite Lds, Hok. reflexivity.
  - (* dict *)
    destruct v; try discriminate. cbn [has_type admissible] in *. destruct Ha as [Hak Hav].
    apply andb_true_iff in Hv. destruct Hv as [Hv Hall]. apply andb_true_iff in Hv. destruct Hv as [Hkt Hfresh].
    assert (G : forall kvs acc dacc,
              map fst dacc = map fst acc -> keys_fresh acc kvs = true ->
              forallb (fun kv => has_type tk (fst kv) && has_type tv (snd kv)) kvs = true ->
              exists dkvs,
                (fix go (acc : list (pv * pv)) (l : list (pv * pv)) {struct l} : option (list (pv * pv)) :=
                   match l with
                   | [] => Some acc
                   | (k, x) :: r => match dump UM tk k, dump UM tv x with
                                    | Some k', Some x' => go (dict_set acc k' x') r
                                    | _, _ => None
                                    end
                   end) dacc kvs = Some (dacc ++ dkvs) /\
                all_okd (spec_ok U true tk) (spec_ok U true tv) acc dkvs = Some (acc ++ kvs)).
    { induction kvs0 as [|[k x] r IHr]; intros acc dacc Hkeys Hf Hall0; simpl in *.
      - exists []. rewrite !app_nil_r. auto.
      - apply andb_true_iff in Hf. destruct Hf as [Hfk Hfr]. apply negb_true_iff in Hfk.
        apply andb_true_iff in Hall0. destruct Hall0 as [Hkx Hr]. apply andb_true_iff in Hkx. destruct Hkx as [Hk Hx].
        destruct (scalar_key_roundtrip tk k Hkt Hk) as [Dk Lk]. destruct (IHv x Hav Hx) as (dx & Ddx & Ldx).
        rewrite Dk, Ddx.
        assert (Fd : existsb (fun kv => pyeq k (fst kv)) dacc = false).
        { clear -Hfk Hkeys. revert acc Hkeys Hfk. induction dacc as [|[a b] da IHd]; intros [|[a' b'] ac] E F; simpl in *;
            try discriminate; auto. inversion E; subst. apply orb_false_iff in F. destruct F as [F1 F2].
          rewrite F1. simpl. eapply IHd; eauto. }
        rewrite (dict_set_fresh dacc k dx Fd).
        destruct (IHr (acc ++ [(k, x)]) (dacc ++ [(k, dx)])) as (dkvs & Hgo & Hload); auto.
        { rewrite !map_app. simpl. now rewrite Hkeys. }
        exists ((k, dx) :: dkvs). split.
        + rewrite Hgo. now rewrite <- app_assoc.
        + simpl. rewrite Lk, Ldx. rewrite (dict_set_fresh acc k x Hfk). rewrite Hload. now rewrite <- app_assoc. }
    destruct (G kvs [] [] eq_refl Hfresh Hall) as (dkvs & Hgo & Hload). simpl in Hgo, Hload.
    exists (VDict dkvs). split.
    + cbn [dump]. rewrite Hgo. reflexivity.
    + cbn [spec_ok]. rewrite Hload. reflexivity.
  - (* optional *)
    cbn [admissible] in Ha. destruct Ha as [Ha Hnn]. cbn [has_type] in Hv.
    destruct v; try (exists VNone; split; reflexivity);
      match goal with |- exists d, dump UM (TOpt t) ?x = _ /\ _ =>
        destruct (IH x Ha Hv) as (d & Hd & Hl); exists d; split; [exact Hd|];
        cbn [spec_ok]; pose proof (Hnn x d Hv Hd) as Hne; destruct d; try exact Hl; congruence
      end.
  - (* union *)
    cbn [admissible] in Ha. destruct Ha as (Hall & Hlit & Hcls & Hno).
    cbn [has_type] in Hv. apply existsb_exists in Hv. destruct Hv as (t' & Hin & Ht').
    destruct (case_class t') as [c|] eqn:Ec; [|discriminate]. apply andb_true_iff in Ht'. destruct Ht' as [Hc Hty].
    apply Nat.eqb_eq in Hc.
    destruct (in_split _ _ Hin) as (pre & post & E).
    assert (Hat : admissible t').
    { clear -Hall Hin. induction ts as [|x r IHr]; [destruct Hin|]. destruct Hall. destruct Hin as [<-|Hin]; auto. }
    rewrite Forall_forall in IH. destruct (IH t' Hin v Hat Hty) as (d & Hd & Hl).
    destruct (Hcls pre t' post E) as (c' & Ec' & Hlt & Hnb & Hpre). rewrite Ec in Ec'. inversion Ec'; subst c'.
    exists d. split.
    + (* the dispatcher reaches t' *)
      cbn [dump]. rewrite Hlit.
      assert (M : mro UM (class_of v) = [c; C_OBJECT]).
      { unfold mro. rewrite <- Hc, Hlt. destruct (Nat.eqb c C_BOOL) eqn:B; [apply Nat.eqb_eq in B; contradiction|reflexivity]. }
      assert (A : assoc_case c (case_table ts) = Some t').
      { rewrite E. unfold case_table. rewrite flat_map_app. cbn [flat_map]. rewrite Ec.
        clear -Hpre. induction Hpre as [|e pr He _ IHp]; simpl.
        - now rewrite Nat.eqb_refl.
        - destruct (case_class e) as [ce|] eqn:Ce; simpl; auto.
          destruct (Nat.eqb ce c) eqn:B; [apply Nat.eqb_eq in B; subst; congruence | exact IHp]. }
      assert (D : dispatch (mro UM (class_of v)) (case_table ts) = Some t') by (rewrite M; simpl; now rewrite A).
      rewrite D. rewrite E. rewrite Ec. clear -Ec Hpre Hd.
      induction Hpre as [|e pr He _ IHp]; cbn [app].
      * rewrite Ec, Nat.eqb_refl. exact Hd.
      * destruct (case_class e) as [ce|] eqn:Ce; [|exact IHp].
        destruct (Nat.eqb ce c) eqn:B; [apply Nat.eqb_eq in B; subst; congruence | exact IHp].
    + (* the loader reaches t': every earlier case rejects d *)
      cbn [spec_ok]. rewrite E, map_app. specialize (Hno pre t' post v d E Hty Hd).
      clear -Hno Hl. induction Hno as [|e pr He _ IHp]; simpl; [now rewrite Hl | now rewrite He].
  - discriminate.
Qed.

(* every debug mode; and lax coercion for union-free types *)
Corollary roundtrip_all_modes (U_ok : forall n v, no_exn (U n v)) md t v :
  admissible t -> has_type t v = true -> exists d, dump UM t v = Some d /\ load U md true t d = Ok v.
Proof.
  intros A H. destruct (roundtrip t v A H) as (d & Hd & Hl). exists d. split; auto.
  destruct (load_is_spec U U_ok md true t d) as [E _]. rewrite Hl in E.
  destruct (load U md true t d); simpl in E; try discriminate. now inversion E.
Qed.
Corollary roundtrip_lax (U_ok : forall n v, no_exn (U n v)) md t v :
  union_free t -> admissible t -> has_type t v = true -> exists d, dump UM t v = Some d /\ load U md false t d = Ok v.
Proof.
  intros UF A H. destruct (roundtrip_all_modes U_ok md t v A H) as (d & Hd & Hl). exists d. split; auto.
  eapply strict_only_narrows_same_value; eauto.
Qed.
End RT.

(* ---------------- the documented outer form of what dumpers return ---------------- *)
Lemma all_some_forall2 (g : pv -> option pv) l : forall rs, all_some g l = Some rs -> Forall2 (fun x y => g x = Some y) l rs.
Proof.
  induction l as [|x r IH]; intros rs H; cbn [all_some] in H.
  - injection H as <-. constructor.
  - destruct (g x) as [a|] eqn:Ex; [|discriminate].
    destruct (all_some g r) as [b|] eqn:Er; [|discriminate]. injection H as <-. constructor; [exact Ex|exact (IH b eq_refl)].
Qed.

Section Forms.
Variable UM : nat -> list nat.

(* every iterable is dumped element-wise, in iteration order, as a tuple - as a list when the type is list *)
Theorem dump_iterable_form k t v r : dump UM (TIter k t) v = Some r ->
  exists l rs, elems_of v = Some l /\ Forall2 (fun x y => dump UM t x = Some y) l rs /\
               r = match k with KList => VList rs | _ => VTuple rs end.
Proof.
  cbn [dump]. destruct (elems_of v) as [l|]; [|discriminate]. destruct (all_some (dump UM t) l) as [rs|] eqn:E; [|discriminate].
  cbn [option_map]. intro H. injection H as <-. exists l, rs. split; [reflexivity|]. split; [exact (all_some_forall2 _ _ _ E)|].
  destruct k; reflexivity.
Qed.

(* a fixed tuple is dumped position-wise, each position by its own type's dumper, as a tuple of the same length *)
Theorem dump_tuple_form ts v r : dump UM (TTuple ts) v = Some r ->
  exists l rs, (v = VTuple l \/ v = VList l) /\ List.length l = List.length ts /\
               Forall2 (fun tx y => dump UM (fst tx) (snd tx) = Some y) (combine ts l) rs /\ r = VTuple rs.
Proof.
  cbn [dump]. intro H.
  assert (G : forall l, (if Nat.eqb (List.length l) (List.length ts)
          then option_map VTuple
                 ((fix go (ts : list ty) (l : list pv) {struct ts} : option (list pv) :=
                     match ts, l with
                     | t1 :: tr, x :: r => match dump UM t1 x, go tr r with Some a, Some b => Some (a :: b) | _, _ => None end
                     | _, _ => Some []
                     end) ts l)
          else None) = Some r ->
          List.length l = List.length ts /\ exists rs, Forall2 (fun tx y => dump UM (fst tx) (snd tx) = Some y) (combine ts l) rs /\ r = VTuple rs).
  { intros l. destruct (Nat.eqb (List.length l) (List.length ts)) eqn:El; [|discriminate]. apply Nat.eqb_eq in El.
    split; [exact El|]. clear El.
    match type of H0 with option_map _ ?g = _ => destruct g as [rs|] eqn:Eg; [|discriminate] end.
    cbn [option_map] in H0. injection H0 as <-. exists rs. split; [|reflexivity]. clear H.
    revert l rs Eg. induction ts as [|t1 tr IH]; intros l rs Eg.
    - injection Eg as <-. constructor.
    - destruct l as [|x r0]; [injection Eg as <-; constructor|].
      destruct (dump UM t1 x) as [a|] eqn:E1; [|discriminate].
      match type of Eg with match ?g with _ => _ end = _ => destruct g as [b|] eqn:E2; [|discriminate] end.
      injection Eg as <-. cbn [combine]. constructor; [exact E1|exact (IH r0 b E2)]. }
  destruct v; try discriminate; destruct (G l H) as [Hl [rs [HF Hr]]]; exists l, rs; auto.
Qed.

(* types that the documentation dumps without conversion *)
Theorem dump_scalar_identity t v : match t with TInt | TFloat | TBool | TStr | TNone | TAny | TLit _ => True | _ => False end ->
  dump UM t v = Some v.
Proof. destruct t; intros []; reflexivity. Qed.

(* Optional: None stays None, anything else goes through the inner type's dumper *)
Theorem dump_optional_form t v : dump UM (TOpt t) v = match v with VNone => Some VNone | _ => dump UM t v end.
Proof. reflexivity. Qed.
End Forms.
