(* C18 - enum_by_name: with pairwise different strings for the members the representation is a bijection (dump then load
   gives the member back; the loader accepts exactly the strings of the table); with a collision it is not (refuted). *)
From Coq Require Import List Arith Bool String.
From AV Require Import Model.Val Model.Enum.
Import ListNotations.
Local Open Scope list_scope.

Lemma assoc_n_in mapping m s : NoDup (map fst mapping) -> In (m, s) mapping -> assoc_n m mapping = Some s.
Proof.
  induction mapping as [|[m' s'] r IH]; intros Hn Hin; [contradiction|]. cbn [assoc_n]. cbn [map fst] in Hn. inversion Hn as [|a b Hni Hn']; subst.
  destruct Hin as [Heq|Hin].
  - injection Heq as -> ->. now rewrite Nat.eqb_refl.
  - destruct (Nat.eqb_spec m m') as [->|Hne]; [|now apply IH].
    exfalso. apply Hni. change m' with (fst (m', s)). now apply in_map.
Qed.

Lemma name_load_sound mapping s m : name_load mapping s = Some m -> In (m, s) mapping.
Proof.
  induction mapping as [|[m' s'] r IH]; cbn [name_load]; [discriminate|]. destruct (name_load r s) as [m0|] eqn:E.
  - intro H. injection H as ->. right. now apply IH.
  - destruct (String.eqb_spec s s') as [->|Hne]; [|discriminate]. intro H. injection H as ->. now left.
Qed.

Lemma name_load_none mapping s : name_load mapping s = None <-> ~ In s (map snd mapping).
Proof.
  induction mapping as [|[m' s'] r IH]; cbn [name_load map snd]; [split; [intros _ []|reflexivity]|].
  destruct (name_load r s) as [m0|] eqn:E.
  - split; [discriminate|]. intro Hni. exfalso. apply Hni. right. apply name_load_sound in E. change s with (snd (m0, s)). now apply in_map.
  - destruct (String.eqb_spec s s') as [->|Hne].
    + split; [discriminate|]. intro Hni. exfalso. apply Hni. now left.
    + split; [|reflexivity]. intros _ [Heq|Hin]; [now apply Hne|]. now apply (proj1 IH eq_refl).
Qed.

Theorem by_name_roundtrip : forall mapping, NoDup (map fst mapping) -> NoDup (map snd mapping) ->
  forall m s, In (m, s) mapping -> name_dump mapping m = Some s /\ name_load mapping s = Some m.
Proof.
  intros mapping Hm Hs m s Hin. split; [now apply assoc_n_in|].
  destruct (name_load mapping s) as [m0|] eqn:E.
  - f_equal. apply name_load_sound in E.
    (* two entries with the same string are the same entry *)
    clear Hm. induction mapping as [|[m' s'] r IH]; [contradiction|]. cbn [map snd] in Hs. inversion Hs as [|a b Hni Hs']; subst.
    destruct Hin as [Heq|Hin], E as [Heq'|E'].
    + injection Heq as -> _. now injection Heq' as ->.
    + injection Heq as -> ->. exfalso. apply Hni. change s with (snd (m0, s)). now apply in_map.
    + injection Heq' as -> ->. exfalso. apply Hni. change s with (snd (m, s)). now apply in_map.
    + now apply IH.
  - exfalso. apply (proj1 (name_load_none mapping s) E). change s with (snd (m, s)). now apply in_map.
Qed.

(* the loader accepts exactly the strings of the table, and what it returns is the member carrying that string *)
Theorem by_name_accepts_iff : forall mapping s, (exists m, name_load mapping s = Some m) <-> In s (map snd mapping).
Proof.
  intros mapping s. split.
  - intros [m H]. apply name_load_sound in H. change s with (snd (m, s)). now apply in_map.
  - intro Hin. destruct (name_load mapping s) as [m|] eqn:E; [eauto|]. exfalso. exact (proj1 (name_load_none mapping s) E Hin).
Qed.

(* the generated table lists every member once, in definition order *)
Lemma name_mapping_members style by_member by_name : forall names i mapping,
  name_mapping_from style by_member by_name i names = Some mapping -> map fst mapping = seq i (List.length names).
Proof.
  induction names as [|n r IH]; intros i mapping H; cbn [name_mapping_from] in H.
  - injection H as <-. reflexivity.
  - destruct (mapped_name style by_member by_name i n); [|discriminate].
    destruct (name_mapping_from style by_member by_name (S i) r) as [t|] eqn:E; [|discriminate].
    injection H as <-. cbn [map fst List.length seq]. f_equal. now apply IH.
Qed.

Theorem generated_by_name_is_bijection : forall style by_member by_name names mapping,
  name_mapping_from style by_member by_name 0 names = Some mapping -> NoDup (map snd mapping) ->
  forall m s, In (m, s) mapping -> name_dump mapping m = Some s /\ name_load mapping s = Some m.
Proof.
  intros style by_member by_name names mapping H Hs. apply by_name_roundtrip; [|exact Hs].
  rewrite (name_mapping_members _ _ _ _ _ _ H). apply seq_NoDup.
Qed.

(* a map that gives two members one string is not a bijection: the earlier member is loaded back as the later one *)
Theorem by_name_collision_refuted : exists mapping m s, In (m, s) mapping /\ name_dump mapping m = Some s /\ name_load mapping s <> Some m.
Proof. exists [(0, "x"%string); (1, "x"%string)], 0, "x"%string. vm_compute. repeat split; [now left|discriminate]. Qed.

(* non-vacuity: map by member beats map by name beats the style *)
Example by_name_example :
  name_mapping_from (fun n => Some (n ++ "!")%string) [(0, "zero")]%string [("B", "bee"); ("A", "never")]%string 0 ["A"; "B"; "C"]%string
  = Some [(0, "zero"); (1, "bee"); (2, "C!")]%string.
Proof. vm_compute. reflexivity. Qed.
