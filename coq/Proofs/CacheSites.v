(* The reviewed table of mediator.cached_call sites (C11). One row per site: the factory being cached and, for every
   key argument, how two ==-equal keys relate to the meaning of the cached closure:
   I = closures / classes / functions, compared by identity;  B = bool, enum member, str, bytes: == implies identical;
   T = (type, value) pairs;  H = type hints / normal forms (Literal members compared type-aware);
   S = structural dataclasses (shape, name layout) over classes, strings and hints;  R = used for error text only;
   A = deliberately always-equal wrapper.  Generated/CachedCallSites.v is regenerated from /repo on every run and must
   equal the projection of this table: a new or changed site stops the build until it has been reviewed here. *)
From Coq Require Import List String.
Import ListNotations.
Local Open Scope string_scope.

Definition audited_sites : list (string * list (string * string)) :=
  [
   ("morphing/concrete_provider.py:BytearrayBase64Provider.provide_loader->self._make_loader", [("loader", "I")]);
   ("morphing/concrete_provider.py:BytesBase64Provider.provide_loader->self._make_loader", []);
   ("morphing/concrete_provider.py:BytesIOBase64Provider.provide_dumper->self._make_dumper", []);
   ("morphing/concrete_provider.py:BytesIOBase64Provider.provide_loader->self._make_loader", [("loader", "I")]);
   ("morphing/concrete_provider.py:DateTimestampProvider.provide_dumper->self._make_dumper", []);
   ("morphing/concrete_provider.py:DateTimestampProvider.provide_loader->self._make_loader", []);
   ("morphing/concrete_provider.py:DatetimeFormatProvider.provide_dumper->self._make_dumper", []);
   ("morphing/concrete_provider.py:DatetimeFormatProvider.provide_loader->self._make_loader", []);
   ("morphing/concrete_provider.py:DatetimeTimestampProvider.provide_dumper->self._make_dumper", []);
   ("morphing/concrete_provider.py:DatetimeTimestampProvider.provide_loader->self._make_loader", []);
   ("morphing/concrete_provider.py:IOBytesBase64Provider.provide_dumper->self._make_dumper", []);
   ("morphing/concrete_provider.py:IsoFormatProvider.provide_dumper->self._make_dumper", []);
   ("morphing/concrete_provider.py:IsoFormatProvider.provide_loader->self._make_loader", []);
   ("morphing/concrete_provider.py:RegexPatternProvider.provide_loader->self._make_loader", []);
   ("morphing/concrete_provider.py:ScalarProvider.provide_loader->self._make_loader", [("strict_coercion", "B")]);
   ("morphing/concrete_provider.py:SecondsTimedeltaProvider.provide_dumper->self._make_dumper", []);
   ("morphing/concrete_provider.py:SecondsTimedeltaProvider.provide_loader->self._make_loader", []);
   ("morphing/concrete_provider.py:_Base64DumperMixin.provide_dumper->self._make_dumper", []);
   ("morphing/constant_length_tuple_provider.py:ConstantLengthTupleProvider.provide_dumper->self._make_dumper", [("dumpers", "I"); ("debug_trail", "B")]);
   ("morphing/constant_length_tuple_provider.py:ConstantLengthTupleProvider.provide_loader->self._make_loader", [("loaders", "I"); ("strict_coercion", "B"); ("debug_trail", "B")]);
   ("morphing/dict_provider.py:DefaultDictProvider.provide_loader->self._make_loader", [("loader", "I")]);
   ("morphing/dict_provider.py:DictProvider.provide_dumper->self._make_dumper", [("key_dumper", "I"); ("value_dumper", "I"); ("debug_trail", "B")]);
   ("morphing/dict_provider.py:DictProvider.provide_loader->self._make_loader", [("key_loader", "I"); ("value_loader", "I"); ("debug_trail", "B")]);
   ("morphing/enum_provider.py:EnumExactValueProvider.provide_dumper->self._make_dumper", [("enum", "I")]);
   ("morphing/enum_provider.py:EnumExactValueProvider.provide_loader->self._make_loader", [("enum", "I")]);
   ("morphing/enum_provider.py:EnumNameProvider.provide_dumper->self._make_dumper", [("enum", "I")]);
   ("morphing/enum_provider.py:EnumNameProvider.provide_loader->self._make_loader", [("enum", "I")]);
   ("morphing/enum_provider.py:EnumValueProvider.provide_dumper->self._make_dumper", [("value_dumper", "I")]);
   ("morphing/enum_provider.py:EnumValueProvider.provide_loader->self._make_loader", [("enum", "I"); ("value_loader", "I")]);
   ("morphing/enum_provider.py:FlagByExactValueProvider.provide_loader->self._make_loader", [("enum", "I")]);
   ("morphing/enum_provider.py:FlagByListProvider.provide_dumper->self._make_dumper", [("enum", "I")]);
   ("morphing/enum_provider.py:FlagByListProvider.provide_loader->self._make_loader", [("enum", "I"); ("strict_coercion", "B")]);
   ("morphing/generic_provider.py:LiteralProvider.provide_dumper->self._make_dumper", [("enum_dumpers_wrapper", "I"); ("bytes_dumper", "I")]);
   ("morphing/generic_provider.py:LiteralProvider.provide_loader->self._make_loader", [("cases", "T"); ("bytes_cases", "B"); ("strict_coercion", "B"); ("enum_loaders", "I"); ("bytes_loader", "I"); ("allowed_values_repr", "R")]);
   ("morphing/generic_provider.py:UnionProvider.provide_dumper->self._get_single_optional_dumper", [("not_none_dumper", "I")]);
   ("morphing/generic_provider.py:UnionProvider.provide_dumper->self._make_dumper", [("norm", "H"); ("tuple(dumpers)", "I")]);
   ("morphing/generic_provider.py:UnionProvider.provide_loader->self._get_loader_dt_all", [("norm.source", "H"); ("tuple(loaders)", "I")]);
   ("morphing/generic_provider.py:UnionProvider.provide_loader->self._get_loader_dt_disable", [("tuple(loaders)", "I")]);
   ("morphing/generic_provider.py:UnionProvider.provide_loader->self._get_loader_dt_first", [("norm.source", "H"); ("tuple(loaders)", "I")]);
   ("morphing/generic_provider.py:UnionProvider.provide_loader->self._single_optional_dt_disable_loader", [("not_none_loader", "I")]);
   ("morphing/generic_provider.py:UnionProvider.provide_loader->self._single_optional_dt_loader", [("norm.source", "H"); ("not_none_loader", "I")]);
   ("morphing/iterable_provider.py:IterableProvider.provide_dumper->self._make_dumper", [("origin", "I"); ("iter_factory", "I"); ("arg_dumper", "I"); ("debug_trail", "B")]);
   ("morphing/iterable_provider.py:IterableProvider.provide_loader->self._make_loader", [("origin", "I"); ("iter_factory", "I"); ("arg_loader", "I"); ("strict_coercion", "B"); ("debug_trail", "B")]);
   ("morphing/model/dumper_provider.py:ModelDumperProvider.provide_dumper->self._make_dumper", [("shape", "S"); ("name_layout", "S"); ("fields_dumpers", "I"); ("debug_trail", "B"); ("code_gen_hook", "A"); ("model_identity", "B"); ("closure_name", "B"); ("file_name", "B")]);
   ("morphing/model/loader_provider.py:ModelLoaderProvider.provide_loader->self._make_loader", [("shape", "S"); ("name_layout", "S"); ("field_loaders", "I"); ("strict_coercion", "B"); ("debug_trail", "B"); ("code_gen_hook", "A"); ("model_identity", "B"); ("closure_name", "B"); ("file_name", "B")]);
   ("provider/shape_provider.py:ShapeProvider._provide_input_shape->self._get_shape", [("request.last_loc.type", "H")]);
   ("provider/shape_provider.py:ShapeProvider._provide_output_shape->self._get_shape", [("request.last_loc.type", "H")])
  ].

From AV Require Import Generated.CachedCallSites.

Theorem all_sites_audited :
  map (fun s => (fst s, map fst (snd s))) audited_sites = cached_call_sites.
Proof. vm_compute. reflexivity. Qed.

Definition sound_class (c : string) : bool :=
  existsb (String.eqb c) ["I"; "B"; "T"; "H"; "S"; "R"; "A"].
Theorem every_key_argument_classified :
  forallb (fun s => forallb (fun a => sound_class (snd a)) (snd s)) audited_sites = true.
Proof. vm_compute. reflexivity. Qed.

(* The cache itself: BuiltinMediator.cached_call as translated from /repo is the reviewed text that Model/Cache.v's
   [cached_call] models - the key is the whole (func, args, kwargs) tuple compared by ==, a hit returns the stored result,
   a miss computes, stores under that same key and returns. *)
Definition reviewed_cached_call : list string :=
  ["key = (func, *args, *kwargs.items())";
   "if key in self._call_cache: ; return self._call_cache[key]";
   "result = func(*args, **kwargs)";
   "self._call_cache[key] = result";
   "return result"].
Theorem cache_is_the_modelled_one : cached_call_impl = reviewed_cached_call.
Proof. vm_compute. reflexivity. Qed.

(* Clones.  replace() / extend() copy the retort object, change the copy, and then _calculate_derived() runs on the copy:
   every cache (loader cache, dumper cache, call cache) is a NEW empty dict, the routers are rebuilt from the copy's recipe.
   The original is never written to.  So a clone starts in Cache.init, and C11_history_independent applies to it whatever
   the original has been asked before. *)
Definition reviewed_clone_code : list (string * list string) :=
  [("Cloneable._clone", ["self_copy = copy(self)"; "try: yield self_copy finally: self_copy._calculate_derived()"]); ("AdornedRetort._calculate_derived", ["super()._calculate_derived()"; "self._loader_cache = {}"; "self._dumper_cache = {}"]); ("AdornedRetort.replace", ["with self._clone() as clone: if strict_coercion is not None: clone._strict_coercion = strict_coercion if debug_trail is not None: clone._debug_trail = debug_trail if hide_traceback is not None: clone._hide_traceback = hide_traceback"; "return clone"]); ("AdornedRetort.extend", ["with self._clone() as clone: clone._instance_recipe = tuple(recipe) + clone._instance_recipe"; "return clone"]); ("SearchingRetort._calculate_derived", ["super()._calculate_derived()"; "self._request_cls_to_router = self._create_request_cls_to_router(self._full_recipe)"; "self._request_cls_to_error_representor = {request_cls: self._create_error_representor(request_cls) for request_cls in self._request_cls_to_router}"; "self._call_cache: dict[Any, Any] = {}"])].
Theorem clone_code_is_the_reviewed_one : clone_code = reviewed_clone_code.
Proof. vm_compute. reflexivity. Qed.
