"""./check Cxx [--tier quick|thorough] [--replay path]"""
import argparse
import importlib
import json
import os
import sys
import traceback

import lib


def main():
    ap = argparse.ArgumentParser()
    ap.add_argument("pid")
    ap.add_argument("--tier", default=os.environ.get("VERIF_TIER", "quick"), choices=["quick", "thorough"])
    ap.add_argument("--replay")
    a = ap.parse_args()
    seed = int(os.environ.get("VERIF_SEED", "0") or 0)
    pid = a.pid.upper()
    rep = lib.Report(pid, a.tier, seed)
    with lib.Lock():
        try:
            mod = importlib.import_module(f"props.{pid.lower()}")
            if a.replay:
                body = json.loads(open(a.replay).read())
                mod.replay(rep, body)
                sys.exit(rep.exit_code())
            mod.run(rep, a.tier, seed)
        except SystemExit:
            raise
        except BaseException as e:  # noqa: BLE001
            # the correspondence could not even be run against this tree: the property is no longer shown to hold
            tb = traceback.format_exc()
            print(tb, file=sys.stderr)
            rep.violation("harness-crash:" + type(e).__name__, "correspondence-broken",
                          {"what": "the correspondence harness could not run against the current tree", "traceback": tb},
                          no_input=True)
        rep.write_evidence(getattr(mod, "LEVEL", "proof") if "mod" in dir() else "proof")
    print(f"{pid}: {rep.cov.get('discharged')}/{rep.cov.get('obligations')} theorems, "
          f"{rep.cov.get('evaluations')} evaluations, {len(rep.violations)} violation(s), "
          f"{len(rep.known_hit)} known finding(s), {rep.cov.get('build_s')}s build")
    sys.exit(rep.exit_code())


main()
