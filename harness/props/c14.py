"""C14 - implicit coercion is type-sound; unlinkable or uncoercible fields are refused.
Model: coq/Model/Coerce.v, theorems: coq/Props/C14.v.

Exhaustive over ordered pairs of field types from a pool drawn in the model's vocabulary (scalars with a subclass
relation, generics with different arguments, unions, optionals, nestings): get_converter(Src{x: S}, Dst{x: D}) must
succeed exactly when the model's `coercible` says so; for every success generated source values are converted and the
result is checked against D with the harness's own run-time type checker (direct oracle: no value of the wrong static
type reaches the destination).  Plus the link policies for unlinked fields.
"""
import itertools
import random
from dataclasses import dataclass, field, make_dataclass
from typing import Any, Dict, List, Optional, Sequence, Union

import lib
from lib import CoqEval, coq_list

PID = "C14"


class A:
    def __init__(self, tag="a"):
        self.tag = tag


class B(A):
    pass


class IntList(List[int]):
    """a plain (non-generic) class that subclasses a parametrised generic"""


CLASSES = {0: int, 1: str, 2: bool, 3: float, 4: A, 5: B, 6: IntList, 7: bytes}
SUBC = {(a, b) for a in CLASSES for b in CLASSES if issubclass(CLASSES[a], CLASSES[b])}   # interpreter fact


def pool():
    cls = lambda c: ("TCls", c)  # noqa: E731
    lst = lambda t: ("TList", t)  # noqa: E731
    p = [("TAny",), ("TNone",), cls(0), cls(1), cls(2), cls(3), cls(4), cls(5),
         lst(cls(0)), lst(cls(1)), lst(cls(2)), lst(("TAny",)), lst(lst(cls(0))), lst(cls(5)), lst(cls(4)),
         ("TDict", cls(1), cls(0)), ("TDict", cls(1), cls(1)), ("TDict", cls(1), lst(cls(0))),
         ("TOpt", cls(0)), ("TOpt", cls(1)), ("TOpt", lst(cls(0))), ("TOpt", lst(cls(1))), ("TOpt", cls(4)), ("TOpt", cls(5)),
         ("TUnion", [cls(0), cls(1)]), ("TUnion", [cls(0), cls(1), ("TNone",)]), ("TUnion", [cls(2), cls(1)]),
         ("TUnion", [cls(4), cls(0)]), ("TUnion", [lst(cls(0)), cls(1)]), ("TUnion", [cls(0), cls(3), ("TNone",)]),
         ("TUnion", [cls(1), cls(0)]), lst(("TOpt", cls(0))), lst(("TUnion", [cls(0), cls(1)])),
         cls(6), cls(7), ("TList", cls(0), "Sequence"), ("TList", cls(1), "Iterable"), ("TList", cls(1), "Sequence")]
    return p


def coq_ty(t):
    k = t[0]
    if k in ("TAny", "TNone"):
        return k
    if k == "TCls":
        return f"(TCls {t[1]})"
    if k == "TList":
        kind = {"Sequence": 1, "Iterable": 2}.get(t[2], 0) if len(t) > 2 else 0
        return f"(TList {kind} {coq_ty(t[1])})"
    if k == "TOpt":
        return f"(TOpt {coq_ty(t[1])})"
    if k == "TDict":
        return f"(TDict {coq_ty(t[1])} {coq_ty(t[2])})"
    return f"(TUnion {coq_list([coq_ty(x) for x in union_order(t[1])])})"


def okey(t):
    return {"TAny": "typing.Any", "TNone": "None"}.get(t[0]) or (str(CLASSES[t[1]]) if t[0] == "TCls" else
                                                               {"TList": str(list) if len(t) < 3 else "<class 'collections.abc." + t[2] + "'>", "TDict": str(dict)}.get(t[0], "u"))


def union_order(ts):
    return sorted(ts, key=okey)


def py_ty(t, r=None):
    k = t[0]
    if k == "TAny":
        return Any
    if k == "TNone":
        return None
    if k == "TCls":
        return CLASSES[t[1]]
    if k == "TList":
        if len(t) > 2:
            import typing
            return getattr(typing, t[2])[py_ty(t[1], r)]
        return List[py_ty(t[1], r)]
    if k == "TDict":
        return Dict[py_ty(t[1], r), py_ty(t[2], r)]
    if k == "TOpt":
        return Optional[py_ty(t[1], r)]
    return Union[tuple(py_ty(x, r) for x in t[1])]


def gen_value(t, r, d=3):
    """a value OF type t"""
    k = t[0]
    if k == "TAny":
        return r.choice([1, "s", None, [1], A()])
    if k == "TNone":
        return None
    if k == "TCls":
        c = t[1]
        subs = [a for (a, b) in SUBC if b == c]
        pick = r.choice(subs)
        return {0: lambda: r.choice([0, 5]), 1: lambda: "v", 2: lambda: r.random() < 0.5, 3: lambda: 1.5, 4: lambda: A(), 5: lambda: B(),
                6: lambda: IntList([1, 2]), 7: lambda: b"xy"}[pick]()
    if k == "TList":
        return [gen_value(t[1], r, d - 1) for _ in range(r.randint(0, 3))]
    if k == "TDict":
        return {"k%d" % i: gen_value(t[2], r, d - 1) for i in range(r.randint(0, 2))}
    if k == "TOpt":
        return None if r.random() < 0.3 else gen_value(t[1], r, d - 1)
    return gen_value(r.choice(t[1]), r, d - 1)


def has_type(t, v):
    """the harness's own run-time type checker (static meaning of the hints, subclasses allowed)"""
    k = t[0]
    if k == "TAny":
        return True
    if k == "TNone":
        return v is None
    if k == "TCls":
        return isinstance(v, CLASSES[t[1]])
    if k == "TList":
        return isinstance(v, (list, tuple)) and all(has_type(t[1], x) for x in v)
    if k == "TDict":
        return isinstance(v, dict) and all(has_type(t[1], a) and has_type(t[2], b) for a, b in v.items())
    if k == "TOpt":
        return v is None or has_type(t[1], v)
    return any(has_type(x, v) for x in t[1])


def special_forms_block(rep):
    """destinations that are parametrised but whose origin adaptix does not list among its generics (tuple[...], type[...],
    Callable[...], ad-hoc subscriptable stdlib classes) against plain source classes that are runtime subclasses of the
    origin: by the property a value passes unchanged only when the source EQUALS the destination type, is a non-generic
    subclass of a non-parametrised destination, or the destination is Any.  Every pair below differs in its arguments, so
    creating the converter must fail - at top level of a field and inside list / dict / Optional."""
    import collections.abc
    import typing
    from typing import Callable, Dict, List, NamedTuple, Optional, Tuple, Type

    from adaptix import ProviderNotFoundError
    import adaptix.conversion as conv

    class Point(NamedTuple):
        a: int
        b: int

    class Pair(tuple):
        pass

    class Meta(type):
        pass

    class Fn:
        def __call__(self, x):
            return x

    refuse = [
        ("NamedTuple->tuple[str,str]", Point, Tuple[str, str]), ("NamedTuple->tuple[str,str](builtin)", Point, tuple[str, str]),
        ("tuple-subclass->tuple[str,str]", Pair, Tuple[str, str]), ("tuple->tuple[str,str]", tuple, Tuple[str, str]),
        ("tuple[int,int]->tuple[str,str]", Tuple[int, int], Tuple[str, str]),
        ("tuple-subclass->tuple[str,...]", Pair, Tuple[str, ...]),
        ("type->type[int]", type, Type[int]), ("metaclass->type[int]", Meta, Type[int]), ("type[str]->type[int]", Type[str], Type[int]),
        ("callable-class->Callable[[int],str]", Fn, Callable[[int], str]),
        ("Callable[[str],str]->Callable[[int],int]", Callable[[str], str], Callable[[int], int]),
        ("list-subclass->list[str]", IntList, List[str]),
        ("KeysView[int]->KeysView[str]", typing.KeysView[int], typing.KeysView[str]),
        ("Awaitable[int]->Awaitable[str]", typing.Awaitable[int], typing.Awaitable[str]),
        ("tuple-subclass->tuple[()]", Pair, Tuple[()]), ("tuple->tuple[()]", tuple, Tuple[()]), ("tuple[int]->tuple[()]", Tuple[int], Tuple[()]),
    ]
    # PEP 695 aliases (Python 3.12 syntax, compiled here so that this file still parses elsewhere)
    try:
        ns = {}
        exec("type Box[T] = list[T]\ntype Pairs[K, V] = dict[K, V]", ns)  # noqa: S102
        Box, Pairs = ns["Box"], ns["Pairs"]
        refuse += [("alias Box[int]->Box[str]", Box[int], Box[str]), ("alias Pairs[str,int]->Pairs[str,str]", Pairs[str, int], Pairs[str, str]),
                   ("alias Box[int]->list[str]", Box[int], List[str])]
        accept = [("alias Box[int]->Box[int]", Box[int], Box[int]), ("tuple[()]->tuple[()]", Tuple[()], Tuple[()])]
    except SyntaxError:
        accept = [("tuple[()]->tuple[()]", Tuple[()], Tuple[()])]
    for label, src, dst in accept:
        Src = make_dataclass("Src", [("x", src)])
        Dst = make_dataclass("Dst", [("x", dst)])
        try:
            conv.ConversionRetort().get_converter(Src, Dst)
        except Exception as e:  # noqa: BLE001
            rep.violation(f"special-form:{label}:{type(e).__name__}", "property-violated",
                          {"what": f"get_converter for a field {src} -> {dst} of EQUAL types raises {type(e).__name__}: {str(e)[:100]}",
                           "src": str(src), "dst": str(dst)})
    wrappers = [("field", lambda t: t), ("list", lambda t: List[t]), ("dict-value", lambda t: Dict[str, t]), ("optional", lambda t: Optional[t])]
    n = 0
    for label, src, dst in refuse:
        for wname, wrap in wrappers:
            Src = make_dataclass("Src", [("x", wrap(src))])
            Dst = make_dataclass("Dst", [("x", wrap(dst))])
            n += 1
            try:
                conv.ConversionRetort().get_converter(Src, Dst)
                made = "created"
            except ProviderNotFoundError:
                continue
            except Exception as e:  # noqa: BLE001
                made = f"raises {type(e).__name__}: {str(e)[:80]}"
            rep.violation(f"special-form:{label}:{made.split(':')[0]}", "property-violated",
                          {"what": f"get_converter for a field {wrap(src)} -> {wrap(dst)} ({wname}): {made}; the pair is outside the "
                                   "implicit coercions (the destination's arguments differ from the source's), so ProviderNotFoundError "
                                   "is required", "src": str(wrap(src)), "dst": str(wrap(dst))})
            break
    return n


def run(rep, tier, seed):
    from adaptix import ProviderNotFoundError
    from adaptix.conversion import allow_unlinked_optional, forbid_unlinked_optional, get_converter
    import adaptix.conversion as conv
    proof = lib.proof_stage(rep, PID, extra_trusted=[
        "issubclass on the six pool classes is an interpreter fact shipped as a table"])
    r = random.Random(seed)
    P = pool()
    pairs = list(itertools.product(P, P))
    cases, outcomes = [], []
    unsound = 0
    for s, d in pairs:
        Src = make_dataclass("Src", [("x", py_ty(s))])
        Dst = make_dataclass("Dst", [("x", py_ty(d))])
        try:
            c = conv.ConversionRetort().get_converter(Src, Dst)
            ok = True
        except ProviderNotFoundError:
            ok = False
            c = None
        outcomes.append("1" if ok else "0")
        cases.append((f"({coq_ty(s)}, {coq_ty(d)})", "1" if ok else "0"))
        if ok:
            for _ in range(6):
                v = gen_value(s, r)
                try:
                    out = c(Src(v)).x
                except Exception as e:  # noqa: BLE001
                    rep.violation(f"convert-raises:{s[0]}->{d[0]}", "property-violated",
                                  {"what": f"converter raises {type(e).__name__} on a value of the source type", "src": s, "dst": d,
                                   "value": repr(v)})
                    break
                if not has_type(d, out):
                    unsound += 1
                    rep.violation(f"unsound:{s[0]}->{d[0]}", "property-violated",
                                  {"what": f"a value of type {py_ty(s)} is placed into a field of type {py_ty(d)}: {out!r}",
                                   "src": s, "dst": d, "value": repr(v), "result": repr(out)})
                    break
    subc = "fun a b => existsb (fun p => Nat.eqb (fst p) a && Nat.eqb (snd p) b) " + \
           coq_list([f"({a}, {b})" for a, b in sorted(SUBC)])
    header = ("From AV Require Import Model.Coerce.\nFrom Coq Require Import Arith Bool.\n"
              f"Definition SUBC : nat -> nat -> bool := {subc}.\n"
              "Definition run (c : ty * ty) : string := match coercible SUBC false (fst c) (snd c) with Some _ => \"1\" | None => \"0\" end.\n")
    ce = CoqEval(PID, header, "run", shard=400)
    bad = ce.compare(cases)
    for k, err in ce.errors:
        rep.violation("coq-eval-failed", "correspondence-diff", {"shard": k, "coq_error": err}, no_input=True)
    seen = set()
    for idx, got in bad:
        s, d = pairs[idx]
        sig = f"coercible-diff:{s[0]}->{d[0]}:{outcomes[idx]}vs{got}"
        if sig in seen:
            continue
        seen.add(sig)
        rep.violation(sig, "correspondence-diff" if outcomes[idx] == "0" else "property-violated",
                      {"what": ("the library produces a converter for a pair outside the documented implicit coercions"
                                if outcomes[idx] == "1" else "the library refuses a documented implicit coercion"),
                       "src": s, "dst": d, "src_hint": str(py_ty(s)), "dst_hint": str(py_ty(d)), "library": outcomes[idx], "model": got})
    nspecial = special_forms_block(rep)
    # ---- unlinked fields
    npol = 0
    @dataclass
    class S1:
        a: int

    @dataclass
    class DReq:
        a: int
        b: int

    @dataclass
    class DOptF:
        a: int
        b: int = 7

    @dataclass
    class DOptMid:
        a: int = 1
        b: int = 2
        c: int = 3

    @dataclass
    class S2:
        a: int
        c: int
    expectations = [
        ("required-unlinked", S1, DReq, [], False),
        ("optional-unlinked-default-policy", S1, DOptF, [], False),
        ("optional-unlinked-allowed", S1, DOptF, [allow_unlinked_optional(conv.P.b if hasattr(conv, "P") else "b")], True),
        ("optional-unlinked-allowed-then-forbidden", S1, DOptF, [forbid_unlinked_optional("b"), allow_unlinked_optional("b")], False),
        ("optional-unlinked-forbidden-then-allowed", S1, DOptF, [allow_unlinked_optional("b"), forbid_unlinked_optional("b")], True),
        ("optional-middle-allowed", S2, DOptMid, [allow_unlinked_optional("b")], True),
    ]
    for name, S, D, recipe, want in expectations:
        npol += 1
        try:
            c = conv.ConversionRetort(recipe=recipe).get_converter(S, D)
            got = True
        except ProviderNotFoundError:
            got = False
        if got != want:
            rep.violation(f"policy:{name}", "property-violated",
                          {"what": f"unlinked field policy '{name}': converter creation {'succeeded' if got else 'failed'}, expected "
                                   f"{'success' if want else 'ProviderNotFoundError'}"})
        elif got and name == "optional-middle-allowed":
            out = c(S2(10, 30))
            if (out.a, out.b, out.c) != (10, 2, 30):
                rep.violation("policy:skipped-optional-shifts-arguments", "property-violated",
                              {"what": f"skipping an unlinked optional field misplaces later fields: {out!r}"})
    # every subset of 1-3 unlinked optional fields allowed one by one: the converter exists iff ALL of them are allowed
    import itertools as _it
    from typing import List as _List

    from adaptix import P as _P
    for k in (1, 2, 3):
        names = ["first", "second", "third"][:k]
        for order in _it.permutations(names):
            DK = make_dataclass("DK", [("a", int)] + [(nm, int, field(default=50 + i)) for i, nm in enumerate(order)])
            for mask in range(2 ** k):
                allowed = [nm for i, nm in enumerate(names) if mask >> i & 1]
                for spelling in ("name", "pattern", "nested"):
                    recipe = [allow_unlinked_optional(nm if spelling != "pattern" else getattr(_P[DK], nm)) for nm in allowed]
                    want = len(allowed) == k
                    npol += 1
                    try:
                        if spelling == "nested":
                            c = conv.ConversionRetort(recipe=recipe).get_converter(_List[S1], _List[DK])
                        else:
                            c = conv.ConversionRetort(recipe=recipe).get_converter(S1, DK)
                        got = True
                    except ProviderNotFoundError:
                        got = False
                    if got != want:
                        rep.violation(f"policy:subset:{k}:{'created' if got else 'refused'}", "property-violated",
                                      {"what": f"destination fields {list(order)} (all optional, none linked), allow_unlinked_optional for "
                                               f"{allowed} ({spelling}): converter creation {'succeeded' if got else 'failed'}, expected "
                                               f"{'success' if want else 'ProviderNotFoundError'}"})
                    elif got:
                        out = c([S1(4)])[0] if spelling == "nested" else c(S1(4))
                        exp = DK(4)
                        if out != exp:
                            rep.violation("policy:subset:value", "property-violated",
                                          {"what": f"all unlinked optional fields allowed, result {out!r} differs from {exp!r}"})
    # ---- a customised converter must not leak into later plain requests on the same retort
    from adaptix.conversion import coercer
    shared = conv.ConversionRetort()
    nhist = 0
    for s_, d_, f in [(("TCls", 0), ("TCls", 1), str), (("TCls", 1), ("TCls", 0), int), (("TList", ("TCls", 0)), ("TList", ("TCls", 1)), None)]:
        Src = make_dataclass("Src", [("x", py_ty(s_))])
        Dst = make_dataclass("Dst", [("x", py_ty(d_))])
        rec = [coercer(py_ty(s_), py_ty(d_), f or (lambda v: [str(i) for i in v]))]
        for order in ("custom-then-plain", "plain-then-custom-then-plain"):
            nhist += 1
            shared2 = conv.ConversionRetort()
            seq = []
            try:
                if order.startswith("plain"):
                    try:
                        shared2.get_converter(Src, Dst)
                        seq.append("plain:ok")
                    except ProviderNotFoundError:
                        seq.append("plain:refused")
                shared2.get_converter(Src, Dst, recipe=rec)
                seq.append("custom:ok")
                try:
                    shared2.get_converter(Src, Dst)
                    seq.append("plain:ok")
                except ProviderNotFoundError:
                    seq.append("plain:refused")
            except Exception as e:  # noqa: BLE001
                seq.append(type(e).__name__)
            if "plain:ok" in seq:
                rep.violation(f"history:{order}", "property-violated",
                              {"what": "a converter for an uncoercible pair is handed out after the same retort produced one with a "
                                       "user coercer in a per-call recipe", "src": s_, "dst": d_, "sequence": seq})
    Srcu = make_dataclass("Srcu", [("a", int)])
    Dstu = make_dataclass("Dstu", [("a", int), ("b", int, field(default=3))])
    shared3 = conv.ConversionRetort()
    shared3.get_converter(Srcu, Dstu, recipe=[allow_unlinked_optional("b")])
    nhist += 1
    try:
        shared3.get_converter(Srcu, Dstu)
        rep.violation("history:unlinked-optional", "property-violated",
                      {"what": "an unlinked optional field is accepted under the default policy after the same retort was asked with "
                               "allow_unlinked_optional in a per-call recipe"})
    except ProviderNotFoundError:
        pass
    rep.cov.update({
        "evaluations": len(pairs) + npol + nhist + nspecial, "exhaustive": True,
        "distinct_nontrivial": sum(1 for s, d in pairs if s != d and (s[0] not in ("TCls", "TAny", "TNone") or d[0] not in ("TCls", "TAny", "TNone"))),
        "rule": f"all {len(pairs)} ordered pairs over a pool of {len(P)} field types (6 classes with bool<int and B<A, Any, None, "
                "lists / dicts with different arguments, optionals, unions incl. unions with None, nestings); converter creation "
                "compared with the model's coercible; every produced converter run on 6 generated source values and the result "
                "type-checked against the destination hint; 6 unlinked-field policy scenarios; non-trivial = a compound type on "
                "either side",
        "samples": [{"src": str(py_ty(pairs[i][0])), "dst": str(py_ty(pairs[i][1])), "converter_created": outcomes[i]} for i in (40, 300, 700)],
        "distribution": {"pairs": len(pairs), "converters_created": outcomes.count("1"), "model_vs_library_mismatches": len(bad),
                         "unsound_results": unsound},
    })
    import loadgen as lg
    lg.proof_problems(rep, PID, proof)


def replay(rep, body):
    import adaptix.conversion as conv
    from adaptix import ProviderNotFoundError
    if "src" not in body:
        print("recorded:", body.get("what"))
        rep.violation(body["signature"], body["kind"], body, no_input=body.get("no_failing_input_found", False))
        return

    def fix(x):
        if isinstance(x, list):
            return tuple(fix(y) for y in x) if x and isinstance(x[0], str) and x[0].startswith("T") else [fix(y) for y in x]
        return x
    s, d = fix(body["src"]), fix(body["dst"])
    Src = make_dataclass("Src", [("x", py_ty(s))])
    Dst = make_dataclass("Dst", [("x", py_ty(d))])
    try:
        c = conv.ConversionRetort().get_converter(Src, Dst)
        print("converter created for", py_ty(s), "->", py_ty(d))
        r = random.Random(0)
        for _ in range(20):
            v = gen_value(s, r)
            out = c(Src(v)).x
            if not has_type(d, out):
                print("unsound:", repr(v), "->", repr(out))
                rep.violation(body["signature"], body["kind"], body)
                return
        if body.get("model") == "0":
            rep.violation(body["signature"], body["kind"], body)
    except ProviderNotFoundError:
        print("refused:", py_ty(s), "->", py_ty(d))
        if body.get("model") == "1":
            rep.violation(body["signature"], body["kind"], body)
