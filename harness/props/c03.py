"""C03 - generated model loaders / dumpers honour the configured outer layout exactly.
Model: coq/Model/NameStyle.v, Layout.v, CrownSem.v (+ CrownShow.v), theorems: coq/Props/C03.v.

Per program (model shape x stack of name_mapping providers x debug_trail): the library builds loader and dumper; the
model computes the layout (overlay merge, generated keys, map / ellipsis / None, skip / only, as_list, validation), builds
the crown and interprets it.  Inputs per program follow the quantifier: every mapped key present / absent / ill-typed,
every container node of the right / a wrong kind, extra keys present / absent at every mapping node.  On well-kinded
inputs the whole outcome is compared (loaded fields, delivered extras, or every error with its class, trail and key
set, in all three debug modes); on wrong-kind inputs the rule is 'rejected with a LoadError'.  Dumping: objects whose
fields equal / differ from their defaults, with and without extra mappings.  Direct oracle, independent of the model: a
40-line restatement of the documented path rules places a distinct sentinel at every path and checks that each field
receives the sentinel of its own path and that the dumper writes it back to that path.
"""
import itertools
import random
from dataclasses import field, make_dataclass
from typing import Any

import lib
from lib import CoqEval, coq_list, coq_str

PID = "C03"

NAMES = ["a", "b_c", "user_name", "x_", "y__", "_p", "dd_ee_ff", "id", "type_", "v2", "is_ok_", "q"]
KEY_POOL = ["k1", "k2", "a", "n", "m", "id", "userName"]
EXTRA_KEYS = ["zz", "yy", 9, "k9"]
STYLES = ["LOWER_SNAKE", "CAMEL_SNAKE", "PASCAL_SNAKE", "UPPER_SNAKE", "LOWER_KEBAB", "CAMEL_KEBAB", "PASCAL_KEBAB", "UPPER_KEBAB",
          "LOWER", "CAMEL", "PASCAL", "UPPER", "LOWER_DOT", "CAMEL_DOT", "PASCAL_DOT", "UPPER_DOT"]
COQ_STYLE = {"LOWER_SNAKE": "LowerSnake", "CAMEL_SNAKE": "CamelSnake", "PASCAL_SNAKE": "PascalSnake", "UPPER_SNAKE": "UpperSnake",
             "LOWER_KEBAB": "LowerKebab", "CAMEL_KEBAB": "CamelKebab", "PASCAL_KEBAB": "PascalKebab", "UPPER_KEBAB": "UpperKebab",
             "LOWER": "Lower", "CAMEL": "Camel", "PASCAL": "Pascal", "UPPER": "Upper", "LOWER_DOT": "LowerDot", "CAMEL_DOT": "CamelDot",
             "PASCAL_DOT": "PascalDot", "UPPER_DOT": "UpperDot"}
DOTS = "..."


# ----------------------------------------------------------------------------------------------------------------------
# programs

def gen_map_result(r, nested_ok=True):
    c = r.random()
    if c < 0.12:
        return None
    if c < 0.45:
        return r.choice(KEY_POOL)
    if c < 0.55:
        return r.randint(0, 3)
    if c < 0.65:
        return DOTS
    n = r.choice([2, 2, 3])
    out = []
    for i in range(n):
        out.append(r.choice([r.choice(["n", "m", "k1"]), r.choice(["n", "m", "k1"]), r.randint(0, 2), DOTS]))
    return tuple(out)


def consistent_map(r, names, required):
    """a map that validation accepts most of the time: distinct keys, nested mappings, list nodes for required fields"""
    keys = r.sample(["k1", "k2", "k3", "k4", "a", "id"], len(names))
    style = r.choice(["flat", "nested", "nested", "deep", "list", "list", "mixed", "repeat", "repeat"])
    out = {}
    idx = 0
    for n, k in zip(names, keys):
        if r.random() < 0.15:
            continue
        if style == "flat":
            out[n] = r.choice([k, DOTS])
        elif style == "nested":
            out[n] = r.choice([("n", k), ("n", DOTS), ("n", k), k, ("m", k)])
        elif style == "deep":
            out[n] = r.choice([("m", "n", k), ("m", k), ("m", "n", DOTS), k])
        elif style == "repeat":                      # the same key at several levels
            out[n] = [keys[0], ("n", keys[0]), ("m", keys[0]), ("n", "m", keys[0])][len(out) % 4]
        elif style == "list" and n in required:
            out[n] = r.choice([("n", idx), (idx,), ("n", idx), ("m", "n", idx)][:: 1])
            idx += r.choice([1, 1, 2])
        elif style == "mixed":
            if n in required and r.random() < 0.5:
                out[n] = ("n", idx)
                idx += r.choice([1, 2])
            else:
                out[n] = r.choice([("m", k), k, ("m", "q", k)])
        else:
            out[n] = k
    if style == "list" and out and r.random() < 0.5:
        # make the list paths agree on their prefix
        pre = r.choice([("n",), (), ("m", "n")])
        j = 0
        for n in list(out):
            if isinstance(out[n], tuple) and isinstance(out[n][-1], int):
                out[n] = (*pre, j)
                j += r.choice([1, 1, 2])
    return out


def map_entries(o):
    """the (field id, result) entries of an overlay's map in the order the providers are consulted: a map given as an
    iterable of several dicts (spelling "split") lists a shadowed tail after its head"""
    out = list(o["map"].items())
    out += list(o.get("map_tail", {}).items())
    return out


def gen_overlay(r, names, first, has_rest, required=None):
    o = {}
    c = r.random()
    if c < 0.3:
        o["map"] = {n: gen_map_result(r) for n in r.sample(names, r.randint(0, len(names)))}
    elif c < 0.75:
        o["map"] = consistent_map(r, names, required or [])
    if o.get("map") and r.random() < 0.6:
        # how the map is spelled in Python: one dict (default), an iterable of (id, result) pairs, an iterable of
        # one-key dicts, or two dicts the second of which repeats keys of the first with OTHER results (never used:
        # "only the first element matched is used") and may add further keys
        o["map_spelling"] = r.choice(["pairs", "dicts", "split", "split"])
        if o["map_spelling"] == "split":
            keys = list(o["map"])
            shadow = r.sample(keys, r.randint(1, len(keys)))
            o["map_tail"] = {n: gen_map_result(r) for n in shadow}
            for n in names:
                if n not in o["map"] and r.random() < 0.3:
                    o["map_tail"][n] = r.choice(KEY_POOL)
    if r.random() < 0.3:
        o["name_style"] = r.choice(STYLES + [None])
    if r.random() < 0.25:
        o["trim_trailing_underscore"] = r.random() < 0.5
    if r.random() < 0.2:
        o["as_list"] = r.random() < 0.7
    if r.random() < 0.2:
        o["skip"] = r.sample(names, r.randint(0, min(2, len(names))))
    if r.random() < 0.15:
        o["only"] = r.sample(names, r.randint(1, len(names)))
    if r.random() < 0.35:
        o["omit_default"] = r.choice([True, False, r.sample(names, r.randint(0, len(names)))])
    if first:
        if has_rest:
            o["extra_in"] = "rest"
            o["extra_out"] = "rest"
        else:
            c = r.random()
            if c < 0.3:
                o["extra_in"] = "forbid"
            elif c < 0.45:
                o["extra_in"] = "skip"
            elif c < 0.65:
                o["extra_in"] = "saturate"
    return o


def gen_program(r):
    k = r.choice([1, 2, 2, 3, 3, 4])
    names = r.sample(NAMES, k)
    flds = [(n, r.random() < 0.6) for n in names]
    kw_only = r.random() < 0.35
    if not kw_only:
        flds.sort(key=lambda f: not f[1])                  # dataclass: required first
    has_rest = r.random() < 0.3
    n_ov = r.choice([1, 1, 2])
    stack = [gen_overlay(r, [f[0] for f in flds], i == 0, has_rest, [f[0] for f in flds if f[1]]) for i in range(n_ov)]
    return {"fields": [(i, n, req, 50 + i) for i, (n, req) in enumerate(flds)], "stack": stack, "has_rest": has_rest, "kw_only": kw_only}


# programs that run first on every seed: shapes of layouts that random generation reaches rarely
CORPUS = [
    {"fields": [(0, "owner_id", True, 50), (1, "id", False, 51), (2, "name_", False, 52), (3, "owner_name", False, 53)],
     "stack": [{"map": {"owner_id": ("owner", "id"), "owner_name": ("owner", "name")}, "omit_default": True}], "has_rest": False},
    {"fields": [(0, "a", True, 50), (1, "b_c", True, 51), (2, "q", False, 52), (3, "v2", False, 53)],
     "stack": [{"map": {"a": ("n", "k1"), "b_c": ("m", "n", "k1"), "q": ("m", "k1"), "v2": "k1"}, "omit_default": ["q", "v2"],
                "extra_in": "forbid"}], "has_rest": False},
    {"fields": [(0, "a", True, 50), (1, "b_c", True, 51), (2, "id", True, 52)],
     "stack": [{"as_list": True, "skip": []}, {"skip": ["b_c"], "as_list": False}], "has_rest": False},
    {"fields": [(0, "a", True, 50), (1, "b_c", True, 51), (2, "q", False, 52)],
     "stack": [{"as_list": True, "skip": ["q"]}], "has_rest": False},
    {"fields": [(0, "a", True, 50), (1, "q", False, 51), (2, "b_c", True, 52), (3, "v2", False, 53), (4, "id", True, 54)],
     "stack": [{"as_list": True, "skip": ["q", "v2"]}], "has_rest": False, "kw_only": True},
    {"fields": [(0, "a", True, 50), (1, "q", False, 51), (2, "b_c", True, 52)],
     "stack": [{"map": {"a": ("n", DOTS), "b_c": ("n", DOTS)}, "as_list": True, "only": ["a", "b_c"]}], "has_rest": False, "kw_only": True},
    {"fields": [(0, "a", True, 50), (1, "b_c", True, 51), (2, "id", True, 52)],
     "stack": [{"map": {"a": ("n", 0), "b_c": ("n", 2), "id": ("n", 3, "k1")}, "extra_in": "forbid"}], "has_rest": False},
    {"fields": [(0, "a", True, 50), (1, "user_name", True, 51), (2, "q", False, 52)],
     "stack": [{"map": {"a": ("p", "q"), "user_name": ("p", "r", DOTS)}, "name_style": "CAMEL", "extra_in": "rest", "extra_out": "rest"}],
     "has_rest": True},
    {"fields": [(0, "a", True, 50), (1, "x_", True, 51), (2, "y__", False, 52), (3, "_p", False, 53)],
     "stack": [{"name_style": "UPPER_KEBAB"}, {"name_style": "PASCAL_DOT", "trim_trailing_underscore": False, "map": {"a": DOTS}}],
     "has_rest": False},
    {"fields": [(0, "a", True, 50), (1, "b_c", False, 51)],
     "stack": [{"map": {"a": "k1"}, "only": ["a"]}, {"map": {"a": "k2", "b_c": "k3"}, "skip": ["a"], "only": ["a", "b_c"]}], "has_rest": False},
    # a map given as two dicts: the second repeats keys of the first (never used) and adds one
    {"fields": [(0, "a", True, 50), (1, "b_c", True, 51), (2, "q", False, 52)],
     "stack": [{"map": {"a": "k1", "b_c": ("n", "k2")}, "map_spelling": "split", "map_tail": {"a": "k3", "b_c": None, "q": ("n", "k4")}}],
     "has_rest": False},
    {"fields": [(0, "a", True, 50), (1, "b_c", True, 51)],
     "stack": [{"map": {"a": DOTS, "b_c": "k2"}, "map_spelling": "pairs", "name_style": "UPPER"}], "has_rest": False},
    # an explicit name_style=None / trim=False / as_list=False in the EARLIER provider beats whatever a later one sets
    {"fields": [(0, "user_name", True, 50), (1, "b_c", False, 51)],
     "stack": [{"name_style": None}, {"name_style": "CAMEL"}], "has_rest": False},
    {"fields": [(0, "user_name", True, 50), (1, "b_c", True, 51)],
     "stack": [{"name_style": None, "map": {"b_c": ("n", DOTS)}}, {"name_style": "UPPER_DOT", "map": {"user_name": ("n", DOTS)}}], "has_rest": False},
    {"fields": [(0, "a_", True, 50), (1, "b_c", True, 51)],
     "stack": [{"trim_trailing_underscore": False, "as_list": False}, {"trim_trailing_underscore": True, "as_list": True, "name_style": "PASCAL"}],
     "has_rest": False},
    # fields left out by skip / only / map -> None next to the policies for unknown keys
    {"fields": [(0, "a", True, 50), (1, "level", False, 51), (2, "q", False, 52)],
     "stack": [{"skip": ["level"], "extra_in": "forbid"}], "has_rest": False},
    {"fields": [(0, "a", True, 50), (1, "level", False, 51), (2, "q", False, 52)],
     "stack": [{"only": ["a", "q"], "extra_in": "rest", "extra_out": "rest"}], "has_rest": True},
    {"fields": [(0, "a", True, 50), (1, "level", False, 51)],
     "stack": [{"map": {"level": None}, "extra_in": "saturate"}], "has_rest": False},
    {"fields": [(0, "a", True, 50), (1, "b_c", False, 51)],
     "stack": [{"map": {"a": ("m", "k1"), "b_c": ("m", "k2")}, "map_spelling": "dicts", "omit_default": True}], "has_rest": False},
]


def build_class(prog, saturated):
    specs = []
    kw = {"kw_only": True} if prog.get("kw_only") else {}
    for i, n, req, d in prog["fields"]:
        specs.append((n, int, field(**kw)) if req else (n, int, field(default=d, **kw)))
    if prog["has_rest"]:
        specs.append(("rest", Any, field(default=None, **kw)))
    cls = make_dataclass("M", specs)
    return cls


def build_recipe(prog, cls, saturated):
    from adaptix import ExtraForbid, ExtraSkip, NameStyle, name_mapping
    recipe = []
    for o in prog["stack"]:
        kw = {}
        for k, v in o.items():
            if k == "map":
                def conv(res):
                    return (Ellipsis if res == DOTS else tuple(Ellipsis if x == DOTS else x for x in res) if isinstance(res, tuple) else res)
                sp = o.get("map_spelling", "dict")
                if sp == "pairs":
                    kw["map"] = [(n, conv(res)) for n, res in v.items()]
                elif sp == "dicts":
                    kw["map"] = [{n: conv(res)} for n, res in v.items()]
                elif sp == "split":
                    kw["map"] = [{n: conv(res) for n, res in v.items()}, {n: conv(res) for n, res in o["map_tail"].items()}]
                else:
                    kw["map"] = {n: conv(res) for n, res in v.items()}
            elif k in ("map_spelling", "map_tail"):
                continue
            elif k == "name_style":
                kw[k] = None if v is None else getattr(NameStyle, v)
            elif k == "extra_in":
                kw[k] = {"forbid": ExtraForbid(), "skip": ExtraSkip(), "rest": "rest",
                         "saturate": (lambda obj, extra: saturated.append(extra))}[v]
            else:
                kw[k] = v
        recipe.append(name_mapping(cls, **kw))
    return recipe


# ---- rendering the program to Gallina

def coq_key(k):
    return f"KS {coq_str(k)}" if isinstance(k, str) else f"KI {k}"


def coq_res(res):
    if res is None:
        return "MSkip"
    items = res if isinstance(res, tuple) else (res,)
    return "MPath " + coq_list(["RDots" if x == DOTS else f"RK ({coq_key(x)})" for x in items])


def coq_opt(v, render):
    return "None" if v is None else f"(Some {render(v)})"


def coq_overlay(o):
    def strs(l):
        return coq_list([coq_str(x) for x in l])
    m = o.get("map")
    omit = o.get("omit_default")
    xin = o.get("extra_in")
    return ("{| o_map := " + coq_opt(m, lambda m: coq_list([f"{{| e_names := [{coq_str(n)}]; e_res := {coq_res(res)} |}}" for n, res in map_entries(o)]))
            + "; o_trim := " + coq_opt(o.get("trim_trailing_underscore"), lambda b: "true" if b else "false")
            + "; o_style := " + ("None" if "name_style" not in o else
                                 "(Some " + ("None" if o["name_style"] is None else f"(Some {COQ_STYLE[o['name_style']]})") + ")")
            + "; o_as_list := " + coq_opt(o.get("as_list"), lambda b: "true" if b else "false")
            + "; o_skip := " + coq_opt(o.get("skip"), strs)
            + "; o_only := " + coq_opt(o.get("only"), lambda l: f"(Some {strs(l)})")
            + "; o_omit := " + coq_opt(omit, lambda x: "OmitAll" if x is True else "OmitNone" if x is False else f"(OmitNames {strs(x)})")
            + "; o_extra_in := " + coq_opt(xin, lambda x: {"forbid": "XForbid", "skip": "XSkip", "rest": '(XCollect ["rest"%string])',
                                                           "saturate": "(XCollect [])"}[x])
            + "; o_extra_out := " + coq_opt(o.get("extra_out"), lambda x: strs([x]))
            + " |}")


def coq_fields(prog):
    fs = [f"({i}, {coq_str(n)}, {'true' if req else 'false'}, {d})" for i, n, req, d in prog["fields"]]
    if prog["has_rest"]:
        fs.append(f"({len(prog['fields'])}, \"rest\"%string, false, 0)")
    return coq_list(fs)


def coq_pv(v):
    if v is None:
        return "VNone"
    if isinstance(v, bool):
        return "VStr \"bool\""
    if isinstance(v, int):
        return f"VInt {v}"
    if isinstance(v, str):
        return f"VStr {coq_str(v)}"
    if isinstance(v, (list, tuple)):
        return "VList " + coq_list([f"({coq_pv(x)})" for x in v])
    if isinstance(v, dict):
        return "VDict " + coq_list([f"({coq_key(k)}, {coq_pv(x)})" for k, x in v.items()])
    raise ValueError(v)


# ---- canonical printing of library results

def show_key(k):
    return f"'{k}'" if isinstance(k, str) else str(k)


def show_pv(v):
    if v is None:
        return "None"
    if isinstance(v, bool):
        return "s:bool"
    if isinstance(v, int):
        return str(v)
    if isinstance(v, str):
        return "s:" + v
    if isinstance(v, (list, tuple)):
        return "[" + ",".join(show_pv(x) for x in v) + "]"
    if isinstance(v, dict):
        return "{" + ",".join(sorted(f"{show_key(k)}:{show_pv(x)}" for k, x in v.items())) + "}"
    return f"?{v!r}"


def show_error(e, disable):
    from adaptix.load_error import (
        ExtraFieldsLoadError, ExtraItemsLoadError, NoRequiredFieldsLoadError, NoRequiredItemsLoadError, TypeLoadError,
    )
    from adaptix.struct_trail import get_trail
    trail = "/".join(show_key(k) for k in get_trail(e))
    if isinstance(e, NoRequiredFieldsLoadError):
        body = "NoRequiredFieldsLoadError{" + ",".join(sorted(e.fields)) + "}"
    elif isinstance(e, ExtraFieldsLoadError):
        body = "ExtraFieldsLoadError{" + ",".join(sorted(show_key(k) for k in e.fields)) + "}"
    elif isinstance(e, NoRequiredItemsLoadError):
        body = f"NoRequiredItemsLoadError{{{e.expected_len}}}"
    elif isinstance(e, ExtraItemsLoadError):
        body = f"ExtraItemsLoadError{{{e.expected_len}}}"
    elif type(e) is TypeLoadError:
        body = "TypeLoadError"
    else:
        body = type(e).__name__
    return body + "@" + trail


def observed_load(loader, prog, data, mode, saturated, cls):
    from adaptix.load_error import AggregateLoadError, LoadError
    del saturated[:]
    try:
        obj = loader(data)
    except AggregateLoadError as e:
        t = "errs " + ";".join(sorted(show_error(x, False) for x in e.exceptions))
        return t, t
    except LoadError as e:
        t = "err " + show_error(e, mode == "DISABLE")
        return t, t
    except Exception as e:  # noqa: BLE001
        t = f"raises {type(e).__name__}: {str(e)[:80]}"
        return t, t
    fs = ";".join(sorted(f"{i}={getattr(obj, n)}" for i, n, req, d in prog["fields"]))
    if prog["has_rest"]:
        extra = obj.rest
    elif saturated:
        extra = saturated[-1]
    else:
        extra = {}
    return f"ok {fs} extra={show_pv(extra)}", f"ok {fs} extra={show_pv(strip_empty(extra))}"


def strip_empty(x):
    """the delivered extras without the empty mappings that merely mirror nodes of the layout"""
    if isinstance(x, dict):
        out = {k: strip_empty(v) for k, v in x.items()}
        return {k: v for k, v in out.items() if v != {}}
    return x


# ---- independent restatement of the documented rules (input construction and direct oracle only)

def snake_convert(name, style):
    import re
    sep = {"SNAKE": "_", "KEBAB": "-", "DOT": "."}.get(style.split("_")[-1] if "_" in style else "", "")
    case = style.split("_")[0]
    if not re.fullmatch(r"\w+", name):
        return None
    m = re.fullmatch(r"(_*)([^_]+)(.*?)(_*)", name)
    if not m:
        return None
    first = {"LOWER": str.lower, "CAMEL": str.lower, "PASCAL": str.title, "UPPER": str.upper}[case]
    other = {"LOWER": str.lower, "CAMEL": str.title, "PASCAL": str.title, "UPPER": str.upper}[case]
    rest = re.sub(r"(_+)|([^_]+)", lambda mm: mm[1].replace("_", sep) if mm[1] else other(mm[2]), m[3])
    return m[1] + first(m[2]) + rest + m[4]


def effective(prog, key, default):
    for o in prog["stack"]:
        if key in o:
            return o[key]
    return default


def spec_paths(prog, output):
    """field name -> path, by the rules of docs/loading-and-dumping/extended-usage.rst; None = cannot say (conversion fails)"""
    as_list = effective(prog, "as_list", False)
    trim = effective(prog, "trim_trailing_underscore", True)
    style = effective(prog, "name_style", None)
    skip = effective(prog, "skip", [])
    only = effective(prog, "only", None)
    maps = []
    for o in prog["stack"]:
        if "map" in o:
            maps.append(o["map"])
            if "map_tail" in o:
                maps.append(o["map_tail"])
    out = {}
    for idx, (i, n, req, d) in enumerate(prog["fields"]):
        if as_list:
            gk = idx
        else:
            gk = n
            if trim and gk.endswith("_") and not gk.endswith("__"):
                gk = gk.rstrip("_")
            if style is not None:
                gk = snake_convert(gk, style)
                if gk is None:
                    return None
        res = "absent-from-map"
        for m in maps:
            if n in m:
                res = m[n]
                break
        if res == "absent-from-map":
            path = None if (output and n.startswith("_")) else (gk,)
        elif res is None:
            path = None
        elif isinstance(res, tuple):
            path = tuple(gk if x == DOTS else x for x in res)
        else:
            path = (gk if res == DOTS else res,)
        if path is not None and (n in skip or (only is not None and n not in only)):
            path = None
        out[n] = path
    return out


def place(root, path, value):
    """put value at path inside nested dict / list containers; returns the (possibly new) root or raises on clash"""
    if not path:
        return value
    k = path[0]
    if isinstance(k, str):
        if root is None:
            root = {}
        if not isinstance(root, dict):
            raise ValueError("clash")
        root[k] = place(root.get(k), path[1:], value)
        return root
    if root is None:
        root = []
    if not isinstance(root, list):
        raise ValueError("clash")
    while len(root) <= k:
        root.append(None)
    root[k] = place(root[k], path[1:], value)
    return root


def get_at(root, path):
    for k in path:
        root = root[k]
    return root


def container_paths(root, prefix=()):
    """paths of the container nodes (dict / list) inside a perfect input, root included"""
    out = []
    if isinstance(root, dict):
        out.append(prefix)
        for k, v in root.items():
            out += container_paths(v, (*prefix, k))
    elif isinstance(root, list):
        out.append(prefix)
        for i, v in enumerate(root):
            out += container_paths(v, (*prefix, i))
    return out


def set_at(root, path, value):
    import copy
    root = copy.deepcopy(root)
    if not path:
        return value
    node = get_at(root, path[:-1])
    node[path[-1]] = value
    return root


def del_at(root, path):
    import copy
    root = copy.deepcopy(root)
    node = get_at(root, path[:-1])
    if isinstance(node, dict):
        del node[path[-1]]
    else:
        del node[path[-1]:]            # a list can only lose its tail
    return root


def inputs_for(prog, paths, r, tier):
    """(kind, data): 'well' = every container has the right kind, 'wrong' = some container has a wrong kind"""
    perfect = None
    leaves = {}
    try:
        for idx, (i, n, req, d) in enumerate(prog["fields"]):
            if paths.get(n):
                perfect = place(perfect, paths[n], 100 + i)
                leaves[n] = paths[n]
    except (ValueError, AttributeError, TypeError):
        return []
    if perfect is None:
        as_list = effective(prog, "as_list", False)
        perfect = [] if as_list else {}
    out = [("well", perfect)]
    import copy

    def skeleton(x):
        if isinstance(x, dict):
            return {k: skeleton(v) for k, v in x.items() if isinstance(v, (dict, list))}
        if isinstance(x, list):
            keep = [skeleton(v) if isinstance(v, (dict, list)) else None for v in x]
            while keep and keep[-1] is None:
                keep.pop()
            return keep
        return x
    out.append(("well", skeleton(perfect)))            # every mapping present, every leaf absent
    # each mapped key present / absent / ill-typed
    states = list(itertools.product(("present", "absent", "ill"), repeat=len(leaves)))
    if len(states) > (20 if tier == "quick" else 90):
        states = r.sample(states, 20 if tier == "quick" else 90)
    names = list(leaves)
    for combo in states:
        d = copy.deepcopy(perfect)
        ok = True
        for n, stt in sorted(zip(names, combo), key=lambda t: tuple(map(str, leaves[t[0]])), reverse=True):
            try:
                if stt == "absent":
                    d = del_at(d, leaves[n])
                elif stt == "ill":
                    d = set_at(d, leaves[n], r.choice(["x", None, [1], {"q": 1}, True, 1.5 if False else "7"]))
            except (KeyError, IndexError, TypeError):
                ok = False
        if ok:
            out.append(("well", d))
            # as many unknown keys as known keys are absent, node by node (the mapping keeps its size)
            if "absent" in combo:
                d2 = copy.deepcopy(d)
                added = False
                for cp in container_paths(perfect):
                    try:
                        node, pnode = get_at(d2, cp), get_at(perfect, cp)
                    except (KeyError, IndexError, TypeError):
                        continue
                    if isinstance(node, dict) and isinstance(pnode, dict) and len(node) < len(pnode):
                        for j in range(len(pnode) - len(node)):
                            node[f"unk{j}"] = r.choice([5, "e", [1]])
                            added = True
                if added:
                    out.append(("well", d2))
    # extra keys / items at every container node, empty and missing sub-containers
    for cp in container_paths(perfect):
        node = get_at(perfect, cp)
        if isinstance(node, dict):
            for ek in EXTRA_KEYS[: (2 if tier == "quick" else 4)]:
                if ek not in node:
                    d = copy.deepcopy(perfect)
                    get_at(d, cp)[ek] = r.choice([5, "e", {"deep": 1}])
                    out.append(("well", d))
            d = copy.deepcopy(perfect)
            nd = get_at(d, cp)
            nd["zz"] = 1
            nd["yy"] = [2]
            out.append(("well", d))
        else:
            d = copy.deepcopy(perfect)
            get_at(d, cp).append(77)
            out.append(("well", d))
        if not cp and isinstance(node, dict):
            # an unknown key spelled exactly like a field the layout leaves out (skip / only / map -> None): nothing maps to
            # it, so it is as unknown as any other key
            left_out = [n for i, n, req, d in prog["fields"] if not paths.get(n) and n not in node]
            if left_out:
                d = copy.deepcopy(perfect)
                for n in left_out:
                    d[n] = r.choice([9, "e"])
                out.append(("well", d))
                d = copy.deepcopy(perfect)
                d[left_out[0]] = 9
                d["zz"] = 1
                out.append(("well", d))
        if cp:
            out.append(("well", del_at(perfect, cp)))
            out.append(("well", set_at(perfect, cp, {} if isinstance(node, dict) else [])))
        # wrong kinds
        wrong = ([[1, 2], "str", 5, None] if isinstance(node, dict) else
                 [{0: 100, 1: 101, 2: 102, 3: 103}, {"k": 1}, 5, None])
        for w in wrong:
            out.append(("wrong", set_at(perfect, cp, w)))
    return out


# ----------------------------------------------------------------------------------------------------------------------

def location_layouts_oracle(rep, r, tier, stats):
    """One retort; the same model reachable at two locations, each location given its own name_mapping by a location
    predicate (P[Outer].field).  At each location the model must be loaded and dumped exactly as it is, on its own,
    under that provider's configuration - whichever location is used first (the layouts of the two locations differ in
    as little as one omit_default flag, so anything that confuses them - a cache keyed by an incomplete notion of layout
    equality - shows)."""
    from dataclasses import dataclass

    from adaptix import NameStyle, P, Retort, name_mapping
    from adaptix.load_error import LoadError

    @dataclass
    class M:
        a: int
        b_c: int = 51
        q: int = 52

    @dataclass
    class O1:
        p: M

    @dataclass
    class O2:
        p: M
        z: int = 0

    variants = [
        {}, {"omit_default": True}, {"omit_default": ["q"]}, {"omit_default": ["b_c"]}, {"name_style": NameStyle.UPPER},
        {"name_style": NameStyle.CAMEL}, {"map": {"a": "k1"}}, {"map": {"a": ("n", "k1")}}, {"map": {"b_c": ("n", "k1")}, "omit_default": True},
        {"as_list": True}, {"skip": ["q"]}, {"only": ["a", "b_c"]}, {"map": {"q": None}}, {"map": [("a", "k1"), ("a", "k2")]},
        {"omit_default": True, "name_style": NameStyle.UPPER}, {"map": {"a": ("n", 0), "b_c": ("n", 1)}},
    ]
    objs = [M(1), M(2, 3, 4), M(5, 51, 9), M(6, 7, 52)]

    def outcome(f, *a):
        try:
            return ("ok", f(*a))
        except LoadError as e:
            return ("le", type(e).__name__)
        except Exception as e:  # noqa: BLE001
            return ("x", type(e).__name__)

    n_pairs = 40 if tier == "quick" else 240
    reported = set()
    n = 0
    pairs = [(i, j) for i in range(len(variants)) for j in range(len(variants)) if i != j]
    r.shuffle(pairs)
    for i, j in pairs[:n_pairs]:
        kw = [variants[i], variants[j]]
        outers = [O1, O2]
        refs = [Retort(recipe=[name_mapping(M, **k)]) for k in kw]
        ref_dumps = [[outcome(refs[x].dump, o) for o in objs] for x in (0, 1)]
        for order in ((0, 1), (1, 0)):
            for first_op in ("dump", "load"):
                rt = Retort(recipe=[name_mapping(P[O1].p, **kw[0]), name_mapping(P[O2].p, **kw[1])])
                for x in order:
                    ops = ("dump", "load") if first_op == "dump" else ("load", "dump")
                    for op in ops:
                        for oi, o in enumerate(objs):
                            n += 1
                            rd = ref_dumps[x][oi]
                            if op == "dump":
                                got = outcome(rt.dump, outers[x](p=o))
                                want = ("ok", {"p": rd[1], **({"z": 0} if x == 1 else {})}) if rd[0] == "ok" else rd
                            else:
                                # the data written under EITHER configuration, read at location x: as the model alone reads it
                                src = ref_dumps[(x + oi) % 2][oi]
                                if src[0] != "ok":
                                    continue
                                want_in = outcome(refs[x].load, src[1], M)
                                got = outcome(rt.load, {"p": src[1]}, outers[x])
                                want = ("ok", outers[x](p=want_in[1])) if want_in[0] == "ok" else want_in
                            ok = got == want or (got[0] == want[0] == "le")
                            sig = f"location-layout:{op}:{'second' if x != order[0] else 'first'}-location"
                            if not ok and sig not in reported:
                                reported.add(sig)
                                rep.violation(sig, "property-violated",
                                              {"what": "a model reached at two locations with different name_mapping providers: at one "
                                                       "location it is not handled as the model alone is under that configuration",
                                               "configurations": [repr(kw[0]), repr(kw[1])], "location": outers[x].__name__,
                                               "first_used_location": outers[order[0]].__name__, "operation": op, "object": repr(o),
                                               "got": repr(got)[:300], "expected": repr(want)[:300]})
    stats["location_layout_checks"] = n
    return n


def run(rep, tier, seed):
    from adaptix import DebugTrail, ProviderNotFoundError, Retort
    from adaptix.load_error import LoadError
    proof = lib.proof_stage(rep, PID, extra_trusted=[
        "field loaders are strict int loaders and field dumpers the identity: the contents of fields is C02's subject",
        "str.title / lower / upper and the two regular expressions of name_style.py are modelled over ASCII identifiers"])
    r = random.Random(seed)
    n_prog = 70 if tier == "quick" else 700
    stats = {"programs": 0, "loader_refused": 0, "loads": 0, "wrong_kind_inputs": 0, "dumps": 0, "sentinel_checks": 0,
             "modes": {}, "as_list": 0, "nested": 0, "collect": 0, "forbid": 0}
    lcases, lmeta, dcases, dmeta, samples = [], [], [], [], []
    modes = ["ALL", "FIRST", "DISABLE"]
    for pi in range(n_prog + len(CORPUS)):
        prog = CORPUS[pi] if pi < len(CORPUS) else gen_program(r)
        saturated = []
        cls = build_class(prog, saturated)
        try:
            recipe = build_recipe(prog, cls, saturated)
        except ValueError:
            continue
        stats["programs"] += 1
        if effective(prog, "as_list", False):
            stats["as_list"] += 1
        xin = effective(prog, "extra_in", None)
        stats["collect"] += xin in ("rest", "saturate")
        stats["forbid"] += xin == "forbid"
        stack_coq = coq_list([coq_overlay(o) for o in prog["stack"]])
        fields_coq = coq_fields(prog)
        info = {"fields": prog["fields"], "stack": prog["stack"], "has_rest": prog["has_rest"]}
        for mode in (modes if tier != "quick" else [modes[pi % 3]]):
            stats["modes"][mode] = stats["modes"].get(mode, 0) + 1
            retort = Retort(recipe=recipe, debug_trail=getattr(DebugTrail, mode))
            # ------------------------------------------------------------ loader
            try:
                loader = retort.get_loader(cls)
            except ProviderNotFoundError:
                loader = None
            in_paths = spec_paths(prog, output=False)
            inputs = inputs_for(prog, in_paths, r, tier) if in_paths is not None else [("well", {})]
            if not inputs:
                inputs = [("well", {})]
            well = [d for k, d in inputs if k == "well"]
            if loader is None:
                stats["loader_refused"] += 1
                lcases.append((f"({stack_coq}, {fields_coq}, {mode_coq(mode)}, [VDict []])", "layout-error"))
                lmeta.append(dict(info, what_kind="loader creation refused", mode=mode))
            else:
                if any(isinstance(x, tuple) and len(x) > 1 for x in (in_paths or {}).values()):
                    stats["nested"] += 1
                pairs = [observed_load(loader, prog, d, mode, saturated, cls) for d in well]
                outs = [a for a, b in pairs]
                stats["loads"] += len(well)
                lcases.append((f"({stack_coq}, {fields_coq}, {mode_coq(mode)}, {coq_list([f'({coq_pv(d)})' for d in well])})", "|".join(outs)))
                lmeta.append(dict(info, mode=mode, inputs=[repr(d) for d in well], observed=outs, stripped=[b for a, b in pairs]))
                # wrong kinds: rejected with a LoadError, nothing else
                for d in [d for k, d in inputs if k == "wrong"]:
                    stats["wrong_kind_inputs"] += 1
                    try:
                        got = loader(d)
                    except LoadError:
                        continue
                    except Exception as e:  # noqa: BLE001
                        rep.violation(f"wrong-kind:raises:{type(e).__name__}", "property-violated",
                                      dict(info, mode=mode, what=f"a container node of the wrong kind makes the loader raise "
                                                                  f"{type(e).__name__} ({str(e)[:80]}) instead of a LoadError", input=repr(d)))
                        continue
                    rep.violation(f"wrong-kind:accepted:{kind_of(d, in_paths)}", "property-violated",
                                  dict(info, mode=mode, what=f"a container node of the wrong kind is accepted: {got!r}", input=repr(d)))
                # sentinel oracle
                if in_paths is not None and loader is not None:
                    sentinel_oracle(rep, prog, loader, in_paths, info, mode, stats)
            # ------------------------------------------------------------ dumper
            if mode != modes[pi % 3]:
                continue
            try:
                dumper = retort.get_dumper(cls)
            except ProviderNotFoundError:
                dumper = None
            objs = []
            defaults = [d for i, n, req, d in prog["fields"]]
            for variant in range(5):
                vals = {}
                for i, n, req, d in prog["fields"]:
                    if variant >= 3:            # every field holds the default of ANOTHER field
                        vals[n] = defaults[(i + variant - 2) % len(defaults)]
                    else:
                        vals[n] = d if (variant == 0 or (variant == 2 and r.random() < 0.5)) and not req else 200 + i + variant
                extra = {"zz": 5, "yy": [1]} if (prog["has_rest"] and variant != 1) else {}
                objs.append((vals, extra))
            if dumper is None:
                dcases.append((f"({stack_coq}, {fields_coq}, ([] : list (list (nat * nat) * list (key * pv))))", "layout-error"))
                dmeta.append(dict(info, what_kind="dumper creation refused"))
            else:
                outs = []
                for vals, extra in objs:
                    o = cls(**vals, **({"rest": extra} if prog["has_rest"] else {}))
                    try:
                        outs.append(show_pv(dumper(o)))
                    except Exception as e:  # noqa: BLE001
                        outs.append(f"raises {type(e).__name__}: {str(e)[:60]}")
                    stats["dumps"] += 1
                terms = []
                for vals, extra in objs:
                    fv = coq_list([f"({i}, {vals[n]})" for i, n, req, d in prog["fields"]])
                    terms.append(f"({fv}, ({coq_list([f'({coq_key(k)}, {coq_pv(v)})' for k, v in extra.items()])} : list (key * pv)))")
                dcases.append((f"({stack_coq}, {fields_coq}, {coq_list(terms)})", "|".join(outs)))
                dmeta.append(dict(info, objects=[repr(o) for o in objs], observed=outs))
        if len(samples) < 3 and pi % 23 == 4:
            samples.append({"fields": prog["fields"], "stack": repr(prog["stack"])[:300]})
    location_layouts_oracle(rep, r, tier, stats)
    hdr = "From AV Require Import Model.NameStyle Model.Layout Model.CrownSem Model.CrownShow.\nOpen Scope string_scope."
    ev = CoqEval(PID, hdr, "(fun c => match c with (st, fs, md, ins) => run_loads st fs md ins end)", shard=40)
    for idx, got in ev.compare(lcases):
        m = lmeta[idx]
        stripped = "|".join(m.get("stripped", []))
        if stripped and stripped == got:
            # the only difference: empty mappings under the keys of nested nodes of the layout (see known findings)
            first_diff = diff_detail(lcases[idx][1], got, m.get("inputs"))
            rep.violation("load:extra:empty-node-mirror", "property-violated",
                          dict({k: v for k, v in m.items() if k not in ("observed", "stripped", "inputs")},
                               what="collected extras contain an empty mapping under the KNOWN key of a nested node: "
                                    + first_diff["summary"], **first_diff))
            continue
        first_diff = diff_detail(lcases[idx][1], got, m.get("inputs"))
        rep.violation(f"load:{classify(lcases[idx][1], got)}", "model-disagrees",
                      dict({k: v for k, v in m.items() if k != "stripped"},
                           what="loader behaviour differs from the model: " + first_diff["summary"], **first_diff))
    for k, err in ev.errors:
        rep.violation("coq-eval-error:load", "harness-error", {"what": err[-1500:]}, no_input=True)
    ev2 = CoqEval(PID + "d", hdr, "(fun c => match c with (st, fs, objs) => run_dumps st fs objs end)", shard=60)
    for idx, got in ev2.compare(dcases):
        m = dmeta[idx]
        first_diff = diff_detail(dcases[idx][1], got, m.get("objects"))
        rep.violation(f"dump:{classify(dcases[idx][1], got)}", "model-disagrees",
                      dict(m, what="dumper behaviour differs from the model: " + first_diff["summary"], **first_diff))
    for k, err in ev2.errors:
        rep.violation("coq-eval-error:dump", "harness-error", {"what": err[-1500:]}, no_input=True)
    rep.cov.update({
        "evaluations": stats["loads"] + stats["wrong_kind_inputs"] + stats["dumps"] + stats["sentinel_checks"] + stats.get("location_layout_checks", 0),
        "distinct_nontrivial": stats["programs"],
        "rule": "programs: dataclass with 1-4 int fields from 12 snake-case names (trailing underscores, private, digits), "
                "required / defaulted, optionally an extra target field; a stack of 1-2 name_mapping providers, each with a random "
                "subset of map (key, index, ellipsis, None, paths of 2-3 keys / indices / ellipsis), name_style (16 + None), "
                "trim_trailing_underscore, as_list, skip, only, omit_default (bool / names), extra_in (skip, forbid, target field, "
                "saturator) and extra_out; debug_trail rotating (quick) or all three (thorough).  Inputs per loader: the perfect "
                "input, every combination of mapped key present / absent / ill-typed (sampled to 20 / 90), extra keys and items at "
                "every container, empty and missing sub-containers, and each container replaced by 4 wrong kinds.  3 objects per "
                "dumper (all defaults, none, mixed; with / without extra mapping).  non-trivial = one program",
        "samples": samples or [{"note": "none"}],
        "distribution": stats,
    })
    import loadgen as lg
    lg.proof_problems(rep, PID, proof)


def mode_coq(m):
    return {"ALL": "All", "FIRST": "First", "DISABLE": "Disable"}[m]


def kind_of(d, paths):
    return "dict-for-list" if isinstance(d, dict) or any(isinstance(x, dict) and x and all(isinstance(k, int) for k in x) for x in walk(d)) else "other"


def walk(d):
    yield d
    if isinstance(d, dict):
        for v in d.values():
            yield from walk(v)
    elif isinstance(d, list):
        for v in d:
            yield from walk(v)


def classify(impl, model):
    if impl == "layout-error" or model == "layout-error":
        return "layout-acceptance"
    a, b = impl.split("|"), model.split("|")
    for x, y in zip(a, b):
        if x != y:
            if x.startswith("raises"):
                return "raises:" + x.split()[1].rstrip(":")
            kx, ky = x.split()[0], y.split()[0]
            if kx != ky:
                return f"{kx}-vs-{ky}"
            if kx == "ok":
                return "extra" if x.split(" extra=")[0] == y.split(" extra=")[0] else "fields"
            return "errors"
    return "length"


def diff_detail(impl, model, inputs):
    a, b = impl.split("|"), model.split("|")
    for i, (x, y) in enumerate(zip(a, b)):
        if x != y:
            return {"summary": f"input #{i}", "input": (inputs[i] if inputs and i < len(inputs) else None), "implementation": x, "model": y}
    return {"summary": "different number of outcomes", "implementation": impl[:300], "model": model[:300]}


def sentinel_oracle(rep, prog, loader, paths, info, mode, stats):
    """a distinct sentinel at every documented path: every field must receive its own"""
    root = None
    try:
        for idx, (i, n, req, d) in enumerate(prog["fields"]):
            if paths.get(n):
                root = place(root, paths[n], 1000 + i)
    except (ValueError, TypeError, AttributeError):
        return
    if root is None:
        return
    stats["sentinel_checks"] += 1
    try:
        obj = loader(root)
    except Exception:  # noqa: BLE001
        return                                  # acceptance is the correspondence's business
    for idx, (i, n, req, d) in enumerate(prog["fields"]):
        want = 1000 + i if paths.get(n) else d
        if getattr(obj, n) != want:
            rep.violation("sentinel:wrong-path", "property-violated",
                          dict(info, mode=mode, what=f"field {n!r} should be read from {paths.get(n)} (documented rules) but holds "
                                                      f"{getattr(obj, n)!r} instead of {want!r}", input=repr(root)))


def replay(rep, body):
    import sys
    print("recorded:", body.get("what"))
    lib.replay_by_rerun(sys.modules[__name__], rep, body)
