"""C13 - a generated converter equals the field-wise construction the linking rules fix.
Model: coq/Model/Conv.v (+ ConvShow.v; the constructor call is Model/Ctor.v's), theorems: coq/Props/C13.v.

Per generated program (source model, destination model obtained by renaming / dropping / adding / nesting fields, extra
converter parameters whose names may coincide with fields, a recipe of link / link_constant / link_function /
from_param / allow_unlinked_optional providers): the library builds the converter through impl_converter on a stub with
that signature; it is run on generated source objects and compared with the model's field-wise construction.  Direct
oracle: the stub's signature is preserved, the source object is unchanged (deep snapshot), creation fails exactly when
the model finds no source for a required field.
"""
import copy
import inspect
import random
import typing
from dataclasses import dataclass, field, fields, is_dataclass, make_dataclass
from typing import Dict, List, Optional

import lib
from lib import CoqEval, coq_list, coq_str

PID = "C13"
NAMES = ["a", "b", "c", "d", "e", "x", "y"]


class Tag:
    def __init__(self, c, v):
        self.c, self.v = c, v

    def __eq__(self, o):
        return isinstance(o, Tag) and (o.c, o.v) == (self.c, self.v)


class Call:
    def __init__(self, fn, model, kw, pos):
        self.fn, self.model, self.kw, self.pos = fn, model, kw, pos

    def __eq__(self, o):
        return isinstance(o, Call) and (o.fn, o.model, o.kw, o.pos) == (self.fn, self.model, self.kw, self.pos)


def tagger(c):
    def f(v):
        return Tag(c, v)
    f.__name__ = f"coercer{c}"
    return f


class Gen:
    def __init__(self, r):
        self.r = r
        self.n = 0
        self.classes = {}

    def new_class(self, flds):
        """flds: list of (name, type, required, default); type = 'int' | ('model', cls)"""
        cls = self.n
        self.n += 1
        specs = []
        for name, ty, req, d in sorted(flds, key=lambda f: not f[2]):
            pyt = int if ty == "int" else self.classes[ty[1]][0]
            specs.append((name, pyt) if req else (name, pyt, field(default=d)))
        py = make_dataclass(f"M{cls}", specs)
        self.classes[cls] = (py, sorted(flds, key=lambda f: not f[2]))
        return cls

    def src_model(self, depth):
        r = self.r
        names = r.sample(NAMES, r.choice([2, 3, 3, 4]))
        flds = []
        for nm in names:
            if depth > 0 and r.random() < 0.3:
                flds.append((nm, ("model", self.src_model(depth - 1)), True, 0))
            else:
                flds.append((nm, "int", True, 0))
        return self.new_class(flds)

    def dst_model(self, src_cls, depth):
        """a destination derived from the source: keep / drop / rename / add fields"""
        r = self.r
        out = []
        used = set()
        for name, ty, req, d in self.classes[src_cls][1]:
            c = r.random()
            if c < 0.15:
                continue                                    # dropped
            nm = name
            if c < 0.35:
                nm = r.choice([n for n in NAMES + ["z", "w"] if n not in used])      # renamed
            if nm in used:
                continue
            used.add(nm)
            if ty == "int":
                out.append((nm, "int", r.random() < 0.8, 70 + len(out)))
            else:
                out.append((nm, ("model", self.dst_model(ty[1], depth - 1)), True, 0))
        for _ in range(r.choice([0, 0, 1, 1, 2])):
            cand = [n for n in NAMES + ["z", "w"] if n not in used]
            if not cand:
                break
            nm = r.choice(cand)
            used.add(nm)
            out.append((nm, "int", r.random() < 0.6, 70 + len(out)))
        if not out:
            out.append(("a", "int", True, 0))
        return self.new_class(out)

    def all_dst_names(self, cls):
        out = []
        for name, ty, req, d in self.classes[cls][1]:
            out.append(name)
            if ty != "int":
                out += self.all_dst_names(ty[1])
        return out

    def all_src_names(self, cls):
        out = []
        for name, ty, req, d in self.classes[cls][1]:
            out.append(name)
            if ty != "int":
                out += self.all_src_names(ty[1])
        return out

    def obj(self, cls):
        py, flds = self.classes[cls]
        kw = {}
        for name, ty, req, d in flds:
            kw[name] = self.r.randint(1, 99) if ty == "int" else self.obj(ty[1])
        return py(**kw)


def gen_recipe(g, r, src_cls, dst_cls, params):
    dst_names = g.all_dst_names(dst_cls)
    src_names = g.all_src_names(src_cls)
    out = []
    for _ in range(r.choice([0, 1, 1, 2, 3, 4])):
        c = r.random()
        d = r.choice(dst_names)
        if c < 0.45:
            sp = ("param", r.choice(params)) if params and r.random() < 0.35 else ("name", r.choice(src_names + params + ["nope"]))
            out.append(("link", sp, d, r.choice([None, None, r.randint(0, 3)])))
        elif c < 0.65:
            out.append(("const", d, r.randint(100, 120)))
        elif c < 0.85:
            top_src = [f[0] for f in g.classes[src_cls][1]]
            kw = r.sample(top_src, r.randint(0, min(2, len(top_src))))
            if r.random() < 0.15:
                kw.append("nope")
            pos = [p for p in (r.sample(params, r.randint(0, len(params))) if params else []) if p not in kw]
            out.append(("func", r.randint(0, 3), d, kw, pos))
        else:
            out.append(("allow", d))
    # most destination fields without a same-named source get a provider of their own, so that converters exist
    def missing(scls, dcls, top):
        res = []
        snames = [f[0] for f in g.classes[scls][1]]
        for name, ty, req, d in g.classes[dcls][1]:
            has = name in snames or (top and name in params)
            if not has:
                res.append((name, ty, req, snames))
            elif ty != "int":
                sty = next((f[1] for f in g.classes[scls][1] if f[0] == name), "int")
                if sty != "int":
                    res += missing(sty[1], ty[1], False)
        return res
    for name, ty, req, snames in missing(src_cls, dst_cls, True):
        if r.random() < 0.12 or ty != "int":
            continue
        c = r.random()
        if c < 0.4 and snames:
            out.append(("link", ("name", r.choice(snames)), name, r.choice([None, None, r.randint(0, 3)])))
        elif c < 0.55 and params:
            out.append(("link", ("param", r.choice(params)), name, None))
        elif c < 0.75:
            out.append(("const", name, r.randint(100, 120)))
        elif c < 0.9 or req:
            kw = r.sample(snames, r.randint(0, min(2, len(snames))))
            out.append(("func", r.randint(0, 3), name, kw, [p for p in params if p not in kw][: r.randint(0, 2)]))
        else:
            out.append(("allow", name))
    r.shuffle(out)
    return out


def make_func(fn, kw, pos):
    src = f"def linked{fn}(model{''.join(', ' + p + ': Any' for p in pos)}{', *' + ''.join(', ' + k + ': Any' for k in kw) if kw else ''}):\n"
    src += f"    return Call({fn}, model, {{{', '.join(repr(k) + ': ' + k for k in kw)}}}, [{', '.join(pos)}])\n"
    ns = {"Call": Call, "Any": __import__("typing").Any}
    exec(src, ns)  # noqa: S102  (identifiers from our own pools)
    return ns[f"linked{fn}"]


def py_recipe(recipe):
    from adaptix.conversion import allow_unlinked_optional, from_param, link, link_constant, link_function
    out = []
    for p in recipe:
        if p[0] == "link":
            sp = from_param(p[1][1]) if p[1][0] == "param" else p[1][1]
            out.append(link(sp, p[2], coercer=None if p[3] is None else tagger(p[3])))
        elif p[0] == "const":
            out.append(link_constant(p[1], value=p[2]))
        elif p[0] == "func":
            out.append(link_function(make_func(p[1], p[3], p[4]), p[2]))
        else:
            out.append(allow_unlinked_optional(p[1]))
    return out


# ---- rendering

def coq_ty(g, cls):
    fs = []
    for name, ty, req, d in g.classes[cls][1]:
        t = "TyInt" if ty == "int" else f"({coq_ty(g, ty[1])})"
        fs.append(f"({coq_str(name)}, {t}, {'true' if req else 'false'}, {d})")
    return f"TyModel {cls} {coq_list(fs)}"


def coq_val(g, o):
    if isinstance(o, int):
        return f"CInt {o}"
    cls = int(type(o).__name__[1:])
    return f"CObj {cls} " + coq_list([f"({coq_str(f.name)}, {coq_val(g, getattr(o, f.name))})" for f in fields(o)])


def coq_recipe(recipe):
    out = []
    for p in recipe:
        if p[0] == "link":
            sp = f"(SParam {coq_str(p[1][1])})" if p[1][0] == "param" else f"(SName {coq_str(p[1][1])})"
            out.append(f"PLink {sp} {coq_str(p[2])} " + ("None" if p[3] is None else f"(Some {p[3]})"))
        elif p[0] == "const":
            out.append(f"PConst {coq_str(p[1])} {p[2]}")
        elif p[0] == "func":
            out.append(f"PFunc {p[1]} {coq_str(p[2])} {coq_list([coq_str(k) for k in p[3]])} {coq_list([coq_str(k) for k in p[4]])}")
        else:
            out.append(f"PAllowUnlinked {coq_str(p[1])}")
    return coq_list(out)


def show(o):
    if isinstance(o, bool):
        return f"?{o!r}"
    if isinstance(o, int):
        return str(o)
    if isinstance(o, Tag):
        return f"c{o.c}<{show(o.v)}>"
    if isinstance(o, Call):
        return (f"f{o.fn}<{show(o.model)};" + ",".join(f"{k}={show(v)}" for k, v in o.kw.items()) + ";"
                + ",".join(show(v) for v in o.pos) + ">")
    if is_dataclass(o):
        return f"M{type(o).__name__[1:]}(" + ",".join(f"{f.name}={show(getattr(o, f.name))}" for f in fields(o)) + ")"
    return f"?{o!r}"


# ----------------------------------------------------------------------------------------------------------------------
# models inside Optional / iterables / dicts: an independent restatement of the rule as the oracle
def _shape_types(shape, leaf):
    k = shape[0]
    if k == "model":
        return leaf
    inner = _shape_types(shape[1], leaf)
    return {"list": List[inner], "opt": Optional[inner], "dict": Dict[str, inner], "seq": typing.Sequence[inner]}[k]


def _shape_values(shape, r, mk, depth=0):
    k = shape[0]
    if k == "model":
        return mk()
    if k == "opt":
        return None if r.random() < 0.3 else _shape_values(shape[1], r, mk, depth + 1)
    n = r.choice([0, 0, 1, 2])          # empty containers are as good as any
    if k in ("list", "seq"):
        return [_shape_values(shape[1], r, mk, depth + 1) for _ in range(n)]
    return {f"k{i}": _shape_values(shape[1], r, mk, depth + 1) for i in range(n)}


def _shape_map(shape, v, f):
    k = shape[0]
    if k == "model":
        return f(v)
    if k == "opt":
        return None if v is None else _shape_map(shape[1], v, f)
    if k == "list":
        return [_shape_map(shape[1], x, f) for x in v]
    if k == "seq":
        return tuple(_shape_map(shape[1], x, f) for x in v)
    return {kk: _shape_map(shape[1], x, f) for kk, x in v.items()}


SHAPES = [("list", ("model",)), ("opt", ("model",)), ("dict", ("model",)), ("seq", ("model",)), ("opt", ("list", ("model",))),
          ("list", ("opt", ("model",))), ("dict", ("list", ("model",))), ("opt", ("dict", ("model",))), ("list", ("list", ("model",)))]


def container_block(rep, r, tier):
    from adaptix import P
    from adaptix.conversion import coercer, from_param, impl_converter, link, link_constant

    @dataclass
    class SI:
        id: int
        name: int
        extra: int = 0

    @dataclass
    class DI:
        id: int
        name: int
        label: int

    n = 0

    def report(sig, what, **kw):
        rep.violation(f"containers:{sig}", "property-violated", dict(kw, what=what))

    for shape in SHAPES:
        ST, DT = _shape_types(shape, SI), _shape_types(shape, DI)
        # (1) the converter's own argument / result is a container of models; an extra parameter is named like a field of
        #     the element models and is consumed by a link: it wins for top-level fields only, and there are none here
        ns = {"ST": ST, "DT": DT}
        exec("def stub(xs: ST, name: int) -> DT: ...", ns)  # noqa: S102
        try:
            conv = impl_converter(recipe=[link(from_param("name"), P[DI].label)])(ns["stub"])
        except Exception as e:  # noqa: BLE001
            report(f"top:{shape}:creation", f"creating a converter {ST} -> {DT} raises {type(e).__name__}: {str(e)[:120]}")
            continue
        for _ in range(4 if tier == "quick" else 20):
            v = _shape_values(shape, r, lambda: SI(r.randint(1, 9), r.randint(10, 19), r.randint(20, 29)))
            pv = r.randint(100, 199)
            snap = copy.deepcopy(v)
            n += 1
            try:
                got = conv(v, pv)
            except Exception as e:  # noqa: BLE001
                got = f"raises {type(e).__name__}: {str(e)[:80]}"
            exp = _shape_map(shape, v, lambda s: DI(s.id, s.name, pv))
            if got != exp or (shape[0] == "seq" and False):
                report(f"top:{shape[0]}", "a converter between containers of models differs from the element-wise construction",
                       shape=repr(shape), argument=repr(v), parameter=pv, expected=repr(exp), got=repr(got))
            if v != snap:
                report("source-modified", "the converter modified its argument", shape=repr(shape))
        # (2) the same containers as fields of a model, together with scalar Optional fields that need a real coercer
        SO = make_dataclass("SO", [("items", ST), ("rating", Optional[int]), ("k", int)])
        DO = make_dataclass("DO", [("items", DT), ("rating", Optional[str]), ("k", int)])
        ns = {"SO": SO, "DO": DO}
        exec("def stub2(o: SO) -> DO: ...", ns)  # noqa: S102
        try:
            conv2 = impl_converter(recipe=[link_constant(P[DI].label, value=7), coercer(int, str, func=lambda x: f"<{x}>")])(ns["stub2"])
        except Exception as e:  # noqa: BLE001
            report(f"field:{shape}:creation", f"creating a converter for a model with a field {ST} raises {type(e).__name__}: {str(e)[:120]}")
            continue
        for _ in range(5 if tier == "quick" else 25):
            v = _shape_values(shape, r, lambda: SI(r.randint(1, 9), r.randint(10, 19)))
            rating = r.choice([None, 0, 0, 5])
            o = SO(v, rating, r.randint(0, 3))
            n += 1
            try:
                got = conv2(o)
            except Exception as e:  # noqa: BLE001
                got = f"raises {type(e).__name__}: {str(e)[:80]}"
            exp = DO(_shape_map(shape, v, lambda s: DI(s.id, s.name, 7)), None if rating is None else f"<{rating}>", o.k)
            if got != exp:
                report(f"field:{shape[0]}", "a model field holding models inside Optional / iterable / dict (or an Optional scalar with a "
                       "coercer) is not converted element-wise", shape=repr(shape), source=repr(o), expected=repr(exp), got=repr(got))
    return n


def same_class_and_model_params_block(rep, r, tier):
    """(a) the SAME model class on both sides of an element-wise conversion, with a rule that addresses a field of that class
    (link from a parameter, link_constant, link between two of its fields, link_function): the rule applies wherever the
    model is converted - as a plain field, inside Optional, iterables and dict values, and as the converter's own
    argument.  (b) an extra parameter that is itself a model and feeds a nested destination model: the nested fields are
    not top-level, so they take the same-named fields of THAT parameter, never another parameter of the same name
    (only from_param reaches them)."""
    from typing import Dict, List, Optional, Tuple

    from adaptix import P
    from adaptix.conversion import from_param, impl_converter, link, link_constant, link_function

    @dataclass
    class Item:
        sku: int
        price: int
        discount: int

    n = 0

    def report(sig, what, **kw):
        rep.violation(f"same-class:{sig}", "property-violated", dict(kw, what=what))

    rules = {
        "from_param": ([link(from_param("discount"), P[Item].discount)], lambda it, p: Item(it.sku, it.price, p)),
        "constant": ([link_constant(P[Item].discount, value=0)], lambda it, p: Item(it.sku, it.price, 0)),
        "swap": ([link(P[Item].price, P[Item].discount), link(P[Item].discount, P[Item].price)], lambda it, p: Item(it.sku, it.discount, it.price)),
        "function": ([link_function(lambda it: it.price * 2, P[Item].price)], lambda it, p: Item(it.sku, it.price * 2, it.discount)),
    }
    shapes = {
        "plain": (Item, Item, lambda f, v: f(v), lambda mk: mk()),
        "list": (List[Item], List[Item], lambda f, v: [f(x) for x in v], lambda mk: [mk(), mk()]),
        "list->tuple": (List[Item], Tuple[Item, ...], lambda f, v: tuple(f(x) for x in v), lambda mk: [mk(), mk(), mk()]),
        "optional": (Optional[Item], Optional[Item], lambda f, v: None if v is None else f(v), lambda mk: mk()),
        "dict": (Dict[str, Item], Dict[str, Item], lambda f, v: {k: f(x) for k, x in v.items()}, lambda mk: {"a": mk(), "b": mk()}),
        "list-of-list": (List[List[Item]], List[List[Item]], lambda f, v: [[f(x) for x in y] for y in v], lambda mk: [[mk()], [mk(), mk()]]),
    }
    for rname, (recipe, want_item) in rules.items():
        for sname, (ST, DT, fmap, mkval) in shapes.items():
            S = make_dataclass("SBox", [("items", ST), ("k", int)])
            D = make_dataclass("DBox", [("items", DT), ("k", int)])
            for where in ("field", "top"):
                if where == "top" and sname == "plain":
                    continue        # Item is then the top-level destination: the parameter `discount` rightly feeds its field
                ns = {"S": S, "D": D, "ST": ST, "DT": DT}
                exec("def stub(o: S, discount: int) -> D: ..." if where == "field" else "def stub(o: ST, discount: int) -> DT: ...", ns)  # noqa: S102
                try:
                    conv = impl_converter(recipe=recipe)(ns["stub"])
                except Exception as e:  # noqa: BLE001
                    report(f"creation:{rname}:{sname}", f"creating the converter raises {type(e).__name__}: {str(e)[:160]}", where=where)
                    continue
                for _ in range(2 if tier == "quick" else 10):
                    v = mkval(lambda: Item(r.randint(1, 9), r.randint(10, 49), r.randint(50, 59)))
                    pv = r.randint(100, 199)
                    n += 1
                    try:
                        got = conv(S(v, 1), pv) if where == "field" else conv(v, pv)
                    except Exception as e:  # noqa: BLE001
                        got = f"raises {type(e).__name__}: {str(e)[:80]}"
                    exp_items = fmap(lambda it: want_item(it, pv), v)
                    exp = D(exp_items, 1) if where == "field" else exp_items
                    if got != exp:
                        report(f"{rname}:{sname}", f"Item -> Item with a rule on a field of Item ({rname}), reached through {sname} "
                               f"({'a model field' if where == 'field' else 'the converter argument'}): the rule is not applied as it is for "
                               "a plain field", source=repr(v), parameter=pv, expected=repr(exp), got=repr(got))
                        break

    # ---- (d) sibling fields with the SAME pair of types but different rules: each field's coercion is looked up at its own
    #      location (a rule addressed to one of them by path or by field predicate must not spill over to, or be lost for, the other)
    from adaptix.conversion import coercer
    Money = make_dataclass("Money", [("amount", int), ("currency", int)])
    MoneyD = make_dataclass("MoneyD", [("amount", int), ("currency", int)])
    Order = make_dataclass("Order", [("price", Money), ("discount", Money), ("created", int), ("updated", int)])
    OrderD = make_dataclass("OrderD", [("price", MoneyD), ("discount", MoneyD), ("created", str), ("updated", str)])
    sib_cases = [
        ("constant-on-second-sibling", [link_constant(P[OrderD].discount.currency, value=777), coercer(int, str, str)],
         lambda o: OrderD(MoneyD(o.price.amount, o.price.currency), MoneyD(o.discount.amount, 777), str(o.created), str(o.updated))),
        ("constant-on-first-sibling", [link_constant(P[OrderD].price.currency, value=777), coercer(int, str, str)],
         lambda o: OrderD(MoneyD(o.price.amount, 777), MoneyD(o.discount.amount, o.discount.currency), str(o.created), str(o.updated))),
        ("coercer-for-second-sibling", [coercer(P[Order].updated, P[OrderD].updated, lambda v: f"<{v}>"), coercer(int, str, str)],
         lambda o: OrderD(MoneyD(o.price.amount, o.price.currency), MoneyD(o.discount.amount, o.discount.currency), str(o.created), f"<{o.updated}>")),
        ("coercer-for-first-sibling", [coercer(P[Order].created, P[OrderD].created, lambda v: f"<{v}>"), coercer(int, str, str)],
         lambda o: OrderD(MoneyD(o.price.amount, o.price.currency), MoneyD(o.discount.amount, o.discount.currency), f"<{o.created}>", str(o.updated))),
        ("swap-inside-second-sibling", [link(P[Order].discount.amount, P[OrderD].discount.currency), link(P[Order].discount.currency, P[OrderD].discount.amount),
                                         coercer(int, str, str)],
         lambda o: OrderD(MoneyD(o.price.amount, o.price.currency), MoneyD(o.discount.currency, o.discount.amount), str(o.created), str(o.updated))),
    ]
    for label, recipe, want in sib_cases:
        ns = {"Order": Order, "OrderD": OrderD}
        exec("def stub(o: Order) -> OrderD: ...", ns)  # noqa: S102
        try:
            conv = impl_converter(recipe=recipe)(ns["stub"])
        except Exception as e:  # noqa: BLE001
            report(f"siblings:creation:{label}", f"creating the converter raises {type(e).__name__}: {str(e)[:160]}")
            continue
        o = Order(Money(r.randint(1, 9), r.randint(10, 19)), Money(r.randint(20, 29), r.randint(30, 39)), r.randint(40, 49), r.randint(50, 59))
        n += 1
        try:
            got = conv(o)
        except Exception as e:  # noqa: BLE001
            got = f"raises {type(e).__name__}: {str(e)[:80]}"
        if got != want(o):
            report(f"siblings:{label}", "two fields with the same pair of types: a rule addressed to one of them applies to exactly that one",
                   source=repr(o), expected=repr(want(o)), got=repr(got))

    # ---- (e) a recipe given with the call is honoured whatever the retort has built for the same pair before
    import adaptix.conversion as conv_mod
    Sp = make_dataclass("Sp", [("a", int), ("b", int)])
    Dp = make_dataclass("Dp", [("a", int), ("b", int)])
    swap = [link(P[Sp].b, P[Dp].a), link(P[Sp].a, P[Dp].b)]
    for first in ("convert", "get_converter", "nothing"):
        rt = conv_mod.ConversionRetort()
        if first == "convert":
            rt.convert(Sp(1, 2), Dp)
        elif first == "get_converter":
            rt.get_converter(Sp, Dp)
        n += 2
        for label, call, want in (("convert(recipe=)", lambda: rt.convert(Sp(1, 2), Dp, recipe=swap), Dp(2, 1)),
                                  ("get_converter(recipe=)", lambda: rt.get_converter(Sp, Dp, recipe=swap)(Sp(1, 2)), Dp(2, 1)),
                                  ("convert() afterwards", lambda: rt.convert(Sp(1, 2), Dp), Dp(1, 2))):
            try:
                got = call()
            except Exception as e:  # noqa: BLE001
                got = f"raises {type(e).__name__}: {str(e)[:80]}"
            if got != want:
                report(f"per-call-recipe:{label}", f"after {first} without a recipe on the same retort, {label} gives {got!r}; the links of the "
                       f"recipe passed with the call decide: {want!r}")

    # ---- (c) an optional destination field left unlinked (allow_unlinked_optional) in the MIDDLE of the parameter list:
    #      every later field still receives its own source (by name, by link, from a parameter)
    from adaptix.conversion import allow_unlinked_optional
    Src = make_dataclass("Src", [("title", int), ("price", int), ("pages", int)])
    layouts = {
        "middle": [("title", int), ("skipped", int, field(default=-1)), ("price", int, field(default=0)), ("page_count", int, field(default=0))],
        "first": [("skipped", int, field(default=-1)), ("title", int, field(default=0)), ("price", int, field(default=0)), ("page_count", int, field(default=0))],
        "two": [("title", int), ("skipped", int, field(default=-1)), ("price", int, field(default=0)), ("skipped2", int, field(default=-2)),
                ("page_count", int, field(default=0))],
    }
    for lname, spec_ in layouts.items():
        Dst = make_dataclass("Dst", spec_)
        skipped_fields = [f[0] for f in spec_ if f[0].startswith("skipped")]
        recipe = [allow_unlinked_optional(*[P[Dst][f] for f in skipped_fields]), link(P[Src].pages, P[Dst].page_count)]
        ns = {"Src": Src, "Dst": Dst}
        exec("def plain(s: Src) -> Dst: ...\ndef with_param(s: Src, price: int) -> Dst: ...", ns)  # noqa: S102
        for label, stub, args, want_price in (("plain", "plain", (), None), ("param", "with_param", (777,), 777)):
            try:
                conv = impl_converter(recipe=recipe)(ns[stub])
            except Exception as e:  # noqa: BLE001
                report(f"skipped-optional:creation:{lname}:{label}", f"creating the converter raises {type(e).__name__}: {str(e)[:160]}")
                continue
            sv = Src(r.randint(1, 9), r.randint(10, 19), r.randint(20, 29))
            n += 1
            try:
                got = conv(sv, *args)
            except Exception as e:  # noqa: BLE001
                got = f"raises {type(e).__name__}: {str(e)[:80]}"
            kw = {"title": sv.title, "price": sv.price if want_price is None else want_price, "page_count": sv.pages}
            exp = Dst(**kw)
            if got != exp:
                report(f"skipped-optional:{lname}:{label}", "an unlinked optional destination field keeps its default and every other field "
                       "receives its own source, wherever the skipped field stands in the parameter list", source=repr(sv), expected=repr(exp),
                       got=repr(got))

    # ---- (b) model-typed extra parameters
    names = ["name", "id", "code"]
    for shared in names:
        other = [x for x in names if x != shared]
        Author = make_dataclass("Author", [(shared, int), (other[0], int)])
        AuthorDTO = make_dataclass("AuthorDTO", [(shared, int), (other[0], int)])
        Book = make_dataclass("Book", [(other[1], int), ("title", int)])
        BookDTO = make_dataclass("BookDTO", [(other[1], int), ("title", int), ("author", AuthorDTO), (shared, int)])
        BookDTO2 = make_dataclass("BookDTO2", [(other[1], int), ("title", int), ("writer", AuthorDTO), (shared, int)])
        ns = {"Book": Book, "Author": Author, "BookDTO": BookDTO, "BookDTO2": BookDTO2}
        exec(f"def by_name(book: Book, author: Author, {shared}: int) -> BookDTO: ...\n"  # noqa: S102
             f"def by_link(book: Book, who: Author, {shared}: int) -> BookDTO2: ...\n"
             f"def by_param(book: Book, author: Author, {shared}: int) -> BookDTO: ...", ns)
        cases = [
            ("by-name", lambda: impl_converter(ns["by_name"]), lambda b, a, x: BookDTO(getattr(b, other[1]), b.title, AuthorDTO(getattr(a, shared), getattr(a, other[0])), x)),
            ("by-link", lambda: impl_converter(recipe=[link(from_param("who"), P[BookDTO2].writer)])(ns["by_link"]),
             lambda b, a, x: BookDTO2(getattr(b, other[1]), b.title, AuthorDTO(getattr(a, shared), getattr(a, other[0])), x)),
            ("from-param-reaches-nested", lambda: impl_converter(recipe=[link(from_param(shared), P[AuthorDTO][shared])])(ns["by_param"]),
             lambda b, a, x: BookDTO(getattr(b, other[1]), b.title, AuthorDTO(x, getattr(a, other[0])), x)),
        ]
        for label, mk, want in cases:
            try:
                conv = mk()
            except Exception as e:  # noqa: BLE001
                report(f"model-param:creation:{label}", f"creating the converter raises {type(e).__name__}: {str(e)[:160]}", shared_name=shared)
                continue
            b, a, x = Book(r.randint(1, 9), r.randint(10, 19)), Author(r.randint(20, 29), r.randint(30, 39)), r.randint(900, 999)
            n += 1
            try:
                got = conv(b, a, x)
            except Exception as e:  # noqa: BLE001
                got = f"raises {type(e).__name__}: {str(e)[:80]}"
            exp = want(b, a, x)
            if got != exp:
                report(f"model-param:{label}", "a nested destination model built from an extra parameter that is a model: its fields "
                       f"must come from the same-named fields of that parameter (parameter {shared!r} of the same name is for the "
                       "top-level field only; from_param reaches any level)", book=repr(b), author=repr(a), parameter=x,
                       expected=repr(exp), got=repr(got))
    return n


def run(rep, tier, seed):
    from adaptix import ProviderNotFoundError
    from adaptix.conversion import impl_converter
    proof = lib.proof_stage(rep, PID, extra_trusted=[
        "user coercers and linked functions are kept symbolic in the model (the harness's functions build tagged values)",
        "coercion of non-model field types is C14's subject: fields are ints or nested models here"])
    r = random.Random(seed)
    n_prog = 150 if tier == "quick" else 1500
    stats = {"programs": 0, "no_converter": 0, "runs": 0, "with_params": 0, "nested": 0, "kinds": {}}
    cases, meta, samples = [], [], []
    for pi in range(n_prog):
        g = Gen(r)
        src = g.src_model(2)
        dst = g.dst_model(src, 2)
        params = r.sample(NAMES, r.choice([0, 0, 1, 1, 2]))
        recipe = gen_recipe(g, r, src, dst, params)
        stats["programs"] += 1
        stats["with_params"] += bool(params)
        stats["nested"] += any(t != "int" for _, t, _, _ in g.classes[dst][1])
        for p in recipe:
            stats["kinds"][p[0]] = stats["kinds"].get(p[0], 0) + 1
        S, D = g.classes[src][0], g.classes[dst][0]
        ns = {"S": S, "D": D}
        exec(f"def stub(src_obj: S{''.join(', ' + p + ': int' for p in params)}) -> D: ...", ns)  # noqa: S102
        stub = ns["stub"]
        info = {"source": repr(g.classes[src][1]), "destination": repr(g.classes[dst][1]), "params": params, "recipe": repr(recipe),
                "classes": {k: repr(v[1]) for k, v in g.classes.items()}}
        try:
            conv = impl_converter(recipe=py_recipe(recipe))(stub)
        except ProviderNotFoundError:
            conv = None
        except Exception as e:  # noqa: BLE001
            rep.violation(f"creation-raises:{type(e).__name__}", "property-violated",
                          dict(info, what=f"creating the converter raises {type(e).__name__}: {str(e)[:200]}"))
            continue
        objs = [g.obj(src) for _ in range(2)]
        pvals = [[r.randint(200, 299) for _ in params] for _ in objs]
        if conv is None:
            stats["no_converter"] += 1
            expected = "|".join("no-converter" for _ in objs)
        else:
            if inspect.signature(conv) != inspect.signature(stub):
                rep.violation("signature", "property-violated",
                              dict(info, what=f"impl_converter changed the signature: {inspect.signature(conv)} vs {inspect.signature(stub)}"))
            outs = []
            for o, pv in zip(objs, pvals):
                snap = copy.deepcopy(o)
                stats["runs"] += 1
                try:
                    res = conv(o, *pv)
                    outs.append(show(res))
                except Exception as e:  # noqa: BLE001
                    outs.append(f"raises {type(e).__name__}: {str(e)[:60]}")
                if o != snap:
                    rep.violation("source-modified", "property-violated", dict(info, what="the converter modified its source object"))
            expected = "|".join(outs)
        ctxs = [coq_list([f"({coq_str(p)}, CInt {v})" for p, v in zip(params, pv)]) for pv in pvals]
        # one Coq case per object (the context differs)
        for o, cx, exp in zip(objs, ctxs, expected.split("|")):
            cases.append((f"({coq_recipe(recipe)}, ({cx} : list (string * cval)), {coq_ty(g, src)}, {coq_ty(g, dst)}, [{coq_val(g, o)}])", exp))
            meta.append(dict(info, object=show(o), param_values=cx, observed=exp))
        if not params and pi % 3 == 0:
            same_pair_with_and_without_recipe(rep, S, D, py_recipe(recipe), objs[0], info)
        if len(samples) < 3 and pi % 41 == 7:
            samples.append({k: info[k] for k in ("source", "destination", "params", "recipe")})
    hdr = "From AV Require Import Model.Conv Model.ConvShow.\nOpen Scope string_scope."
    ev = CoqEval(PID, hdr, "(fun c => match c with (rc, cx, st, dt, ds) => run_convert rc cx st dt ds end)", shard=100)
    for idx, got in ev.compare(cases):
        m = meta[idx]
        kind = "creation" if "no-converter" in (m["observed"], got) else ("raises" if m["observed"].startswith("raises") else "value")
        rep.violation(f"convert:{kind}", "model-disagrees",
                      dict(m, what="the converter differs from the field-wise construction of the model", model=got))
    for k, err in ev.errors:
        rep.violation("coq-eval-error", "harness-error", {"what": err[-1500:]}, no_input=True)
    lookalike_constants(rep)
    n_cont = container_block(rep, r, tier) + same_class_and_model_params_block(rep, r, tier)
    rep.cov.update({
        "evaluations": stats["runs"] + stats["no_converter"] + n_cont,
        "distinct_nontrivial": stats["programs"] - stats["no_converter"],
        "rule": "source: dataclass with 2-4 fields over 7 names, int or nested model (depth <= 2); destination: each field kept / "
                "dropped (15%) / renamed (20%), 0-2 added fields, required or defaulted, nested models derived recursively; 0-2 "
                "extra int parameters whose names are drawn from the same pool as the fields; recipe of 0-4 providers: link "
                "(source by name - also an unknown name - or from_param; optional coercer), link_constant, link_function "
                "(keyword-only parameters from fields, positional ones from parameters, sometimes an unknown name), "
                "allow_unlinked_optional; destination predicates drawn from the field names of every nesting level; the "
                "converter is made by impl_converter on a stub with that signature and run on 2 objects; plus 9 container shapes "
                "(list / Optional / dict / Sequence and their two-level nestings) of models as the converter's own argument with an "
                "extra parameter named like an element field, and as model fields next to an Optional scalar with a coercer, values "
                "with empty containers, None and 0, against an element-wise reference; non-trivial = a converter was produced",
        "samples": samples or [{"note": "none"}],
        "distribution": stats,
    })
    import loadgen as lg
    lg.proof_problems(rep, PID, proof)


def same_pair_with_and_without_recipe(rep, S, D, recipe, obj, info):
    """the recipe given to one get_converter call must not show in a later call for the same pair without it"""
    from adaptix.conversion import ConversionRetort

    def outcome(fn):
        try:
            return show(fn()(obj))
        except Exception as e:  # noqa: BLE001
            return type(e).__name__
    rt = ConversionRetort()
    outcome(lambda: rt.get_converter(S, D, recipe=recipe))
    later = outcome(lambda: rt.get_converter(S, D))
    fresh = outcome(lambda: ConversionRetort().get_converter(S, D))
    if later != fresh:
        rep.violation("recipe-leaks-into-later-call", "property-violated",
                      dict(info, what=f"get_converter(S, D) after get_converter(S, D, recipe=...) on the same retort gives {later}; "
                                      f"a fresh retort gives {fresh}"))


def lookalike_constants(rep):
    """link_constant values go through the same literal rendering as model defaults (C08): exact type must survive"""
    from dataclasses import dataclass
    from decimal import Decimal
    from fractions import Fraction
    from typing import Any

    from adaptix.conversion import get_converter, link_constant

    @dataclass
    class A:
        a: int

    @dataclass
    class B:
        a: int
        k: Any
    for v in (Decimal(1), Fraction(0), 0j, (1,), range(1, 10, 2), True, 1, 1.0, None, [1], {"x": (2,)}):
        try:
            got = get_converter(A, B, recipe=[link_constant("k", value=v)])(A(5)).k
        except Exception as e:  # noqa: BLE001
            rep.violation(f"link-constant:raises:{type(v).__name__}", "property-violated",
                          {"what": f"link_constant(value={v!r}) raises {type(e).__name__}: {str(e)[:100]}"})
            continue
        if type(got) is not type(v) or got != v:
            rep.violation(f"link-constant:{type(v).__name__}", "property-violated",
                          {"what": f"link_constant(value={v!r}) gives {got!r} ({type(got).__name__})"})


def replay(rep, body):
    import sys
    print("recorded:", body.get("what"))
    lib.replay_by_rerun(sys.modules[__name__], rep, body)
